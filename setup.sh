#!/bin/bash
# Build the whole Coq development from files on disk (offline). Full .vo build.
set -e
cd "$(dirname "$(readlink -f "$0")")"
ROOT=$(pwd)
mkdir -p .work replays evidence
PYTHONPATH=/repo /venv/bin/python harness/translate.py "$ROOT/coq/Generated/Constants.v"
cd coq
coq_makefile -f _CoqProject -o Makefile > /dev/null
timeout 3000 make -j16 2>&1 | grep -v "^COQC\|^COQDEP\|^Closed under" || true
test -f Props/C06.vo
echo "setup ok"
