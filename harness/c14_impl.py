"""C14 implementation runner: the same problem through several state-space factorisations.

Input: {"cases": [solve_impl case, ...], "workers": k}.  Every case is run through the routines of
solve_impl.py (the real solve_fixed_grid / solve_adaptive_save_at); the result is additionally converted to
the DENSE layout (coefficient-major index i*d + a):

  dense      mean[i*d+a],            cov[i*d+a][j*d+b]
  isotropic  mean[i][a],             cov[i][j] * delta_ab
  blockdiag  block a: mean[i],       block a: cov[i][j] * delta_ab

so that the orchestrator can compare factorisations entry by entry.  Cases are distributed over worker
processes (JAX compile time dominates).
"""

import json
import os
import subprocess
import sys

import numpy as np


def to_dense_layout(res, case):
    kind, q, d = case["kind"], case["q"], case["d"]
    n = q + 1
    N = n * d if kind == "dense" else n
    c = d if kind == "iso" else 1
    nb = d if kind == "blockdiag" else 1
    flat = np.asarray(res["out"], dtype=np.float64)
    T = len(res["t"])
    per = N * c + N * N
    assert flat.size == T * nb * per, (flat.size, T, nb, per)
    flat = flat.reshape(T, nb, per)
    mean = np.zeros((T, n * d))
    cov = np.zeros((T, n * d, n * d))
    for k in range(T):
        for b in range(nb):
            m = flat[k, b, :N * c].reshape(N, c)
            P = flat[k, b, N * c:].reshape(N, N)
            if kind == "dense":
                mean[k] = m[:, 0]
                cov[k] = P
            elif kind == "iso":
                mean[k] = m.reshape(-1)
                for a in range(d):
                    cov[k][a::d, a::d] = P
            else:
                mean[k][b::d] = m[:, 0]
                cov[k][b::d, b::d] = P
    return mean, cov


def run_cases(cases):
    import solve_impl  # imports jax / probdiffeq

    out = []
    for c in cases:
        try:
            r = solve_impl.ROUTINES[c.get("routine", "fixed_grid")](c)
            mean, cov = to_dense_layout(r, c)
            out.append({"mean": mean.tolist(), "cov": cov.tolist(), "t": r["t"], "output_scale": r["output_scale"],
                        "num_steps": r["num_steps"]})
        except Exception as e:  # noqa: BLE001
            import traceback

            out.append({"error": f"{type(e).__name__}: {e}", "tb": traceback.format_exc()[-1500:]})
    return out


def main():
    import time

    payload = json.load(open(sys.argv[1]))
    cases = payload["cases"]
    workers = int(payload.get("workers", 1))
    budget = float(payload.get("budget_s", 420))
    if "--worker" in sys.argv:
        # one JSON line per finished case, so that a hanging case (an adaptive solve that never terminates) loses only itself
        with open(sys.argv[2], "w") as f:
            for c in cases:
                f.write(json.dumps(run_cases([c])[0]) + "\n")
                f.flush()
        return
    if workers <= 1 or len(cases) <= 1:
        json.dump({"results": run_cases(cases)}, open(sys.argv[2], "w"))
        return
    workers = min(workers, len(cases))
    # round-robin (every run compiles its own functions anyway)
    chunks = [[] for _ in range(workers)]
    for i, c in enumerate(cases):
        chunks[i % workers].append(i)
    procs = []
    t0 = time.time()
    for w, idxs in enumerate(chunks):
        if not idxs:
            continue
        fin, fout = f"{sys.argv[1]}.w{w}.in", f"{sys.argv[1]}.w{w}.out"
        json.dump({"cases": [cases[i] for i in idxs]}, open(fin, "w"))
        logf = open(fin + ".log", "w")
        p = subprocess.Popen([sys.executable, os.path.abspath(__file__), fin, fout, "--worker"], stdout=logf, stderr=subprocess.STDOUT)
        procs.append((p, idxs, fin, fout))
    results = [None] * len(cases)
    for p, idxs, fin, fout in procs:
        timed_out = False
        try:
            p.wait(timeout=max(1.0, budget - (time.time() - t0)))
        except subprocess.TimeoutExpired:
            p.kill()
            p.wait()
            timed_out = True
        log = open(fin + ".log").read() if os.path.exists(fin + ".log") else ""
        done = []
        if os.path.exists(fout):
            for ln in open(fout):
                try:
                    done.append(json.loads(ln))
                except ValueError:
                    break
        for k, i in enumerate(idxs):
            if k < len(done):
                results[i] = done[k]
            elif timed_out:
                results[i] = {"error": "TIMEOUT: the worker was killed after the time budget" + (" (this run did not terminate)" if k == len(done) else " (not started)"),
                              "timeout": True}
            else:
                results[i] = {"error": f"worker crashed (rc={p.returncode})", "tb": (log or "")[-1500:]}
        for f in (fin, fout, fin + ".log"):
            if os.path.exists(f):
                os.remove(f)
    json.dump({"results": results}, open(sys.argv[2], "w"))


if __name__ == "__main__":
    main()
