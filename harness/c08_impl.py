"""C08 implementation runner: the five conditional operations + Normal operations of the
three state-space models of /repo on explicit matrices."""

import json
import sys

import numpy as np

import gimpl
from gimpl import arr, jnp
from probdiffeq.backend import linalg


def build(kind, case):
    ssm = gimpl.ssm_of(kind)
    d = case["d"]
    tc = [jnp.zeros((d,)) for _ in range(2)]
    prior = ssm.prior_wiener_integrated(tc)
    NormalT = type(prior.init)
    tf = prior.init.tree_flatten
    ones = jnp.ones(()) if kind != "blockdiag" else jnp.ones((d,))
    CondT = type(prior.transition(dt=0.5, output_scale=ones))
    B = case["blocks"]

    def mk_normal(key, mean_key="m"):
        if kind == "blockdiag":
            m = arr([np.array(b[key][mean_key]).reshape(-1) for b in B])
            L = arr([b[key]["L"] for b in B])
        elif kind == "dense":
            m = arr(np.array(B[0][key][mean_key]).reshape(-1))
            L = arr(B[0][key]["L"])
        else:
            m = arr(B[0][key][mean_key])
            L = arr(B[0][key]["L"])
        return NormalT(m, L, tf)

    def mk_cond(key):
        if key not in B[0] or B[0][key] is None:
            return None
        noise = mk_normal(key, "b")
        if kind == "blockdiag":
            A = arr([b[key]["A"] for b in B])
            tl = arr([b[key]["tl"] for b in B])
            to = arr([b[key]["to"] for b in B])
        else:
            A, tl, to = arr(B[0][key]["A"]), arr(B[0][key]["tl"]), arr(B[0][key]["to"])
        return CondT(A, noise, tl, to)

    K1 = mk_cond("K1")
    K2 = mk_cond("K2")
    rv = mk_normal("rv") if B[0].get("rv") else None
    x = None
    if B[0].get("x") is not None:
        if kind == "blockdiag":
            x = arr([np.array(b["x"]).reshape(-1) for b in B])
        elif kind == "dense":
            x = arr(np.array(B[0]["x"]).reshape(-1))
        else:
            x = arr(B[0]["x"])
    return K1, K2, rv, x


def run_case(case):
    kind, op = case["kind"], case["op"]
    K1, K2, rv, x = build(kind, case)
    if op == 0:
        return gimpl.flat_blocks_normal(gimpl.normal_blocks(K1.apply_flat(x), kind))
    if op == 1:
        return gimpl.flat_blocks_normal(gimpl.normal_blocks(K1.marginalise(rv), kind))
    if op == 2:
        return gimpl.flat_blocks_cond(gimpl.cond_blocks(K1.merge(K2), kind))
    if op == 3:
        st = linalg.lstsq_svd if case.get("lstsq") else linalg.solve_triu
        obs, bw = K1.revert(rv, solve_triu=st)
        nb = gimpl.normal_blocks(obs, kind)
        cb = gimpl.cond_blocks(bw, kind)
        out = []
        for a in range(len(nb)):
            out += gimpl.flat_blocks_normal([nb[a]]) + gimpl.flat_blocks_cond([cb[a]])
        return out
    if op == 4:
        return gimpl.flat_blocks_cond(gimpl.cond_blocks(K1, kind))
    if op == 5:
        r = np.atleast_1d(np.asarray(rv.residual_whitened_rms_flat(x)))
        return [float(v) ** 2 for v in r]
    if op == 6:
        # reversal with the SVD-based least squares (singular covariances): return observed, backward (plain) and the inputs' plain form
        obs, bw = K1.revert(rv, solve_triu=linalg.lstsq_svd)
        nb = gimpl.normal_blocks(obs, kind)
        cb = gimpl.cond_blocks(bw, kind)
        out = []
        for a in range(len(nb)):
            out += gimpl.flat_blocks_normal([nb[a]]) + gimpl.flat_blocks_cond([cb[a]])
        return out
    if op == 7:   # Normal operations: std, logpdf, rescale, dense conversion
        import jax
        std = np.concatenate([np.ravel(np.asarray(x)) for x in jax.tree_util.tree_leaves(rv.std)])
        lp = float(rv.logpdf_flat(x))
        fac = 1.5 if kind != "blockdiag" else 1.5 * np.ones((case["d"],))
        rs = gimpl.flat_blocks_normal(gimpl.normal_blocks(rv.rescale_cholesky(jnp.asarray(fac)), kind))
        mvn_m, mvn_c = rv.to_multivariate_normal()
        return {"std": std.tolist(), "logpdf": lp, "rescaled": rs, "mvn_mean": np.asarray(mvn_m).tolist(), "mvn_cov": np.asarray(mvn_c).tolist()}
    raise ValueError(op)


def main():
    cases = json.load(open(sys.argv[1]))["cases"]
    res = []
    for c in cases:
        try:
            v = run_case(c)
            res.append({"out": v} if isinstance(v, dict) else {"out": [float(t) for t in v]})
        except Exception as e:  # noqa: BLE001
            res.append({"error": f"{type(e).__name__}: {e}"})
    json.dump({"results": res}, open(sys.argv[2], "w"))


if __name__ == "__main__":
    main()
