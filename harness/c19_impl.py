"""C19 implementation runner: lstsq_constrained_gauss_newton of /repo on polynomial
constraints, exactly as taylor_point_maximum_a_posteriori / jetexpand_residual invoke it
(nlstsq(constraint_flat, x0, mean, cholesky)), plus the MAP-linearised filter update.

Per case:
  primary : the routine with its default while_loop (jax.lax.while_loop) at the case's budget
  prev    : the same routine with maxiter = iters - 1 (the state the last iteration started from)
  traj    : the same routine with while_loop = a recording Python loop (public constructor
            argument): every State the body produced and every cond_fun decision
  update  : (affine, D even) ssm.constraint_residual(residual, taylor_point=MAP(nlstsq)):
            linearize + bayes_rule_tree, and solver.init with constraint_init
"""

import json
import sys

import numpy as np

import gimpl
from gimpl import arr, jnp, pdq
from probdiffeq.backend import linalg, tree


def make_constraint(polys, D):
    rows = [[(float(cf), [int(e) for e in ex]) for cf, ex in p] for p in polys]

    def f(x, **_kw):
        out = []
        for p in rows:
            acc = jnp.zeros((), dtype=x.dtype)
            for cf, ex in p:
                term = jnp.asarray(cf, dtype=x.dtype)
                for j in range(D):
                    if ex[j] == 1:
                        term = term * x[j]
                    elif ex[j] > 1:
                        term = term * x[j] ** ex[j]
                acc = acc + term
            out.append(acc)
        return jnp.stack(out)

    return f


def fl(a):
    return [float(v) for v in np.asarray(a, dtype=np.float64).reshape(-1)]


def state_dict(x, stats):
    return {"x": fl(x), "iters": int(stats["iters"]), "fx": fl(stats["final_constraint"]),
            "dx": fl(stats["final_increment"])}


def run_case(c):
    D, K = c["D"], c["K"]
    f = make_constraint(c["polys"], D)
    m, L, x0 = arr(c["m"]), arr(c["L"]), arr(c["x0"])
    tol, maxiter = float(c["tol"]), int(c["maxiter"])
    out = {}

    ns = pdq.lstsq_constrained_gauss_newton(maxiter=maxiter, tol=tol)
    x, stats = ns(f, x0, m, L)
    out["primary"] = state_dict(x, stats)
    k = out["primary"]["iters"]

    if k >= 1:
        nsp = pdq.lstsq_constrained_gauss_newton(maxiter=k - 1, tol=tol)
        xp, sp = nsp(f, x0, m, L)
        out["prev"] = state_dict(xp, sp)

    # recording loop (same body_fun / cond_fun objects, Python control flow)
    log = {"states": [], "conds": []}

    def rec_loop(cond_fun, body_fun, init):
        s = init
        log["states"].append(s)
        while True:
            cnd = bool(cond_fun(s))
            log["conds"].append(cnd)
            if not cnd or len(log["states"]) > maxiter + 2:
                break
            s = body_fun(s)
            log["states"].append(s)
        return s

    nsr = pdq.lstsq_constrained_gauss_newton(maxiter=maxiter, tol=tol, while_loop=rec_loop)
    xr, sr = nsr(f, x0, m, L)
    out["traj"] = [{"x": fl(s.x), "fx": fl(s.fx), "dx": fl(s.dx), "i": int(s.i)} for s in log["states"]]
    out["conds"] = log["conds"]
    out["traj_final"] = state_dict(xr, sr)

    # the MAP point through the TaylorPoint API (x0 = mean)
    if c.get("update"):
        out["update"] = run_update(c, f)
    return out


def run_update(c, f):
    """Dense SSM with two Taylor coefficients of dimension d = D/2; the residual is the
    polynomial constraint on concat(u, du)."""
    D, K = c["D"], c["K"]
    d = D // 2
    tol, maxiter = float(c["tol"]), int(c["maxiter"])
    ssm = pdq.state_space_model_dense()
    prior = ssm.prior_wiener_integrated([jnp.zeros((d,)), jnp.zeros((d,))])
    NormalT = type(prior.init)
    rv = NormalT(arr(c["m"]), arr(c["L"]), prior.init.tree_flatten)

    residual = pdq.residual_velocity(lambda u, du, /, *, t: f(jnp.concatenate([u, du])),
                                     jacobian=pdq.jacobian_materialize())
    nlstsq = pdq.lstsq_constrained_gauss_newton(maxiter=maxiter, tol=tol)
    tp = pdq.taylor_point_maximum_a_posteriori(nlstsq)
    constraint = ssm.constraint_residual(residual, taylor_point=tp)
    res = {}
    # the linearisation point the constraint uses
    xi = tp(constraint.constraint_flat(tree_flatten=rv.tree_flatten), rv, t=0.0)
    res["xi"] = fl(xi)
    cond, _ = constraint.linearize(rv, constraint.init_linearization(), damp=0.0, t=0.0)
    res["J"] = fl(cond.A)
    res["bias"] = fl(cond.noise.mean_flat)
    zeros = tree.tree_map(jnp.zeros_like, cond.noise.mean)
    post = cond.bayes_rule_tree(zeros, rv, solve_triu=linalg.lstsq_svd)
    Lp = np.asarray(post.cholesky_flat, dtype=np.float64)
    res["post_mean"] = fl(post.mean_flat)
    res["post_cov"] = fl(Lp @ Lp.T)
    # the same through solver.init(constraint_init=...) on a prior whose initial rv is rv
    try:
        prior.init = rv
        solver = pdq.solver(strategy=pdq.strategy_filter(), constraint=constraint, constraint_init=constraint)
        sol = solver.init(0.0, prior, damp=0.0)
        Ls = np.asarray(sol.u.cholesky_flat, dtype=np.float64)
        res["init_mean"] = fl(sol.u.mean_flat)
        res["init_cov"] = fl(Ls @ Ls.T)
    except Exception as e:  # noqa: BLE001
        res["init_error"] = f"{type(e).__name__}: {e}"
    return res


def main():
    cases = json.load(open(sys.argv[1]))["cases"]
    res = []
    for c in cases:
        try:
            res.append(run_case(c))
        except Exception as e:  # noqa: BLE001
            import traceback
            res.append({"error": f"{type(e).__name__}: {e}", "tb": traceback.format_exc()[-1500:]})
    json.dump({"results": res}, open(sys.argv[2], "w"))


if __name__ == "__main__":
    main()
