"""C08 check: Gaussian conditional algebra is exact in every factorisation."""

from __future__ import annotations

import json
import os
import sys
from fractions import Fraction as Fr

sys.path.insert(0, os.path.dirname(os.path.abspath(__file__)))
import lib  # noqa: E402

HEADER = """From Coq Require Import List ZArith QArith Qcanon.
From PD Require Import Base.Field Base.Matrix Model.Gauss Run.GaussRun.
Import ListNotations.
Local Open Scope Z_scope.
"""

OPS = {0: "apply", 1: "marginalise", 2: "merge", 3: "revert", 4: "preconditioner_apply", 5: "whitened_rms"}


def rmat(rng, n, m, lo=-8, hi=8, den=4, zero_p=0.15):
    return [[Fr(0) if rng.random() < zero_p else Fr(rng.randint(lo, hi), den) for _ in range(m)] for _ in range(n)]


def rlower(rng, n, singular=False):
    L = [[Fr(0)] * n for _ in range(n)]
    for i in range(n):
        for j in range(i + 1):
            L[i][j] = Fr(rng.randint(-6, 6), 4)
        if L[i][i] == 0 and not singular:
            L[i][i] = Fr(rng.choice([1, 2, 3, 5]), 4)
    if singular and n > 0:
        k = rng.randrange(n)
        for i in range(n):
            L[i][k] = Fr(0)
    return L


def gram(L):
    n = len(L)
    m = len(L[0]) if n else 0
    return [[sum(L[i][k] * L[j][k] for k in range(m)) for j in range(n)] for i in range(n)]


def rscale(rng, n, span):
    return [Fr(2) ** rng.randint(-span, span) for _ in range(n)]


def gen_cond(rng, nin, nout, c, span, zero_noise=False, singular=False):
    L = [[Fr(0)] * nout for _ in range(nout)] if zero_noise else rlower(rng, nout, singular)
    return {"A": rmat(rng, nout, nin), "b": rmat(rng, nout, c), "L": L,
            "tl": rscale(rng, nin, span), "to": rscale(rng, nout, span)}


def gen_case(rng, tier):
    kind = rng.choice(["dense", "iso", "blockdiag"])
    op = rng.choice([0, 1, 2, 3, 3, 4, 5])
    d = rng.choice([1, 2, 3]) if tier == "quick" else rng.choice([1, 2, 3, 4, 5])
    span = rng.choice([0, 2, 6]) if tier == "quick" else rng.choice([0, 3, 10, 20, 40])
    nmax = 4 if tier == "quick" else 6
    nin, nmid, nout = rng.randint(1, nmax), rng.randint(1, nmax), rng.randint(1, nmax)
    if op == 3 and nout > nin:
        nout = nin  # observation dimension never exceeds the state dimension in probdiffeq
    c = d if kind == "iso" else 1
    nblocks = d if kind == "blockdiag" else 1
    blocks = []
    for _ in range(nblocks):
        b = {}
        if op == 2:
            b["K1"] = gen_cond(rng, nmid, nout, c, span, zero_noise=rng.random() < 0.15)
            b["K2"] = gen_cond(rng, nin, nmid, c, span, zero_noise=rng.random() < 0.15)
        elif op == 5:
            b["K1"] = None
        else:
            b["K1"] = gen_cond(rng, nin, nout, c, span, zero_noise=(op != 3 and rng.random() < 0.15))
        if op in (1, 3, 5):
            b["rv"] = {"m": rmat(rng, nin, c), "L": rlower(rng, nin, singular=(op != 5 and rng.random() < 0.25))}
        if op in (0, 5):
            b["x"] = rmat(rng, nin, c)
        blocks.append(b)
    return {"kind": kind, "op": op, "d": d, "nin": nin, "nmid": nmid, "nout": nout, "c": c, "blocks": blocks,
            "span": span}


def q_cond(K):
    if K is None:
        return "(mkCq [] [] [] [] [])"
    return (f"(mkCq {lib.qcmat(K['A'])} {lib.qcmat(K['b'])} {lib.qcmat(gram(K['L']))} "
            f"{lib.qclist(K['tl'])} {lib.qclist(K['to'])})")


def q_normal(rv):
    if rv is None:
        return "(mkNq [] [])"
    return f"(mkNq {lib.qcmat(rv['m'])} {lib.qcmat(gram(rv['L']))})"


def coq_terms(case):
    ts = []
    for b in case["blocks"]:
        x = lib.qcmat(b["x"]) if b.get("x") is not None else "[]"
        ts.append(f"c08_run {lib.coq_nat(case['op'])} {lib.coq_nat(case['nin'])} {lib.coq_nat(case['nmid'])} {lib.coq_nat(case['nout'])} {lib.coq_nat(case['c'])} "
                  f"{q_cond(b.get('K1'))} {q_cond(b.get('K2'))} {q_normal(b.get('rv'))} {x}")
    return ts


def jsonable(o):
    if isinstance(o, Fr):
        return str(o)
    if isinstance(o, dict):
        return {k: jsonable(v) for k, v in o.items()}
    if isinstance(o, list):
        return [jsonable(v) for v in o]
    return o


def floatable(o):
    if isinstance(o, Fr):
        return float(o)
    if isinstance(o, dict):
        return {k: floatable(v) for k, v in o.items()}
    if isinstance(o, list):
        return [floatable(v) for v in o]
    return o


def compare_vec(impl, model, rtol=1e-8, atol_rel=1e-9):
    if len(impl) != len(model):
        return f"length {len(impl)} vs {len(model)}", 0
    mx = max([abs(float(b)) for b in model] + [1e-300])
    worst = 0.0
    for i, (a, b) in enumerate(zip(impl, model)):
        fb = float(b)
        if a != a or abs(a - fb) > rtol * abs(fb) + atol_rel * mx:
            return f"entry {i}: implementation {a!r} vs model {fb!r} (scale {mx:.3g})", i
        worst = max(worst, abs(a - fb) / (abs(fb) + atol_rel * mx / rtol))
    return None, worst


def signature(case, where):
    return f"C08.{case['kind']}.{OPS[case['op']]}"


def main():
    ck = lib.Check("C08")
    pr = ck.run_proof()
    n = 400 if ck.tier == "quick" else 6000
    cases = [gen_case(ck.rng, ck.tier) for _ in range(n)]
    emitters, owner = [], []
    for i, c in enumerate(cases):
        for b in range(len(c["blocks"])):
            emitters.append(lambda c=c, b=b: coq_terms(c)[b])
            owner.append(i)
    mres_flat = None
    try:
        mres_flat, xinfo = lib.dual_eval("C08", HEADER, emitters, sample=3, shard=100)
        ck.hist["ocaml_vs_coq_crosscheck"] = xinfo
    except RuntimeError as e:
        ck.notes.append(f"model evaluation failed: {str(e)[:800]}")
    ires = lib.run_impl("c08_impl.py", {"cases": [floatable(c) for c in cases]}, timeout=3000)["results"]
    worst = 0.0
    skipped_singular = 0
    if mres_flat is not None:
        per_case = {}
        for k, i in enumerate(owner):
            per_case.setdefault(i, []).append(lib.decode_optQ(mres_flat[k]))
        for i, c in enumerate(cases):
            key = json.dumps(jsonable(c), sort_keys=True)
            parts = per_case[i]
            r = ires[i]
            nontriv = c["span"] > 0 or c["op"] in (2, 3)
            ck.count(key, nontrivial=nontriv, sample={"kind": c["kind"], "op": OPS[c["op"]], "shape": [c["nin"], c["nmid"], c["nout"], c["d"]],
                                                     "span": c["span"], "first_block": jsonable(c["blocks"][0])},
                     kind=c["kind"], op=OPS[c["op"]], span=c["span"], d=c["d"])
            if any(p is None for p in parts):
                skipped_singular += 1   # singular innovation: the solve_triu path is undefined (inf/nan in the code)
                continue
            model = [x for p in parts for x in p]
            if "error" in r:
                ck.report(signature(c, "exc") + ".exception", f"implementation raised {r['error']}", {"case": jsonable(c), "impl": r})
                continue
            mism, w = compare_vec(r["out"], model)
            if mism:
                ck.report(signature(c, mism), f"{c['kind']} {OPS[c['op']]}: {mism}",
                          {"case": jsonable(c), "impl": r["out"], "model": [float(x) for x in model], "mismatch": mism})
            else:
                worst = max(worst, w)
    else:
        ck.report("C08.model-eval", "model evaluation failed (Coq)", {"notes": ck.notes, "broken": "Run/GaussRun.v c08_run"}, nofail=True)
    ck.hist["singular_skipped"] = {"n": skipped_singular}
    ck.hist["worst_rel_discrepancy"] = {"value": worst}
    if not pr["ok"] and not ck.violations:
        ck.report("C08.proof", f"proof obligations no longer check: {pr['errors']}",
                  {"broken": pr.get("failed_at", "Props/C08.v"), "errors": pr["errors"]}, nofail=True)
    ck.finish(rule="cases = (factorisation, operation, shapes nin/nmid/nout<=4 (6 thorough), d<=3 (5), rational matrices k/4, "
              "lower-triangular factors incl. singular/zero, power-of-two scalings 2^-span..2^span); implementation objects built as "
              "type(c)(A, noise, to_latent, to_observed); outputs compared in plain form with rtol 1e-8 (+1e-9*max); "
              "non-trivial = non-unit scalings or merge/revert; distinct by full input")


if __name__ == "__main__":
    main()
