"""C08 check: Gaussian conditional algebra is exact in every factorisation."""

from __future__ import annotations

import json
import os
import sys
from fractions import Fraction as Fr

sys.path.insert(0, os.path.dirname(os.path.abspath(__file__)))
import lib  # noqa: E402

HEADER = """From Coq Require Import List ZArith QArith Qcanon.
From PD Require Import Base.Field Base.Matrix Model.Gauss Run.GaussRun.
Import ListNotations.
Local Open Scope Z_scope.
"""

OPS = {0: "apply", 1: "marginalise", 2: "merge", 3: "revert", 4: "preconditioner_apply", 5: "whitened_rms",
       6: "revert_lstsq_singular", 7: "normal_ops"}


def rmat(rng, n, m, lo=-8, hi=8, den=4, zero_p=0.15):
    return [[Fr(0) if rng.random() < zero_p else Fr(rng.randint(lo, hi), den) for _ in range(m)] for _ in range(n)]


def rlower(rng, n, singular=False):
    L = [[Fr(0)] * n for _ in range(n)]
    for i in range(n):
        for j in range(i + 1):
            L[i][j] = Fr(rng.randint(-6, 6), 4)
        if L[i][i] == 0 and not singular:
            L[i][i] = Fr(rng.choice([1, 2, 3, 5]), 4)
    if singular and n > 0:
        k = rng.randrange(n)
        for i in range(n):
            L[i][k] = Fr(0)
    return L


def gram(L):
    n = len(L)
    m = len(L[0]) if n else 0
    return [[sum(L[i][k] * L[j][k] for k in range(m)) for j in range(n)] for i in range(n)]


def rscale(rng, n, span):
    return [Fr(2) ** rng.randint(-span, span) for _ in range(n)]


def gen_cond(rng, nin, nout, c, span, zero_noise=False, singular=False):
    L = [[Fr(0)] * nout for _ in range(nout)] if zero_noise else rlower(rng, nout, singular)
    return {"A": rmat(rng, nout, nin), "b": rmat(rng, nout, c), "L": L,
            "tl": rscale(rng, nin, span), "to": rscale(rng, nout, span)}


def gen_case(rng, tier):
    kind = rng.choice(["dense", "iso", "blockdiag"])
    op = rng.choice([0, 1, 2, 3, 3, 4, 5])
    d = rng.choice([1, 2, 3]) if tier == "quick" else rng.choice([1, 2, 3, 4, 5])
    span = rng.choice([0, 2, 6]) if tier == "quick" else rng.choice([0, 3, 10, 20, 40])
    if op == 3 and span > 10:
        # reversal inverts the innovation matrix: its conditioning grows like 2^(2 span) and dominates the comparison beyond 2^10
        span = 10
    nmax = 4 if tier == "quick" else 6
    nin, nmid, nout = rng.randint(1, nmax), rng.randint(1, nmax), rng.randint(1, nmax)
    if op == 3 and nout > nin:
        nout = nin  # observation dimension never exceeds the state dimension in probdiffeq
    c = d if kind == "iso" else 1
    nblocks = d if kind == "blockdiag" else 1
    blocks = []
    for _ in range(nblocks):
        b = {}
        if op == 2:
            b["K1"] = gen_cond(rng, nmid, nout, c, span, zero_noise=rng.random() < 0.15)
            b["K2"] = gen_cond(rng, nin, nmid, c, span, zero_noise=rng.random() < 0.15)
        elif op == 5:
            b["K1"] = None
        else:
            b["K1"] = gen_cond(rng, nin, nout, c, span, zero_noise=(op != 3 and rng.random() < 0.15))
        if op in (1, 3, 5):
            b["rv"] = {"m": rmat(rng, nin, c), "L": rlower(rng, nin, singular=(op != 5 and rng.random() < 0.25))}
        if op in (0, 5):
            b["x"] = rmat(rng, nin, c)
        blocks.append(b)
    return {"kind": kind, "op": op, "d": d, "nin": nin, "nmid": nmid, "nout": nout, "c": c, "blocks": blocks,
            "span": span}


def gen_extra_case(rng, tier, op):
    """op 6: reversal with singular covariances through the SVD least squares; op 7: Normal operations."""
    kind = rng.choice(["dense", "iso", "blockdiag"])
    d = rng.choice([1, 2, 3])
    c = d if kind == "iso" else 1
    nblocks = d if kind == "blockdiag" else 1
    if op == 6:
        nin = rng.randint(2, 4)
        nout = rng.randint(1, nin - 1)
        span = rng.choice([0, 2])
        blocks = []
        for _ in range(nblocks):
            K = gen_cond(rng, nin, nout, c, span, zero_noise=True)
            # rank-deficient prior covariance AND zero noise: S = A P A^T is (possibly) singular
            L = rlower(rng, nin, singular=True)
            if rng.random() < 0.5:
                K["A"][nout - 1] = [x for x in K["A"][0]]  # duplicated observation row -> singular S
                K["b"][nout - 1] = [x for x in K["b"][0]]
            blocks.append({"K1": K, "rv": {"m": rmat(rng, nin, c), "L": L}})
        return {"kind": kind, "op": 6, "d": d, "nin": nin, "nmid": 1, "nout": nout, "c": c, "blocks": blocks, "span": span}
    n = 2
    nin = n * d if kind == "dense" else n
    blocks = [{"K1": None, "rv": {"m": rmat(rng, nin, c), "L": rlower(rng, nin)}, "x": rmat(rng, nin, c)} for _ in range(nblocks)]
    return {"kind": kind, "op": 7, "d": d, "nin": nin, "nmid": 1, "nout": 1, "c": c, "blocks": blocks, "span": 0}


def check_extra(case, out):
    """Evaluate the property's own predicates in float64 on exact inputs. Returns mismatch text or None."""
    import numpy as np
    f = lambda M: np.array([[float(x) for x in r] for r in M], dtype=float)  # noqa: E731
    kind, d, c = case["kind"], case["d"], case["c"]
    if case["op"] == 6:
        nin, nout = case["nin"], case["nout"]
        pos = 0
        for bi, b in enumerate(case["blocks"]):
            K = b["K1"]
            A, bb, Lq = f(K["A"]), f(K["b"]), f(K["L"])
            tl, to = np.array([float(x) for x in K["tl"]]), np.array([float(x) for x in K["to"]])
            m, L = f(b["rv"]["m"]), f(b["rv"]["L"])
            P = L @ L.T
            Ap = to[:, None] * A * tl[None, :]
            bp = to[:, None] * bb
            Qp = to[:, None] * (Lq @ Lq.T) * to[None, :]
            m_obs = Ap @ m + bp
            S = Ap @ P @ Ap.T + Qp
            seg = np.array(out[pos:pos + nout * c + nout * nout + nin * nout + nin * c + nin * nin])
            pos += len(seg)
            k = 0
            om = seg[k:k + nout * c].reshape(nout, c); k += nout * c
            oS = seg[k:k + nout * nout].reshape(nout, nout); k += nout * nout
            G = seg[k:k + nin * nout].reshape(nin, nout); k += nin * nout
            g0 = seg[k:k + nin * c].reshape(nin, c); k += nin * c
            Pb = seg[k:k + nin * nin].reshape(nin, nin)
            sc = max(np.abs(S).max(), np.abs(P).max(), 1e-300)
            tol = 1e-7
            if not np.allclose(om, m_obs, rtol=tol, atol=tol * max(np.abs(m_obs).max(), 1.0)):
                return f"block {bi}: observed mean differs from A m + b"
            if not np.allclose(oS, S, rtol=tol, atol=tol * sc):
                return f"block {bi}: observed covariance differs from A P A^T + Q"
            if not np.allclose(G @ S, P @ Ap.T, rtol=1e-6, atol=1e-6 * max(np.abs(P @ Ap.T).max(), sc, 1e-300)):
                return f"block {bi}: gain * Cov(y) differs from the cross-covariance Cov(x, y) (singular covariance): max diff {np.abs(G @ S - P @ Ap.T).max():.3g}"
            if not np.allclose(G @ m_obs + g0, m, rtol=1e-6, atol=1e-6 * max(np.abs(m).max(), 1.0)):
                return f"block {bi}: backward conditional applied to the observed mean does not return the prior mean"
            if not np.allclose(G @ S @ G.T + Pb, P, rtol=1e-6, atol=1e-6 * max(np.abs(P).max(), 1e-300)):
                rk = np.linalg.matrix_rank(S, tol=1e-9 * max(np.abs(S).max(), 1e-300))
                if rk < nout and rk > 0:
                    return (f"RANKDEF block {bi}: with a rank-deficient (rank {rk} < {nout}) non-zero innovation covariance the returned "
                            f"G S G^T + Cov(x|y) falls short of Cov(x) by up to {np.abs(G @ S @ G.T + Pb - P).max():.3g} (joint law not reproduced)")
                return f"block {bi}: G S G^T + Cov(x|y) differs from Cov(x) (joint law not reproduced)"
        return None
    # op 7
    covs, means, xs = [], [], []
    for b in case["blocks"]:
        L = f(b["rv"]["L"])
        covs.append(L @ L.T)
        means.append(f(b["rv"]["m"]))
        xs.append(f(b["x"]))
    n = 2
    if kind == "dense":
        std_want = np.sqrt(np.diag(covs[0]))
        std_got = np.array(out["std"])
    elif kind == "iso":
        std_want = np.sqrt(np.diag(covs[0]))
        std_got = np.array(out["std"])
    else:
        std_want = np.array([np.sqrt(np.diag(cv)) for cv in covs]).T.reshape(-1)     # tree order: coefficient-major
        std_got = np.array(out["std"])
    if std_got.shape != std_want.shape or not np.allclose(np.sort(std_got), np.sort(std_want), rtol=1e-9, atol=1e-12):
        return f"std differs from sqrt(diag(cov)): {std_got.tolist()} vs {std_want.tolist()}"
    if kind != "iso" and not np.allclose(std_got, std_want, rtol=1e-9, atol=1e-12):
        return f"std ordering differs: {std_got.tolist()} vs {std_want.tolist()}"
    lp = 0.0
    for cv, mm, xx in zip(covs, means, xs):
        for a in range(mm.shape[1]):
            r = xx[:, a] - mm[:, a]
            sign, logdet = np.linalg.slogdet(cv)
            lp += -0.5 * (r @ np.linalg.solve(cv, r) + logdet + len(r) * np.log(2 * np.pi))
    if not abs(out["logpdf"] - lp) <= 1e-8 * max(1.0, abs(lp)):
        return f"logpdf {out['logpdf']!r} differs from the multivariate-normal log-density {lp!r}"
    # rescale_cholesky(1.5): covariance x 2.25, mean unchanged
    want = []
    for cv, mm in zip(covs, means):
        want += mm.reshape(-1).tolist() + (2.25 * cv).reshape(-1).tolist()
    if not np.allclose(np.array(out["rescaled"]), np.array(want), rtol=1e-10, atol=1e-12):
        return "rescale_cholesky(1.5) does not scale the covariance by 2.25"
    # dense conversion
    N = n * d
    if kind == "dense":
        Mw, Cw = means[0].reshape(-1), covs[0]
    elif kind == "iso":
        Mw = means[0].reshape(-1)
        Cw = np.kron(covs[0], np.eye(d))
    else:
        Mw = np.array([means[a][i, 0] for i in range(n) for a in range(d)])
        Cw = np.zeros((N, N))
        for a in range(d):
            for i in range(n):
                for j in range(n):
                    Cw[i * d + a, j * d + a] = covs[a][i, j]
    if not (np.allclose(np.array(out["mvn_mean"]).reshape(-1), Mw, rtol=1e-10, atol=1e-12) and np.allclose(np.array(out["mvn_cov"]), Cw, rtol=1e-10, atol=1e-12)):
        return "to_multivariate_normal differs from the dense embedding (coefficient-major ordering)"
    return None


def q_cond(K):
    if K is None:
        return "(mkCq [] [] [] [] [])"
    return (f"(mkCq {lib.qcmat(K['A'])} {lib.qcmat(K['b'])} {lib.qcmat(gram(K['L']))} "
            f"{lib.qclist(K['tl'])} {lib.qclist(K['to'])})")


def q_normal(rv):
    if rv is None:
        return "(mkNq [] [])"
    return f"(mkNq {lib.qcmat(rv['m'])} {lib.qcmat(gram(rv['L']))})"


def coq_terms(case):
    ts = []
    for b in case["blocks"]:
        x = lib.qcmat(b["x"]) if b.get("x") is not None else "[]"
        ts.append(f"c08_run {lib.coq_nat(case['op'])} {lib.coq_nat(case['nin'])} {lib.coq_nat(case['nmid'])} {lib.coq_nat(case['nout'])} {lib.coq_nat(case['c'])} "
                  f"{q_cond(b.get('K1'))} {q_cond(b.get('K2'))} {q_normal(b.get('rv'))} {x}")
    return ts


def jsonable(o):
    if isinstance(o, Fr):
        return str(o)
    if isinstance(o, dict):
        return {k: jsonable(v) for k, v in o.items()}
    if isinstance(o, list):
        return [jsonable(v) for v in o]
    return o


def floatable(o):
    if isinstance(o, Fr):
        return float(o)
    if isinstance(o, dict):
        return {k: floatable(v) for k, v in o.items()}
    if isinstance(o, list):
        return [floatable(v) for v in o]
    return o


def compare_vec(impl, model, rtol=1e-8, atol_rel=1e-9):
    if len(impl) != len(model):
        return f"length {len(impl)} vs {len(model)}", 0
    mx = max([abs(float(b)) for b in model] + [1e-300])
    worst = 0.0
    for i, (a, b) in enumerate(zip(impl, model)):
        fb = float(b)
        if a != a or abs(a - fb) > rtol * abs(fb) + atol_rel * mx:
            return f"entry {i}: implementation {a!r} vs model {fb!r} (scale {mx:.3g})", i
        worst = max(worst, abs(a - fb) / (abs(fb) + atol_rel * mx / rtol))
    return None, worst


def compare_revert_preconditioned(c, impl, parts):
    """Reversal (op 3) is compared IN THE PRECONDITIONED COORDINATES the library computes in, matrix by matrix (normwise): the
    scalings are powers of two, so dividing them out is exact; in plain coordinates the rounding error of a small entry of a
    preconditioned matrix is blown up by up to 2^(2 span) relative to the largest plain entry (span 40: meaningless)."""
    nin, nout, cc = c["nin"], c["nout"], c["c"]
    pos, worst = 0, 0.0
    for blk, part in zip(c["blocks"], parts):
        tl = [float(x) for x in blk["K1"]["tl"]]
        to = [float(x) for x in blk["K1"]["to"]]
        seg = [("observed mean", nout, cc, lambda i, a: 1.0 / to[i]),
               ("observed covariance", nout, nout, lambda i, j: 1.0 / (to[i] * to[j])),
               ("backward A", nin, nout, lambda i, l: tl[i] * to[l]),
               ("backward offset", nin, cc, lambda i, a: tl[i]),
               ("backward noise", nin, nin, lambda i, j: tl[i] * tl[j])]
        k = 0
        segs = []
        for name, rows, cols, fac in seg:
            fi = [impl[pos + k + i * cols + j] * fac(i, j) for i in range(rows) for j in range(cols)]
            fm = [Fr(part[k + i * cols + j]) * Fr(fac(i, j)) for i in range(rows) for j in range(cols)]
            segs.append((name, fi, fm))
            k += rows * cols
        # floors: mean-like quantities against the largest mean-like entry, covariance-like against the largest covariance-like
        # entry, the gain against itself; the tolerance grows with the spread of the scalings (conditioning of the stacked QR)
        grow = 1.0 + c["span"]
        mx_mean = max([abs(float(x)) for nm, _fi, fm in segs if nm in ("observed mean", "backward offset") for x in fm] + [1e-300])
        mx_cov = max([abs(float(x)) for nm, _fi, fm in segs if nm in ("observed covariance", "backward noise") for x in fm] + [1e-300])
        for name, fi, fm in segs:
            mxs = mx_mean if name in ("observed mean", "backward offset") else (mx_cov if name != "backward A" else
                                                                                 max([abs(float(x)) for x in fm] + [1e-300]))
            for e_i, (a, b) in enumerate(zip(fi, fm)):
                fb = float(b)
                if a != a or abs(a - fb) > 1e-8 * grow * abs(fb) + 1e-9 * grow * mxs:
                    return f"{name} (preconditioned coordinates): entry {e_i}: implementation {a!r} vs model {fb!r} (scale {mxs:.3g})", 0
                worst = max(worst, abs(a - fb) / (abs(fb) + 0.1 * mxs) / grow)
        if k != len(part):
            return f"length {len(part)} vs expected {k}", 0
        pos += k
    if pos != len(impl):
        return f"length {len(impl)} vs {pos}", 0
    return None, worst


def signature(case, where):
    return f"C08.{case['kind']}.{OPS[case['op']]}"


def main():
    ck = lib.Check("C08")
    pr = ck.run_proof()
    n = 400 if ck.tier == "quick" else 6000
    cases = [gen_case(ck.rng, ck.tier) for _ in range(n)]
    emitters, owner = [], []
    for i, c in enumerate(cases):
        for b in range(len(c["blocks"])):
            emitters.append(lambda c=c, b=b: coq_terms(c)[b])
            owner.append(i)
    mres_flat = None
    try:
        mres_flat, xinfo = lib.dual_eval("C08", HEADER, emitters, sample=3, shard=100)
        ck.hist["ocaml_vs_coq_crosscheck"] = xinfo
    except RuntimeError as e:
        ck.notes.append(f"model evaluation failed: {str(e)[:800]}")
    ires = lib.run_impl("c08_impl.py", {"cases": [floatable(c) for c in cases]}, timeout=3000)["results"]
    worst = 0.0
    skipped_singular = 0
    if mres_flat is not None:
        per_case = {}
        for k, i in enumerate(owner):
            per_case.setdefault(i, []).append(lib.decode_optQ(mres_flat[k]))
        for i, c in enumerate(cases):
            key = json.dumps(jsonable(c), sort_keys=True)
            parts = per_case[i]
            r = ires[i]
            nontriv = c["span"] > 0 or c["op"] in (2, 3)
            ck.count(key, nontrivial=nontriv, sample={"kind": c["kind"], "op": OPS[c["op"]], "shape": [c["nin"], c["nmid"], c["nout"], c["d"]],
                                                     "span": c["span"], "first_block": jsonable(c["blocks"][0])},
                     kind=c["kind"], op=OPS[c["op"]], span=c["span"], d=c["d"])
            if any(p is None for p in parts):
                skipped_singular += 1   # singular innovation: the solve_triu path is undefined (inf/nan in the code)
                continue
            model = [x for p in parts for x in p]
            if "error" in r:
                ck.report(signature(c, "exc") + ".exception", f"implementation raised {r['error']}", {"case": jsonable(c), "impl": r})
                continue
            if c["op"] == 3:
                mism, w = compare_revert_preconditioned(c, r["out"], parts)
            else:
                mism, w = compare_vec(r["out"], model)
            if mism:
                ck.report(signature(c, mism), f"{c['kind']} {OPS[c['op']]}: {mism}",
                          {"case": jsonable(c), "impl": r["out"], "model": [float(x) for x in model], "mismatch": mism})
            else:
                worst = max(worst, w)
    else:
        ck.report("C08.model-eval", "model evaluation failed (Coq)", {"notes": ck.notes, "broken": "Run/GaussRun.v c08_run"}, nofail=True)
    # ---- reversal with singular covariances (lstsq path) and Normal operations: the property's predicates evaluated directly
    ne = 60 if ck.tier == "quick" else 600
    extra = [gen_extra_case(ck.rng, ck.tier, ck.rng.choice([6, 6, 7])) for _ in range(ne)]
    eres = lib.run_impl("c08_impl.py", {"cases": [floatable(c) for c in extra]}, timeout=3000)["results"]
    for c, r in zip(extra, eres):
        ck.count("extra:" + json.dumps(jsonable(c), sort_keys=True), nontrivial=True,
                 sample={"kind": c["kind"], "op": OPS[c["op"]], "d": c["d"], "nin": c["nin"], "nout": c["nout"]},
                 kind=c["kind"], op=OPS[c["op"]], d=c["d"])
        if "error" in r:
            ck.report(signature(c, "exc") + ".exception", f"implementation raised {r['error']}", {"case": jsonable(c), "impl": r})
            continue
        mism = check_extra(c, r["out"])
        if mism and mism.startswith("RANKDEF"):
            ck.report("C08.revert_lstsq.rank-deficient-innovation", f"{c['kind']} revert(lstsq_svd): {mism[8:]}",
                      {"case": jsonable(c), "impl": r["out"], "mismatch": mism})
        elif mism:
            ck.report(signature(c, mism), f"{c['kind']} {OPS[c['op']]}: {mism}", {"case": jsonable(c), "impl": r["out"], "mismatch": mism})
    ck.hist["singular_skipped"] = {"n": skipped_singular}
    ck.hist["worst_rel_discrepancy"] = {"value": worst}
    if not pr["ok"] and not ck.violations:
        ck.report("C08.proof", f"proof obligations no longer check: {pr['errors']}",
                  {"broken": pr.get("failed_at", "Props/C08.v"), "errors": pr["errors"]}, nofail=True)
    ck.finish(rule="cases = (factorisation, operation, shapes nin/nmid/nout<=4 (6 thorough), d<=3 (5), rational matrices k/4, "
              "lower-triangular factors incl. singular/zero, power-of-two scalings 2^-span..2^span); implementation objects built as "
              "type(c)(A, noise, to_latent, to_observed); outputs compared in plain form with rtol 1e-8 (+1e-9*max), reversal in the preconditioned coordinates matrix by matrix; "
              "non-trivial = non-unit scalings or merge/revert; distinct by full input")


if __name__ == "__main__":
    main()
