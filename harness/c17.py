"""C17 check: Jacobian handlers return exact or exactly-unbiased Jacobian blocks.

1. prove Props/C17.vo (sign-vector orthogonality for every N; full enumeration of the
   Rademacher probes makes the forward / reverse trace and diagonal estimators equal to the
   exact blocks for ANY Jacobian tensor and any n_in, n_out, d; validator characterisation);
2. correspondence: polynomial maps (n_in,d)->(n_out,d) with dyadic coefficients, evaluated at
   dyadic points.  The exact Jacobian tensor J[o][a][i][b] is computed here with fractions and
   handed to the Coq model (Run/C17Run.v, vm_compute over Qc); the REAL handlers are called
   through the public API with `probdiffeq.backend.random.rademacher` patched to return
   prescribed probes.  Compared:
     mat   : jacobian_materialize dense / trace / diagonal (+ materialize_dense of both
             stochastic handlers) vs model, function value, state returned unchanged;
     probe : stochastic handlers on 1..4 prescribed sign probes vs model on the same probes
             (and vs an independent fractions evaluation of the estimator formula);
     full  : num_probes = 2^(rows*d), the patch returns ALL sign tensors: handler output vs the
             model's own enumeration AND vs the exact blocks (the property itself);
     val   : malformed / well-formed (x, f(x)) pairs: exception class of every public call and the
             triple returned by _verify_fun_and_x vs the model's verdict;
   plus: function value exact, key advanced on every stochastic call, probes requested with the
   right shape/dtype and from a fresh subkey.
"""

from __future__ import annotations

import itertools
import json
import os
import sys
from fractions import Fraction as Fr

sys.path.insert(0, os.path.dirname(os.path.abspath(__file__)))
import lib  # noqa: E402

HEADER = """From Coq Require Import List ZArith QArith Qcanon.
From PD Require Import Base.Field Base.Matrix Model.Jacobians Run.C17Run.
Import ListNotations.
Local Open Scope Z_scope.
"""

NZ = [k for k in range(-8, 9) if k != 0]
TOL = 1e-12


# ------------------------------------------------------------------ polynomials
def gen_poly(rng, n_in, n_out, d):
    allv = [(i, b) for i in range(n_in) for b in range(d)]
    poly = []
    for _o in range(n_out):
        row = []
        for _a in range(d):
            monos = []
            for (i, b) in allv:
                if rng.random() < 0.55:
                    monos.append((Fr(rng.choice(NZ), 4), [(i, b, 1)]))
            for _ in range(rng.choice([0, 1, 1, 2])):
                nv = min(rng.choice([1, 2, 2, 3]), len(allv))
                vs = rng.sample(allv, nv)
                fac = [(i, b, 1) for (i, b) in vs]
                for _k in range(3 - nv):
                    if rng.random() < 0.6:
                        j = rng.randrange(nv)
                        fac[j] = (fac[j][0], fac[j][1], fac[j][2] + 1)
                monos.append((Fr(rng.choice(NZ), 4), fac))
            if rng.random() < 0.3:
                monos.append((Fr(rng.choice(NZ), 2), []))
            row.append(monos)
        poly.append(row)
    return poly


def eval_mono(coef, fac, x):
    v = coef
    for i, b, e in fac:
        v *= x[i][b] ** e
    return v


def diff_mono(coef, fac, x, i0, b0):
    for j, (i, b, e) in enumerate(fac):
        if (i, b) == (i0, b0):
            v = coef * e * x[i][b] ** (e - 1)
            for jj, (i2, b2, e2) in enumerate(fac):
                if jj != j:
                    v *= x[i2][b2] ** e2
            return v
    return Fr(0)


def exact_value_and_jacobian(c):
    n_in, n_out, d = c["n_in"], c["n_out"], c["d"]
    x = c["x"]
    sc = c["scale"] if c["scale"] is not None else Fr(1)
    fx = [[sc * sum((eval_mono(co, fa, x) for co, fa in c["poly"][o][a]), Fr(0)) for a in range(d)] for o in range(n_out)]
    J = [[[[sc * sum((diff_mono(co, fa, x, i, b) for co, fa in c["poly"][o][a]), Fr(0)) for b in range(d)]
           for i in range(n_in)] for a in range(d)] for o in range(n_out)]
    return fx, J


# ------------------------------------------------- independent spec (fractions)
def exact_blocks(J, n_in, n_out, d):
    dense = [J[o][a][i][b] for o in range(n_out) for a in range(d) for i in range(n_in) for b in range(d)]
    trace = [sum((J[o][a][i][a] for a in range(d)), Fr(0)) for o in range(n_out) for i in range(n_in)]
    diag = [J[o][a][i][a] for a in range(d) for o in range(n_out) for i in range(n_in)]
    return dense, trace, diag


def spec_estimator(mode, op, J, probes, n_in, n_out, d):
    """Mean over the probes of the single-probe estimator, layouts (n_out,n_in) / (d,n_out,n_in)."""
    acc_t = [[Fr(0)] * n_in for _ in range(n_out)]
    acc_d = [[[Fr(0)] * n_in for _ in range(n_out)] for _ in range(d)]
    for v in probes:
        if mode == "fwd":
            Jv = [[sum((J[o][a][i][b] * v[i][b] for i in range(n_in) for b in range(d)), Fr(0)) for a in range(d)]
                  for o in range(n_out)]
            for o in range(n_out):
                for i in range(n_in):
                    for a in range(d):
                        t = v[i][a] * Jv[o][a]
                        acc_t[o][i] += t
                        acc_d[a][o][i] += t
        else:
            vJ = [[sum((v[o][a] * J[o][a][i][b] for o in range(n_out) for a in range(d)), Fr(0)) for b in range(d)]
                  for i in range(n_in)]
            for o in range(n_out):
                for i in range(n_in):
                    for a in range(d):
                        t = vJ[i][a] * v[o][a]
                        acc_t[o][i] += t
                        acc_d[a][o][i] += t
    s = len(probes)
    if op == "trace":
        return [acc_t[o][i] / s for o in range(n_out) for i in range(n_in)]
    return [acc_d[a][o][i] / s for a in range(d) for o in range(n_out) for i in range(n_in)]


# ------------------------------------------------------------------ generation
def gen_x(rng, n_in, d):
    return [[Fr(rng.randint(-6, 6), 4) for _ in range(d)] for _ in range(n_in)]


def gen_base(rng, n_in, n_out, d):
    c = {"n_in": n_in, "n_out": n_out, "d": d, "poly": gen_poly(rng, n_in, n_out, d), "x": gen_x(rng, n_in, d),
         "scale": rng.choice([None, None, Fr(2), Fr(-1, 2), Fr(3)]), "seed": rng.randint(0, 10 ** 6)}
    return c


def gen_shape(rng):
    return rng.randint(1, 4), rng.randint(1, 4), rng.randint(1, 4)


def gen_mat(rng):
    n_in, n_out, d = gen_shape(rng)
    c = gen_base(rng, n_in, n_out, d)
    c["kind"] = "mat"
    return c


def gen_probe(rng, mode, op):
    n_in, n_out, d = gen_shape(rng)
    c = gen_base(rng, n_in, n_out, d)
    rows = n_in if mode == "fwd" else n_out
    k = rng.choice([1, 1, 2, 3, 4])
    c.update({"kind": "probe", "mode": mode, "op": op, "num_probes": k,
              "probes": [[[Fr(rng.choice([-1, 1])) for _ in range(d)] for _ in range(rows)] for _ in range(k)]})
    return c


def gen_full(rng, mode, op, nmax):
    shapes = [(r, d) for r in range(1, 5) for d in range(1, 5) if 2 <= r * d <= nmax]
    w = [r * d for r, d in shapes]
    rows, d = rng.choices(shapes, weights=w)[0]
    other = rng.randint(1, 4)
    n_in, n_out = (rows, other) if mode == "fwd" else (other, rows)
    c = gen_base(rng, n_in, n_out, d)
    c.update({"kind": "full", "mode": mode, "op": op, "num_probes": 2 ** (rows * d), "probes": "all"})
    return c


def val_cases(rng, n_random):
    out = []

    def add(x_kind, x_shape, out_kind, out_shape):
        out.append({"kind": "val", "x_kind": x_kind, "x_shape": list(x_shape), "out_kind": out_kind,
                    "out_shape": list(out_shape)})

    n, m, d = 3, 2, 2
    add("array", (n, d), "array", (m, d))            # well-formed, non-square
    add("array", (1, 1), "array", (1, 1))            # well-formed, degenerate
    add("array", (2, 4), "array", (4, 4))            # well-formed
    add("array", (n * d,), "array", (m, d))          # 1-d x
    add("array", (1, n, d), "array", (m, d))         # 3-d x
    add("array", (), "array", (m, d))                # 0-d x
    add("list", (n, d), "array", (m, d))             # list x
    add("tuple", (n, d), "array", (m, d))            # tuple x
    add("numpy", (n, d), "array", (m, d))            # numpy x (not a jax Array)
    add("array", (n, d), "tuple", (m, d))            # function returns a tuple
    add("array", (n, d), "list", (m, d))             # function returns a list
    add("array", (n, d), "tuple1", (m, d))           # 1-tuple
    add("array", (n, d), "dict", (m, d))             # dict
    add("array", (n, d), "array", (d,))              # rank-1 output
    add("array", (n, d), "array", ())                # rank-0 output
    add("array", (n, d), "array", (m, d, 1))         # rank-3 output
    add("array", (n, d), "array", (m, d + 1))        # trailing dimension mismatch
    add("array", (n, d), "array", (m, 1))            # mismatch that would broadcast
    add("array", (n, 1), "array", (m, d))            # mismatch that would broadcast (other way)
    add("array", (n, d), "array", (d, m + 1))        # transposed-looking output
    add("list", (n * d,), "tuple", (m, d))           # everything wrong: TypeError wins
    for _ in range(n_random):
        xr = rng.choice([0, 1, 2, 2, 2, 3])
        fr = rng.choice([0, 1, 2, 2, 2, 3])
        xs = tuple(rng.randint(1, 4) for _ in range(xr))
        fs = tuple(rng.randint(1, 4) for _ in range(fr))
        if xr == 2 and fr == 2 and rng.random() < 0.5:
            fs = (fs[0], xs[1])
        add(rng.choice(["array"] * 5 + ["list", "numpy"]) if xr >= 1 else "array", xs,
            rng.choice(["array"] * 5 + ["tuple", "list"]), fs)
    return out


# ------------------------------------------------------------------- coq terms
def q4(J):
    return "[" + "; ".join("[" + "; ".join(lib.qcmat(Joa) for Joa in Jo) + "]" for Jo in J) + "]"


def natlist(xs):
    return "[" + "; ".join(lib.coq_nat(k) for k in xs) + "]"


def coq_term(c, J):
    if c["kind"] == "val":
        return (f"c17_verify {lib.coq_bool(c['x_kind'] == 'array')} {natlist(c['x_shape'])} "
                f"{lib.coq_bool(c['out_kind'] == 'array')} {natlist(c['out_shape'])}")
    dims = f"{lib.coq_nat(c['n_in'])} {lib.coq_nat(c['n_out'])} {lib.coq_nat(c['d'])}"
    if c["kind"] == "mat":
        return f"c17_materialize {dims} {q4(J)}"
    mode = 0 if c["mode"] == "fwd" else 1
    kind = 0 if c["op"] == "trace" else 1
    if c["kind"] == "full":
        return f"c17_mc_all {mode}%nat {kind}%nat {dims} {q4(J)}"
    ps = "[" + "; ".join(lib.qcmat(p) for p in c["probes"]) + "]"
    return f"c17_mc {mode}%nat {kind}%nat {dims} {q4(J)} {ps}"


def jsonable(o):
    if isinstance(o, Fr):
        return str(o)
    if isinstance(o, dict):
        return {k: jsonable(v) for k, v in o.items()}
    if isinstance(o, (list, tuple)):
        return [jsonable(v) for v in o]
    return o


def floatable(o):
    if isinstance(o, Fr):
        return float(o)
    if isinstance(o, dict):
        return {k: floatable(v) for k, v in o.items()}
    if isinstance(o, (list, tuple)):
        return [floatable(v) for v in o]
    return o


def cmp_flat(impl, expect_shape, expect):
    """impl = {'shape','data'}; expect = list of Fractions. Returns (mismatch text | None, exact?)."""
    if list(impl["shape"]) != list(expect_shape):
        return f"shape {impl['shape']} vs expected {list(expect_shape)}", False
    data = impl["data"]
    if len(data) != len(expect):
        return f"size {len(data)} vs expected {len(expect)}", False
    mx = max([abs(float(b)) for b in expect] + [1.0])
    exact = True
    for k, (a, b) in enumerate(zip(data, expect)):
        fb = float(b)
        if a != a or abs(a - fb) > TOL * mx:
            return f"entry {k}: implementation {a!r} vs expected {fb!r}", False
        if Fr(a) != b:
            exact = False
    return None, exact


def block_shape(op, c):
    n_in, n_out, d = c["n_in"], c["n_out"], c["d"]
    return {"dense": (n_out, d, n_in, d), "trace": (n_out, n_in), "diag": (d, n_out, n_in)}[op]


def has_offdiag(J, n_in, n_out, d):
    return any(J[o][a][i][b] != 0 for o in range(n_out) for a in range(d) for i in range(n_in) for b in range(d)
               if a != b)


# ------------------------------------------------------------------------ main
def main():
    ck = lib.Check("C17")
    pr = ck.run_proof()
    rng = ck.rng
    quick = ck.tier == "quick"
    nmax = 8 if quick else 12
    cases = []
    for _ in range(10 if quick else 120):
        cases.append(gen_mat(rng))
    for _ in range(6 if quick else 60):
        for mode in ("fwd", "rev"):
            for op in ("trace", "diag"):
                cases.append(gen_probe(rng, mode, op))
    for _ in range(4 if quick else 30):
        for mode in ("fwd", "rev"):
            for op in ("trace", "diag"):
                cases.append(gen_full(rng, mode, op, nmax))
    cases += val_cases(rng, 6 if quick else 120)

    exact = [None if c["kind"] == "val" else exact_value_and_jacobian(c) for c in cases]
    terms = [coq_term(c, e[1] if e else None) for c, e in zip(cases, exact)]
    model_failed = None
    try:
        mvals = lib.coq_eval("C17", HEADER, terms, shard=8 if quick else 24, timeout=600, case_timeout=300)
    except RuntimeError as e:
        mvals = None
        model_failed = str(e)[:800]
        ck.notes.append(f"model evaluation failed: {model_failed}")
    ires = lib.run_impl("c17_impl.py", {"cases": [floatable(c) for c in cases]}, timeout=3000)["results"]

    n_exact = n_cmp = n_evalfail = 0
    model_bug = None
    for idx, c in enumerate(cases):
        jc = jsonable(c)
        r = ires[idx]
        mv = mvals[idx] if mvals is not None else None
        if isinstance(mv, str):
            n_evalfail += 1
            mv = None
        if c["kind"] == "val":
            expect_arr_x = c["x_kind"] == "array"
            wellformed = (expect_arr_x and c["out_kind"] == "array" and len(c["x_shape"]) == 2
                          and len(c["out_shape"]) == 2 and c["x_shape"][1] == c["out_shape"][1])
            ck.count(json.dumps(jc), nontrivial=True, sample={"case": jc, "model": mv},
                     kind="val", verdict={0: "TypeError", 1: "ValueError", 2: "accept"}.get(mv[0] if mv else -1, "?"))
            if "error" in r:
                ck.report("C17.validator.harness", f"validator case crashed in the runner: {r['error']}", {"case": jc, "impl": r})
                continue
            # independent statement of the property: accepted iff well-formed
            want = None if wellformed else ("TypeError" if (not expect_arr_x or c["out_kind"] != "array") else "ValueError")
            if mv is not None:
                mwant = {0: "TypeError", 1: "ValueError", 2: None}[mv[0]]
                if mwant != want and model_bug is None:
                    model_bug = (jc, f"validator model verdict {mv} vs independent spec {want}")
            for rec in r["results"]:
                where = f"{rec['handler']}.{'_verify_fun_and_x' if rec['op'] == 'verify' else rec['op']}"
                if rec["raised"] != want:
                    ck.report(f"C17.validator.{want or 'accept'}->{rec['raised'] or 'accept'}",
                              f"{where}: x={c['x_kind']}{tuple(c['x_shape'])}, f(x)={c['out_kind']}{tuple(c['out_shape'])}: "
                              f"expected {want or 'no exception'}, observed {rec['raised'] or 'no exception'} "
                              f"{rec.get('msg', '')!r}", {"case": jc, "impl": rec, "model": mv})
                    continue
                if want is not None and not rec["msg_ok"]:
                    ck.report("C17.validator.message", f"{where}: {want} raised but not by the validator: {rec.get('msg', '')!r}",
                              {"case": jc, "impl": rec}, nofail=True)
                if want is None:
                    n_in, d = c["x_shape"]
                    n_out = c["out_shape"][0]
                    if rec["op"] == "verify":
                        if rec["triple"] != [n_in, n_out, d] or (mv is not None and rec["triple"] != mv[1:]):
                            ck.report("C17.validator.triple", f"{where} returned {rec['triple']}, expected (n_in,n_out,d)="
                                      f"{[n_in, n_out, d]} (model {mv})", {"case": jc, "impl": rec, "model": mv})
                    else:
                        shp = [[n_out, d], list(block_shape(rec["op"], {"n_in": n_in, "n_out": n_out, "d": d}))]
                        if rec["shapes"] != shp:
                            ck.report(f"C17.{rec['handler']}.{rec['op']}.shape", f"{where}: output shapes {rec['shapes']}, expected {shp}",
                                      {"case": jc, "impl": rec})
            continue

        # ------------------------------------------------------------ numeric
        fx_e, J = exact[idx]
        n_in, n_out, d = c["n_in"], c["n_out"], c["d"]
        fx_flat = [fx_e[o][a] for o in range(n_out) for a in range(d)]
        dense_e, trace_e, diag_e = exact_blocks(J, n_in, n_out, d)
        rows = None if c["kind"] == "mat" else (n_in if c["mode"] == "fwd" else n_out)
        ck.count(json.dumps(jc), nontrivial=(d > 1 and has_offdiag(J, n_in, n_out, d)),
                 sample={"case": jc, "impl": {k: v for k, v in r.items() if k in ("out", "keys")}} if c["kind"] == "probe" else None,
                 kind=c["kind"], mode=c.get("mode", "-"), op=c.get("op", "all"), shape=f"{n_in}x{n_out}x{d}",
                 square=(n_in == n_out), N=(rows * d if rows else 0), kwarg=(c["scale"] is not None))
        if "error" in r:
            ck.report(f"C17.{c.get('mode', 'mat')}.{c.get('op', 'all')}.exception", f"handler raised on a well-formed input: {r['error']}",
                      {"case": jc, "impl": r})
            continue
        mq = lib.decode_optQ(mv) if mv is not None else None

        if c["kind"] == "mat":
            nd, nt = len(dense_e), len(trace_e)
            if mq is not None:
                if mq != dense_e + trace_e + diag_e and model_bug is None:
                    model_bug = (jc, "materialising model vs independent fractions evaluation of the blocks")
            for cl in r["calls"]:
                exp = {"dense": dense_e, "trace": trace_e, "diag": diag_e}[cl["op"]]
                if mq is not None:
                    exp_m = {"dense": mq[:nd], "trace": mq[nd:nd + nt], "diag": mq[nd + nt:]}[cl["op"]]
                else:
                    exp_m = exp
                sig = f"C17.{cl['handler']}.{cl['op']}"
                mism, ex = cmp_flat(cl["out"], block_shape(cl["op"], c), exp_m)
                mism_s, _ = cmp_flat(cl["out"], block_shape(cl["op"], c), exp)
                n_cmp += 1
                n_exact += bool(ex)
                if mism and mism_s:
                    ck.report(sig + ".value", f"{cl['handler']} handler, {cl['op']}: {mism} (n_in={n_in}, n_out={n_out}, d={d})",
                              {"case": jc, "impl": cl, "expected": [str(q) for q in exp]})
                mf, _ = cmp_flat(cl["fx"], (n_out, d), fx_flat)
                if mf:
                    ck.report(sig + ".fx", f"{cl['handler']} handler, {cl['op']}: function value wrong: {mf}", {"case": jc, "impl": cl})
                if cl["state0"] != cl["state1"]:
                    ck.report(sig + ".state", f"{cl['handler']}.{cl['op']} changed the handler state {cl['state0']} -> {cl['state1']} "
                              "although it draws no probes (model: state returned unchanged)", {"case": jc, "impl": cl}, nofail=True)
            continue

        # stochastic handlers
        sig = f"C17.{c['mode']}.{c['op']}"
        shape = block_shape(c["op"], c)
        exact_blk = trace_e if c["op"] == "trace" else diag_e
        if c["kind"] == "full":
            spec = exact_blk          # the property itself: the average over ALL probes is the exact block
        else:
            spec = spec_estimator(c["mode"], c["op"], J, c["probes"], n_in, n_out, d)
        if mq is not None and mq != spec and model_bug is None:
            model_bug = (jc, f"{c['kind']} model value vs independent fractions evaluation")
        mism_s, ex = cmp_flat(r["out"], shape, spec)
        mism_m, _ = cmp_flat(r["out"], shape, mq) if mq is not None else (mism_s, False)
        n_cmp += 1
        n_exact += bool(ex)
        if mism_s and mism_m:
            what = ("average over ALL sign probes differs from the exact block" if c["kind"] == "full"
                    else f"estimate on {c['num_probes']} prescribed probe(s) differs from the model")
            ck.report(sig + ".value", f"{c['mode']} handler, {c['op']}: {what}: {mism_s} (n_in={n_in}, n_out={n_out}, d={d})",
                      {"case": jc, "impl": {k: r[k] for k in ("out", "rad_calls", "keys")}, "expected": [str(q) for q in spec]})
        elif mism_m and not mism_s and model_bug is None:
            model_bug = (jc, f"implementation agrees with the independent spec but not with the Coq model: {mism_m}")
        m2, _ = cmp_flat(r["out2"], shape, spec)
        if m2 and not mism_s:
            ck.report(sig + ".second-call", f"second call (same patched probes, threaded key) differs: {m2}", {"case": jc, "impl": r})
        for tag in ("fx", "fx2"):
            mf, _ = cmp_flat(r[tag], (n_out, d), fx_flat)
            if mf:
                ck.report(sig + ".fx", f"{c['mode']} handler, {c['op']}: function value wrong: {mf}", {"case": jc, "impl": r[tag]})
        # probes requested: fresh subkey every call, right shape and dtype
        want_shape = [c["num_probes"], rows, d]
        calls = r["rad_calls"]
        if len(calls) != 2:
            ck.report(sig + ".draws", f"rademacher called {len(calls)} times in two handler calls (expected 2)", {"case": jc, "impl": calls})
        else:
            for cl in calls:
                if cl["shape"] != want_shape or cl["dtype"] != "float64":
                    ck.report(sig + ".probe-shape", f"probes requested with shape {cl['shape']} dtype {cl['dtype']}, "
                              f"model: {want_shape} float64", {"case": jc, "impl": calls})
            if calls[0]["key"] == calls[1]["key"]:
                ck.report("C17.key-not-advanced", f"{c['mode']}.{c['op']}: two consecutive calls drew their probes from the same subkey "
                          f"{calls[0]['key']}", {"case": jc, "impl": r["keys"]})
            if calls[0]["key"] in r["keys"] or calls[1]["key"] in r["keys"]:
                ck.report("C17.key-reused", f"{c['mode']}.{c['op']}: probe subkey coincides with a key handed back to the caller",
                          {"case": jc, "impl": [calls, r["keys"]]})
        k0, k1, k2 = r["keys"]
        if k0 == k1 or k1 == k2 or k0 == k2:
            ck.report("C17.key-not-advanced", f"{c['mode']}.{c['op']}: handler state does not change on every call: {k0} -> {k1} -> {k2}",
                      {"case": jc, "impl": r["keys"]})

    ck.hist["compared_blocks"] = {"n": n_cmp, "bit_exact": n_exact}
    ck.hist["model_eval_failed"] = {"n": n_evalfail}
    if n_evalfail:
        ck.notes.append(f"{n_evalfail} model evaluations timed out and were compared against the independent spec only")
    if model_bug is not None:
        jc, txt = model_bug
        ck.report("C17.correspondence", f"correspondence Run/C17Run.v vs independent evaluation broken ({txt}); the implementation "
                  "was judged against the independent evaluation", {"case": jc, "broken": "correspondence C17 (Run/C17Run.v)"}, nofail=True)
    if mvals is None:
        ck.report("C17.model-eval", "model evaluation failed (Coq)", {"notes": ck.notes, "broken": "Run/C17Run.v"}, nofail=True)
    if not pr["ok"] and not ck.violations:
        ck.report("C17.proof", f"proof obligations no longer check: {pr['errors']}",
                  {"broken": pr.get("failed_at", "Props/C17.v"), "errors": pr["errors"], "build_tail": pr.get("build_tail", "")[-1500:]},
                  nofail=True)
    ck.finish(rule="cases drawn from one PRNG: polynomial maps (n_in,d)->(n_out,d), n_in,n_out,d in 1..4 (dense random linear part + "
              "0..2 monomials of degree <= 3, coefficients k/4, optional kwarg scale), evaluation points k/4; exact Jacobian by fractions. "
              "mat = 5 handler calls per case; probe = 1..4 prescribed sign probes; full = all 2^(rows*d) probes with rows*d <= "
              f"{nmax}; val = 21 fixed + random malformed/well-formed argument pairs x 3 handlers x 4 entry points. "
              f"tolerance {TOL} * max(1,|block|) (data are dyadic: float arithmetic is exact; bit-exact count recorded). "
              "non-trivial = Jacobian has a non-zero entry off the d-diagonal (a != b) and d > 1 (single probes are then inexact), "
              "or a validator case; distinct by full input")


if __name__ == "__main__":
    main()
