"""C11 implementation runner: jet-lifting / constraint constructors of /repo through the public API.

Case kinds:
  lift      : ODE right-hand side (role "ode", k = 1..3 inputs, d outputs) or residual (role "res",
              k = 1..3 inputs, nout outputs) lifted by `lift_by` (jet_lift) or via jet_lift_max(num_tcoeffs),
              evaluated on `coords` at `t`
  fromode   : residual_from_ode(ode): plain evaluation, .jet_lift(m), and residual_from_ode(ode.jet_lift(m))
  stack     : residual_from_stack(r_i.jet_lift(m_i) ...)
  linearize : constraint_ode_ts0 / constraint_ode_ts1 of the three state-space models,
              constraint.linearize(rv, state, damp=, t=), reported in plain (A, b, Q) form per block
"""

import json
import os
import sys
import traceback
import warnings

import jax

jax.config.update("jax_enable_x64", True)
import jax.numpy as jnp  # noqa: E402
import numpy as np  # noqa: E402

import probdiffeq  # noqa: E402
from probdiffeq import probdiffeq as pdq  # noqa: E402

warnings.simplefilter("ignore")
assert probdiffeq.__file__.startswith(os.environ.get("VERIF_REPO", "/repo") + "/"), probdiffeq.__file__

sys.path.insert(0, os.path.dirname(os.path.abspath(__file__)))


def arr(x):
    return jnp.asarray(np.array(x, dtype=np.float64))


def poly_eval(monos, env):
    acc = jnp.zeros((), dtype=jnp.float64)
    for coef, exps in monos:
        term = jnp.asarray(coef, dtype=jnp.float64)
        for j, e in enumerate(exps):
            if e:
                term = term * env[j] ** e
        acc = acc + term
    return acc


def make_fun(k, d, polys):
    """(x_0, .., x_{k-1}, t) -> stack of len(polys) outputs; variables x_{j,b} at index j*d + b, t last."""

    def f(*args, t):
        env = []
        for a in args:
            env += [a[i] for i in range(d)]
        env.append(jnp.asarray(t, dtype=jnp.float64))
        return jnp.stack([poly_eval(p, env) for p in polys])

    return f


def make_ode(k, d, polys, jacobian=None):
    f = make_fun(k, d, polys)
    kw = {"jacobian": jacobian} if jacobian is not None else {}
    if k == 1:
        return pdq.ode(lambda u, /, *, t: f(u, t=t), **kw)
    if k == 2:
        return pdq.ode_order_two(lambda u, du, /, *, t: f(u, du, t=t), **kw)
    return pdq.ode_order_arbitrary(lambda *a, t: f(*a, t=t), num_tcoeffs_in_args=k, **kw)


def make_res(k, d, polys):
    f = make_fun(k, d, polys)
    if k == 1:
        return pdq.residual_position(lambda u, /, *, t: f(u, t=t))
    if k == 2:
        return pdq.residual_velocity(lambda u, du, /, *, t: f(u, du, t=t))
    if k == 3:
        return pdq.residual_acceleration(lambda u, du, ddu, /, *, t: f(u, du, ddu, t=t))
    raise RuntimeError("harness: residual order")


def vals(out):
    """list of arrays (or nested lists of arrays) -> list of flat float lists"""
    res = []
    for o in out:
        leaves = jax.tree_util.tree_leaves(o)
        res.append([float(x) for leaf in leaves for x in np.asarray(leaf, dtype=np.float64).reshape(-1)])
    return res


def guarded(fn):
    try:
        return {"out": fn()}
    except Exception as e:  # noqa: BLE001
        return {"raised": type(e).__name__, "msg": str(e)[:300], "tb": traceback.format_exc()[-800:]}


def run_lift(c):
    k, d = c["k"], c["d"]
    coords = [arr(v) for v in c["coords"]]
    t = c["t"]
    res = {}
    if c["role"] == "ode":
        obj = make_ode(k, d, c["polys"])
        res["base_sig"] = [int(obj.num_tcoeffs_in_args), [int(i) for i in obj.tcoeff_indices_output]]
        if c["via_max"] is not None:
            rec = guarded(lambda: obj.jet_lift_max(num_tcoeffs=c["via_max"]))
        else:
            rec = guarded(lambda: obj.jet_lift(lift_by=c["lift_by"]))
        if "raised" in rec:
            res["construct"] = rec
            return res
        lifted = rec["out"]
        res["sig"] = [int(lifted.num_tcoeffs_in_args), [int(i) for i in lifted.tcoeff_indices_output]]
        res["is_jet_lifted"] = bool(lifted.is_jet_lifted)
        res["call"] = guarded(lambda: vals(lifted.vector_field(jet_coords=coords, t=t)))
    else:
        obj = make_res(k, d, c["polys"])
        if c["via_max"] is not None:
            rec = guarded(lambda: obj.jet_lift_max(num_tcoeffs=c["via_max"]))
        else:
            rec = guarded(lambda: obj.jet_lift(lift_by=c["lift_by"]))
        if "raised" in rec:
            res["construct"] = rec
            return res
        lifted = rec["out"]
        res["sig"] = [int(lifted.num_tcoeffs_in_args), []]
        res["call"] = guarded(lambda: vals(lifted.residual_function(jet_coords=coords, t=t)))
    return res


def run_fromode(c):
    k, d, m = c["k"], c["d"], c["lift_by"]
    coords = [arr(v) for v in c["coords"]]
    t = c["t"]
    ode = make_ode(k, d, c["polys"])
    r = pdq.residual_from_ode(ode)
    res = {"k_res": int(r.num_tcoeffs_in_args)}
    res["plain"] = guarded(lambda: vals(r.residual_function(jet_coords=coords[: k + 1], t=t)))
    res["plain_call"] = guarded(lambda: vals([r(*coords[: k + 1], t=t)]))

    def lifted_residual():
        rl = r.jet_lift(lift_by=m)
        return [int(rl.num_tcoeffs_in_args), vals(rl.residual_function(jet_coords=coords, t=t))]

    def residual_of_lifted():
        ol = ode.jet_lift(lift_by=m)
        rr = pdq.residual_from_ode(ol)
        return [int(rr.num_tcoeffs_in_args), vals(rr.residual_function(jet_coords=coords, t=t))]

    res["lifted_residual"] = guarded(lifted_residual)
    res["residual_of_lifted"] = guarded(residual_of_lifted)
    return res


def run_stack(c):
    d = c["d"]
    coords = [arr(v) for v in c["coords"]]
    t = c["t"]
    parts = [make_res(p["k"], d, p["polys"]) if p["lift_by"] is None else make_res(p["k"], d, p["polys"]).jet_lift(lift_by=p["lift_by"])
             for p in c["parts"]]
    st = pdq.residual_from_stack(*parts)
    res = {"k_stack": int(st.num_tcoeffs_in_args)}

    def call():
        out = st.residual_function(jet_coords=coords, t=t)
        return [[x for v in vals(part) for x in v] for part in out], [len(part) for part in out]

    res["call"] = guarded(call)
    return res


def run_linearize(c):
    import gimpl

    kind, lin, k, d = c["ssm"], c["lin"], c["k"], c["d"]
    ssm = gimpl.ssm_of(kind)
    ode = make_ode(k, d, c["polys"], jacobian=pdq.jacobian_materialize())
    tcoeffs = [arr(v) for v in c["mean"]]
    rv = ssm.prior_wiener_integrated(tcoeffs).init
    constraint = ssm.constraint_ode_ts0(ode) if lin == "ts0" else ssm.constraint_ode_ts1(ode)
    state = constraint.init_linearization()
    cond, _state = constraint.linearize(rv, state, damp=c["damp"], t=c["t"])
    blocks = gimpl.cond_blocks(cond, kind)
    shapes = [[list(np.shape(b[0])), list(np.shape(b[1])), list(np.shape(b[2]))] for b in blocks]
    mean_back = [np.asarray(m, dtype=np.float64).reshape(-1).tolist() for m in rv.mean]
    return {"out": gimpl.flat_blocks_cond(blocks), "shapes": shapes, "mean_back": mean_back}


RUN = {"lift": run_lift, "fromode": run_fromode, "stack": run_stack, "linearize": run_linearize}


def main():
    cases = json.load(open(sys.argv[1]))["cases"]
    res = []
    for c in cases:
        try:
            res.append(RUN[c["kind"]](c))
        except Exception as e:  # noqa: BLE001
            res.append({"error": f"{type(e).__name__}: {e}", "tb": traceback.format_exc()[-1500:]})
    json.dump({"results": res}, open(sys.argv[2], "w"))


if __name__ == "__main__":
    main()
