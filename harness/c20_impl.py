"""C20 implementation runner: call the REAL public API of /repo on abstractly
described (possibly malformed) arguments and record what happens.

Every case is {"ep": entry point, "fact": factorisation, "args": {...}} where
data-valued arguments are abstract values (nested JSON lists):

    ["arr", [shape...], "f"|"b"|"i"]   jax array of that shape / dtype
    ["pyb"] ["pyf"] ["pyi"]            Python bool / float / int
    ["list", [v...]] ["tuple", [v...]] ["dict", [[k, v]...]]   (keys "k<k>")
    ["fun"] ["none"]                   plain Python function / None
    ["jetode", k] ["jetauto", k] ["jetres", k]   probdiffeq.ode... objects of order k
    ["markov"] ["normal"]              a MarkovSequence / a Normal of a reference solve

Recorded per case:
    construct : "accept" | exception class name   (construction / call of the entry point)
    use       : "numbers" | "nonfinite" | "empty" | exception class name | None
                (first use of an accepted object; None if the entry point has no later use)
    warned / warn_try : a UserWarning was emitted / its text names a remedy ("Try")
    msg       : first characters of the exception text

The runner fans the cases out over worker processes (spawned, one JAX each).
"""

import json
import os
import sys
import warnings


def _setup():
    import jax

    jax.config.update("jax_enable_x64", True)
    import probdiffeq  # noqa: F401

    assert probdiffeq.__file__.startswith(os.environ.get("VERIF_REPO", "/repo") + "/"), probdiffeq.__file__


# ----------------------------------------------------------------- values
def _vf1(y, /, *, t):
    import jax

    return jax.tree.map(lambda s: -s, y)


def _vf2(y, dy, /, *, t):
    import jax

    return jax.tree.map(lambda s: -s, y)


def _auto(*ys):
    import jax

    return jax.tree.map(lambda s: -0.5 * s, ys[-1])


def build(av, ctx=None):
    """Abstract value -> Python object."""
    import jax.numpy as jnp
    from probdiffeq import probdiffeq as pdq

    k = av[0]
    if k == "arr":
        shape, dt = tuple(av[1]), av[2]
        if dt == "b":
            return jnp.ones(shape, dtype=bool)
        if dt == "i":
            return jnp.ones(shape, dtype=jnp.int64)
        return 0.5 * jnp.ones(shape, dtype=jnp.float64)
    if k == "pyb":
        return True
    if k == "pyf":
        return 0.5
    if k == "pyi":
        return 1
    if k == "list":
        return [build(x, ctx) for x in av[1]]
    if k == "tuple":
        return tuple(build(x, ctx) for x in av[1])
    if k == "dict":
        return {f"k{kk}": build(x, ctx) for kk, x in av[1]}
    if k == "fun":
        return _vf1
    if k == "none":
        return None
    if k == "jetode":
        n = av[1]
        if n == 1:
            return pdq.ode(_vf1, jacobian=pdq.jacobian_materialize())
        if n == 2:
            return pdq.ode_order_two(_vf2, jacobian=pdq.jacobian_materialize())
        return pdq.ode_order_arbitrary(lambda *ys, t: _auto(*ys), num_tcoeffs_in_args=n,
                                       jacobian=pdq.jacobian_materialize())
    if k == "jetauto":
        n = av[1]
        return pdq.ode_autonomous_order_arbitrary(_auto, num_tcoeffs_in_args=n)
    if k == "jetres":
        n = av[1]
        if n == 1:
            return pdq.residual_position(lambda y, *, t: y, jacobian=pdq.jacobian_materialize())
        if n == 2:
            return pdq.residual_velocity(lambda y, dy, *, t: _tm_add(dy, y), jacobian=pdq.jacobian_materialize())
        return pdq.residual_acceleration(lambda y, dy, ddy, *, t: _tm_add(ddy, y), jacobian=pdq.jacobian_materialize())
    if k == "markov":
        return ctx["markov"]
    if k == "normal":
        return ctx["normal"]
    raise KeyError(k)


def _tm_add(a, b):
    import jax

    return jax.tree.map(lambda x, y: x + y, a, b)


def make_ssm(fact):
    from probdiffeq import probdiffeq as pdq
    import jax

    if fact == "dense":
        return pdq.state_space_model_dense()
    if fact == "isotropic":
        return pdq.state_space_model_isotropic()
    if fact == "blockdiag":
        return pdq.state_space_model_blockdiag()
    if fact == "matfree":
        return pdq.state_space_model_matfree(key=jax.random.PRNGKey(1), num_ensembles=8)
    raise KeyError(fact)


def numbers_of(obj):
    """'numbers' iff obj contains at least one non-empty numeric array and all are finite."""
    import jax
    import jax.numpy as jnp
    import numpy as onp

    leaves = jax.tree.leaves(obj)
    n = 0
    finite = True
    for leaf in leaves:
        try:
            a = onp.asarray(leaf)
        except Exception:  # noqa: BLE001
            continue
        if a.dtype.kind in "fiub" and a.size > 0:
            n += 1
            if a.dtype.kind == "f" and not onp.all(onp.isfinite(a)):
                finite = False
    del jnp
    if n == 0:
        return "empty"
    return "numbers" if finite else "nonfinite"


# ------------------------------------------------------------ entry points
def cal_scale(fact, prior):
    """A VALID calibrated output scale for the prior (shape of prior.output_scale for blockdiag)."""
    import jax.numpy as jnp

    if fact in ("blockdiag", "matfree"):
        return jnp.ones(prior.output_scale.shape)
    return jnp.ones(())


def use_prior(fact, prior):
    """First use of a prior: the transition, applied to the initial mean, and one fixed-grid solver step."""
    import jax.numpy as jnp
    from probdiffeq import ivpsolve
    from probdiffeq import probdiffeq as pdq

    cal = cal_scale(fact, prior)
    if fact == "isotropic":
        cond = prior.transition(0.1, cal)
    else:
        cond = prior.transition(dt=0.1, output_scale=cal)
    rv = cond.apply_flat(prior.init.mean_flat)
    out = [rv.mean_flat, rv.cholesky_flat]
    ssm = make_ssm(fact)
    vf = pdq.ode(_vf1, jacobian=pdq.jacobian_materialize())
    n = len(prior.init.mean)
    if n >= 2:
        ts0 = ssm.constraint_ode_ts0(vf)
        solver = pdq.solver(strategy=pdq.strategy_filter(), constraint=ts0)
        solve = ivpsolve.solve_fixed_grid(solver=solver)
        sol = solve(prior, grid=jnp.asarray([0.0, 0.1]))
        out.append(sol.u.mean)
        out.append(sol.u.std)
    return out


def ep_verify(fact, a, ctx):
    from probdiffeq import probdiffeq as pdq

    pdq.verify_taylor_coefficient_pytree(build(a["x"]))
    return None, None


def _prior_kwargs(a):
    kw = {}
    if "is_exact" in a:
        kw["is_exact"] = build(a["is_exact"])
    if "scale" in a:
        kw["output_scale"] = build(a["scale"])
    return kw


def ep_prior_iwp(fact, a, ctx):
    ssm = make_ssm(fact)
    prior = ssm.prior_wiener_integrated(build(a["tcoeffs"]), **_prior_kwargs(a))
    return prior, lambda: use_prior(fact, prior)


def ep_prior_iwp_diffuse(fact, a, ctx):
    ssm = make_ssm(fact)
    prior = ssm.prior_wiener_integrated_diffuse(build(a["mean"]), build(a["std"]), **_prior_kwargs(a))
    return prior, lambda: use_prior(fact, prior)


def ep_prior_exp(fact, a, ctx):
    ssm = make_ssm(fact)
    prior = ssm.prior_exponential(build(a["ode"]), build(a["tcoeffs"]), **_prior_kwargs(a))
    return prior, lambda: use_prior(fact, prior)


def ep_prior_ioup(fact, a, ctx):
    import jax

    ssm = make_ssm(fact)
    prior = ssm.prior_ornstein_uhlenbeck_integrated(lambda s: jax.tree.map(lambda x: -0.5 * x, s),
                                                    build(a["tcoeffs"]), **_prior_kwargs(a))
    return prior, lambda: use_prior(fact, prior)


def ep_prior_matern(fact, a, ctx):
    ssm = make_ssm(fact)
    prior = ssm.prior_matern(1.5, build(a["tcoeffs"]), **_prior_kwargs(a))
    return prior, lambda: use_prior(fact, prior)


def ep_transition(fact, a, ctx):
    ssm = make_ssm(fact)
    tc = build(a["tcoeffs"])
    if a.get("prior", "iwp") == "iwp":
        prior = ssm.prior_wiener_integrated(tc)
    else:
        prior = ssm.prior_exponential(build(["jetauto", len(tc)]), tc)
    cal = build(a["cal"])
    if fact == "isotropic":
        cond = prior.transition(0.1, cal)
    else:
        cond = prior.transition(dt=0.1, output_scale=cal)
    return cond, lambda: cond.apply_flat(prior.init.mean_flat)


def _use_constraint(fact, constraint, n=3, d=2):
    import jax.numpy as jnp

    ssm = make_ssm(fact)
    prior = ssm.prior_wiener_integrated([0.5 * jnp.ones((d,)) for _ in range(n)])
    cstate = constraint.init_linearization()
    fx, _ = constraint.linearize(prior.init, cstate, damp=0.0, t=0.0)
    return fx


def ep_constraint_ts0(fact, a, ctx):
    ssm = make_ssm(fact)
    c = ssm.constraint_ode_ts0(build(a["obj"]))
    return c, lambda: _use_constraint(fact, c)


def ep_constraint_ts1(fact, a, ctx):
    ssm = make_ssm(fact)
    c = ssm.constraint_ode_ts1(build(a["obj"]))
    return c, lambda: _use_constraint(fact, c)


def ep_constraint_residual(fact, a, ctx):
    ssm = make_ssm(fact)
    c = ssm.constraint_residual(build(a["obj"]))
    return c, lambda: _use_constraint(fact, c)


def ep_jetexpand(fact, a, ctx):
    import jax.numpy as jnp
    from probdiffeq import probdiffeq as pdq

    if a["alg"] == "doubling_unroll":
        alg = pdq.jetexpand_ode_doubling_unroll(num_doublings=1)
    else:
        alg = getattr(pdq, "jetexpand_ode_" + a["alg"])(num=2)
    vf = build(a["vf"])
    k = a["vf"][1] if a["vf"][0] in ("jetode", "jetauto", "jetres") else 1
    out = alg(vf, [0.5 * jnp.ones((2,)) for _ in range(k)], t=0.0)
    return out, None


def _lift_by(v):
    if v == "float":
        return 1.0
    if v == "none":
        return None
    if v == "str":
        return "1"
    return int(v)


def ep_lift_residual(fact, a, ctx):
    import jax.numpy as jnp
    from probdiffeq import probdiffeq as pdq

    ssm = make_ssm(fact)
    res = build(["jetres", a["k"]])
    lifted = res.jet_lift(lift_by=_lift_by(a["lift_by"]))
    c = ssm.constraint_residual(lifted)

    def use():
        prior = ssm.prior_wiener_integrated([0.5 * jnp.ones((2,)) for _ in range(a["n"])])
        cstate = c.init_linearization()
        fx, _ = c.linearize(prior.init, cstate, damp=0.0, t=0.0)
        return fx

    return c, use


def ep_lift_ode(fact, a, ctx):
    import jax.numpy as jnp

    ssm = make_ssm(fact)
    ode = build(["jetode", a["k"]])
    lifted = ode.jet_lift(lift_by=_lift_by(a["lift_by"]))
    c = ssm.constraint_ode_ts1(lifted)

    def use():
        prior = ssm.prior_wiener_integrated([0.5 * jnp.ones((2,)) for _ in range(a["n"])])
        cstate = c.init_linearization()
        fx, _ = c.linearize(prior.init, cstate, damp=0.0, t=0.0)
        return fx

    return c, use


def _reference_solution(fact, tcoeffs_av, smoother):
    """A short real solve (fixed grid, 3 points) giving marginals / a MarkovSequence posterior."""
    import jax.numpy as jnp
    from probdiffeq import ivpsolve
    from probdiffeq import probdiffeq as pdq

    ssm = make_ssm(fact)
    vf = pdq.ode(_vf1, jacobian=pdq.jacobian_materialize())
    prior = ssm.prior_wiener_integrated(build(tcoeffs_av))
    ts0 = ssm.constraint_ode_ts0(vf)
    strategy = pdq.strategy_smoother_fixedinterval() if smoother else pdq.strategy_filter()
    solver = pdq.solver(strategy=strategy, constraint=ts0)
    solve = ivpsolve.solve_fixed_grid(solver=solver)
    return solve(prior, grid=jnp.asarray([0.0, 0.1, 0.2]))


_REF = {}


def reference(fact, tcoeffs_av, smoother):
    key = (fact, json.dumps(tcoeffs_av), smoother)
    if key not in _REF:
        with warnings.catch_warnings():
            warnings.simplefilter("ignore")
            _REF[key] = _reference_solution(fact, tcoeffs_av, smoother)
    return _REF[key]


def ep_loss_terminal(fact, a, ctx):
    import jax
    from probdiffeq import probdiffeq as pdq

    ssm = make_ssm(fact)
    prior = ssm.prior_wiener_integrated(build(a["tcoeffs"]), is_exact=False)
    marginals = prior.init
    loss = pdq.loss_lml_terminal_values()
    u = jax.tree.map(lambda s: s, marginals.mean[0])
    if callable(build(a["std"])):
        return loss(u, marginals=marginals, std=build(a["std"])), None
    # jit as in the library's own tests: the checks run at trace time (same exceptions)
    val = jax.jit(loss)(u, marginals=marginals, std=build(a["std"]))
    return val, None


def ep_loss_timeseries(fact, a, ctx):
    from probdiffeq import probdiffeq as pdq

    sol = reference(fact, a["tcoeffs"], True)
    ctx = {"markov": sol.solution_full.posterior, "normal": sol.u}
    loss = pdq.loss_lml_timeseries()
    u = sol.u.mean[0]
    post = build(a["posterior"], ctx)
    std = build(a["std"])
    if callable(post) or callable(std) or post is None:
        val = loss(u, posterior=post, std=std)  # functions are not jit arguments
    else:
        import jax

        val = jax.jit(loss)(u, posterior=post, std=std)
    return val, None


def ep_error_residual(fact, a, ctx):
    """error_residual_std on a residual constraint with m rows for a state with d entries."""
    import jax.numpy as jnp
    from probdiffeq import ivpsolve
    from probdiffeq import probdiffeq as pdq

    ssm = make_ssm(fact)
    d, m = a["d"], a["m"]

    def resid(y, dy, /, *, t):
        full = dy + y
        if m == "same":
            return full
        if m == 0:
            return jnp.sum(full)  # shape ()
        reps = -(-m // d)
        return jnp.concatenate([full] * reps)[:m]

    res = pdq.residual_velocity(resid, jacobian=pdq.jacobian_materialize())
    c = ssm.constraint_residual(res)
    error = pdq.error_residual_std(constraint=c)

    def use():
        # first use of the estimator: one solver step and one error estimate
        prior = ssm.prior_wiener_integrated([0.5 * jnp.ones((d,)) for _ in range(3)])
        solver = pdq.solver(strategy=pdq.strategy_filter(), constraint=c)
        s0 = solver.init(t=jnp.asarray(0.0), u=prior, damp=0.0)
        s1 = solver.step(state=s0, dt=0.05, damp=0.0)
        power, _ = error.estimate_error_norm(error.init_error(), s0, s1, dt=0.05, atol=1e-2, rtol=1e-2, damp=0.0)
        return [power, s1.u.mean, s1.u.std]

    return error, use


def ep_matfree_ens(fact, a, ctx):
    import jax
    import jax.numpy as jnp
    from probdiffeq import ivpsolve
    from probdiffeq import probdiffeq as pdq

    ssm = pdq.state_space_model_matfree(key=jax.random.PRNGKey(3), num_ensembles=a["S"])
    vf = pdq.ode(_vf1)

    def use():
        prior = ssm.prior_wiener_integrated([0.5 * jnp.ones((2,)) for _ in range(a["n"])])
        c = ssm.constraint_ode_ts1(vf)
        solver = pdq.solver(strategy=pdq.strategy_filter(), constraint=c)
        solve = ivpsolve.solve_fixed_grid(solver=solver)
        sol = solve(prior, grid=jnp.asarray([0.0, 0.05]))
        return [sol.u.mean, sol.u.std]

    return ssm, use


def ep_warn(fact, a, ctx):
    from probdiffeq import ivpsolve
    from probdiffeq import probdiffeq as pdq
    from probdiffeq.util import test_util

    ssm = make_ssm(fact)
    vf = pdq.ode(_vf1)
    ts0 = ssm.constraint_ode_ts0(vf)
    strategy = getattr(pdq, "strategy_" + a["strategy"])()
    solver_f = getattr(pdq, a.get("solver", "solver"))
    solver = solver_f(strategy=strategy, constraint=ts0)
    error = pdq.error_residual_std(constraint=ts0)
    r = a["routine"]
    if r == "save_at":
        s = ivpsolve.solve_adaptive_save_at(solver=solver, error=error)
    elif r == "save_at_nowarn":
        s = ivpsolve.solve_adaptive_save_at(solver=solver, error=error, warn=False)
    elif r == "terminal_values":
        s = ivpsolve.solve_adaptive_terminal_values(solver=solver, error=error)
    elif r == "fixed_grid":
        s = ivpsolve.solve_fixed_grid(solver=solver)
    elif r == "save_every_step":
        s = test_util.solve_adaptive_save_every_step(solver=solver, error=error)
    else:
        raise KeyError(r)
    return s, None


EPS = {
    "verify": ep_verify, "prior_iwp": ep_prior_iwp, "prior_iwp_diffuse": ep_prior_iwp_diffuse,
    "prior_exp": ep_prior_exp, "prior_ioup": ep_prior_ioup, "prior_matern": ep_prior_matern,
    "transition": ep_transition, "constraint_ts0": ep_constraint_ts0, "constraint_ts1": ep_constraint_ts1,
    "constraint_residual": ep_constraint_residual, "jetexpand": ep_jetexpand,
    "lift_residual": ep_lift_residual, "lift_ode": ep_lift_ode, "loss_terminal": ep_loss_terminal,
    "loss_timeseries": ep_loss_timeseries, "error_residual": ep_error_residual,
    "matfree_ens": ep_matfree_ens, "warn": ep_warn,
}


def _exc(e):
    return type(e).__name__, str(e)[:160].replace("\n", " ")


def run_case(c):
    import time

    t0 = time.time()
    out = {"construct": None, "use": None, "warned": False, "warn_try": False, "msg": ""}
    with warnings.catch_warnings(record=True) as wlist:
        warnings.simplefilter("always")
        try:
            obj, use = EPS[c["ep"]](c["fact"], c["args"], None)
            out["construct"] = "accept"
        except Exception as e:  # noqa: BLE001
            out["construct"], out["msg"] = _exc(e)
            obj, use = None, None
        if out["construct"] == "accept":
            if use is None:
                out["use"] = numbers_of(obj) if obj is not None else None
            elif c.get("use", True):
                try:
                    out["use"] = numbers_of(use())
                except Exception as e:  # noqa: BLE001
                    out["use"], out["msg"] = _exc(e)
    for w in wlist:
        if issubclass(w.category, UserWarning) and "probdiffeq" in str(w.filename):
            out["warned"] = True
            out["warn_try"] = out["warn_try"] or ("Try" in str(w.message))
            out["wmsg"] = str(w.message)[-120:]
    out["dt"] = round(time.time() - t0, 3)
    return out


def run_slice(cases):
    _setup()
    res = []
    for c in cases:
        try:
            res.append(run_case(c))
        except Exception as e:  # noqa: BLE001
            res.append({"runner_error": f"{type(e).__name__}: {e}"[:300]})
    return res


def main():
    payload = json.load(open(sys.argv[1]))
    cases = payload["cases"]
    jobs = int(payload.get("jobs", 14))
    if jobs <= 1 or len(cases) < 40:
        res = run_slice(cases)
    else:
        import concurrent.futures as cf
        import multiprocessing as mp

        # interleave so that every worker gets a similar mix; cases sharing a reference
        # solve (time-series loss) stay on one worker
        import zlib

        owner = []
        for i, c in enumerate(cases):
            if c["ep"] == "loss_timeseries":
                owner.append(zlib.crc32(json.dumps([c["fact"], c["args"]["tcoeffs"]]).encode()) % jobs)
            else:
                owner.append(i % jobs)
        idx = [[i for i in range(len(cases)) if owner[i] == w] for w in range(jobs)]
        slices = [[cases[i] for i in ix] for ix in idx]
        with cf.ProcessPoolExecutor(max_workers=jobs, mp_context=mp.get_context("spawn")) as ex:
            parts = list(ex.map(run_slice, slices))
        res = [None] * len(cases)
        for ix, part in zip(idx, parts):
            for i, r in zip(ix, part):
                res[i] = r
    json.dump({"results": res}, open(sys.argv[2], "w"))


if __name__ == "__main__":
    main()
