"""C05 check: checkpoint values do not depend on the checkpoint set; they interpolate exactly."""

from __future__ import annotations

import copy
import json
import math
import os
import sys
from fractions import Fraction as Fr

sys.path.insert(0, os.path.dirname(os.path.abspath(__file__)))
import gen  # noqa: E402
import lib  # noqa: E402
import traj  # noqa: E402

RTOL = 1e-6
HEADER = gen.HEADER.replace("Model.Solver", "Model.Solver Model.Error")


def tame(c):
    """Scale the polynomial field so that solutions stay O(1) on short horizons."""
    c["f"] = [[[Fr(cf) / 4, ex] for cf, ex in p] for p in c["f"]]
    return c


# ---------------------------------------------------------------- (1) one-step refinement of interpolate_fwd
def post_of(c, enc):
    """encoded posterior -> (list of normals, list of plain conds or None)"""
    normals = [traj.impl_normal(b) for b in enc["pm"]]
    conds = None if enc["cond"] is None else [traj.impl_cond_plain(b) for b in enc["cond"]]
    return normals, conds


def compare_post(c, mv, k0, enc, where, ref=None):
    """ref: encoded normals (blocks) of a neighbouring state: the size of the space the backward models map into"""
    N, cc, nb = gen.shape_dims(c["kind"], c["q"], c["d"])
    # backward gains over a fraction of a step have entries ~(1/h)^q (1e9..1e10 for q = 5): conditioning grows with q
    rt_bw = 2e-6 * (4.0 ** max(0, c["q"] - 3))
    normals, conds = post_of(c, enc)
    mm, k = gen.split_normals(mv[k0:], N, cc, nb)
    k += k0
    for a in range(nb):
        mism, _w = gen.compare_normal(normals[a], mm[a], RTOL, where=f"{where} marginal block {a}")
        if mism:
            return mism, k
    if c["strat"] != "filter":
        mc, k = traj.split_conds(mv, N, cc, nb, k)
        for a in range(nb):
            mism, _w = gen.compare_cond_plain(conds[a], mc[a], rt_bw, where=f"{where} backward model block {a}",
                                             marg=(traj.impl_normal(ref[a]) if ref is not None else normals[a]))
            if mism:
                return mism, k
    return None, k


def interp_refinement(ck, n, pid="C05", calibs=None, book_only=False):
    """one-step refinement of solver.interpolate_fwd; also used by the C04 check (pid="C04", book_only) for the reported scale"""
    cases = []
    kw = {} if calibs is None else {"calibs": calibs}
    for _ in range(n):
        c = gen.gen_solver_case(ck.rng, ck.tier, strats=("filter", "fixedinterval", "fixedpoint"), qmax=3,
                                max_steps=3, **kw)
        c["routine"] = "interp"
        grid = c["grid"]
        ia = []
        for k in range(len(grid) - 1):
            if ck.rng.random() < 0.7:
                fr = ck.rng.choice([Fr(1, 2), Fr(1, 4), Fr(3, 4), Fr(1, 16), Fr(15, 16)])
                ia.append([k, grid[k] + fr * (grid[k + 1] - grid[k])])
        if not ia:
            ia.append([0, grid[0] + (grid[1] - grid[0]) / 2])
        c["interp_at"] = ia
        cases.append(c)
    ires = lib.run_impl("solve_impl.py", {"cases": [gen.floatable(c) for c in cases]}, timeout=3000)["results"]
    emit, meta = [], []
    for i, c in enumerate(cases):
        r = ires[i]
        jc = gen.jsonable(c)
        ck.count("interp:" + json.dumps(jc, sort_keys=True), nontrivial=True,
                 sample={"interp": {k: jc[k] for k in ("kind", "q", "d", "strat", "calib", "grid", "interp_at")}},
                 i_kind=c["kind"], i_strat=c["strat"], i_calib=c["calib"])
        if "error" in r:
            ck.report(f"{pid}.{c['kind']}.exception", f"implementation raised {r['error']}", {"case": jc, "impl": r})
            continue
        if c["calib"].startswith("dyn") and any((not (abs(x) >= 1e-9)) for st in r["states"][1:] for x in st["out"]):
            continue   # degenerate dynamic scale (see spec_check)
        for j, (k, t) in enumerate(c["interp_at"]):
            emit.append(lambda c=c, a=r["states"][k], b=r["states"][k + 1], t=t:
                        f"interp_run {gen.coq_config(c)} {gen.coq_state(c, a)} {gen.coq_state(c, b)} {lib.qclit(t)}")
            meta.append((i, j))
    try:
        mres, x = lib.dual_eval(pid + "i", HEADER, emit, sample=2, shard=25)
        ck.hist["ocaml_vs_coq_crosscheck(interp)"] = x
    except RuntimeError as e:
        ck.report(f"{pid}.model-eval", "model evaluation failed", {"err": str(e)[:1500], "broken": "Run/GenRun.v g_interp"}, nofail=True)
        return
    skipped = 0
    for (i, j), v in zip(meta, mres):
        c = cases[i]
        mv = lib.decode_optQ(v)
        if mv is None:
            skipped += 1
            continue
        ip = ires[i]["interps"][j]
        k, t = c["interp_at"][j]
        tk1 = float(c["grid"][k + 1])
        if not (abs(ip["times"][0] - float(t)) < 1e-12 and abs(ip["times"][1] - tk1) < 1e-12 and abs(ip["times"][2] - float(t)) < 1e-12):
            ck.report(f"{pid}.{c['kind']}.{c['strat']}.interp.times", f"interpolation returns states at times {ip['times']}, expected t={float(t)}, t1={tk1}, t",
                      {"case": gen.jsonable(c)})
            continue
        pos = 0
        bad = False
        for name in ("interpolated", "step_from", "interp_from"):
            mism, pos = compare_post(c, mv, pos, ip[name], f"interpolate_fwd(t={float(t)}) {name}", ref=ires[i]["states"][k]["u"])
            if mism and not book_only:
                ck.report(f"{pid}.{c['kind']}.{c['strat']}.interp.{name}", f"{c['kind']}/{c['strat']}/{c['calib']}: {mism}",
                          {"case": gen.jsonable(c), "mismatch": mism, "k": k, "t": str(t)})
                bad = True
                break
        if bad:
            continue
        # bookkeeping of the three returned states: reported output scale (model carries squares) and step counter
        nsc = len(ip["book"][0]["out"])
        for name, bk in zip(("interpolated", "step_from", "interp_from"), ip["book"]):
            m_out2 = [float(x) for x in mv[pos:pos + nsc]]
            m_nst = int(mv[pos + nsc])
            pos += nsc + 1
            i_out2 = [x * x for x in bk["out"]]
            if any(abs(a - b) > 1e-9 * max(abs(a), abs(b)) + 1e-300 for a, b in zip(i_out2, m_out2)) or bk["nsteps"] != m_nst:
                ck.report(f"{pid}.{c['kind']}.{c['strat']}.{c['calib']}.interp.reported-scale",
                          f"{c['kind']}/{c['strat']}/{c['calib']}: interpolate_fwd(t={float(t)}) in the step ({float(c['grid'][k])}, {tk1}]: the {name} state reports "
                          f"output_scale={bk['out']} num_steps={bk['nsteps']}; documented (scale of the step the marginal was computed with / carried state): "
                          f"{[math.sqrt(x) for x in m_out2]} num_steps={m_nst}",
                          {"case": gen.jsonable(c), "k": k, "t": str(t), "state": name, "impl": bk, "model_out2": m_out2, "model_nsteps": m_nst})
                break
    ck.hist["interp_skipped(singular or timeout)"] = {"n": skipped}


# ---------------------------------------------------------------- (2) exact interpolation: union-grid specification
def union_nodes(t0, steps, cps):
    """Merge step ends and checkpoints. Returns list of (time, step_index or None, is_checkpoint)."""
    ends = []
    t = t0
    for dt in steps:
        t = t + dt
        ends.append(t)
    times = sorted(set(ends) | set(cps))
    out = []
    for tt in times:
        out.append((tt, ends.index(tt) if tt in ends else None, tt in cps))
    return out, ends


def steps_needed(t0, dts, t_end, eps):
    steps, t, i = [], t0, 0
    while t + eps < t_end:
        dt = dts[min(i, len(dts) - 1)]
        steps.append(dt)
        t += dt
        i += 1
    return steps


def spec_cases(ck, n):
    cases = []
    for _ in range(n):
        mode = ck.rng.choice(["save_at", "save_at", "offgrid"])
        strat = ck.rng.choice(["filter", "fixedpoint"]) if mode == "save_at" else ck.rng.choice(["filter", "fixedinterval"])
        c = gen.gen_solver_case(ck.rng, ck.tier, strats=(strat,), qmax=3, max_steps=2, calibs=("none", "dyn", "dyn_relin", "mle", "mle_nocorr"))
        tame(c)
        if c["init_mode"] == "exact" and strat != "filter":
            c["init_mode"] = "inexact"
            c["std"] = [Fr(1, 64)] * (c["q"] + 1) if c["kind"] == "iso" else [[Fr(1, 64)] * c["d"] for _ in range(c["q"] + 1)]
        t0 = c["grid"][0]
        dts = [Fr(ck.rng.choice([1, 2, 3, 4, 6]), 16) for _ in range(6)]
        ncp = ck.rng.randint(1, 4)
        cps, t = [], t0
        for _ in range(ncp):
            t = t + Fr(ck.rng.choice([1, 2, 3, 5, 8]), 32)
            cps.append(t)
        if ck.rng.random() < 0.3:
            # place one checkpoint exactly on a step end
            acc = t0
            for dt in dts[:2]:
                acc += dt
            if acc > t0 and acc not in cps and acc < cps[-1]:
                cps = sorted(cps + [acc])
        eps = Fr(1, 2 ** 30)
        if mode == "save_at":
            save_at = [t0] + cps
            steps = steps_needed(t0, dts, save_at[-1], eps)
            c["scripted"] = {"mode": "save_at", "dts": dts, "save_at": save_at, "steps_taken": steps, "eps": eps}
        else:
            t1 = t0 + sum(dts[:3])
            steps = dts[:3]
            ends = [t0 + sum(dts[:i + 1]) for i in range(3)]
            off = [x for x in cps if t0 < x < t1 and x not in ends][:3]
            if not off:
                off = [t0 + dts[0] / 2]
            c["scripted"] = {"mode": "offgrid", "dts": dts, "save_at": [t0, t1], "steps_taken": steps, "offgrid": off, "eps": eps}
        c["routine"] = "scripted"
        cases.append(c)
    return cases


def coq_spec_union(c, r):
    sc = c["scripted"]
    kind, d = c["kind"], c["d"]
    nb = d if kind == "blockdiag" else 1
    t0 = sc["save_at"][0]
    cps = sc["save_at"][1:] if sc["mode"] == "save_at" else sc["offgrid"]
    nodes, ends = union_nodes(t0, sc["steps_taken"], cps)
    states = r["states"]
    # per-interval transition scale^2: the output scale of the state at the END of the step containing the node
    terms = []
    prev_t = t0
    for (tt, si, _is_cp) in nodes:
        # the step interval containing tt
        kstep = next(i for i, e in enumerate(ends) if tt <= e)
        out = states[kstep + 1]["out"]
        out2 = [Fr(x) ** 2 for x in out]
        if len(out2) < nb:
            out2 = out2 * nb
        filt = "None" if si is None else "(Some [" + "; ".join(gen.coq_raw_normal(b) for b in states[si + 1]["u"]) + "])"
        terms.append(f"(({lib.qclit(tt - prev_t)}, {lib.qclist(out2)}), {filt})")
        prev_t = tt
    # final calibrated scale (MLE): taken from the implementation's report (its correctness is C04's subject)
    if c["calib"] in ("mle", "mle_nocorr"):
        osc = r["output_scale"][-1]
        sc2 = [Fr(x) ** 2 for x in osc]
        if len(sc2) < nb:
            sc2 = sc2 * nb
    else:
        sc2 = [Fr(1)] * nb
    f0 = "[" + "; ".join(gen.coq_raw_normal(b) for b in states[0]["u"]) + "]"
    smooth = c["strat"] != "filter"
    term = f"spec_union_run {gen.coq_config(c)} {lib.qclist(sc2)} {f0} [" + "; ".join(terms) + f"] {lib.coq_bool(smooth)}"
    return term, nodes


def spec_check(ck, n):
    cases = spec_cases(ck, n)
    ires = lib.run_impl("solve_impl.py", {"cases": [gen.floatable(c) for c in cases]}, timeout=3000)["results"]
    emit, idx, nodes_of = [], [], {}
    degenerate = 0
    for i, c in enumerate(cases):
        r = ires[i]
        jc = gen.jsonable(c)
        sc = c["scripted"]
        ck.count("spec:" + json.dumps(jc, sort_keys=True), nontrivial=True,
                 sample={"exact-interpolation": {k: jc[k] for k in ("kind", "q", "d", "strat", "calib", "scripted")}},
                 s_kind=c["kind"], s_strat=c["strat"], s_calib=c["calib"], s_mode=sc["mode"], s_checkpoints=len(sc["save_at"]) - 1)
        if "error" in r:
            ck.report(f"C05.{c['kind']}.exception", f"implementation raised {r['error']}", {"case": jc, "impl": r})
            continue
        # dynamic calibration with an (essentially) zero local scale: the predicted covariance is singular, backward gains are 0/0
        # and the "exact interpolation" is not defined (same exclusion as traj.check_trajectories)
        if c["calib"].startswith("dyn") and any((not (abs(x) >= 1e-9)) for st in r["states"][1:] for x in st["out"]):
            degenerate += 1
            continue
        _t, nodes = coq_spec_union(c, r)
        nodes_of[i] = nodes
        emit.append(lambda c=c, r=r: coq_spec_union(c, r)[0])
        idx.append(i)
    try:
        mres, _x = lib.dual_eval("C05s", HEADER, emit, sample=1, shard=20)
    except RuntimeError as e:
        ck.report("C05.model-eval", "spec evaluation failed", {"err": str(e)[:1500], "broken": "Run/GenRun.v g_spec_union"}, nofail=True)
        return
    skipped = 0
    for i, v in zip(idx, mres):
        c = cases[i]
        r = ires[i]
        sc = c["scripted"]
        mv = lib.decode_optQ(v)
        if mv is None:
            skipped += 1
            continue
        N, cc, nb = gen.shape_dims(c["kind"], c["q"], c["d"])
        nodes = nodes_of[i]
        mm, _ = gen.split_normals(mv, N, cc, (len(nodes) + 1) * nb)   # node 0 = t0
        if sc["mode"] == "save_at":
            want_times = sc["save_at"]
            got, _ = gen.split_normals(r["out"], N, cc, len(want_times) * nb)
        else:
            want_times = sc["offgrid"]
            got, _ = gen.split_normals(r["offgrid"], N, cc, len(want_times) * nb)
        node_times = [sc["save_at"][0]] + [t for (t, _s, _c) in nodes]
        for j, tt in enumerate(want_times):
            ni = node_times.index(tt)
            bad = None
            for a in range(nb):
                mism, _w = gen.compare_normal(got[j * nb + a], mm[ni * nb + a], RTOL, where=f"t={float(tt)} block {a}")
                if mism:
                    bad = mism
                    break
            if bad:
                what = "checkpoint value" if sc["mode"] == "save_at" else "offgrid marginal"
                ck.report(f"C05.{c['kind']}.{c['strat']}.exact-interpolation.{sc['mode']}",
                          f"{c['kind']}/{c['strat']}/{c['calib']}: {what} differs from the exact Gaussian interpolation of the step sequence: {bad}",
                          {"case": gen.jsonable(c), "mismatch": bad, "time": str(tt)})
                break
    ck.hist["spec_skipped(singular or timeout)"] = {"n": skipped}
    ck.hist["spec_degenerate_dynamic_scale_skipped"] = {"n": degenerate}


# ---------------------------------------------------------------- (3) checkpoint-set independence, (4) terminal values
def subset_check(ck, n):
    cases, runs = [], []
    for _ in range(n):
        c = gen.gen_solver_case(ck.rng, ck.tier, strats=("filter", "fixedpoint"), qmax=4, max_steps=2)
        c["routine"] = "adaptive"
        c["damp"] = Fr(0)
        t0 = c["grid"][0]
        t1 = t0 + Fr(ck.rng.choice([1, 2, 3]), 2)
        # no finite-time blow-up on [t0, t1] (an adaptive solve of a blowing-up solution never terminates)
        gen.bound_field(c, max(abs(t0), abs(t1)) + (t1 - t0))
        inner = sorted({t0 + (t1 - t0) * Fr(ck.rng.randint(1, 63), 64) for _ in range(ck.rng.randint(2, 7))})
        if ck.rng.random() < 0.4 and len(inner) >= 2:
            inner.append(inner[0] + Fr(1, 2 ** 40))       # two checkpoints closer than eps
            inner = sorted(set(inner))
        B = [t0] + inner + [t1]
        A = [t0] + sorted(ck.rng.sample(inner, max(1, len(inner) // 2))) + [t1]
        tol = 10.0 ** -ck.rng.randint(2, 6)
        ad = {"mode": "save_at", "atol": tol * 0.1, "rtol": tol, "dt0": float(Fr(1, ck.rng.choice([4, 16, 64]))), "clip": False,
              "control": ck.rng.choice([None, "i", "pi"])}
        ca, cb, ct = copy.deepcopy(c), copy.deepcopy(c), copy.deepcopy(c)
        ca["adaptive"] = dict(ad, save_at=A)
        cb["adaptive"] = dict(ad, save_at=B)
        ct["adaptive"] = dict(ad, save_at=[t0, t1], mode="terminal", clip=False)
        cases.append((c, A, B))
        runs += [gen.floatable(ca), gen.floatable(cb), gen.floatable(ct)]
    ires = lib.run_impl("solve_impl.py", {"cases": runs}, timeout=3000)["results"]
    for i, (c, A, B) in enumerate(cases):
        ra, rb, rt = ires[3 * i], ires[3 * i + 1], ires[3 * i + 2]
        jc = gen.jsonable(c)
        ck.count("subset:" + json.dumps(jc, sort_keys=True) + str(A) + str(B), nontrivial=len(B) > len(A),
                 sample={"subset": {"A": [str(x) for x in A], "B": [str(x) for x in B], "kind": c["kind"], "strat": c["strat"], "calib": c["calib"]}},
                 m_kind=c["kind"], m_strat=c["strat"], m_calib=c["calib"], m_extra_checkpoints=len(B) - len(A))
        for r in (ra, rb, rt):
            if "error" in r:
                ck.report(f"C05.{c['kind']}.exception", f"implementation raised {r['error']}", {"case": jc})
                break
        else:
            if c["calib"].startswith("dyn") and any((not (abs(x) >= 1e-9)) for r in (ra, rb, rt) for row in r["output_scale"] for x in row):
                # degenerate dynamic scale in some block (exactly/numerically zero local residual): covariances of that block are rounding
                # noise and so are the smoothed means that depend on them (same exclusion as in the other streams)
                ck.hist.setdefault("subset_degenerate_dynamic_scale_skipped", {"n": 0})["n"] += 1
                continue
            N, cc, nb = gen.shape_dims(c["kind"], c["q"], c["d"])
            na, _ = gen.split_normals(ra["out"], N, cc, len(A) * nb)
            nbb, _ = gen.split_normals(rb["out"], N, cc, len(B) * nb)
            problem = None
            for j, t in enumerate(A):
                jb = B.index(t)
                for a in range(nb):
                    (ma, ca_), (mb, cb_) = na[j * nb + a], nbb[jb * nb + a]
                    sd = [math.sqrt(max(ca_[i][i], 0.0)) for i in range(N)]
                    smax = max(sd + [1e-300])
                    # a coefficient that is (numerically) zero next to coefficients of size mag carries rounding noise ~1e-8 mag of the
                    # two different interpolation histories
                    mag = max([abs(x) for row in ma for x in row] + [0.0])
                    for i2 in range(N):
                        for a2 in range(len(ma[i2])):
                            if abs(ma[i2][a2] - mb[i2][a2]) > 1e-5 * (abs(ma[i2][a2]) + max(sd[i2], 1e-7 * smax)) + 1e-7 * mag + 1e-13:
                                problem = problem or f"mean at t={float(t)} [{i2}][{a2}]: {ma[i2][a2]!r} (subset) vs {mb[i2][a2]!r} (superset)"
                        for j2 in range(N):
                            if abs(ca_[i2][j2] - cb_[i2][j2]) > 1e-4 * max(sd[i2], 1e-7 * smax) * max(sd[j2], 1e-7 * smax) + 1e-300:
                                problem = problem or f"cov at t={float(t)} [{i2}][{j2}]: {ca_[i2][j2]!r} (subset) vs {cb_[i2][j2]!r} (superset)"
                if j > 0 and ra["num_steps"][j - 1] != rb["num_steps"][jb - 1]:
                    problem = problem or f"num_steps at t={float(t)}: {ra['num_steps'][j - 1]} (subset) vs {rb['num_steps'][jb - 1]} (superset)"
                if j > 0:
                    oa, ob = ra["output_scale"], rb["output_scale"]
                    off = len(oa) - (len(A) - 1)
                    xa, xb = oa[j - 1 + off], ob[jb - 1 + off]
                    if any(abs(p - q) > 1e-5 * abs(p) for p, q in zip(xa, xb)):
                        problem = problem or f"output scale at t={float(t)}: {xa} (subset) vs {xb} (superset)"
            if problem:
                ck.report(f"C05.{c['kind']}.{c['strat']}.checkpoint-independence", f"{c['kind']}/{c['strat']}/{c['calib']}: {problem}",
                          {"case": jc, "A": [str(x) for x in A], "B": [str(x) for x in B]})
                continue
            # terminal-values routine = last entry of the checkpointed routine (same final time, no clipping)
            nt, _ = gen.split_normals(rt["out"], N, cc, nb)
            for a in range(nb):
                (ma, ca_), (mb, cb_) = na[(len(A) - 1) * nb + a], nt[a]
                sd = [math.sqrt(max(ca_[i][i], 0.0)) for i in range(N)]
                smax = max(sd + [1e-300])
                bad = any(abs(ma[i2][a2] - mb[i2][a2]) > 1e-5 * (abs(ma[i2][a2]) + max(sd[i2], 1e-7 * smax)) + 1e-13
                          for i2 in range(N) for a2 in range(len(ma[i2])))
                bad = bad or any(abs(ca_[i2][j2] - cb_[i2][j2]) > 1e-4 * max(sd[i2], 1e-7 * smax) * max(sd[j2], 1e-7 * smax) + 1e-300
                                 for i2 in range(N) for j2 in range(N))
                if bad:
                    ck.report(f"C05.{c['kind']}.{c['strat']}.terminal-values", f"{c['kind']}/{c['strat']}/{c['calib']}: solve_adaptive_terminal_values differs from the last checkpoint of solve_adaptive_save_at",
                              {"case": jc})
                    break


def main():
    ck = lib.Check("C05")
    pr = ck.run_proof()
    quick = ck.tier == "quick"
    interp_refinement(ck, 16 if quick else 250)
    spec_check(ck, 18 if quick else 300)
    subset_check(ck, 10 if quick else 120)
    if not pr["ok"] and not ck.violations:
        ck.report("C05.proof", f"proof obligations no longer check: {pr['errors']}",
                  {"broken": pr.get("failed_at", "Props/C05.v"), "errors": pr["errors"]}, nofail=True)
    ck.finish(rule="(1) one-step refinement of solver.interpolate_fwd (interpolated state, new step_from, new interp_from; marginals and backward models) "
              "for the three strategies; (2) the real solve_adaptive_save_at / save-every-step + offgrid_marginals forced onto a prescribed step "
              "sequence (scripted controller, accept-all error) vs exact Gaussian filtering/smoothing on the union of step ends and output times "
              "(Spec/RTS.v), incl. checkpoints on step ends and several per step; (3) checkpoint subset A vs superset B with the real error control "
              "(incl. checkpoints closer than eps): values, step counts, scales on A; (4) terminal-value routine vs last checkpoint; "
              "non-trivial: all; distinct by full input")


if __name__ == "__main__":
    main()
