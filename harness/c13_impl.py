"""C13 implementation runner: MarkovSequence.sample of the REAL library with
`probdiffeq.backend.random.normal` replaced by recorded / prescribed draws.

Per case (a smoother run through the public API, or MarkovSequence.from_grid of a prior):
 * record run (jax.disable_jit, shape=()): every call of backend.random.normal / split is logged in
   call order with its concrete key and requested shape; the draws returned are zero -> sample(0);
 * table run (jit + vmap): normal(key, shape) returns the row of a prescribed table selected by the
   (traced) key, rows in the recorded call order -> sample(e_j) for every scalar draw j (columns of the
   linear map M) and sample(z) for prescribed random draws z;
 * the raw posterior (terminal/initial marginal, conditionals incl. to_latent / to_observed, raw
   Cholesky factors) and the marginals solution.u / evaluate_marginals();
 * shape / key behaviour with the patch off.
"""

import json
import sys
import warnings

import numpy as np

import gimpl
import solve_impl as si
from gimpl import arr, jax, jnp, pdq
from probdiffeq import ivpsolve
import probdiffeq.backend.random as prandom

warnings.simplefilter("ignore")

ORIG_NORMAL = prandom.normal
ORIG_SPLIT = prandom.split


class Patch:
    """Replace the attributes the ssm modules actually call (random.normal / random.split of
    probdiffeq.backend.random, looked up at call time)."""

    def __init__(self, normal=None, split=None):
        self.normal, self.split = normal, split

    def __enter__(self):
        if self.normal is not None:
            prandom.normal = self.normal
        if self.split is not None:
            prandom.split = self.split
        return self

    def __exit__(self, *a):
        prandom.normal = ORIG_NORMAL
        prandom.split = ORIG_SPLIT
        return False


def key_tuple(key):
    if isinstance(key, jax.core.Tracer):
        return None
    return [int(x) for x in np.asarray(jax.random.key_data(key) if jnp.issubdtype(key.dtype, jax.dtypes.prng_key) else key).reshape(-1)]


# ------------------------------------------------------------------ problem construction
def split_sizes(d):
    return (d,) if d == 1 else (d // 2, d - d // 2)


def to_tree(vec, tree_kind):
    """flat (d,) array -> the state pytree of the case"""
    if tree_kind == "flat":
        return vec
    d = vec.shape[0]
    sizes = split_sizes(d)
    parts, k = [], 0
    for s_ in sizes:
        parts.append(vec[k:k + s_])
        k += s_
    if tree_kind == "dict":
        return {f"c{i}": p for i, p in enumerate(parts)}
    return tuple(parts)


def make_vf_tree(case):
    k, d = case["ord"], case["d"]
    polys = case["f"]
    tk = case.get("tree", "flat")
    if tk == "flat":
        return si.make_vf(case)

    def f(*args, t):
        xs = jnp.concatenate([jax.flatten_util.ravel_pytree(a)[0] for a in args])
        env = jnp.concatenate([xs, jnp.reshape(jnp.asarray(t, dtype=jnp.float64), (1,))])
        out = []
        for a in range(d):
            acc = 0.0
            for coef, exps in polys[a]:
                term = coef
                for j, e in enumerate(exps):
                    if e:
                        term = term * env[j] ** e
                acc = acc + term
            out.append(acc)
        return to_tree(jnp.stack([jnp.asarray(o, dtype=jnp.float64) for o in out]), tk)

    jac = pdq.jacobian_materialize()
    if k == 1:
        return pdq.ode(lambda u, *, t: f(u, t=t), jacobian=jac)
    if k == 2:
        return pdq.ode_order_two(lambda u, du, *, t: f(u, du, t=t), jacobian=jac)
    return pdq.ode_order_arbitrary(lambda *a, t: f(*a, t=t), num_tcoeffs_in_args=k, jacobian=jac)


def make_prior_tree(case, ssm):
    kind = case["kind"]
    tk = case.get("tree", "flat")
    if tk == "flat":
        return si.make_prior(case, ssm)
    tc = [to_tree(arr(row), tk) for row in case["tcoeffs"]]
    if kind == "iso":
        std = [jnp.asarray(float(s_)) for s_ in case["std"]]
        base = None if case.get("base") is None else jnp.asarray(float(case["base"]))
    else:
        std = [to_tree(arr(row), tk) for row in case["std"]]
        base = None if case.get("base") is None else to_tree(arr(case["base"]), tk)
    return ssm.prior_wiener_integrated_diffuse(tc, std, output_scale=base)


def build(case):
    kind = case["kind"]
    ssm = gimpl.ssm_of(kind)
    prior = make_prior_tree(case, ssm)
    if case["mode"] == "from_grid":
        post = pdq.MarkovSequence.from_grid(prior, grid=arr(case["grid"]), reverse=False)
        u = post.evaluate_marginals()
        return post, u
    vf = make_vf_tree(case)
    solver, constraint = si.make_solver(case, ssm, vf)
    if case["strat"] == "fixedinterval":
        solve = ivpsolve.solve_fixed_grid(solver=solver)
        sol = solve(prior, grid=arr(case["grid"]), damp=case["damp"])
    else:
        err = si.make_error(case, constraint)
        a = case["adaptive"]
        solve = ivpsolve.solve_adaptive_save_at(solver=solver, error=err, clip_dt=False, warn=False)
        sol = jax.jit(lambda: solve(prior, save_at=arr(case["grid"]), atol=a["atol"], rtol=a["rtol"], dt0=a["dt0"],
                                    damp=case["damp"]))()
    return sol.solution_full.posterior, sol.u


# ------------------------------------------------------------------ helpers
def leaf_shapes(tree_):
    return [list(x.shape) for x in jax.tree_util.tree_leaves(tree_)]


def flat_sample(seq, smp):
    tf = seq.marginal.tree_flatten
    return np.asarray(jax.vmap(tf.flatten_tree)(smp), dtype=np.float64)


def run_case(case):
    import time as _time
    _t0 = _time.time()
    kind = case["kind"]
    post, u = build(case)
    _t1 = _time.time()
    seq = post.remove_filtering_distributions()
    ncond = int(seq.conditional.A.shape[0])
    out = {"reverse": bool(post.reverse), "ncond": ncond}
    out["marginal"] = si.raw_normal_blocks(seq.marginal, kind)
    out["conds"] = [si.raw_cond_blocks(jax.tree_util.tree_map(lambda x, k=k: x[k], seq.conditional), kind)
                    for k in range(ncond)]
    out["u"] = si.batched_normal_blocks(u, kind)
    out["u_mean_flat"] = np.asarray(u.mean_flat, dtype=np.float64).tolist()
    out["u_leaf_shapes"] = leaf_shapes(u.mean)
    out["u_treedef"] = str(jax.tree_util.tree_structure(u.mean))
    key = jax.random.PRNGKey(int(case["seed"]))

    # ---- record run: call order, keys, shapes; zero draws
    log = []

    def normal_rec(key_, /, shape, dtype=None):
        log.append(["normal", key_tuple(key_), [int(s_) for s_ in shape]])
        return jnp.zeros(shape)

    def split_rec(key_, num):
        log.append(["split", key_tuple(key_), int(num)])
        return ORIG_SPLIT(key_, num)

    with Patch(normal_rec, split_rec), jax.disable_jit():
        s0_tree = post.sample(key, shape=())
    out["log"] = log
    out["s0_leaf_shapes"] = leaf_shapes(s0_tree)
    out["s0_treedef"] = str(jax.tree_util.tree_structure(s0_tree))
    # (i) in TREE form: zero draws vs solution.u.mean, leaf by leaf
    out["s0_tree"] = [np.asarray(x, dtype=np.float64).reshape(-1).tolist() for x in jax.tree_util.tree_leaves(s0_tree)]
    out["u_tree"] = [np.asarray(x, dtype=np.float64).reshape(-1).tolist() for x in jax.tree_util.tree_leaves(u.mean)]
    out["u_std_tree"] = [np.asarray(x, dtype=np.float64).reshape(-1).tolist() for x in jax.tree_util.tree_leaves(u.std)]
    s0_rec = flat_sample(seq, s0_tree)
    out["s0_record"] = s0_rec.tolist()

    ncalls = [e for e in log if e[0] == "normal"]
    shapes = [tuple(e[2]) for e in ncalls]
    out["draw_shapes"] = [list(s_) for s_ in shapes]
    if len(set(shapes)) != 1 or any(e[1] is None for e in ncalls):
        out["table_error"] = "requested shapes differ between calls or a key was traced in the record run"
        return out
    shp = shapes[0]
    size = int(np.prod(shp)) if shp else 1
    table = jnp.asarray(np.array([e[1] for e in ncalls], dtype=np.uint32))
    n_calls = len(ncalls)
    D = n_calls * size

    # ---- table run
    def sample_with(zflat):
        Z = zflat.reshape((n_calls,) + shp)

        def normal_tab(key_, /, shape, dtype=None):
            assert tuple(shape) == shp, (shape, shp)
            hit = jnp.all(table == key_[None, :], axis=1)
            idx = jnp.argmax(hit)
            return jnp.where(jnp.any(hit), Z[idx], jnp.nan)

        with Patch(normal_tab, None):
            smp = post.sample(key, shape=())
            tf = seq.marginal.tree_flatten
            return jax.vmap(tf.flatten_tree)(smp)

    f = jax.jit(jax.vmap(sample_with))
    # prescribed draw vectors are only usable if their length fits the draws actually requested
    zs = [np.zeros((D,))] + [np.asarray(z, dtype=np.float64) for z in case.get("zr", []) if len(z) == D]
    probes = np.concatenate([np.stack(zs), np.eye(D)], axis=0)
    res = np.asarray(f(jnp.asarray(probes)), dtype=np.float64)
    out["s0"] = res[0].tolist()
    out["sz"] = [res[1 + i].tolist() for i in range(len(zs) - 1)]
    out["units"] = res[len(zs):].tolist()      # sample(e_j), j in call order x position in the requested shape
    out["D"] = D

    # ---- (iv) shapes, (v) keys: patch OFF
    chk = {}
    tf = seq.marginal.tree_flatten
    g = jax.jit(lambda k_: jax.vmap(tf.flatten_tree)(post.sample(k_)))      # shape-() sample, flat layout
    k2 = jax.random.PRNGKey(int(case["seed"]) + 1)
    a1 = np.asarray(g(key), dtype=np.float64)
    a2 = flat_sample(seq, post.sample(key))                                   # un-jitted public call
    b1 = np.asarray(g(k2), dtype=np.float64)
    chk["same_key_same_sample"] = bool(np.max(np.abs(a1 - a2)) <= 1e-12 * (1.0 + np.max(np.abs(a1))))
    chk["distinct_keys_differ"] = bool(np.max(np.abs(a1 - b1)) > 0)
    chk["finite"] = bool(np.all(np.isfinite(a1)))
    shp_res = []
    for shape in case.get("shapes", []):
        shape = tuple(shape)
        s_ = post.sample(key, shape=shape)
        e = {"shape": list(shape), "leaf_shapes": leaf_shapes(s_), "treedef": str(jax.tree_util.tree_structure(s_))}
        # the vmap recursion: entry [i][j].. is the shape-() sample of the correspondingly split key
        keys = key[None]
        for n_ in shape:
            keys = jnp.concatenate([ORIG_SPLIT(k_, n_) for k_ in keys], axis=0)
        lead = int(np.prod(shape)) if shape else 1
        flat_all = np.asarray(jax.vmap(jax.vmap(tf.flatten_tree))(
            jax.tree_util.tree_map(lambda x: x.reshape((lead,) + x.shape[len(shape):]), s_)), dtype=np.float64)
        worst = 0.0
        for i, k_ in enumerate(keys):
            ref = np.asarray(g(k_), dtype=np.float64)
            worst = max(worst, float(np.max(np.abs(flat_all[i] - ref)) / (1.0 + float(np.max(np.abs(ref))))))
        e["recursion_maxdiff"] = worst
        e["all_distinct"] = bool(len({flat_all[i].tobytes() for i in range(flat_all.shape[0])}) == flat_all.shape[0])
        shp_res.append(e)
    chk["shapes"] = shp_res
    out["checks"] = chk
    out["wall"] = [round(_t1 - _t0, 2), round(_time.time() - _t1, 2)]
    return out


def main():
    cases = json.load(open(sys.argv[1]))["cases"]
    res = []
    for c in cases:
        try:
            res.append(run_case(c))
        except Exception as e:  # noqa: BLE001
            import traceback

            res.append({"error": f"{type(e).__name__}: {e}", "tb": traceback.format_exc()[-2500:]})
    json.dump({"results": res}, open(sys.argv[2], "w"))


if __name__ == "__main__":
    main()
