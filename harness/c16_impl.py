"""C16 implementation runner: forward-mode, reverse-mode and finite-difference derivatives of the
computed outputs of fixed-grid solves with respect to a scalar parameter.

Phase "plain": the code as it is.  Phase "exact_qr": backend.linalg.qr_r replaced by jnp.linalg.qr (exact
derivative rule) -- discriminator for the known qr_r finding.  Phase "safe_norm": backend.linalg.vector_norm replaced by a norm whose derivative at 0 is 0 -- discriminator for
NaN gradients caused by norms of exactly-zero vectors.  Phase "loss_triu": the time-series loss with
solve_triu=linalg.solve_triu instead of the SVD-based least squares -- discriminator for NaN gradients of the SVD.
"""

import json
import sys
import warnings

import numpy as np

import gimpl
from gimpl import arr, jax, jnp, pdq
from probdiffeq import ivpsolve
from probdiffeq.backend import linalg as pd_linalg

warnings.simplefilter("ignore")

import solve_impl  # noqa: E402

NAMES = ["mean", "std", "scale", "loss"]


def build(case, theta, loss_triu=False, only=None):
    """Output arrays (all, or just one: solution.u.std etc. are lazy properties) as a function of theta."""
    kind, d = case["kind"], case["d"]
    where = case["param"]
    ssm = gimpl.ssm_of(kind)
    polys = case["f"]
    k = case["ord"]

    def f(*args, t):
        xs = jnp.concatenate([jnp.reshape(a, (-1,)) for a in args])
        env = jnp.concatenate([xs, jnp.reshape(jnp.asarray(t, dtype=jnp.float64), (1,))])
        out = []
        for a in range(d):
            acc = 0.0
            for coef, exps in polys[a]:
                term = coef * (theta if where == "vf" else 1.0)
                for j, e in enumerate(exps):
                    if e:
                        term = term * env[j] ** e
                acc = acc + term
            out.append(acc)
        return jnp.stack([jnp.asarray(o, dtype=jnp.float64) for o in out])

    jac = pdq.jacobian_materialize()
    vf = pdq.ode(lambda u, *, t: f(u, t=t), jacobian=jac) if k == 1 else pdq.ode_order_two(lambda u, du, *, t: f(u, du, t=t), jacobian=jac)
    tc = [arr(row) * (theta if (where == "u0") else 1.0) for row in case["tcoeffs"]]
    if kind == "iso":
        std = [jnp.asarray(float(s)) for s in case["std"]]
        base = jnp.asarray(1.0) * (theta if where == "base" else float(case["base"] or 1.0))
    else:
        std = [arr(row) for row in case["std"]]
        b0 = arr(case["base"]) if case["base"] is not None else jnp.ones((d,))
        base = b0 * (theta if where == "base" else 1.0)
    prior = ssm.prior_wiener_integrated_diffuse(tc, std, output_scale=base)
    solver, _ = solve_impl.make_solver(case, ssm, vf)
    solve = ivpsolve.solve_fixed_grid(solver=solver)
    sol = solve(prior, grid=arr(case["grid"]), damp=case["damp"])
    out = {}
    if only in (None, "mean"):
        out["mean"] = jnp.concatenate([jnp.reshape(m, (-1,)) for m in jax.tree_util.tree_leaves(sol.u.mean)])
    if only in (None, "std"):
        out["std"] = jnp.concatenate([jnp.reshape(m, (-1,)) for m in jax.tree_util.tree_leaves(sol.u.std)])
    if only in (None, "scale"):
        out["scale"] = jnp.reshape(sol.output_scale, (-1,))
    if only not in (None, "loss"):
        return out
    if case["strat"] != "filter":
        data = arr(case["data"])
        noise = (theta if where == "noise" else 1.0) * arr(case["noise"])
        loss = pdq.loss_lml_timeseries(solve_triu=pd_linalg.solve_triu) if loss_triu else pdq.loss_lml_timeseries()
        nstd = noise[:, 0] if kind == "iso" else noise
        out["loss"] = jnp.reshape(loss(data, posterior=sol.solution_full.posterior, std=nstd), (1,))
    else:
        data = arr(case["data"])[-1]
        noise = (theta if where == "noise" else 1.0) * arr(case["noise"])[-1]
        loss = pdq.loss_lml_terminal_values()
        marg = jax.tree_util.tree_map(lambda s: s[-1], sol.u)
        nstd = noise[0] if kind == "iso" else noise
        out["loss"] = jnp.reshape(loss(data, marginals=marg, std=nstd), (1,))
    return out


def derivs(case, theta0, loss_triu=False, fd=True):
    """jvp on all quantities at once; reverse mode quantity by quantity (solution.u.std etc. are lazy properties:
    differentiating the mean in reverse mode never touches the standard deviation)."""
    fn = jax.jit(lambda th: build(case, th, loss_triu=loss_triu))
    th0 = jnp.asarray(theta0)
    out = {"primal": {}, "jvp": {}, "rev": {}, "fd": {}}
    for nm in NAMES:
        one = lambda th, nm=nm: build(case, th, loss_triu=loss_triu, only=nm)[nm]  # noqa: E731
        primal, tang = jax.jit(lambda th, one=one: jax.jvp(one, (th,), (jnp.ones_like(th),)))(th0)
        rev = jax.jit(jax.jacrev(one))(th0)
        out["rev"][nm] = np.asarray(rev, dtype=np.float64).tolist()
        out["primal"][nm] = np.asarray(primal, dtype=np.float64).tolist()
        out["jvp"][nm] = np.asarray(tang, dtype=np.float64).tolist()
    if fd:
        h = 1e-5 * max(1.0, abs(theta0))
        fp, fm = fn(jnp.asarray(theta0 + h)), fn(jnp.asarray(theta0 - h))
        fp2, fm2 = fn(jnp.asarray(theta0 + 2 * h)), fn(jnp.asarray(theta0 - 2 * h))
        for nm in NAMES:
            v = (8 * (fp[nm] - fm[nm]) - (fp2[nm] - fm2[nm])) / (12 * h)
            out["fd"][nm] = np.asarray(v, dtype=np.float64).tolist()
    return out


def main():
    payload = json.load(open(sys.argv[1]))
    cases = payload["cases"]
    phase = payload.get("phase", "plain")
    res = []
    orig = pd_linalg.qr_r
    orig_norm = pd_linalg.vector_norm

    def safe_norm(x, /, *, order=None):
        if order is not None:
            return orig_norm(x, order=order)
        s2 = jnp.sum(x * x)
        return jnp.where(s2 > 0, jnp.sqrt(jnp.where(s2 > 0, s2, 1.0)), 0.0)

    for c in cases:
        jax.clear_caches()
        try:
            if phase == "exact_qr":
                pd_linalg.qr_r = lambda a_: jnp.linalg.qr(a_, mode="r")
            if phase == "safe_norm":
                pd_linalg.vector_norm = safe_norm
            r = derivs(c, c["theta"], loss_triu=(phase == "loss_triu"), fd=(phase == "plain"))
            res.append(r)
        except Exception as e:  # noqa: BLE001
            import traceback

            res.append({"error": f"{type(e).__name__}: {e}", "tb": traceback.format_exc()[-1200:]})
        finally:
            pd_linalg.qr_r = orig
            pd_linalg.vector_norm = orig_norm
    json.dump({"results": res}, open(sys.argv[2], "w"))


if __name__ == "__main__":
    main()
