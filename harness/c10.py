"""C10 check: Taylor-coefficient initialisation returns the exact solution derivatives.

1. prove Props/C10.vo (uniqueness / existence of the formal series solution; padded-scan, unroll and
   recursive-JVP models (the latter as coded after the repair of finding F4: t is a primal with
   tangent one) return the derivatives of the formal solution for every polynomial field, order,
   num; the pre-repair recursive-JVP recursion and the doubling model: correct for autonomous
   fields, refuted by a concrete time-dependent witness);
2. correspondence: random polynomial vector fields u^(k) = f(u, .., u^(k-1), t) (k = 1, 2; up to 3
   dimensions; degree <= 3; coefficients j/4) compiled to JAX functions on flat arrays or nested
   pytrees (dict / tuple / list, scalar and 1-d leaves), dyadic initial values and times.  Every
   routine is called through the public API (harness/c10_impl.py) and compared with
     (a) the Coq model of THAT routine (Model/Jet.v at Qc, vm_compute) and
     (b) the specification (Spec/ODESeries.v, the formal power-series solution, exact),
   tolerance 1e-9 * max(1, |coefficient vector|_inf).  jetexpand_residual is compared with the
   specification only (residual_from_ode lifts, implicit M (u^(k) - f) = 0 formulations, index-1
   DAE stacks whose algebraic part determines one component), once with the default Gauss-Newton
   settings (stopping tolerance 1e-6: compared at 2e-5) and once with
   lstsq_constrained_gauss_newton(tol=1e-13, maxiter=40) (compared at 1e-6; non-convergence is
   reported separately as C10.residual.not-converged).
   Expected on the current tree: jetexpand_ode_doubling_unroll agrees with its model but NOT with
   the specification for time-dependent fields (it closes over t): signature
   C10.doubling.time-dependent (known finding).  jetexpand_ode_via_jvp is compared with
   via_jvp_fixed_model; for time-dependent fields the pre-repair model (t closed over) is evaluated
   too, and C10.via_jvp.time-dependent is reported if the implementation follows it again.
"""

from __future__ import annotations

import json
import os
import sys
import threading
from fractions import Fraction as Fr

sys.path.insert(0, os.path.dirname(os.path.abspath(__file__)))
import lib  # noqa: E402

HEADER = """From Coq Require Import List ZArith QArith Qcanon.
From PD Require Import Base.Field Base.Matrix Model.Poly Base.Series Spec.ODESeries Model.Jet Run.JetRun.
Import ListNotations.
Local Open Scope Z_scope.
"""

TOL = 1e-9
RES_TOL = 1e-6           # jetexpand_residual with lstsq_constrained_gauss_newton(tol=1e-13, maxiter=40): SVD least squares on
                         # Jacobians whose entries span many orders of magnitude limit the attainable accuracy
RES_TOL_DEFAULT = 2e-5   # ... with the default Gauss-Newton (its stopping tolerance is 1e-6)
ALG = {"padded_scan": 0, "unroll": 1, "via_jvp": 2, "doubling": 3, "via_jvp_closed_over_t": 4}
NZ = [k for k in range(-6, 7) if k != 0]


# ------------------------------------------------------------------ polynomials (fractions)
def pnorm(monos):
    acc = {}
    for c, e in monos:
        e = tuple(e)
        acc[e] = acc.get(e, Fr(0)) + c
    return [[c, list(e)] for e, c in sorted(acc.items()) if c != 0]


def pmul(p, q):
    return pnorm([[c1 * c2, [a + b for a, b in zip(e1, e2)]] for c1, e1 in p for c2, e2 in q])


def pdiff(p, j):
    out = []
    for c, e in p:
        if e[j] > 0:
            e2 = list(e)
            e2[j] -= 1
            out.append([c * e[j], e2])
    return pnorm(out)


def peval(p, env):
    tot = Fr(0)
    for c, e in p:
        v = c
        for x, k in zip(env, e):
            v *= x ** k
        tot += v
    return tot


def gen_mono(rng, nstate, timedep, maxdeg):
    deg = rng.choice([0, 1, 1, 2, 2, 3, 3][: 3 + 2 * (maxdeg - 1)]) if maxdeg >= 1 else 0
    deg = min(deg, maxdeg)
    exps = [0] * (nstate + 1)
    for _ in range(deg):
        if timedep and rng.random() < 0.3:
            exps[nstate] += 1
        else:
            exps[rng.randrange(nstate)] += 1
    return [Fr(rng.choice(NZ), 4), exps]


def gen_poly(rng, nstate, timedep, maxdeg, nmono=None):
    n = nmono if nmono is not None else rng.choice([1, 2, 2, 3, 3, 4])
    p = pnorm([gen_mono(rng, nstate, timedep, maxdeg) for _ in range(n)])
    return p


def gen_field(rng, k, d, timedep, maxdeg):
    nstate = k * d
    while True:
        polys = [gen_poly(rng, nstate, timedep, maxdeg) for _ in range(d)]
        has_t = any(e[nstate] > 0 for p in polys for _c, e in p)
        nonlin = any(sum(e) >= 2 for p in polys for _c, e in p)
        if has_t == timedep and (nonlin or rng.random() < 0.2) and all(polys):
            return polys


def qpt(rng, lo=-6, hi=6):
    return Fr(rng.randint(lo, hi), 4)


# ---------------------------------------------------------------------------- pytrees
def gen_tree(rng, idxs, depth=0):
    """Random pytree over the natural indices idxs (in order)."""
    if len(idxs) == 1 and (depth > 0 or rng.random() < 0.3) and rng.random() < 0.7:
        return {"t": "leaf", "idx": list(idxs), "scalar": rng.random() < 0.6}
    if depth >= 2 or (depth > 0 and rng.random() < 0.35):
        return {"t": "leaf", "idx": list(idxs), "scalar": False} if len(idxs) > 1 else \
            {"t": "leaf", "idx": list(idxs), "scalar": rng.random() < 0.6}
    # split into 1..len parts
    nparts = rng.randint(1 if depth == 0 and len(idxs) == 1 else min(2, len(idxs)), len(idxs))
    cuts = sorted(rng.sample(range(1, len(idxs)), nparts - 1)) if nparts > 1 else []
    parts = [idxs[a:b] for a, b in zip([0] + cuts, cuts + [len(idxs)])]
    subs = [gen_tree(rng, p, depth + 1) for p in parts]
    if rng.random() < 0.6:
        keys = rng.sample("abcdefghkmpqxyz", len(subs))
        return {"t": "dict", "kvs": [[k, s] for k, s in zip(keys, subs)]}
    return {"t": "tuple", "cs": subs, "py": rng.choice(["tuple", "tuple", "list"])}


def tree_kind(shape):
    if shape["t"] == "leaf":
        return "leaf"
    subs = [s for _k, s in shape["kvs"]] if shape["t"] == "dict" else shape["cs"]
    inner = {tree_kind(s) for s in subs}
    nested = any(k != "leaf" for k in inner)
    return shape["t"] + ("-nested" if nested else "")


def coq_tree(shape):
    if shape["t"] == "leaf":
        return "(PLeaf [" + "; ".join(lib.coq_nat(i) for i in shape["idx"]) + "])"
    if shape["t"] == "tuple":
        return "(PTuple [" + "; ".join(coq_tree(c) for c in shape["cs"]) + "])"
    return "(PDict [" + "; ".join(f"({lib.coq_nat(ord(k))}, {coq_tree(c)})" for k, c in shape["kvs"]) + "])"


def tree_is_permuted(shape):
    """True iff ravel order differs from the natural order."""
    def rav(s):
        if s["t"] == "leaf":
            return list(s["idx"])
        if s["t"] == "tuple":
            return [i for c in s["cs"] for i in rav(c)]
        return [i for _k, c in sorted(s["kvs"], key=lambda kv: kv[0]) for i in rav(c)]
    r = rav(shape)
    return r != sorted(r)


# ------------------------------------------------------------------------------ coq terms
def coq_poly(p):
    return "[" + "; ".join(f"({lib.qclit(c)}, [" + "; ".join(lib.coq_nat(e) for e in es) + "])" for c, es in p) + "]"


def coq_polys(polys):
    return "[" + "; ".join(coq_poly(p) for p in polys) + "]"


def spec_term(c, polys, inits, num):
    return (f"c10_spec {lib.coq_nat(c['k'])} {lib.coq_nat(c['d'])} {coq_polys(polys)} {lib.qcmat(inits)} "
            f"{lib.qclit(c['t0'])} {lib.coq_nat(num)}")


def model_term(c, routine, num):
    args = f"{lib.coq_nat(ALG[routine])} {lib.coq_nat(c['k'])} {lib.coq_nat(c['d'])} {coq_polys(c['polys'])}"
    tail = f"{lib.qcmat(c['inits'])} {lib.qclit(c['t0'])} {lib.coq_nat(num)}"
    if c.get("tree"):
        return f"c10_tree {args} {coq_tree(c['tree'])} {tail}"
    return f"c10_model {args} {tail}"


# ------------------------------------------------------------------------------- cases
def ncoeffs(k, routine, num):
    """number of derivative vectors returned"""
    if routine == "doubling":
        return 2 ** (num + 1) - 1
    return k + num


def jvp_cap(k, d, maxdeg, quick):
    """bound num for the recursive-JVP routine: the implementation nests jvp num-1 deep (cost ~2^num)
    and the symbolic model's polynomials have degree deg + n (deg - 1)."""
    cap = 5 if quick else 8
    if maxdeg >= 3 and k * d >= 4:
        cap = min(cap, 4 if quick else 5)
    return cap


def gen_flat_case(rng, quick, k=None, d=None, timedep=None, num=None, tree=False):
    k = k or rng.choice([1, 2])
    d = d or rng.choice([1, 2, 2, 3])
    timedep = rng.random() < 0.6 if timedep is None else timedep
    maxdeg = rng.choice([2, 3, 3])
    nmax = 6 if quick else 10
    num = rng.randint(0, nmax) if num is None else num
    if k * d >= 4 and maxdeg >= 3:
        num = min(num, 8)
    c = {"kind": "tree" if tree else "flat", "k": k, "d": d, "timedep": timedep, "maxdeg": maxdeg,
         "polys": gen_field(rng, k, d, timedep, maxdeg), "inits": [[qpt(rng) for _ in range(d)] for _ in range(k)],
         "t0": qpt(rng, -4, 4), "tree": None, "residual": None}
    if tree:
        while True:
            sh = gen_tree(rng, list(range(d)))
            if sh["t"] != "leaf":
                break
        c["tree"] = sh
    calls = [{"routine": "padded_scan", "num": num}, {"routine": "unroll", "num": num},
             {"routine": "via_jvp", "num": min(num, jvp_cap(k, d, maxdeg, quick))}]
    if k == 1:
        calls.append({"routine": "doubling", "num": rng.choice([0, 1, 1, 2, 2] if quick else [0, 1, 2, 2, 3, 3])})
    c["calls"] = calls
    return c


def gen_reject_cases(rng):
    out = []
    # doubling on a second-order problem: (u0,) = inits fails
    c = gen_flat_case(rng, True, k=2, d=2, timedep=False, num=2)
    c["kind"] = "reject"
    c["calls"] = [{"routine": "doubling", "num": 1}]
    out.append(c)
    # wrong number of initial values
    c = gen_flat_case(rng, True, k=2, d=1, timedep=False, num=2)
    c["kind"] = "reject"
    c["inits"] = c["inits"][:1]
    c["calls"] = [{"routine": r, "num": n} for r in ("padded_scan", "unroll", "via_jvp") for n in (0, 2)]
    out.append(c)
    c = gen_flat_case(rng, True, k=1, d=2, timedep=True, num=2)
    c["kind"] = "reject"
    c["inits"] = c["inits"] + [[qpt(rng) for _ in range(2)]]
    c["calls"] = [{"routine": r, "num": n} for r in ("padded_scan", "unroll", "via_jvp", "doubling") for n in (0, 2)]
    out.append(c)
    return out


def gen_residual_case(rng, quick, form):
    nmax = 5 if quick else 10
    num = rng.randint(1, nmax)
    if form == "dae":
        k, d = 1, rng.choice([2, 3])
        timedep = rng.random() < 0.6
        nstate = d
        while True:
            fs = [gen_poly(rng, nstate, timedep, 2) for _ in range(d - 1)]
            # h does not involve u_{d-1}
            h = [[co, e] for co, e in gen_poly(rng, nstate, timedep, 2, nmono=rng.choice([2, 3])) if e[d - 1] == 0]
            if all(fs) and h and any(sum(e[: d - 1]) > 0 for _c, e in h):
                break
        # equivalent ODE for the algebraic component: d/dt h = sum_a dh/du_a f_a + dh/dt
        flast = pdiff(h, nstate)
        for a in range(d - 1):
            flast = pnorm(flast + pmul(pdiff(h, a), fs[a]))
        t0 = qpt(rng, -4, 4)
        u0 = [qpt(rng, -4, 4) for _ in range(d - 1)]
        u0.append(peval(h, u0 + [Fr(0), t0]))
        c = {"kind": "residual", "k": k, "d": d, "timedep": timedep, "maxdeg": 3, "polys": fs + [flast], "inits": [u0], "t0": t0,
             "tree": None, "residual": {"form": "dae", "num": num, "h": h}}
    else:
        k = rng.choice([1, 2])
        d = rng.choice([1, 2, 3])
        timedep = rng.random() < 0.6
        maxdeg = rng.choice([2, 3])
        c = {"kind": "residual", "k": k, "d": d, "timedep": timedep, "maxdeg": maxdeg, "polys": gen_field(rng, k, d, timedep, maxdeg),
             "inits": [[qpt(rng, -4, 4) for _ in range(d)] for _ in range(k)], "t0": qpt(rng, -4, 4), "tree": None,
             "residual": {"form": form, "num": num}}
        if form == "implicit":
            M = [[Fr(0)] * d for _ in range(d)]
            for a in range(d):
                M[a][a] = Fr(rng.choice([1, 2, -1, -2, 4]), rng.choice([1, 2]))
                for b in range(a):
                    M[a][b] = Fr(rng.randint(-4, 4), 4)
            c["residual"]["M"] = M
    c["calls"] = [{"routine": "residual", "num": num}]
    return c


def jsonable(o):
    if isinstance(o, Fr):
        return str(o)
    if isinstance(o, dict):
        return {k: jsonable(v) for k, v in o.items()}
    if isinstance(o, (list, tuple)):
        return [jsonable(v) for v in o]
    return o


def floatable(o):
    if isinstance(o, Fr):
        return float(o)
    if isinstance(o, dict):
        return {k: floatable(v) for k, v in o.items()}
    if isinstance(o, (list, tuple)):
        return [floatable(v) for v in o]
    return o


def unflat(q, d):
    return [q[i:i + d] for i in range(0, len(q), d)]


def compare(out, expect, tol):
    """out: list of float vectors; expect: list of Fraction vectors.  Returns None or text."""
    if len(out) != len(expect):
        return f"{len(out)} coefficients returned, expected {len(expect)}"
    for n, (a, b) in enumerate(zip(out, expect)):
        if len(a) != len(b):
            return f"coefficient {n}: {len(a)} entries, expected {len(b)}"
        scale = max([1.0] + [abs(float(x)) for x in b])
        for i, (x, y) in enumerate(zip(a, b)):
            if x != x or abs(x - float(y)) > tol * scale:
                return f"derivative {n}, component {i}: implementation {x!r} vs expected {float(y)!r} (|vector| {scale:.3g})"
    return None


def main():
    ck = lib.Check("C10")
    pr = ck.run_proof()
    rng = ck.rng
    quick = ck.tier == "quick"

    cases = []
    # fixed small-num coverage, then random
    for num in (0, 1, 2):
        cases.append(gen_flat_case(rng, quick, k=1 + num % 2, timedep=True, num=num))
    for _ in range(24 if quick else 200):
        cases.append(gen_flat_case(rng, quick))
    for k in (1, 2):
        for td in (False, True):
            cases.append(gen_flat_case(rng, quick, k=k, d=3, timedep=td))
    for _ in range(12 if quick else 100):
        cases.append(gen_flat_case(rng, quick, d=rng.choice([2, 3, 3]), tree=True))
    cases += gen_reject_cases(rng)
    forms = ["from_ode", "implicit", "dae"]
    for i in range(6 if quick else 60):
        cases.append(gen_residual_case(rng, quick, forms[i % 3]))
    # the recorded witness of the time-dependence defect
    cases.append({"kind": "flat", "k": 1, "d": 1, "timedep": True, "maxdeg": 2,
                  "polys": [pnorm([[Fr(1), [1, 1]], [Fr(1), [0, 2]]])], "inits": [[Fr(1)]], "t0": Fr(1, 2), "tree": None, "residual": None,
                  "calls": [{"routine": r, "num": 3} for r in ("padded_scan", "unroll", "via_jvp")] + [{"routine": "doubling", "num": 2}]})

    # ---- Coq terms: one spec term per case, one model term per (case, routine != residual)
    terms, where = [], []
    for ci, c in enumerate(cases):
        if c["kind"] == "reject":
            need = 0
        else:
            need = max(ncoeffs(c["k"], cl["routine"], cl["num"]) for cl in c["calls"]) - c["k"]
        if c["kind"] != "reject":
            terms.append(spec_term(c, c["polys"], c["inits"], need))
            where.append((ci, "spec"))
        for li, cl in enumerate(c["calls"]):
            if cl["routine"] != "residual":
                terms.append(model_term(c, cl["routine"], cl["num"]))
                where.append((ci, li))
            if cl["routine"] == "via_jvp" and c["timedep"] and c["kind"] != "reject":
                # the routine as it was BEFORE the repair of finding F4 (t closed over): used to recognise the defect if it returns
                terms.append(model_term(c, "via_jvp_closed_over_t", cl["num"]))
                where.append((ci, li, "old"))

    impl_box = {}

    def run_impl():
        try:
            impl_box["res"] = lib.run_impl("c10_impl.py", {"cases": [floatable(c) for c in cases], "workers": 8}, timeout=3000)["results"]
        except Exception as e:  # noqa: BLE001
            impl_box["err"] = str(e)[-2000:]

    th = threading.Thread(target=run_impl)
    th.start()
    model_failed = None
    try:
        mvals = lib.coq_eval("C10", HEADER, terms, shard=6 if quick else 12, timeout=900, case_timeout=300, jobs=8)
    except RuntimeError as e:
        mvals = None
        model_failed = str(e)[:1500]
        ck.notes.append(f"model evaluation failed: {model_failed}")
    th.join()
    if "res" not in impl_box:
        ck.report("C10.harness", f"implementation runner failed: {impl_box.get('err')}", {"error": impl_box.get("err")}, nofail=True)
        ck.finish(rule="runner failed")
    ires = impl_box["res"]

    mv = {}
    if mvals is not None:
        for w, v in zip(where, mvals):
            mv[w] = v

    n_cmp = n_evalfail = 0
    corr_bug = None
    repaired = set()
    for ci, c in enumerate(cases):
        jc = jsonable(c)
        r = ires[ci]
        d, k = c["d"], c["k"]
        if "error" in r:
            ck.report("C10.harness", f"runner crashed on a case: {r['error']}", {"case": jc, "impl": r}, nofail=True)
            continue
        sv = mv.get((ci, "spec"))
        if isinstance(sv, str):
            n_evalfail += 1
            sv = None
        spec = unflat(lib.decode_optQ(sv), d) if sv is not None and lib.decode_optQ(sv) is not None else None
        for li, cl in enumerate(c["calls"]):
            routine, num = cl["routine"], cl["num"]
            rec = r["calls"][li]
            nco = ncoeffs(k, routine, num)
            key = json.dumps([jc["polys"], jc["inits"], jc["t0"], jc.get("tree"), jc.get("residual"), routine, num])
            last_nonzero = bool(spec and nco >= 1 and len(spec) >= nco and any(x != 0 for x in spec[nco - 1]))
            ck.count(key, nontrivial=(c["kind"] != "reject" and nco - k >= 2 and last_nonzero),
                     sample={"case": jc, "call": cl, "impl": {kk: vv for kk, vv in rec.items() if kk != "tb"}} if (ci % 7 == 0 and li == 0) else None,
                     kind=c["kind"], routine=routine, order=k, dim=d, num=num, timedep=c["timedep"],
                     tree=(tree_kind(c["tree"]) + ("/permuted" if tree_is_permuted(c["tree"]) else "")) if c.get("tree") else "array",
                     residual=(c["residual"] or {}).get("form", "-"))
            replay = {"case": jc, "call": cl, "impl": rec}
            # ---------------- model of this routine
            m = None
            model_none = False
            if routine != "residual":
                raw = mv.get((ci, li))
                if isinstance(raw, str):
                    n_evalfail += 1
                elif raw is not None:
                    dq = lib.decode_optQ(raw)
                    if dq is None:
                        model_none = True
                    else:
                        m = unflat(dq, d)
            # ---------------- rejections
            if c["kind"] == "reject":
                want_raise = model_none
                if mvals is None or isinstance(mv.get((ci, li)), str):
                    continue
                if ("raised" in rec) != want_raise:
                    ck.report(f"C10.{routine}.reject", f"{routine}(num={num}) with {len(c['inits'])} initial values for an order-{k} problem: "
                              f"implementation {'raised ' + rec['raised'] if 'raised' in rec else 'returned a result'}, model "
                              f"{'rejects' if want_raise else 'accepts'}", replay)
                elif not want_raise and m is not None:
                    mism = compare(rec["out"], m, TOL)
                    if mism:
                        ck.report(f"C10.{routine}.value", f"{routine}(num={num}): {mism}", replay)
                continue
            if "raised" in rec:
                ck.report(f"C10.{routine}.exception", f"{routine}(num={num}) raised {rec['raised']}: {rec.get('msg', '')!r} on a well-formed problem "
                          f"(order {k}, d={d}, tree={bool(c.get('tree'))})", replay)
                continue
            if spec is None:
                continue
            exp_spec = spec[:nco]
            n_cmp += 1
            tol = RES_TOL if routine == "residual" else TOL
            mism_s = compare(rec["out"], exp_spec, tol)
            mism_m = compare(rec["out"], m, TOL) if m is not None else None
            if routine == "residual":
                mism_d = compare(rec["out_default"], exp_spec, RES_TOL_DEFAULT)
                if mism_d and not mism_s:
                    ck.report(f"C10.residual.{c['residual']['form']}.default-solver", f"jetexpand_residual(num={num}) with the DEFAULT Gauss-Newton "
                              f"settings (tol 1e-6, maxiter 10) on the {c['residual']['form']} formulation (order {k}, d={d}) misses the "
                              f"coefficients by more than {RES_TOL_DEFAULT}: {mism_d} (iterations {rec.get('iters_default')}); the tightened solver is accurate",
                              dict(replay, expected=[[str(x) for x in v] for v in exp_spec]))
                if mism_s:
                    scale_all = max([1.0] + [abs(float(x)) for v in exp_spec for x in v])
                    stalled = rec.get("iters") is not None and rec["iters"] >= rec.get("maxiter", 40)
                    if stalled or rec.get("constraint_norm", 0.0) > 1e-6 * scale_all:
                        ck.report("C10.residual.not-converged", f"jetexpand_residual(num={num}) on the {c['residual']['form']} formulation "
                                  f"(order {k}, d={d}) returns coefficients that are not the solution's and gives no error: the Gauss-Newton "
                                  f"iteration (tol 1e-13, maxiter {rec.get('maxiter')}) stopped after {rec.get('iters')} iterations with "
                                  f"|constraint| = {rec.get('constraint_norm'):.3g} (largest coefficient {scale_all:.3g}): {mism_s}",
                                  dict(replay, expected=[[str(x) for x in v] for v in exp_spec]))
                    else:
                        ck.report(f"C10.residual.{c['residual']['form']}", f"jetexpand_residual(num={num}) on the {c['residual']['form']} "
                                  f"formulation (order {k}, d={d}) converged to coefficients that are not the solution's: {mism_s}",
                                  dict(replay, expected=[[str(x) for x in v] for v in exp_spec]))
                continue
            if model_none:
                ck.report(f"C10.{routine}.model-rejects", f"model of {routine} rejects a well-formed problem the implementation accepts",
                          dict(replay, broken="correspondence Run/JetRun.v"), nofail=True)
                continue
            if mism_s:
                old_raw = mv.get((ci, li, "old")) if routine == "via_jvp" else None
                m_old = unflat(lib.decode_optQ(old_raw), d) if old_raw is not None and not isinstance(old_raw, str) \
                    and lib.decode_optQ(old_raw) is not None else None
                if routine == "via_jvp" and c["timedep"] and m_old is not None and not compare(rec["out"], m_old, TOL):
                    ck.report("C10.via_jvp.time-dependent",
                              "jetexpand_ode_via_jvp drops the explicit time derivative of a time-dependent vector field again (defect F4, "
                              f"repaired in 46ebe36, has returned): {mism_s}; order {k}, d={d}, t0={float(c['t0'])}, num={num} (the Coq model of "
                              "the routine BEFORE the repair, which closes over t, reproduces the returned values)",
                              dict(replay, expected=[[str(x) for x in v] for v in exp_spec], model_closed_over_t=[[str(x) for x in v] for v in m_old]))
                elif routine == "doubling" and c["timedep"] and m is not None and not mism_m:
                    ck.report("C10.doubling.time-dependent",
                              "jetexpand_ode_doubling_unroll drops the explicit time derivative of a time-dependent vector field: "
                              f"{mism_s}; order {k}, d={d}, t0={float(c['t0'])}, num_doublings={num} (the Coq model of the routine, which closes "
                              "over t, reproduces the returned values)",
                              dict(replay, expected=[[str(x) for x in v] for v in exp_spec], model=[[str(x) for x in v] for v in (m or [])]))
                else:
                    ck.report(f"C10.{routine}.value", f"{routine}(num={num}) differs from the formal series solution: {mism_s}; order {k}, d={d}, "
                              f"time-dependent={c['timedep']}, tree={jc.get('tree')}",
                              dict(replay, expected=[[str(x) for x in v] for v in exp_spec]))
            if mism_m and not mism_s and routine == "doubling" and c["timedep"]:
                # the implementation differentiates t as well: the as-coded model (t closed over) is out of date, not the code
                repaired.add(routine)
            elif mism_m and not mism_s and corr_bug is None:
                corr_bug = (replay, f"{routine}(num={num}): implementation agrees with the specification but not with the Coq model: {mism_m}")
            # the theorems say the scan / unroll models equal the specification: cross-check the evaluation
            if m is not None and routine in ("padded_scan", "unroll") and m != exp_spec and corr_bug is None:
                corr_bug = (replay, f"model of {routine} differs from the specification (contradicts T10.2)")
            if m is not None and routine == "via_jvp" and m != exp_spec and corr_bug is None:
                corr_bug = (replay, "model of via_jvp (as coded now) differs from the specification (contradicts T10.3)")
            if m is not None and routine == "doubling" and not c["timedep"] and m != exp_spec and corr_bug is None:
                corr_bug = (replay, "model of doubling differs from the specification on an autonomous field (contradicts T10.4)")

    for routine in sorted(repaired):
        ck.notes.append(f"{routine}: the implementation returns the exact derivatives for time-dependent fields, i.e. it no longer closes "
                        f"over t; Model/Jet.v {routine}_model (which closes over t) is out of date and must be re-modelled")
    ck.hist["compared"] = {"n": n_cmp}
    ck.hist["model_eval_failed"] = {"n": n_evalfail}
    if n_evalfail:
        ck.notes.append(f"{n_evalfail} model evaluations timed out and were not compared")
    if corr_bug is not None:
        replay, txt = corr_bug
        ck.report("C10.correspondence", f"correspondence Run/JetRun.v broken: {txt}", dict(replay, broken="correspondence C10 (Run/JetRun.v)"),
                  nofail=True)
    if mvals is None:
        ck.report("C10.model-eval", "model evaluation failed (Coq)", {"notes": ck.notes, "broken": "Run/JetRun.v"}, nofail=True)
    if not pr["ok"] and not ck.violations:
        ck.report("C10.proof", f"proof obligations no longer check: {pr['errors']}",
                  {"broken": pr.get("failed_at", "Props/C10.v"), "errors": pr["errors"], "build_tail": pr.get("build_tail", "")[-1500:]},
                  nofail=True)
    ck.finish(rule="cases drawn from one PRNG: polynomial fields u^(k)=f(u,..,u^(k-1),t), k in {1,2}, d in 1..3, 1..4 monomials per component of "
              "degree <= 3 (<= 2 for some), coefficients j/4, explicit t in ~60% of the fields; initial values and t0 are j/4; num 0..6 (quick) / 0..10; "
              "via_jvp capped at num 4..5 (quick) / 5..8 (cost 2^num), doubling 0..3 doublings (1,3,7,15 coefficients; first order only); tree cases wrap the state "
              "in random dict/tuple/list pytrees with scalar or 1-d leaves (dict keys in random order, so that ravel order != natural order); "
              "residual cases: residual_from_ode(ode).jet_lift(num-1), M(u^(k)-f)=0 with triangular M, index-1 DAE stacks; reject cases: wrong "
              f"number of initial values / doubling on second order.  tolerance {TOL} (residual routine: {RES_TOL} tightened solver, {RES_TOL_DEFAULT} default solver) * max(1,|coefficient vector|). "
              "non-trivial = at least two derivatives beyond the initial data requested and the highest one non-zero; distinct by full input")


if __name__ == "__main__":
    main()
