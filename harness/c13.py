"""C13 check: posterior samples are exact affine images of the normal draws."""

from __future__ import annotations

import concurrent.futures as cf
import json
import math
import os
import sys
from fractions import Fraction as Fr

import numpy as np

sys.path.insert(0, os.path.dirname(os.path.abspath(__file__)))
import gen  # noqa: E402
import lib  # noqa: E402

HEADER = """From Coq Require Import List ZArith NArith QArith Qcanon.
From PD Require Import Base.Field Base.Matrix Model.Gauss Model.Sample Run.SampleRun.
Import ListNotations.
Local Open Scope Z_scope.
"""
# tolerances: >= 100x the worst discrepancy observed on the unchanged tree among the cases that pass the
# conditioning gauge (quick seeds 1-3, thorough seed 3: zero 6e-11, model 4e-10, affinity 3e-11, gram 4e-9);
# a wrong offset / factor / ordering gives O(1)
ZTOL = 1e-8          # sample(0) vs smoothing means (relative to |mean| + std)
RTOL = 1e-7          # implementation vs model (relative to |value| + std)
GTOL = 1e-5          # Gram matrix vs joint covariance (relative to sd_i sd_j)
SHAPES = [[], [2], [2, 3]]
FULL_COST = 1500     # n^3 c T^2 per block up to which ALL unit draws are evaluated in the model


# ------------------------------------------------------------------ generation
def tame(c):
    c["f"] = [[[Fr(cf_) / 4, ex] for cf_, ex in p] for p in c["f"]]
    return c


def draw_size(c):
    kind, q, d = c["kind"], c["q"], c["d"]
    return (q + 1) * d          # dense (N,), isotropic (n, d), blockdiag (d, n)


def gen_cases(ck):
    quick = ck.tier == "quick"
    rng = ck.rng
    cases = []
    per = 2 if quick else 14
    for kind in ("dense", "iso", "blockdiag"):
        for strat in ("fixedinterval", "fixedpoint"):
            for _ in range(per):
                while True:
                    c = gen.gen_solver_case(rng, ck.tier, kinds=(kind,), strats=(strat,), qmax=3 if quick else 4, max_steps=3 if quick else 5)
                    if len(c["grid"]) >= 3:
                        break
                tame(c)
                if c["init_mode"] == "exact" and rng.random() < 0.7:
                    c["init_mode"] = "inexact"
                    c["std"] = [Fr(1, 64)] * (c["q"] + 1) if kind == "iso" else [[Fr(1, 64)] * c["d"] for _ in range(c["q"] + 1)]
                c["mode"] = "posterior"
                if strat == "fixedpoint":
                    t0 = c["grid"][0]
                    pts, t = [t0], t0
                    for _k in range(rng.randint(2, 3 if quick else 5)):
                        t = t + Fr(rng.choice([1, 2, 3, 5]), 16)
                        pts.append(t)
                    c["grid"] = pts
                    tol = 10.0 ** -rng.randint(2, 4)
                    c["adaptive"] = {"atol": tol * 0.1, "rtol": tol, "dt0": float(Fr(1, rng.choice([8, 16, 32])))}
                    c["damp"] = Fr(0)
                    c["error"] = None
                cases.append(c)
    for kind in ("dense", "iso", "blockdiag"):
        for _ in range(1 if quick else 8):
            while True:
                c = gen.gen_solver_case(rng, ck.tier, kinds=(kind,), strats=("fixedinterval",), qmax=3 if quick else 4, max_steps=4 if quick else 6)
                if len(c["grid"]) >= 3:
                    break
            c["mode"] = "from_grid"
            c["strat"] = "prior"
            c["calib"] = "none"
            if c["init_mode"] == "exact":
                c["init_mode"] = "mixed"
                c["std"] = ([Fr(rng.choice([0, 1, 2, 8]), 8) for _ in range(c["q"] + 1)] if kind == "iso"
                            else [[Fr(rng.choice([0, 1, 2, 8]), 8) for _ in range(c["d"])] for _ in range(c["q"] + 1)])
            cases.append(c)
    trees = ["flat", "dict", "tuple"]
    for i, c in enumerate(cases):
        c["tree"] = trees[(i + rng.randrange(3)) % 3] if not quick else trees[i % 3]
        c["seed"] = rng.randrange(1, 10 ** 6)
        c["shapes"] = SHAPES
        T = len(c["grid"])
        c["zr"] = [[Fr(rng.randint(-8, 8), 4) for _ in range(T * draw_size(c))] for _ in range(2)]
    return cases


# ------------------------------------------------------------------ implementation runs (parallel workers)
def run_impl_parallel(cases, workers=8):
    lib.ensure_work()
    payload = [gen.floatable(c) for c in cases]
    chunks = [list(range(i, len(cases), workers)) for i in range(workers)]
    chunks = [ch for ch in chunks if ch]
    results = [None] * len(cases)

    def one(wi, idxs):
        inp = os.path.join(lib.WORK, f"in_c13_{os.getpid()}_{wi}.json")
        outp = os.path.join(lib.WORK, f"out_c13_{os.getpid()}_{wi}.json")
        with open(inp, "w") as f:
            json.dump({"cases": [payload[i] for i in idxs]}, f)
        rc, out = lib.sh([lib.PY, os.path.join(lib.VERIF, "harness", "c13_impl.py"), inp, outp], timeout=3000, env=lib.impl_env())
        if rc != 0 or not os.path.exists(outp):
            raise RuntimeError(f"implementation runner c13_impl.py failed (rc={rc}):\n{out[-3000:]}")
        with open(outp) as f:
            res = json.load(f)["results"]
        os.remove(inp)
        os.remove(outp)
        return idxs, res

    with cf.ThreadPoolExecutor(max_workers=len(chunks)) as ex:
        for idxs, res in ex.map(lambda a: one(*a), list(enumerate(chunks))):
            for i, r in zip(idxs, res):
                results[i] = r
    return results


# ------------------------------------------------------------------ exact conversion
def frm(M):
    return [[Fr(x) for x in row] for row in M]


def block_inputs(r, a):
    """Exact model inputs of block a: (m0, L0, conds, Ls); Ls = |to| * raw Cholesky factor (the
    implementation's own factor of the predicted normal)."""
    mg = r["marginal"][a]
    m0, L0 = frm(mg["m"]), frm(mg["L"])
    conds, Ls = [], []
    for k in range(r["ncond"]):
        b = r["conds"][k][a]
        to = [Fr(x) for x in b["to"]]
        conds.append({"A": frm(b["A"]), "b": frm(b["b"]), "tl": [Fr(x) for x in b["tl"]], "to": to})
        Ls.append([[abs(to[i]) * Fr(x) for x in row] for i, row in enumerate(b["L"])])
    return m0, L0, conds, Ls


def bql(x):
    x = Fr(x)
    return f"(bqs ({x.numerator}) {x.denominator})"


def bmat(rows):
    return "[" + "; ".join("[" + "; ".join(bql(x) for x in row) + "]" for row in rows) + "]"


def blist(xs):
    return "[" + "; ".join(bql(x) for x in xs) + "]"


def coq_args(n, c, inp, big=True):
    m0, L0, conds, Ls = inp
    if big:
        cs = "; ".join(f"(mkCb {bmat(K['A'])} {bmat(K['b'])} [] {blist(K['tl'])} {blist(K['to'])})" for K in conds)
        return f"{lib.coq_nat(n)} {lib.coq_nat(c)} {bmat(m0)} {bmat(L0)} [{cs}] [{'; '.join(bmat(L) for L in Ls)}]"
    cs = "; ".join(f"(mkCs {lib.qcmat(K['A'])} {lib.qcmat(K['b'])} [] {lib.qclist(K['tl'])} {lib.qclist(K['to'])})" for K in conds)
    return f"{lib.coq_nat(n)} {lib.coq_nat(c)} {lib.qcmat(m0)} {lib.qcmat(L0)} [{cs}] [{'; '.join(lib.qcmat(L) for L in Ls)}]"


def coq_draws(mats, big=True):
    """mats: list over draws (consumption order) of n x c matrices"""
    if big:
        return "[" + "; ".join(bmat(z) for z in mats) + "]"
    return "[" + "; ".join(lib.qcmat(z) for z in mats) + "]"


# ------------------------------------------------------------------ layouts
def dims(c):
    kind, q, d = c["kind"], c["q"], c["d"]
    n = (q + 1) * d if kind == "dense" else q + 1
    cc = d if kind == "iso" else 1
    nb = d if kind == "blockdiag" else 1
    return n, cc, nb


def block_view(c, S, a):
    """S: array (T, *flat) -> (T, n, c) of block a"""
    kind = c["kind"]
    if kind == "dense":
        return S[:, :, None]
    if kind == "iso":
        return S
    return S[:, a, :, None]


def block_draws(c, z, a, T):
    """flat draw vector (call order x requested shape) -> list over calls of the n x c draw of block a"""
    n, cc, _nb = dims(c)
    size = draw_size(c)
    out = []
    for t in range(T):
        seg = z[t * size:(t + 1) * size]
        if c["kind"] == "blockdiag":
            out.append([[x] for x in seg[a * n:(a + 1) * n]])
        elif c["kind"] == "iso":
            out.append([seg[i * cc:(i + 1) * cc] for i in range(n)])
        else:
            out.append([[x] for x in seg])
    return out


def gains_and_Q(r, a):
    Gs, Qs = [], []
    for k in range(r["ncond"]):
        b = r["conds"][k][a]
        A, tl, to, L = np.array(b["A"]), np.array(b["tl"]), np.array(b["to"]), np.array(b["L"])
        Gs.append(to[:, None] * A * tl[None, :])
        Qs.append((np.abs(to)[:, None] * L) @ (np.abs(to)[:, None] * L).T)
    return Gs, Qs


def joint_cov_block(r, a, reverse):
    """(T, n, T, n) joint covariance of block a assembled from the Markov factorisation:
    reverse: marginal covariances of solution.u and plain backward gains;
    forward: Cov_0 = L0 L0^T, Cov_{k+1} = G Cov_k G^T + Q, cross blocks by plain gains."""
    Gs, Qs = gains_and_Q(r, a)
    T = r["ncond"] + 1
    n = Gs[0].shape[0] if Gs else len(r["marginal"][a]["m"])
    C = np.zeros((T, n, T, n))
    if reverse:
        covs = [np.array(r["u"][k][a][1]) for k in range(T)]
        for j in range(T):
            X = covs[j]
            C[j, :, j, :] = X
            for k in range(j - 1, -1, -1):
                X = Gs[k] @ X
                C[k, :, j, :] = X
                C[j, :, k, :] = X.T
    else:
        L0 = np.array(r["marginal"][a]["L"])
        covs = [L0 @ L0.T]
        for k in range(T - 1):
            covs.append(Gs[k] @ covs[-1] @ Gs[k].T + Qs[k])
        for k in range(T):
            X = covs[k]
            C[k, :, k, :] = X
            for j in range(k + 1, T):
                X = Gs[j - 1] @ X
                C[j, :, k, :] = X
                C[k, :, j, :] = X.T
    return C, covs


def expected_joint(c, r):
    """full joint covariance over (T, *flat state) with the factorisation's Kronecker structure"""
    kind, d = c["kind"], c["d"]
    n, cc, nb = dims(c)
    T = r["ncond"] + 1
    rev = r["reverse"]
    if kind == "dense":
        C, _ = joint_cov_block(r, 0, rev)
        return C.reshape(T * n, T * n), None
    if kind == "iso":
        C, _ = joint_cov_block(r, 0, rev)
        E = np.einsum("kilj,ab->kialjb", C, np.eye(d)).reshape(T * n * d, T * n * d)
        same = np.einsum("kilj,ab->kialjb", np.ones_like(C), np.eye(d)).reshape(T * n * d, T * n * d) > 0
        shared = np.einsum("kilj,ab->kialjb", C, np.ones((d, d))).reshape(T * n * d, T * n * d)
        return E, (same, shared)
    E = np.zeros((T, d, n, T, d, n))
    for a in range(d):
        C, _ = joint_cov_block(r, a, rev)
        E[:, a, :, :, a, :] = C
    return E.reshape(T * d * n, T * d * n), None


def fr_matmul(A, B):
    return [[sum(A[i][k] * B[k][j] for k in range(len(B))) for j in range(len(B[0]))] for i in range(len(A))]


def amplification(c, r, sd):
    """Conditioning gauge of the sampling recursion on THIS posterior: the recursion (means with zero draws
    and the block columns G_k ... G_{t-1} L_t of the linear map) is evaluated once in float64 (numpy) and once
    exactly (Fractions) on the same raw floats; returned is the largest float64 rounding error relative to
    the marginal std, divided by the double-precision unit roundoff.  Singular innovation covariances (zero
    calibrated output scale + noise-free ODE information) make the backward gains ill-defined (entries up to
    ~1e170): there the samples are rounding noise (the gauge is astronomically large) and values are not
    compared.  The gauge is only used to decide WHETHER values are compared, never as a verdict."""
    n, cc, nb = dims(c)
    T = r["ncond"] + 1
    rev = r["reverse"]
    worst = 0.0
    order = list(range(T - 2, -1, -1)) if rev else list(range(T - 1))
    for a in range(nb):
        m0, L0, conds, Ls = block_inputs(r, a)
        sdb = block_view(c, sd, a).min(axis=2)           # (T, n)
        x_e, W_e = m0, L0                                   # exact carry: mean (n x c), newest block column
        x_f, W_f = np.array(m0, dtype=float), np.array(L0, dtype=float)
        cols_e, cols_f = [W_e], [W_f]
        pos = T - 1 if rev else 0
        for step, k in enumerate(order):
            K = conds[k]
            G_e = [[K["to"][i] * K["A"][i][j] * K["tl"][j] for j in range(n)] for i in range(n)]
            b_e = [[K["to"][i] * x for x in K["b"][i]] for i in range(n)]
            G_f = np.array(G_e, dtype=float)
            x_e = [[u + v for u, v in zip(ru, rv)] for ru, rv in zip(fr_matmul(G_e, x_e), b_e)]
            x_f = G_f @ x_f + np.array(b_e, dtype=float)
            cols_e = [fr_matmul(G_e, W) for W in cols_e] + [Ls[k]]
            cols_f = [G_f @ W for W in cols_f] + [np.array(Ls[k], dtype=float)]
            pos = pos - 1 if rev else pos + 1
            with np.errstate(all="ignore"):
                err = np.abs(x_f - np.array(x_e, dtype=float)).max(axis=1)
                for We, Wf in zip(cols_e, cols_f):
                    err = np.maximum(err, np.abs(Wf - np.array(We, dtype=float)).max(axis=1))
                ratio = err / sdb[pos]
            if not np.all(np.isfinite(ratio)):
                return float("inf")
            worst = max(worst, float(ratio.max()))
    return worst / 2.2e-16


AMP_MAX = 1e6        # float64 evaluation of the recursion accurate to 2e-10 std: 0.2% of RTOL


# ------------------------------------------------------------------ main
def main():
    ck = lib.Check("C13")
    pr = ck.run_proof()
    cases = gen_cases(ck)
    import time as _time
    _t0 = _time.time()
    try:
        ires = run_impl_parallel(cases)
    except RuntimeError as e:
        ck.report("C13.impl-runner", "implementation runner failed", {"err": str(e)[-3000:]}, nofail=True)
        ires = [{"error": "runner failed"}] * len(cases)

    ck.hist["impl_wall_s"] = {"s": round(_time.time() - _t0, 1), "per_case(build,sample)": [r.get("wall") for r in ires]}
    worst = {"zero": 0.0, "lin": 0.0, "gram": 0.0, "affine": 0.0, "model0": 0.0}
    ill = set()        # cases whose sampling recursion is numerically ill-defined (values not compared)
    emit = []          # (case index, block, kind of term, term text)
    for i, c in enumerate(cases):
        r = ires[i]
        jc = gen.jsonable({k: v for k, v in c.items() if k != "zr"})
        kind = c["kind"]
        tag = "from_grid" if c["mode"] == "from_grid" else kind
        n, cc, nb = dims(c)
        if "error" in r:
            ck.count(json.dumps(jc, sort_keys=True), nontrivial=False, kind=kind, mode=c["mode"])
            ck.report(f"C13.{kind}.exception", f"implementation raised {r['error']}", {"case": jc, "impl": r})
            continue
        T = r["ncond"] + 1
        nonunit = any(abs(x - 1.0) > 1e-12 for k in range(r["ncond"]) for b in r["conds"][k] for x in b["to"])
        offsets = any(abs(x) > 0 for k in range(r["ncond"]) for b in r["conds"][k] for row in b["b"] for x in row)
        nonunit_tl = any(abs(x - 1.0) > 1e-12 for k in range(r["ncond"]) for b in r["conds"][k] for x in b["tl"])
        ck.count(json.dumps(jc, sort_keys=True), nontrivial=(nonunit or nonunit_tl) and (offsets or c["mode"] == "from_grid"),
                 sample={k: jc[k] for k in ("kind", "q", "d", "strat", "calib", "grid", "tree", "mode")},
                 kind=kind, strat=c["strat"], calib=c["calib"], tree=c["tree"], steps=T - 1, d=c["d"],
                 nonunit_to_observed=nonunit, nonzero_offsets=offsets)
        replay = {"case": jc, "zr": gen.jsonable(c["zr"])}
        sig = (lambda what: "C13.from_grid" if c["mode"] == "from_grid" else f"C13.{kind}.{what}")
        want_rev = c["mode"] == "posterior"
        if r["reverse"] != want_rev:
            ck.report(sig("shape"), f"posterior.reverse is {r['reverse']}", replay)
            continue
        if "table_error" in r:
            ck.report(sig("shape"), f"draw requests: {r['table_error']} ({r['draw_shapes']})", replay)
            continue
        # ---------------- call order / requested shapes / key discipline (v)
        normals = [e for e in r["log"] if e[0] == "normal"]
        want_shape = {"dense": [n], "iso": [n, c["d"]], "blockdiag": [c["d"], n]}[kind]
        layout_ok = all(e[2] == want_shape for e in normals)
        if len(normals) != T or not layout_ok:
            ck.report(sig("shape"), f"random.normal called {len(normals)} times with shapes {[e[2] for e in normals][:4]}; expected {T} calls of shape {want_shape}", replay)
            if len(normals) != T:
                continue
        used = [tuple(e[1]) for e in r["log"]]
        if len(set(used)) != len(used):
            dup = next(k for k in used if used.count(k) > 1)
            what = sorted({e[0] for e in r["log"] if tuple(e[1]) == dup})
            ck.report(sig("keys") if c["mode"] == "posterior" else "C13.from_grid",
                      f"a random key is consumed more than once ({'+'.join(what)}): the key is reused instead of split", replay)
        chk = r["checks"]
        if not (chk["same_key_same_sample"] and chk["distinct_keys_differ"] and chk["finite"]):
            ck.report(sig("keys") if c["mode"] == "posterior" else "C13.from_grid", f"key behaviour with real draws: {chk}", replay)
        S0 = np.array(r["s0"])
        U = np.array(r["u_mean_flat"])
        E, iso_parts = expected_joint(c, r)
        sd = np.sqrt(np.maximum(np.diag(E), 0.0))
        sd = np.maximum(sd, 1e-7 * max(sd.max(), 1e-300)).reshape(S0.shape)
        mag = max(1.0, float(np.abs(U).max()))
        amp = amplification(c, r, sd)
        ck.hist.setdefault("log10_rounding_amplification", {})
        key_amp = "inf" if not math.isfinite(amp) else str(int(math.floor(math.log10(max(amp, 1.0)))))
        ck.hist["log10_rounding_amplification"][key_amp] = ck.hist["log10_rounding_amplification"].get(key_amp, 0) + 1
        # ---------------- shapes (iv)
        bad_shape = None
        if r["s0_treedef"] != r["u_treedef"] or r["s0_leaf_shapes"] != r["u_leaf_shapes"]:
            bad_shape = f"shape=(): sample leaves {r['s0_leaf_shapes']} / {r['s0_treedef']} vs solution.u.mean {r['u_leaf_shapes']} / {r['u_treedef']}"
        for e in chk["shapes"]:
            wantl = [e["shape"] + s for s in r["u_leaf_shapes"]]
            if e["leaf_shapes"] != wantl or e["treedef"] != r["u_treedef"]:
                bad_shape = bad_shape or f"shape={tuple(e['shape'])}: sample leaves {e['leaf_shapes']} vs expected {wantl}"
            elif (amp <= AMP_MAX and e["recursion_maxdiff"] > 1e-9) or not e["all_distinct"]:
                bad_shape = bad_shape or (f"shape={tuple(e['shape'])}: entries are not the shape-() samples of the split keys "
                                          f"(max diff {e['recursion_maxdiff']:.3g}, all distinct: {e['all_distinct']})")
        if bad_shape:
            ck.report(sig("shape"), f"{kind}/{c['tree']}: {bad_shape}", replay)
        # ---------------- zero draws (i)
        if amp > AMP_MAX:
            ill.add(i)
            continue
        if not np.allclose(np.array(r["s0_record"]), S0, rtol=1e-9, atol=1e-9 * mag):
            ck.report(sig("zero-draws"), "sample with zero draws differs between the eager record run and the jitted table run", replay)
        err = np.abs(S0 - U)
        tol = ZTOL * (np.abs(U) + sd) + 1e-13 * mag
        if not np.all(err <= tol):
            idx = np.unravel_index(np.argmax(err / tol), err.shape)
            ck.report(sig("zero-draws"), f"{kind}/{c['strat']}/{c['calib']}: with all draws zero the sample at index {tuple(int(x) for x in idx)} "
                      f"(time, state) is {float(S0[idx])!r}, the smoothing mean is {float(U[idx])!r} (std {float(sd[idx]):.3g})", replay)
        else:
            worst["zero"] = max(worst["zero"], float((err / tol).max()) * ZTOL)
        for ls, lu in zip(r["s0_tree"], r["u_tree"]):
            if not np.allclose(np.array(ls), np.array(lu), rtol=1e-8, atol=1e-8 * mag):
                ck.report(sig("zero-draws"), f"{kind}/{c['tree']}: zero-draw sample differs from solution.u.mean in pytree form (leaf order / unflattening)", replay)
        # ---------------- linear map: affine in the draws, M from unit draws
        units = np.array(r["units"])
        D = r["D"]
        M = units - S0[None]
        for zi, z in enumerate(c["zr"] if len(r["sz"]) == len(c["zr"]) else []):
            zf = np.array([float(x) for x in z])
            pred = S0 + np.tensordot(zf, M, axes=(0, 0))
            got = np.array(r["sz"][zi])
            e2 = np.abs(got - pred)
            t2 = RTOL * (np.abs(pred) + sd * (1 + np.abs(zf).sum())) + 1e-12 * mag
            if not np.all(e2 <= t2):
                ck.report(sig("linear-map"), f"{kind}: sample(z) != sample(0) + M z for a random draw vector (max excess {float((e2 / t2).max()):.3g}x tolerance): not affine in the draws", replay)
            else:
                worst["affine"] = max(worst["affine"], float((e2 / t2).max()) * RTOL)
        # ---------------- Gram matrix vs joint covariance (iii): the property
        Mm = M.reshape(D, -1)
        G = Mm.T @ Mm
        sdf = sd.reshape(-1)
        tolG = GTOL * np.outer(sdf, sdf) + 1e-300
        dG = np.abs(G - E)
        if iso_parts is not None:
            same, shared = iso_parts
            okd = np.all(dG[same] <= tolG[same])
            okx = np.all(dG[~same] <= tolG[~same])
            if not okd:
                ck.report(sig("gram"), f"{kind}: M M^T differs from the joint smoothing covariance within a dimension (max excess {float((dG / tolG)[same].max()):.3g}x tolerance)", replay)
            elif not okx:
                sh = bool(np.all(np.abs(G - shared) <= tolG))
                idx = np.unravel_index(np.argmax(np.where(same, 0.0, dG / tolG)), dG.shape)
                ck.report("C13.iso.gram.cross-dimension",
                          f"isotropic model, d={c['d']}: the Gram matrix M M^T of the sampling map has entry {float(G[idx])!r} between DIFFERENT state dimensions "
                          f"(flattened (time,coeff,dim) indices {tuple(int(x) for x in idx)}) where the isotropic law Cov (x) I_d has 0: the state dimensions do not get "
                          f"independent noise in IsotropicNormal.sample_flat; M M^T == Cov (x) ones(d,d) (one draw shared by all dimensions): {sh}", replay)
            else:
                worst["gram"] = max(worst["gram"], float((dG / tolG).max()) * GTOL)
        elif not np.all(dG <= tolG):
            idx = np.unravel_index(np.argmax(dG / tolG), dG.shape)
            ck.report(sig("gram"), f"{kind}/{c['strat']}: M M^T[{int(idx[0])},{int(idx[1])}] = {float(G[idx])!r} but the joint covariance of the Markov factorisation has {float(E[idx])!r} "
                      f"(sd {sdf[idx[0]]:.3g}, {sdf[idx[1]]:.3g})", replay)
        else:
            worst["gram"] = max(worst["gram"], float((dG / tolG).max()) * GTOL)
        if c["mode"] == "from_grid":
            # evaluate_marginals() of the sequence vs the independent forward recursion
            for a in range(nb):
                _C, covs = joint_cov_block(r, a, False)
                for k in range(T):
                    cu = np.array(r["u"][k][a][1])
                    s_ = np.sqrt(np.maximum(np.diag(covs[k]), 0))
                    s_ = np.maximum(s_, 1e-7 * max(s_.max(), 1e-300))
                    if not np.all(np.abs(cu - covs[k]) <= 1e-7 * np.outer(s_, s_) + 1e-300):
                        ck.report("C13.from_grid", f"{kind}: evaluate_marginals() covariance at grid point {k} differs from A Cov A^T + Q", replay)
        # ---------------- model terms (ii) (only if the draws have the layout the model assumes)
        for a in range(nb if layout_ok else 0):
            inp = block_inputs(r, a)
            rev = lib.coq_bool(r["reverse"])
            if n ** 3 * cc * T ** 2 <= FULL_COST:
                emit.append((i, a, "all", f"sample_all_run_b {rev} {coq_args(n, cc, inp)}"))
            else:
                zero = [[[Fr(0)] * cc for _ in range(n)] for _ in range(T)]
                emit.append((i, a, "zero", f"sample_run_b {rev} {coq_args(n, cc, inp)} {coq_draws(zero)}"))
                for zi, z in enumerate(c["zr"]):
                    emit.append((i, a, f"z{zi}", f"sample_run_b {rev} {coq_args(n, cc, inp)} {coq_draws(block_draws(c, z, a, T))}"))
    # reference instance (Qc) on the two cheapest blocks: zero draws
    order = sorted(range(len(emit)), key=lambda j: len(emit[j][3]))[:2]
    xterms = []
    for j in order:
        i, a, _what, _t = emit[j]
        c, r = cases[i], ires[i]
        n, cc, nb = dims(c)
        T = r["ncond"] + 1
        inp = block_inputs(r, a)
        zero = [[[Fr(0)] * cc for _ in range(n)] for _ in range(T)]
        xterms.append((f"sample_run {lib.coq_bool(r['reverse'])} {coq_args(n, cc, inp, big=False)} {coq_draws(zero, big=False)}",
                       f"sample_run_b {lib.coq_bool(r['reverse'])} {coq_args(n, cc, inp)} {coq_draws(zero)}"))
    _t1 = _time.time()
    try:
        mres = lib.coq_eval("C13", HEADER, [e[3] for e in emit] + [t for pair in xterms for t in pair], shard=1, timeout=240, case_timeout=240)
    except RuntimeError as e:
        ck.report("C13.model-eval", "model evaluation failed (Coq)", {"err": str(e)[-2000:], "broken": "Run/SampleRun.v"}, nofail=True)
        mres = None
    ck.hist["model_wall_s"] = {"s": round(_time.time() - _t1, 1)}
    skipped = 0
    compared_units = 0
    if mres is not None:
        xs = mres[len(emit):]
        nx = 0
        for k in range(0, len(xs), 2):
            qa, qb = lib.decode_optQ(xs[k]), lib.decode_optQ(xs[k + 1])
            if qa is None or qb is None:
                continue
            nx += 1
            if len(qa) != len(qb) or any(abs(x - y) > Fr(1, 2 ** 100) * (abs(x) + Fr(1, 2 ** 200)) for x, y in zip(qa, qb)):
                ck.report("C13.model-instances-disagree", "Qc and bigQ instances of the sampling model disagree", {"term": xterms[k // 2][0][:3000], "broken": "Run/SampleRun.v (bigQ instance / printer)"}, nofail=True)
        ck.hist["qc_reference_crosschecks"] = {"n": nx}
        for (i, a, what, _t), v in zip(emit, mres[:len(emit)]):
            c, r = cases[i], ires[i]
            mv = lib.decode_optQ(v)
            if mv is None:
                skipped += 1
                continue
            kind = c["kind"]
            n, cc, nb = dims(c)
            T = r["ncond"] + 1
            replay = {"case": gen.jsonable({k: v_ for k, v_ in c.items() if k != "zr"}), "zr": gen.jsonable(c["zr"]), "block": a}
            sig = (lambda w: "C13.from_grid" if c["mode"] == "from_grid" else f"C13.{kind}.{w}")
            E, _ = expected_joint(c, r)
            sdfull = np.sqrt(np.maximum(np.diag(E), 0.0))
            sdfull = np.maximum(sdfull, 1e-7 * max(sdfull.max(), 1e-300)).reshape(np.array(r["s0"]).shape)
            sdb = block_view(c, sdfull, a)
            S0 = block_view(c, np.array(r["s0"]), a)
            mag = max(1.0, float(np.abs(S0).max()))
            blk = T * n * cc

            def cmp(impl, model, scale):
                mf = np.array([float(x) for x in model]).reshape(T, n, cc)
                e_ = np.abs(impl - mf)
                t_ = RTOL * (np.abs(mf) * scale + sdb) + 1e-13 * mag
                return e_, t_, mf

            if what in ("all", "zero"):
                e_, t_, mf = cmp(S0, mv[:blk], 1.0)
                if not np.all(e_ <= t_):
                    idx = np.unravel_index(np.argmax(e_ / t_), e_.shape)
                    ck.report(sig("zero-draws"), f"{kind} block {a}: sample(0)[time {int(idx[0])}, coeff {int(idx[1])}, col {int(idx[2])}] = {float(S0[idx])!r}, "
                              f"the model (Model/Sample.v on the exact posterior) gives {float(mf[idx])!r}", replay)
                else:
                    worst["model0"] = max(worst["model0"], float((e_ / t_).max()) * RTOL)
            if what == "all":
                units = np.array(r["units"])
                size = draw_size(c)
                for t in range(T):
                    for l, b in [(l_, b_) for l_ in range(n) for b_ in range(cc)]:
                        j = t * size + (a * n + l if kind == "blockdiag" else l * cc + b)
                        col = block_view(c, units[j], a) - S0
                        off = blk * (1 + (t * n + l) * cc + b)
                        mcol = np.array([float(x - y) for x, y in zip(mv[off:off + blk], mv[:blk])]).reshape(T, n, cc)
                        e_ = np.abs(col - mcol)
                        t_ = RTOL * (np.abs(mcol) + sdb) + 1e-13 * mag
                        compared_units += 1
                        if not np.all(e_ <= t_):
                            idx = np.unravel_index(np.argmax(e_ / t_), e_.shape)
                            ck.report(sig("linear-map"), f"{kind} block {a}: column of M for draw (call {t}, component ({l},{b})) at [time {int(idx[0])}, coeff {int(idx[1])}, col {int(idx[2])}] "
                                      f"is {float(col[idx])!r}, model {float(mcol[idx])!r}", replay)
                            break
                        worst["lin"] = max(worst["lin"], float((e_ / t_).max()) * RTOL)
                        if kind == "blockdiag":
                            others = np.delete(units[j] - np.array(r["s0"]), a, axis=1)
                            if others.size and np.abs(others).max() > 0:
                                ck.report(sig("linear-map"), f"blockdiag: the draw of block {a} moves another block", replay)
                    else:
                        continue
                    break
            if what[0] == "z" and what[1:].isdigit():
                zi = int(what[1:])
                got = block_view(c, np.array(r["sz"][zi]), a)
                zsum = 1.0 + sum(abs(float(x)) for x in c["zr"][zi])
                mf = np.array([float(x) for x in mv]).reshape(T, n, cc)
                e_ = np.abs(got - mf)
                t_ = RTOL * (np.abs(mf) + sdb * zsum) + 1e-13 * mag
                if not np.all(e_ <= t_):
                    idx = np.unravel_index(np.argmax(e_ / t_), e_.shape)
                    ck.report(sig("linear-map"), f"{kind} block {a}: sample(z)[time {int(idx[0])}, coeff {int(idx[1])}, col {int(idx[2])}] = {float(got[idx])!r} for a prescribed draw vector, model {float(mf[idx])!r}", replay)
                else:
                    worst["lin"] = max(worst["lin"], float((e_ / t_).max()) * RTOL)
    ck.hist["ill_conditioned_values_not_compared"] = {"n": len(ill)}
    if len(ill) > max(2, len(cases) // 4):
        ck.report("C13.coverage", f"{len(ill)} of {len(cases)} cases have a numerically ill-defined sampling recursion (values not compared)", {"cases": sorted(ill)}, nofail=True)
    ck.hist["model_terms"] = {"n": len(emit), "skipped(timeout)": skipped, "unit_columns_compared": compared_units}
    ck.hist["worst_discrepancy(relative to |value|+std)"] = {k: f"{v:.3g}" for k, v in worst.items()}
    if skipped > max(2, len(emit) // 4):
        ck.report("C13.model-eval", f"{skipped} of {len(emit)} model terms timed out", {"broken": "Run/SampleRun.v"}, nofail=True)
    if not pr["ok"] and not ck.violations:
        ck.report("C13.proof", f"proof obligations no longer check: {pr['errors']}",
                  {"broken": pr.get("failed_at", "Props/C13.v"), "errors": pr["errors"]}, nofail=True)
    ck.finish(rule="cases = posteriors (solution.solution_full.posterior) of fixed-interval smoother runs on fixed grids and fixed-point smoother runs with checkpoints "
              "(solve_adaptive_save_at, real error control) on random polynomial ODEs (3 factorisations, TS0/TS1, all calibrations, flat/dict/tuple states), plus "
              "MarkovSequence.from_grid(prior, reverse=False); backend.random.normal patched: (a) eager record run logging call order/keys/shapes with zero draws, "
              "(b) jitted table run returning prescribed draws selected by key -> sample(0), sample(e_j) for EVERY scalar draw (M), sample(z) for 2 random z; "
              "compared: sample(0) vs solution.u.mean (1e-8 rel. to |mean|+std, flat and pytree form), sample(0)/M columns/sample(z) vs Model/Sample.v evaluated on the exact "
              "raw posterior (bigQ instance, Qc reference on 2 terms; 1e-7 rel. to |value|+std), affinity, M M^T vs joint covariance assembled from marginal covariances and plain gains (1e-5 sd_i sd_j), "
              "shapes (), (2,), (2,3) = vmap recursion over split keys, key discipline (no key consumed twice); cases whose forward rounding bound of the recursion exceeds 1e7 x std (singular innovations: zero calibrated scale) are only checked for shapes/keys; non-trivial = non-unit to_observed or to_latent (fixed-point posteriors have unit to_observed by construction) and non-zero offsets; distinct by full input")


if __name__ == "__main__":
    main()
