"""C17 implementation runner: the three Jacobian handlers of /repo, called through the
public API on polynomial maps (n_in, d) -> (n_out, d); `probdiffeq.backend.random.rademacher`
(the attribute jacobians.py looks up at call time) is patched to return prescribed probes."""

import itertools
import json
import os
import sys

import jax

jax.config.update("jax_enable_x64", True)
import jax.numpy as jnp  # noqa: E402
import numpy as np  # noqa: E402

import probdiffeq  # noqa: E402
import probdiffeq.backend.random as pd_random  # noqa: E402
from probdiffeq import probdiffeq as pdq  # noqa: E402

assert probdiffeq.__file__.startswith(os.environ.get("VERIF_REPO", "/repo") + "/"), probdiffeq.__file__

_ORIG_RADEMACHER = pd_random.rademacher


def arr(x):
    return jnp.asarray(np.array(x, dtype=np.float64))


def make_fun(poly, with_kwarg):
    """poly[o][a] = list of [coef, [[i, b, e], ...]]; returns fun(s) or fun(s, *, scale)."""

    def body(s):
        s = jnp.asarray(s)
        rows = []
        for po in poly:
            ents = []
            for monos in po:
                acc = jnp.zeros((), dtype=s.dtype)
                for coef, fac in monos:
                    term = jnp.asarray(coef, dtype=s.dtype)
                    for i, b, e in fac:
                        term = term * s[i, b] ** e
                    acc = acc + term
                ents.append(acc)
            rows.append(jnp.stack(ents))
        return jnp.stack(rows)

    if with_kwarg:
        def fun(s, *, scale):
            return scale * body(s)
    else:
        def fun(s):
            return body(s)
    return fun


class Patched:
    """Context manager replacing backend.random.rademacher by a scripted generator."""

    def __init__(self, probes):
        self.probes = probes  # ndarray (S, rows, d) or None (all sign tensors of the requested shape)
        self.calls = []

    def __call__(self, key, /, shape, dtype):
        self.calls.append({"key": np.asarray(key).tolist(), "shape": [int(k) for k in shape], "dtype": str(np.dtype(dtype))})
        if self.probes is None:
            s, rows, d = shape
            allp = np.array(list(itertools.product([-1.0, 1.0], repeat=rows * d)), dtype=np.float64)
            if allp.shape[0] != s:
                raise RuntimeError(f"harness: full enumeration needs num_probes={allp.shape[0]}, got {s}")
            return jnp.asarray(allp.reshape(s, rows, d), dtype=dtype)
        p = np.asarray(self.probes, dtype=np.float64)
        if tuple(p.shape) != tuple(shape):
            # hand back an array of the REQUESTED shape so that the run continues; the harness
            # reports the shape mismatch from the recorded call
            return jnp.ones(shape, dtype=dtype)
        return jnp.asarray(p, dtype=dtype)

    def __enter__(self):
        pd_random.rademacher = self
        return self

    def __exit__(self, *a):
        pd_random.rademacher = _ORIG_RADEMACHER


def flat(a):
    a = np.asarray(a, dtype=np.float64)
    return {"shape": list(a.shape), "data": a.reshape(-1).tolist()}


def keylist(k):
    if isinstance(k, tuple):
        return ["tuple", len(k)]
    return np.asarray(k).reshape(-1).tolist()


def call(handler, op, fun, x, state, kw):
    meth = {"dense": handler.materialize_dense, "trace": handler.calculate_trace_along_d,
            "diag": handler.calculate_diagonal_along_d}[op]
    return meth(fun, x, state, **kw)


def run_numeric(c):
    fun = make_fun(c["poly"], c["scale"] is not None)
    kw = {"scale": c["scale"]} if c["scale"] is not None else {}
    x = arr(c["x"])
    out = {"calls": []}
    if c["kind"] == "mat":
        hs = {"mat": pdq.jacobian_materialize(), "fwd": pdq.jacobian_monte_carlo_fwd(seed=c["seed"]),
              "rev": pdq.jacobian_monte_carlo_rev(seed=c["seed"])}
        for hname, op in (("mat", "dense"), ("mat", "trace"), ("mat", "diag"), ("fwd", "dense"), ("rev", "dense")):
            h = hs[hname]
            st0 = h.init_jacobian_handler()
            fx, blk, st1 = call(h, op, fun, x, st0, kw)
            out["calls"].append({"handler": hname, "op": op, "fx": flat(fx), "out": flat(blk),
                                 "state0": keylist(st0), "state1": keylist(st1)})
        return out
    # stochastic: two consecutive calls threading the returned key
    num = c["num_probes"]
    mk = pdq.jacobian_monte_carlo_fwd if c["mode"] == "fwd" else pdq.jacobian_monte_carlo_rev
    h = mk(seed=c["seed"], num_probes=num)
    k0 = h.init_jacobian_handler()
    probes = None if c["probes"] == "all" else np.array(c["probes"], dtype=np.float64)
    with Patched(probes) as pat:
        fx1, b1, k1 = call(h, c["op"], fun, x, k0, kw)
        fx2, b2, k2 = call(h, c["op"], fun, x, k1, kw)
    out.update({"fx": flat(fx1), "out": flat(b1), "fx2": flat(fx2), "out2": flat(b2),
                "keys": [keylist(k0), keylist(k1), keylist(k2)], "rad_calls": pat.calls})
    return out


def run_validator(c):
    """Malformed / well-formed argument pairs; returns the exception class of every public call."""
    xs = tuple(c["x_shape"])
    base = jnp.full(xs, 0.5, dtype=jnp.float64) if xs else jnp.asarray(0.5, dtype=jnp.float64)
    if c["x_kind"] == "array":
        x = base
    elif c["x_kind"] == "list":
        x = [*base]
    elif c["x_kind"] == "numpy":
        x = np.asarray(base)
    elif c["x_kind"] == "tuple":
        x = tuple(base)
    else:
        raise RuntimeError("harness: x_kind")
    os_ = tuple(c["out_shape"])

    def value(s):
        tot = sum(jnp.sum(jnp.asarray(t)) for t in jax.tree_util.tree_leaves(s))
        return tot * jnp.ones(os_, dtype=jnp.float64)

    fun = {"array": value, "tuple": lambda s: (value(s), value(s)), "list": lambda s: [value(s)],
           "dict": lambda s: {"a": value(s)}, "tuple1": lambda s: (value(s),)}[c["out_kind"]]
    hs = {"mat": pdq.jacobian_materialize(), "fwd": pdq.jacobian_monte_carlo_fwd(seed=1, num_probes=2),
          "rev": pdq.jacobian_monte_carlo_rev(seed=1, num_probes=2)}
    res = []
    for hname, h in hs.items():
        st = h.init_jacobian_handler()
        for op in ("dense", "trace", "diag", "verify"):
            rec = {"handler": hname, "op": op, "raised": None, "msg_ok": None, "triple": None, "shapes": None}
            try:
                if op == "verify":
                    rec["triple"] = [int(k) for k in h._verify_fun_and_x(fun, x)]
                else:
                    fx, blk, _ = call(h, op, fun, x, st, {})
                    rec["shapes"] = [list(np.shape(fx)), list(np.shape(blk))]
            except Exception as e:  # noqa: BLE001
                rec["raised"] = type(e).__name__
                rec["msg_ok"] = "Received: " in str(e)
                rec["msg"] = str(e)[:200]
            res.append(rec)
    return {"results": res}


def main():
    cases = json.load(open(sys.argv[1]))["cases"]
    res = []
    for c in cases:
        try:
            res.append(run_validator(c) if c["kind"] == "val" else run_numeric(c))
        except Exception as e:  # noqa: BLE001
            import traceback
            res.append({"error": f"{type(e).__name__}: {e}", "tb": traceback.format_exc()[-1500:]})
    json.dump({"results": res}, open(sys.argv[2], "w"))


if __name__ == "__main__":
    main()
