"""One-step refinement along the implementation's trajectory (C02, C03, C04, C14 ...).

For every case the implementation is stepped through its public solver.init / solver.step;
every state is converted EXACTLY (floats -> rationals, Cholesky factor -> Gram matrix) and one model
step from state k is compared with the implementation's state k+1; the model's userfriendly_output
on the exact states is compared with the implementation's solution.  Exact rational arithmetic
stays cheap because it never iterates more than one step.
"""

from __future__ import annotations

import json
import math
from fractions import Fraction as Fr

import gen
import lib


def np_gram(L):
    n = len(L)
    m = len(L[0]) if n else 0
    return [[sum(L[i][k] * L[j][k] for k in range(m)) for j in range(n)] for i in range(n)]


def impl_normal(b):
    return (b["m"], np_gram(b["L"]))


def impl_cond_plain(b):
    A, bb, L, tl, to = b["A"], b["b"], b["L"], b["tl"], b["to"]
    Q = np_gram(L)
    Ap = [[to[i] * A[i][j] * tl[j] for j in range(len(tl))] for i in range(len(to))]
    bp = [[to[i] * x for x in bb[i]] for i in range(len(to))]
    Qp = [[to[i] * Q[i][j] * to[j] for j in range(len(to))] for i in range(len(to))]
    return (Ap, bp, Qp)


def split_conds(flat, N, c, count, k0):
    out = []
    k = k0
    for _ in range(count):
        A = [flat[k + i * N:k + (i + 1) * N] for i in range(N)]
        k += N * N
        b = [flat[k + i * c:k + (i + 1) * c] for i in range(N)]
        k += N * c
        Q = [flat[k + i * N:k + (i + 1) * N] for i in range(N)]
        k += N * N
        out.append((A, b, Q))
    return out, k


def compare_state(c, mv, e_next, rtol, where, e_prev_marg=None):
    N, cc, nb = gen.shape_dims(c["kind"], c["q"], c["d"])
    worst = 0.0
    mm, k = gen.split_normals(mv, N, cc, nb)
    for a in range(nb):
        mism, w = gen.compare_normal(impl_normal(e_next["u"][a]), mm[a], rtol, where=f"{where} block {a}")
        if mism:
            return mism, None
        worst = max(worst, w)
    if c["strat"] != "filter":
        mc, k = split_conds(mv, N, cc, nb, k)
        for a in range(nb):
            # backward gains have entries ~(1/h)^q in the scaled coordinates: their conditioning grows with q
            mism, w = gen.compare_cond_plain(impl_cond_plain(e_next["cond"][a]), mc[a], max(rtol, 1e-6) * (4.0 ** max(0, c["q"] - 3)),
                                             where=f"{where} block {a} backward",
                                             marg=e_prev_marg[a] if e_prev_marg else None)
            if mism:
                return mism, None
            worst = max(worst, w)
    out2 = mv[k:k + nb]
    run2 = mv[k + nb:k + 2 * nb]
    io = e_next["out"]
    for a in range(nb):
        g = float(io[a if len(io) > 1 else 0]) ** 2
        w = float(out2[a])
        if not abs(g - w) <= 20 * rtol * abs(w) + 1e-300:
            return f"{where} output_scale^2 block {a}: implementation {g!r} vs model {w!r}", None
    if e_next["run"] is not None:
        ir = e_next["run"]
        for a in range(nb):
            g = float(ir[a if len(ir) > 1 else 0]) ** 2
            w = float(run2[a])
            if not abs(g - w) <= 20 * rtol * abs(w) + 1e-300:
                return f"{where} running MLE scale^2 block {a}: implementation {g!r} vs model {w!r}", None
    # bookkeeping carried by the state: time, step counter, number of MLE data
    t_m, ns_m, nd_m = mv[k + 2 * nb:k + 2 * nb + 3]
    if abs(float(e_next["t"]) - float(t_m)) > 1e-12 * max(1.0, abs(float(t_m))):
        return f"{where} state time: implementation {e_next['t']!r} vs model {float(t_m)!r}", None
    if int(e_next["nsteps"]) != int(ns_m):
        return f"{where} num_steps: implementation {e_next['nsteps']} vs model {int(ns_m)}", None
    if e_next["run"] is not None and int(e_next["ndata"]) != int(nd_m):
        return f"{where} number of calibration data: implementation {e_next['ndata']} vs model {int(nd_m)}", None
    return None, worst


def compare_final(c, mv, r, rtol):
    N, cc, nb = gen.shape_dims(c["kind"], c["q"], c["d"])
    T = len(c["grid"])
    mm, k = gen.split_normals(mv, N, cc, T * nb)
    im, k2 = gen.split_normals(r["out"], N, cc, T * nb)
    worst = 0.0
    for idx in range(T * nb):
        mism, w = gen.compare_normal(im[idx], mm[idx], rtol, where=f"solution.u t[{idx // nb}] block {idx % nb}")
        if mism:
            return mism, None
        worst = max(worst, w)
    # the accessor solution.u.std must be the square root of the diagonal of the returned covariance (coefficient i, component a)
    if "std_acc_error" in r:
        return f"solution.u.std raised {r['std_acc_error']}", None
    if "std_acc" in r:
        q_, d_ = c["q"], c["d"]
        for ti in range(T):
            acc = r["std_acc"][ti]
            if len(acc) != q_ + 1:
                return f"solution.u.std has {len(acc)} coefficient entries, expected {q_ + 1}", None
            for i in range(q_ + 1):
                for a, got in enumerate(acc[i]):
                    if c["kind"] == "dense":
                        var = im[ti][1][i * d_ + a][i * d_ + a]
                    elif c["kind"] == "iso":
                        var = im[ti][1][i][i]
                    else:
                        var = im[ti * nb + a][1][i][i]
                    want = math.sqrt(max(float(var), 0.0))
                    smax = math.sqrt(max([abs(float(x)) for bl in im[ti * nb:(ti + 1) * nb] for row in bl[1] for x in row] + [0.0]))
                    if not abs(got - want) <= 1e-8 * max(want, 1e-7 * smax) + 1e-300:
                        return (f"solution.u.std t[{ti}] coefficient {i} component {a}: accessor returns {got!r} but the square root of the "
                                f"diagonal of the returned covariance is {want!r}"), None
    final = mv[k:k + nb]
    # the solution's time axis and step counters: grid and 0..N
    if "t" in r and [float(x) for x in r["t"]] != [float(x) for x in c["grid"]]:
        return f"solution.t {r['t']} is not the grid {[float(x) for x in c['grid']]}", None
    if "num_steps" in r:
        ns = [int(x) for x in (r["num_steps"] if isinstance(r["num_steps"], list) else [r["num_steps"]])]
        if ns != list(range(T)) and ns != list(range(1, T)) and ns != [T - 1]:
            return f"solution.num_steps {ns} is not the step count along the grid of {T - 1} steps", None
    osc = r["output_scale"]
    if c["calib"] in ("mle", "mle_nocorr"):
        for row in osc:
            for a in range(nb):
                g = float(row[a if len(row) > 1 else 0]) ** 2
                w = float(final[a])
                if not abs(g - w) <= 20 * rtol * abs(w) + 1e-300:
                    return f"reported output_scale^2 block {a}: implementation {g!r} vs model {w!r}", None
    elif c["calib"] == "none":
        for row in osc:
            for x in row:
                if abs(x - 1.0) > 1e-12:
                    return f"uncalibrated solver reports output_scale {x!r} != 1", None
    return None, worst


def check_trajectories(ck, cases, pid, rtol=2e-7, describe=None, shard=25, what=("step", "final")):
    """Returns worst discrepancy. Reports violations through ck."""
    import hashlib
    for c in cases:
        c["routine"] = "trajectory"
        # solver.init with the initial-constraint update (constraint_init = the solver's own constraint) on a third of the cases whose
        # initial state is not exact (exact initial states make the innovation matrix singular: SVD least squares, not modelled)
        # ... and only where the initial-constraint update is well-posed: the observed coefficient u^(ord) must not be known exactly
        # (std 0 with damp 0 makes the innovation variance zero while the residual is not: a zero-probability observation, inf/NaN)
        k_ = c["ord"]
        obs_std = [c["std"][k_]] if c["kind"] == "iso" else list(c["std"][k_])
        if c.get("init_mode") != "exact" and "cinit" not in c and all(x != 0 for x in obs_std):
            hsh = hashlib.sha256(json.dumps(gen.jsonable(c), sort_keys=True).encode()).digest()[0]
            c["cinit"] = (hsh % 3 == 0)
    ires = lib.run_impl("solve_impl.py", {"cases": [gen.floatable(c) for c in cases]}, timeout=3000)["results"]
    terms, meta = [], []
    nonfinite_degenerate, nonfinite_other = set(), set()

    def _finite(o):
        if isinstance(o, dict):
            return all(_finite(v) for v in o.values())
        if isinstance(o, (list, tuple)):
            return all(_finite(v) for v in o)
        if isinstance(o, float):
            return math.isfinite(o)
        return True

    for i, c in enumerate(cases):
        r = ires[i]
        if "error" in r:
            continue
        sts = r["states"]
        if not _finite(sts) or not _finite(r.get("out", [])):
            # NaN/inf states cannot be converted to rationals.  Dynamic calibration with an exactly-zero local scale produces them
            # (gain 0/0, finding F21): excluded like the other degenerate-scale cases; anything else is reported below.
            if c["calib"].startswith("dyn") and any((x == 0.0) or (x != x) for st in sts[1:] for x in st["out"]):
                nonfinite_degenerate.add(i)
            else:
                nonfinite_other.add(i)
            continue
        if "step" in what:
            terms.append(lambda c=c: gen.coq_init(c))
            meta.append((i, "init", None))
            for k in range(len(sts) - 1):
                dt = c["grid"][k + 1] - c["grid"][k]
                terms.append(lambda c=c, e=sts[k], dt=dt: gen.coq_step(c, e, dt))
                meta.append((i, "step", k))
        if "final" in what:
            terms.append(lambda c=c, sts=sts: gen.coq_finalize(c, sts))
            meta.append((i, "final", None))
    mres = None
    try:
        mres, xinfo = lib.dual_eval(pid, gen.HEADER, terms, sample=2, shard=shard)
        ck.hist["ocaml_vs_coq_crosscheck"] = xinfo
    except RuntimeError as e:
        ck.notes.append(f"model evaluation failed: {str(e)[:800]}")
        ck.report(f"{pid}.model-eval", "model evaluation failed (Coq)", {"notes": ck.notes, "broken": "Run/GaussRun.v step_run/finalize_run"}, nofail=True)
        return 0.0
    worst, skipped, degenerate = 0.0, 0, len(nonfinite_degenerate)
    bad = set(nonfinite_degenerate) | set(nonfinite_other)
    for i in sorted(nonfinite_other):
        c = cases[i]
        ck.report(f"{pid}.{c['kind']}.{c['strat']}.{c['calib']}.non-finite-state",
                  f"{c['kind']}/{c['strat']}/{c['lin']}/{c['calib']}: the solver produced non-finite states on a well-posed fixed-grid problem",
                  {"case": gen.jsonable(c)})
    for i, c in enumerate(cases):
        # dynamic calibration with an (essentially) zero local scale makes gains 0/0: the result is rounding noise
        if c["calib"].startswith("dyn") and "states" in ires[i]:
            if any((not (abs(x) >= 1e-9)) for st in ires[i]["states"][1:] for x in st["out"]):
                bad.add(i)
                degenerate += 1
    for i, c in enumerate(cases):
        jc = gen.jsonable(c)
        desc = describe(c) if describe else {}
        ck.count(json.dumps(jc, sort_keys=True), nontrivial=len(c["grid"]) > 2 or c["lin"] == "ts1",
                 sample={k: jc[k] for k in ("kind", "q", "d", "ord", "f", "lin", "strat", "calib", "grid", "damp", "base", "init_mode")},
                 kind=c["kind"], q=c["q"], d=c["d"], lin=c["lin"], strat=c["strat"], calib=c["calib"], order=c["ord"],
                 init=c["init_mode"], constraint_init=bool(c.get("cinit")), damp=str(c["damp"]), steps=len(c["grid"]) - 1, **desc)
        if "error" in ires[i]:
            ck.report(f"{pid}.{c['kind']}.exception", f"implementation raised {ires[i]['error']}", {"case": jc, "impl": ires[i]})
            bad.add(i)
    for (i, kind_, k), v in zip(meta, mres):
        if i in bad:
            continue
        c = cases[i]
        r = ires[i]
        mv = lib.decode_optQ(v)
        if mv is None:
            skipped += 1
            continue
        if kind_ == "init":
            mism, w = compare_state(c, mv, r["states"][0], rtol, where=f"solver.init(constraint_init={'constraint' if c.get('cinit') else None})")
            if not mism:
                # the posterior marginal carried in solution_full must be the same (updated) marginal
                N_, cc_, nb_ = gen.shape_dims(c["kind"], c["q"], c["d"])
                pm_model, _k = gen.split_normals(mv[len(mv) - nb_ * (N_ * cc_ + N_ * N_):], N_, cc_, nb_)
                for a in range(nb_):
                    mism, w2 = gen.compare_normal(impl_normal(r["states"][0]["pm"][a]), pm_model[a], rtol,
                                                  where=f"solver.init: marginal of solution_full, block {a}")
                    if mism:
                        break
                    w = max(w, w2)
        elif kind_ == "step":
            prev = r["states"][k]
            # the backward model maps into the space of the previous state: its offset / noise are measured against that marginal
            # (fixed-point: against the marginal it was merged down to, which is at least as large: use the first state as well)
            pm = [impl_normal(b) for b in prev["u"]]
            mism, w = compare_state(c, mv, r["states"][k + 1], rtol, where=f"step {k}->{k + 1}", e_prev_marg=pm)
        else:
            mism, w = compare_final(c, mv, r, rtol)
        if mism:
            bad.add(i)
            jc = gen.jsonable(c)
            ck.report(f"{pid}.{c['kind']}.{c['strat']}.{c['lin']}.{c['calib']}.{kind_}",
                      f"{c['kind']}/{c['strat']}/{c['lin']}/{c['calib']}: {mism}",
                      {"case": jc, "mismatch": mism, "stage": kind_, "step": k})
        else:
            worst = max(worst, w)
    ck.hist["model_skipped(singular or timeout)"] = {"n": skipped}
    ck.hist["degenerate_dynamic_scale_skipped"] = {"n": degenerate}
    ck.hist["worst_rel_discrepancy"] = {"value": worst}
    ck.hist["model_terms"] = {"n": len(terms)}
    return worst
