"""C18 check: initial step-size proposals are positive, finite and follow the heuristics.

1. prove Props/C18.vo (positivity of dt0_adaptive for all inputs, refinement of the model to the
   Hairer-Norsett-Wanner II.4 algorithm, dt0 > 0 iff u0 != 0 and its refutation);
2. correspondence: the REAL ivpsolve.dt0 / ivpsolve.dt0_adaptive (eager, float64, intermediate
   calls observed) vs Model/Stepsize.v evaluated by vm_compute on the same inputs with the
   implementation's own norms / vector-field values / real power as oracle answers: branches,
   first guess, Euler step, scaled difference, squared norms, d2, radicand vs dt1^(rate+1),
   guard value, final minimum;
3. the property's own predicate (result finite and > 0) on every case;
4. for a subset, the real adaptive solver is started from the proposal and must finish with
   finite output (wall-time bounded; time-outs are counted, not reported as violations).
"""

from __future__ import annotations

import concurrent.futures as cf
import json
import math
import os
import sys
from fractions import Fraction as Fr

sys.path.insert(0, os.path.dirname(os.path.abspath(__file__)))
import lib  # noqa: E402

HEADER = """From Coq Require Import List ZArith QArith.
From PD Require Import Model.Stepsize Run.C18Run.
Import ListNotations.
Local Open Scope Z_scope.
"""

UKINDS = ["zero", "tiny300", "tiny200", "huge300", "huge160", "badly", "badly_wide", "ordinary", "thresh", "partzero"]
FKINDS = ["zero", "root", "const_tiny", "tiny_lin", "linear", "quadratic", "time", "huge_coef", "thresh_f"]
STRUCTS = ["flat", "dict", "tuple", "nested"]
RTOL = 1e-12          # relative tolerance of the float-vs-exact comparisons
ATOL_SQ = 1e-290      # absolute slack for squared norms (underflow of squares in float64)
ATOL_SM = 1e-300      # absolute slack for vector components (denormals)


# ------------------------------------------------------------------- generation
def sgn(rng):
    return rng.choice([-1.0, 1.0])


def gen_y0(rng, kind, n):
    if kind == "zero":
        return [0.0] * n
    if kind == "tiny300":
        return [sgn(rng) * 1e-300 * rng.uniform(1, 9) for _ in range(n)]
    if kind == "tiny200":
        return [sgn(rng) * 1e-200 * rng.uniform(1, 9) for _ in range(n)]
    if kind == "huge300":
        return [sgn(rng) * 1e300 * rng.uniform(0.1, 1) for _ in range(n)]
    if kind == "huge160":
        return [sgn(rng) * 1e160 * rng.uniform(0.1, 1) for _ in range(n)]
    if kind == "badly":
        return [sgn(rng) * 10.0 ** rng.uniform(-12, 12) for _ in range(n)]
    if kind == "badly_wide":
        return [sgn(rng) * 10.0 ** rng.choice([-100, -50, 0, 50, 100]) * rng.uniform(1, 9) for _ in range(n)]
    if kind == "ordinary":
        s = rng.choice([0.1, 1.0, 1.0, 10.0])
        return [rng.gauss(0, 1) * s for _ in range(n)]
    if kind == "thresh":
        v = [rng.gauss(0, 1) for _ in range(n)]
        nv = math.sqrt(sum(x * x for x in v)) or 1.0
        k = 1e-5 * rng.choice([0.5, 0.999999, 1.000001, 2.0, 1.0])
        return [x / nv * k for x in v]
    if kind == "partzero":
        v = [rng.gauss(0, 1) for _ in range(n)]
        for i in range(n):
            if rng.random() < 0.5:
                v[i] = 0.0
        if all(x == 0.0 for x in v):
            v[rng.randrange(n)] = 1.5
        return v
    raise ValueError(kind)


def gen_field(rng, kind, n, y0, huge):
    Z = [0.0] * n
    b, c, g, m = list(Z), list(Z), list(Z), list(Z)
    A = [list(Z) for _ in range(n)]
    rnd = lambda s=1.0: [rng.gauss(0, 1) * s for _ in range(n)]  # noqa: E731
    rndA = lambda s=1.0: [[rng.gauss(0, 1) * s for _ in range(n)] for _ in range(n)]  # noqa: E731
    if kind == "zero":
        pass
    elif kind == "root":
        m = list(y0)
        A = rndA()
        if not huge:
            c = rnd()
    elif kind == "const_tiny":
        b = rnd(1e-20)
    elif kind == "tiny_lin":
        A = rndA(1e-22)
    elif kind == "linear":
        b, A = rnd(), rndA()
    elif kind == "quadratic":
        b, A = rnd(), rndA()
        c = rnd() if not huge else list(Z)
    elif kind == "time":
        b, A, g = rnd(), rndA(), rnd(3.0)
    elif kind == "huge_coef":
        s = 10.0 ** rng.choice([50, 100, 140, 148]) if not huge else 1.0
        A = rndA(s)
        b = rnd()
    elif kind == "thresh_f":
        v = rnd()
        nv = math.sqrt(sum(x * x for x in v)) or 1.0
        k = 1e-5 * rng.choice([0.5, 0.999999, 1.000001, 2.0])
        b = [x / nv * k for x in v]
    else:
        raise ValueError(kind)
    if huge:   # keep f(u0) finite: |A| <= 1/n
        A = [[max(-1.0, min(1.0, a)) / n for a in row] for row in A]
    return {"b": b, "A": A, "c": c, "g": g, "m": m}


def tol(rng):
    e = rng.randint(0, 12)
    return 10.0 ** (-e) if rng.random() < 0.6 else min(1.0, 10.0 ** (-e) * rng.uniform(1, 9.99))


def gen_case(rng, helper, ukind=None, fkind=None):
    n = rng.choice([1, 2, 2, 3, 4, 5])
    struct = rng.choice(STRUCTS) if n > 1 else rng.choice(["flat", "dict"])
    ukind = ukind or rng.choice(UKINDS)
    fkind = fkind or rng.choice(FKINDS)
    y0 = gen_y0(rng, ukind, n)
    huge = max(abs(x) for x in y0) > 1e140
    c = {"helper": helper, "n": n, "struct": struct, "ukind": ukind, "fkind": fkind, "y0": y0, "tc": 0.0,
         "t0": rng.choice([0.0, 0.0, 0.5, -1.0, 3.0])}
    c.update(gen_field(rng, fkind, n, y0, huge))
    if helper == "dt0":
        if rng.random() < 0.25:
            c["scale"], c["nugget"] = rng.choice([0.1, 0.5, 0.001]), rng.choice([1e-8, 1e-3, 1.0])
        else:
            c["scale"], c["nugget"] = None, None
    else:
        c["atol"], c["rtol"], c["rate"] = tol(rng), tol(rng), rng.randint(1, 12)
    return c


def fixed_cases():
    """Deterministic representatives (independent of the seed) of every input class for which the
    unchanged tree is known to violate the property, plus the example of Proofs/StepsizeProofs.v."""
    def lin(helper, y0, a, b=0.0, **kw):
        n = len(y0)
        c = {"helper": helper, "n": n, "struct": "flat", "ukind": kw.pop("ukind"), "fkind": kw.pop("fkind"), "y0": y0,
             "tc": 0.0, "t0": 0.0, "b": [b] * n, "A": [[a if i == j else 0.0 for j in range(n)] for i in range(n)],
             "c": [0.0] * n, "g": [0.0] * n, "m": [0.0] * n}
        if helper == "dt0":
            c["scale"], c["nugget"] = None, None
        else:
            c["atol"], c["rtol"], c["rate"] = kw.get("atol", 1e-6), kw.get("rtol", 1e-3), kw.get("rate", 4)
        return c
    out = [
        lin("dt0", [0.0, 0.0], -1.0, 1.0, ukind="zero", fkind="linear"),
        lin("dt0", [1e-300], 0.0, 1.0, ukind="tiny300", fkind="linear"),
        lin("dt0", [1e300, 1e300], 0.0, 0.0, ukind="huge300", fkind="zero"),
        lin("dt0", [1e300], 1.0, 0.0, ukind="huge300", fkind="linear"),
        lin("dt0", [1.0, 2.0], 1e200, 0.0, ukind="ordinary", fkind="huge_coef"),
        lin("dt0_adaptive", [1e300], 1.0, 0.0, ukind="huge300", fkind="linear"),
        lin("dt0_adaptive", [1.0, 2.0], 1e148, 0.0, ukind="ordinary", fkind="huge_coef", atol=1e-12, rtol=1e-12),
        lin("dt0_adaptive", [0.0, 0.0], -1.0, 1.0, ukind="zero", fkind="linear"),
        lin("dt0_adaptive", [1e-300], 0.0, 0.0, ukind="tiny300", fkind="zero"),
    ]
    # Example dt0_adaptive_example: y' = (1/4) J y, y0 = (3,4), rate 2: exact answer 1/10
    ex = lin("dt0_adaptive", [3.0, 4.0], 0.0, 0.0, ukind="ordinary", fkind="linear", atol=29 / 5600, rtol=493 / 67200, rate=2)
    ex["A"] = [[0.0, -0.25], [0.25, 0.0]]
    out.append(ex)
    return out


def gen_solve_case(rng, idx):
    n = rng.choice([1, 2, 3])
    struct = rng.choice(["flat", "dict", "tuple"]) if n > 1 else "flat"
    ukind = rng.choice(["ordinary", "ordinary", "zero", "tiny300", "partzero", "thresh", "mild"])
    y0 = [sgn(rng) * 10.0 ** rng.uniform(-6, 2) for _ in range(n)] if ukind == "mild" else gen_y0(rng, ukind, n)
    y0 = [max(-50.0, min(50.0, x)) for x in y0]
    A = [[(-rng.uniform(0.1, 3.0) if i == j else 0.3 * rng.gauss(0, 1)) for j in range(n)] for i in range(n)]
    fk = rng.choice(["linear", "linear", "time", "zero", "root"])
    b = [rng.gauss(0, 1) for _ in range(n)]
    g = [rng.gauss(0, 1) for _ in range(n)] if fk == "time" else [0.0] * n
    m = [0.0] * n
    if fk == "zero":
        A = [[0.0] * n for _ in range(n)]
        b = [0.0] * n
    if fk == "root":
        m, b = list(y0), [0.0] * n
    helper = rng.choice(["dt0", "dt0_adaptive", "dt0_adaptive"])
    tolv = 10.0 ** (-rng.randint(2, 6))
    c = {"id": idx, "helper": helper, "n": n, "struct": struct, "ukind": ukind, "fkind": fk, "y0": y0, "tc": 0.0,
         "t0": rng.choice([0.0, 0.5, -1.0]), "b": b, "A": A, "c": [0.0] * n, "g": g, "m": m,
         "num": rng.choice([2, 3, 4]), "solve_atol": tolv, "solve_rtol": tolv, "scale": None, "nugget": None}
    c["t1"] = c["t0"] + rng.choice([0.1, 0.5, 1.0])
    c["atol"], c["rtol"], c["rate"] = tolv, tolv, rng.choice([c["num"], rng.randint(1, 12)])
    return c


# ------------------------------------------------------------------- decoding the observations
def finite(x):
    if isinstance(x, list):
        return all(finite(y) for y in x)
    if isinstance(x, bool):
        return True
    return isinstance(x, (int, float)) and math.isfinite(x)


def decode_adaptive(c, r):
    """Returns (obs dict, None) or (None, reason)."""
    names = [e[0] for e in r["log"]]
    want = ["vector_norm", "vector_norm", "where", "vector_norm", "maximum", "maximum", "where", "minimum"]
    if names[:7] != want[:7] or len(names) != 8 or names[7] not in ("minimum", "maximum"):
        return None, f"call sequence {names} != {want}"
    if len(r["vf"]) != 2:
        return None, f"{len(r['vf'])} vector-field evaluations, expected 2"
    L = r["log"]
    o = {"y0_seen": L[0][1][0], "d0": L[0][2], "f0_seen": L[1][1][0], "d1": L[1][2],
         "cond1": L[2][1][0], "dt0": L[2][2], "arg": L[3][1][0], "n2": L[3][2],
         "guardval": L[4][2], "max_args": L[5][1][:2], "cond2": L[6][1][0], "dt1_a": L[6][1][1], "dt1_b": L[6][1][2],
         "dt1": L[6][2], "min_args": L[7][1][:2], "final": L[7][2],
         "vf0": r["vf"][0], "vf1": r["vf"][1]}
    o["f0"], o["f1"] = o["vf0"][2], o["vf1"][2]
    o["y1"], o["t1"] = o["vf1"][0], o["vf1"][1]
    o["d2"] = o["max_args"][1]
    return o, None


def decode_simple(c, r):
    names = [e[0] for e in r["log"]]
    if names not in (["vector_norm", "vector_norm", "where"], ["vector_norm", "vector_norm"]):
        return None, f"call sequence {names} != vector_norm, vector_norm, where"
    if len(r["vf"]) != 1:
        return None, f"{len(r['vf'])} vector-field evaluations, expected 1"
    L = r["log"]
    o = {"y0_seen": L[0][1][0], "d0": L[0][2], "f0_seen": L[1][1][0], "d1": L[1][2], "f0": r["vf"][0][2],
         "cond": None}
    if len(L) == 3:      # np.where(norm_y0 < 1e-5, 1e-6, scale * norm_y0 / norm_dy0)
        o.update({"cond": L[2][1][0], "guardval": L[2][1][1], "quot": L[2][1][2], "where_out": L[2][2]})
    return o, None


def term_adaptive(c, o):
    root = o["dt1_b"] if finite(o["dt1_b"]) else 1.0
    return (f"c18_adaptive {lib.qlit(c['atol'])} {lib.qlit(c['rtol'])} {lib.coq_nat(c['rate'])} {lib.qlit(c['t0'])} "
            f"{lib.qlist(c['y0'])} {lib.qlist(o['f0'])} {lib.qlist(o['f1'])} "
            f"{lib.qlit(o['d0'])} {lib.qlit(o['d1'])} {lib.qlit(o['n2'])} {lib.qlit(root)} "
            f"{lib.qlist(o['y1'])} {lib.qlist(o['arg'])} {lib.qlit(Fr(RTOL))} {lib.qlit(Fr(ATOL_SQ))} {lib.qlit(Fr(ATOL_SM))}")


def term_simple(c, o):
    scale = Fr(1, 100) if c["scale"] is None else c["scale"]
    nugget = Fr(1, 100000) if c["nugget"] is None else c["nugget"]
    return (f"c18_simple {lib.qlit(scale)} {lib.qlit(nugget)} {lib.qlit(c['t0'])} {lib.qlist(c['y0'])} "
            f"{lib.qlist(o['f0'])} {lib.qlit(o['d0'])} {lib.qlit(o['d1'])} {lib.qlit(Fr(RTOL))} {lib.qlit(Fr(ATOL_SQ))}")


def relclose(a: float, b: Fr, rtol=RTOL, atol=0.0):
    if not finite(a):
        return False
    return abs(Fr(a) - b) <= Fr(rtol) * abs(b) + Fr(atol)


def near(a: float, thr: float):
    return abs(a - thr) <= 1e-12 * thr


def compare_adaptive(c, o, q):
    """q = model output (list of Fractions). Returns (mismatch or None, tie: bool)."""
    b1, h0, t1, d2, b2, x, h1, h, ok_y0, ok_f0, ok_arg, bad_y1, bad_arg = q
    if o["y0_seen"] != c["y0"]:
        return "first norm is not taken of ravel(y0)", False
    if o["f0_seen"] != o["f0"]:
        return "second norm is not taken of ravel(f(t0, y0))", False
    if o["vf0"][0] != c["y0"] or o["vf0"][1] != c["t0"]:
        return f"first vector-field evaluation at (t={o['vf0'][1]}, y={o['vf0'][0]}), expected (t0, y0)", False
    for nm, d, okf in (("d0 = |y0|", o["d0"], ok_y0), ("d1 = |f0|", o["d1"], ok_f0)):
        if okf != 1:
            return f"{nm}: implementation's norm {d!r}, squared, is not the exact sum of squares (rel {RTOL})", False
    if bool(o["cond1"]) != (b1 == 1):
        if near(o["d0"], 1e-5) or near(o["d1"], 1e-5):
            return None, True
        return f"stage-1 branch: implementation {bool(o['cond1'])} vs model {b1 == 1} (d0={o['d0']!r}, d1={o['d1']!r})", False
    if not relclose(o["dt0"], h0):
        return f"first guess dt0: implementation {o['dt0']!r} vs model {float(h0)!r}", False
    if not relclose(o["t1"], t1, atol=RTOL * max(1.0, abs(c["t0"]))):
        return f"time of the second evaluation: implementation {o['t1']!r} vs model t0+dt0 {float(t1)!r}", False
    if bad_y1 != 0:
        k = int(bad_y1) - 1
        return (f"Euler step y1 = y0 + dt0*f0, component {k}: implementation evaluates the field at "
                f"{o['y1'][k] if 0 <= k < len(o['y1']) else o['y1']!r}, model y0+dt0*f0 = "
                f"{c['y0'][k] + float(h0) * o['f0'][k] if 0 <= k < len(o['y1']) else '?'}"), False
    if bad_arg != 0:
        k = int(bad_arg) - 1
        return (f"(f1-f0)/scale component {k}: implementation {o['arg'][k] if 0 <= k < len(o['arg']) else o['arg']!r} "
                f"differs from the exact value"), False
    if ok_arg != 1:
        return f"|(f1-f0)/scale|: implementation's norm {o['n2']!r}, squared, is not the exact sum of squares", False
    if not relclose(o["d2"], d2, atol=1e-300):
        return f"d2: implementation {o['d2']!r} vs model {float(d2)!r}", False
    if o["max_args"][0] != o["d1"]:
        return "np.maximum(d1, d2) not applied to d1", False
    if bool(o["cond2"]) != (b2 == 1):
        if near(o["d1"], 1e-15) or near(o["d2"], 1e-15):
            return None, True
        return f"stage-2 branch: implementation {bool(o['cond2'])} vs model {b2 == 1} (d1={o['d1']!r}, d2={o['d2']!r})", False
    if b2 == 1:
        if not relclose(o["dt1"], h1):
            return f"guarded dt1: implementation {o['dt1']!r} vs model max(1e-6, dt0*1e-3) = {float(h1)!r}", False
    else:
        if o["dt1"] != o["dt1_b"]:
            return "dt1 is not the power branch although the guard is false", False
        pw = Fr(o["dt1"]) ** (c["rate"] + 1)
        if abs(pw - x) > Fr(1e-11) * x:
            return (f"dt1^(rate+1): implementation {float(pw)!r} vs model radicand 0.01/max(d1,d2) = {float(x)!r} "
                    f"(rate={c['rate']})"), False
    if not relclose(o["final"], h, atol=1e-320):
        return f"final proposal: implementation {o['final']!r} vs model min(100*dt0, dt1) = {float(h)!r}", False
    return None, False


def hnw_reference_final(c, o):
    """Search aid (floats, not a proof): the documented two-stage proposal with the second stage evaluated at
    (t0 + dt0, y0 + dt0 f0) on the harness's own copy of the vector field; None if not finite."""
    try:
        n, t0, dt0 = c["n"], c["t0"], o["dt0"]
        y0, f0 = c["y0"], o["f0"]
        y1 = [y0[i] + dt0 * f0[i] for i in range(n)]
        w = [y1[i] - c["m"][i] for i in range(n)]
        f1 = [c["b"][i] + sum(c["A"][i][j] * w[j] for j in range(n)) + c["c"][i] * w[i] * w[i] + c["g"][i] * (t0 + dt0 - c["tc"])
              for i in range(n)]
        scale = [c["atol"] + abs(y0[i]) * c["rtol"] for i in range(n)]
        d1 = o["d1"]
        d2 = math.sqrt(sum(((f1[i] - f0[i]) / scale[i]) ** 2 for i in range(n))) / dt0
        if d1 <= 1e-15 and d2 <= 1e-15:
            dt1 = max(1e-6, dt0 * 1e-3)
        else:
            dt1 = (0.01 / max(d1, d2)) ** (1.0 / (c["rate"] + 1.0))
        out = min(100.0 * dt0, dt1)
        return out if math.isfinite(out) else None
    except (OverflowError, ZeroDivisionError, ValueError, KeyError, TypeError):
        return None


def compare_simple(c, o, q, result):
    """Returns (mismatch or None, tie: bool)."""
    b, dt0, ok_u0, ok_f0 = q
    if o["y0_seen"] != c["y0"]:
        return "first norm is not taken of ravel(u0)", False
    if o["f0_seen"] != o["f0"]:
        return "second norm is not taken of ravel(f(u0))", False
    for nm, d, okf in (("|u0|", o["d0"], ok_u0), ("|f0|", o["d1"], ok_f0)):
        if okf != 1:
            return f"{nm}: implementation's norm {d!r}, squared, is not the exact sum of squares (rel {RTOL})", False
    if o["cond"] is None:
        if b == 1:
            return (f"guard branch: the implementation does not guard (no np.where) but the model takes the "
                    f"norm_y0 < 1e-5 branch (|u0|={o['d0']!r}): implementation {result!r} vs model {float(dt0)!r}"), False
    elif bool(o["cond"]) != (b == 1):
        if near(o["d0"], 1e-5):
            return None, True
        return f"guard branch: implementation {bool(o['cond'])} vs model {b == 1} (|u0|={o['d0']!r})", False
    if not relclose(result, dt0, atol=1e-320):
        return (f"dt0: implementation {result!r} vs model "
                f"{'1e-6 (guard)' if b == 1 else 'scale*|u0|/(|f0|+nugget)'} = {float(dt0)!r}"), False
    return None, False


# ------------------------------------------------------------------- the property's predicate
def classify(c, r, o):
    """None if the proposal is finite and > 0, else a signature."""
    res = r["result"]
    ok = isinstance(res, float) and math.isfinite(res) and res > 0
    if ok:
        return None
    ymax = max(abs(x) for x in c["y0"])
    h = c["helper"]
    if o is not None:
        # the user's vector field itself returned inf / nan at a finite point: outside the quantifier
        if not finite(o.get("f0")):
            return "vf-nonfinite"
        if "f1" in o and not finite(o["f1"]) and finite([o["y1"], o["t1"]]):
            return "vf-nonfinite"
    if h == "dt0" and ymax < 1e-150:
        return "C18.dt0.zero-or-tiny-u0"
    if ymax >= 1e150:
        return f"C18.{h}.overflow-1e300"
    inter = [] if o is None else [o.get(k) for k in ("d0", "d1", "n2", "d2", "arg", "dt1_b") if k in o]
    if o is not None and not finite(inter):
        return f"C18.{h}.overflow-badly-scaled"
    return f"C18.{h}.nonpositive-or-nonfinite"


# ------------------------------------------------------------------- solves
def run_solves(cases, timeout_s, workers=6):
    """Run the solve cases in `workers` runner processes; re-launch after a time-out."""
    lib.ensure_work()
    chunks = [cases[i::workers] for i in range(workers)]

    def work(k):
        todo = list(chunks[k])
        done = []
        rounds = 0
        while todo and rounds < len(chunks[k]) + 2:
            rounds += 1
            inp = os.path.join(lib.WORK, f"in_c18_solve_{os.getpid()}_{k}.json")
            outp = os.path.join(lib.WORK, f"out_c18_solve_{os.getpid()}_{k}.json")
            if os.path.exists(outp):
                os.remove(outp)
            with open(inp, "w") as f:
                json.dump({"mode": "solve", "cases": todo, "timeout": timeout_s}, f)
            try:
                rc, out = lib.sh([lib.PY, os.path.join(lib.VERIF, "harness", "c18_impl.py"), inp, outp],
                                 timeout=120 + 40 * len(todo), env=lib.impl_env())
            except Exception as e:  # noqa: BLE001
                rc, out = 1, f"runner killed: {e}"
            got = []
            if os.path.exists(outp):
                with open(outp) as f:
                    got = json.load(f)["results"]
                os.remove(outp)
            os.remove(inp)
            if not got:
                done.append({"id": todo[0]["id"], "error": f"runner failed rc={rc}: {out[-400:]}"})
                todo = todo[1:]
                continue
            ids = {g["id"] for g in got}
            done.extend(got)
            todo = [c for c in todo if c["id"] not in ids]
        return done

    res = {}
    with cf.ThreadPoolExecutor(max_workers=workers) as ex:
        for lst in ex.map(work, range(workers)):
            for g in lst:
                res[g["id"]] = g
    return res


# ------------------------------------------------------------------- main
def main():
    ck = lib.Check("C18")
    pr = ck.run_proof()
    rng = ck.rng
    quick = ck.tier == "quick"

    cases = fixed_cases()
    # corner grid: every kind of initial value x (zero field, f(u0) = 0, generic field), both helpers
    for uk in UKINDS:
        for fk in ("zero", "root", "linear"):
            for helper in ("dt0", "dt0_adaptive"):
                cases.append(gen_case(rng, helper, uk, fk))
    n_random = 110 if quick else 2400
    for _ in range(n_random):
        cases.append(gen_case(rng, "dt0_adaptive" if rng.random() < 0.7 else "dt0"))
    corpus_dir = os.path.join(lib.VERIF, "corpus", "C18")
    if os.path.isdir(corpus_dir):
        for fn in sorted(os.listdir(corpus_dir)):
            with open(os.path.join(corpus_dir, fn)) as f:
                cases.append(json.load(f))

    import time as _time
    _t = _time.time()
    ck.notes.append(f"proof step {round(_t - ck.t0, 1)}s")
    ires = lib.run_impl("c18_impl.py", {"mode": "propose", "cases": cases}, timeout=3000)["results"]
    ck.notes.append(f"implementation proposals {round(_time.time() - _t, 1)}s")
    _t = _time.time()

    # decode, evaluate the predicate, build the model terms
    obs, terms, term_of = [], [], {}
    for i, (c, r) in enumerate(zip(cases, ires)):
        if "error" in r:
            obs.append(None)
            continue
        o, why = (decode_adaptive if c["helper"] == "dt0_adaptive" else decode_simple)(c, r)
        obs.append((o, why))
        if o is None:
            continue
        need = ("d0", "d1", "f0") if c["helper"] == "dt0" else ("d0", "d1", "n2", "f0", "f1", "dt0", "d2", "arg", "y1", "t1")
        if not finite([o[k] for k in need]):
            continue
        if c["helper"] == "dt0_adaptive" and not (c["atol"] > 0):
            continue
        term_of[i] = len(terms)
        terms.append(term_adaptive(c, o) if c["helper"] == "dt0_adaptive" else term_simple(c, o))
    try:
        mvals = lib.coq_eval("C18", HEADER, terms, shard=12 if quick else 80) if terms else []
        mres = [lib.decode_optQ(v) for v in mvals]
    except RuntimeError as e:
        mres = None
        ck.notes.append(f"model evaluation failed: {str(e)[:800]}")

    ck.notes.append(f"model evaluation {round(_time.time() - _t, 1)}s")
    _t = _time.time()
    bad_corr = None
    failing = []
    n_cmp = n_tie = n_over = n_vfnf = n_evalfail = 0
    for i, (c, r) in enumerate(zip(cases, ires)):
        key = json.dumps(c, sort_keys=True)
        if "error" in r:
            ck.count(key, sample=c, helper=c["helper"])
            ck.report("C18.impl-exception", f"{c['helper']} raised {r['error']}", {"case": c, "impl": r})
            continue
        o, why = obs[i]
        res = r["result"]
        sig = classify(c, r, o)
        if o is None:
            branch = "-"
        elif c["helper"] == "dt0":
            branch = "unguarded" if o["cond"] is None else f"guard{int(bool(o['cond']))}"
        else:
            branch = f"{int(bool(o['cond1']))}{int(bool(o['cond2']))}"
        ck.count(key, nontrivial=not (c["ukind"] == "zero" and c["fkind"] == "zero"),
                 sample={"case": c, "result": res}, helper=c["helper"], ukind=c["ukind"], fkind=c["fkind"],
                 struct=c["struct"], n=c["n"], branches=branch, rate=c.get("rate", "-"),
                 positive_finite=(sig is None))
        if sig == "vf-nonfinite":
            n_vfnf += 1
            continue
        if sig is not None:
            what = {"C18.dt0.zero-or-tiny-u0": "dt0 returns a non-positive step for a zero / tiny initial value",
                    }.get(sig, f"{c['helper']} returns a step that is not finite and strictly positive")
            ck.report(sig, f"{what}: result {res!r} for y0={c['y0']} ({c['ukind']}), f(y0)={(o or {}).get('f0')} "
                           f"({c['fkind']}); expected finite and > 0",
                      {"case": c, "impl": r})
        if r.get("shape") != []:
            ck.report("C18.result-not-scalar", f"{c['helper']} returned shape {r.get('shape')}", {"case": c, "impl": r})
        if o is None:
            bad_corr = bad_corr or (c, f"observation: {why}", r)
            continue
        if i not in term_of:
            n_over += 1
            continue
        if mres is None:
            continue
        q = mres[term_of[i]]
        if q is None:
            if isinstance(mvals[term_of[i]], str):
                n_evalfail += 1
            else:
                bad_corr = bad_corr or (c, "the model has no value (division by zero) but the implementation returned one", r)
            continue
        if c["helper"] == "dt0_adaptive":
            mism, tie = compare_adaptive(c, o, q)
            if tie:
                n_tie += 1
                continue
        else:
            mism, tie = compare_simple(c, o, q, res)
            if tie:
                n_tie += 1
                continue
        n_cmp += 1
        if mism:
            bad_corr = bad_corr or (c, mism, r)
            # search for a concrete failing input: does the PROPOSAL itself deviate from the documented heuristic here?
            if c["helper"] == "dt0_adaptive" and finite(o.get("final")):
                ref = hnw_reference_final(c, o)
                if ref is not None and abs(o["final"] - ref) > 1e-9 * abs(ref):
                    failing.append((c, mism, r, ref))

    ck.hist["compared_with_model"] = {"n": n_cmp}
    ck.hist["tie_skipped"] = {"n": n_tie}
    ck.hist["nonfinite_intermediate_not_compared"] = {"n": n_over}
    ck.hist["vector_field_nonfinite_excluded"] = {"n": n_vfnf}
    ck.hist["model_eval_failed"] = {"n": n_evalfail}

    ck.notes.append(f"comparison {round(_time.time() - _t, 1)}s")
    _t = _time.time()
    # ---- solves from the proposals
    n_solve = 24 if quick else 240
    scases = [gen_solve_case(rng, k) for k in range(n_solve)]
    # the known-bad proposals too: dt0 at zero / tiny u0
    for k, uk in enumerate(("zero", "tiny300")):
        s = gen_solve_case(rng, n_solve + k)
        s["helper"], s["ukind"], s["fkind"] = "dt0", uk, "linear"
        s["y0"] = gen_y0(rng, uk, s["n"])
        s["m"] = [0.0] * s["n"]
        if all(x == 0.0 for x in s["b"]):
            s["b"] = [1.0] * s["n"]
        scases.append(s)
    timeout_s = 8.0
    sres = run_solves(scases, timeout_s, workers=6 if quick else 12)
    ck.notes.append(f"solves {round(_time.time() - _t, 1)}s")
    n_to = n_fin = 0
    for s in scases:
        g = sres.get(s["id"], {"error": "no result"})
        key = "solve:" + json.dumps(s, sort_keys=True)
        p = g.get("proposal")
        good_p = isinstance(p, float) and math.isfinite(p) and p > 0
        ck.count(key, nontrivial=True, sample={"solve_case": s, "outcome": g}, solve_helper=s["helper"],
                 solve_ukind=s["ukind"], solve_fkind=s["fkind"], solve_struct=s["struct"])
        if "error" in g:
            ck.report("C18.solve.exception", f"adaptive solve from the {s['helper']} proposal raised {g['error']}",
                      {"solve_case": s, "outcome": g})
            continue
        if not good_p:
            ymax = max(abs(x) for x in s["y0"])
            sig = "C18.dt0.zero-or-tiny-u0" if (s["helper"] == "dt0" and ymax < 1e-150) else \
                f"C18.{s['helper']}.nonpositive-or-nonfinite"
            outcome = "timed out" if g.get("timeout") else f"returned u={g.get('u')} after {g.get('num_steps')} steps"
            ck.report(sig, f"{s['helper']} proposes {p!r} for y0={s['y0']} (expected finite and > 0); the adaptive solve "
                           f"started from it {outcome}", {"solve_case": s, "outcome": g})
            continue
        if g.get("timeout"):
            n_to += 1
            continue
        okfin = finite(g.get("u")) and finite(g.get("t")) and abs(g["t"] - s["t1"]) <= 1e-9 * max(1.0, abs(s["t1"]))
        if okfin:
            n_fin += 1
        else:
            ck.report("C18.solve.nonfinite-output",
                      f"adaptive solve started from the {s['helper']} proposal {p!r} did not finish with finite output: "
                      f"t={g.get('t')}, u={g.get('u')}, steps={g.get('num_steps')}", {"solve_case": s, "outcome": g})
    ck.hist["solves_finished_finite"] = {"n": n_fin}
    ck.hist["solves_timed_out"] = {"n": n_to, "timeout_s": timeout_s}
    if n_to:
        ck.notes.append(f"{n_to} solve(s) exceeded {timeout_s}s wall time (not counted as violations)")

    if failing:
        c, mism, r, ref = failing[0]
        ck.report("C18.dt0_adaptive.not-the-documented-heuristic",
                  f"dt0_adaptive proposes {r.get('result')!r} but the two-stage "
                  f"Hairer-Norsett-Wanner heuristic gives {ref!r} for y0={c['y0']}, t0={c['t0']}, field kind {c['fkind']} ({mism}); "
                  f"{len(failing)} such inputs in this run", {"case": c, "mismatch": mism, "impl": r, "reference_final": ref})
    elif bad_corr is not None:
        c, mism, r = bad_corr
        ck.report("C18.correspondence",
                  f"correspondence Model/Stepsize.v vs stepsize_initialisers.py ({c['helper']}) broken: {mism}",
                  {"case": c, "mismatch": mism, "impl": r, "broken": "correspondence C18 (Run/C18Run.v)"},
                  nofail=True)
    if mres is None:
        ck.report("C18.model-eval", "model evaluation failed (Coq)", {"notes": ck.notes, "broken": "Run/C18Run.v"}, nofail=True)
    if not pr["ok"] and not ck.violations:
        ck.report("C18.proof", f"proof obligations no longer check: {pr['errors']}",
                  {"broken": pr.get("failed_at", "Props/C18.v"), "errors": pr["errors"],
                   "build_tail": pr.get("build_tail", "")[-1500:]}, nofail=True)
    ck.finish(rule="cases = (helper, initial-value kind [zero, 1e-300, 1e-200, 1e300, 1e160, badly scaled, ordinary, "
                   "|u0| at the 1e-5 threshold, partly zero], polynomial vector field kind [zero, f(u0)=0, tiny, linear, "
                   "quadratic, time dependent, huge coefficients, |f0| at the threshold], pytree structure, n in 1..5, "
                   "atol/rtol in [1e-12,1], rate in 1..12) from one PRNG: a corner grid (every u0 kind x 3 field kinds x "
                   "both helpers) plus random draws; plus adaptive solves started from the proposals; "
                   "non-trivial = not (zero u0 and zero field); distinct by full input")


if __name__ == "__main__":
    main()
