"""C20 check: malformed inputs are rejected loudly instead of being broadcast silently.

1. prove Props/C20.vo (validator = Accept <-> well-formed, per entry point; gaps as
   ..._refuted theorems);
2. correspondence: for every public entry point x factorisation x valid argument set x
   single-field corruption (harness/c20_cases.py) the REAL API is called
   (harness/c20_impl.py) and the verdict (accept / TypeError / ValueError / other
   exception / warning) is compared with the verdict of the Coq model
   (Model/Validate.v evaluated by vm_compute on the abstract description of the same
   arguments);
3. the property itself is evaluated on the implementation: an argument set that the
   declarative specification (Spec/Shapes.v) calls malformed must never come back
   with numbers (neither at construction nor at first use), and unsuitable
   strategy/routine pairings must warn and name a remedy ("Try ...").
"""

from __future__ import annotations

import json
import os
import sys

sys.path.insert(0, os.path.dirname(os.path.abspath(__file__)))
import c20_cases  # noqa: E402
import lib  # noqa: E402

HEADER = """From Coq Require Import List ZArith Bool.
From PD Require Import Model.Validate Run.C20Run.
Import ListNotations.
Local Open Scope nat_scope.
"""

FACT = {"dense": "Dense", "isotropic": "Isotropic", "blockdiag": "BlockDiag", "matfree": "BlockDiag"}
DT = {"f": "DFloat", "b": "DBool", "i": "DInt"}


def coq_aval(v) -> str:
    k = v[0]
    if k == "arr":
        return f"(AArr [{'; '.join(str(int(x)) for x in v[1])}] {DT[v[2]]})"
    if k == "pyb":
        return "APyBool"
    if k == "pyf":
        return "APyFloat"
    if k == "pyi":
        return "APyInt"
    if k == "list":
        return "(AList [" + "; ".join(coq_aval(x) for x in v[1]) + "])"
    if k == "tuple":
        return "(ATuple [" + "; ".join(coq_aval(x) for x in v[1]) + "])"
    if k == "dict":
        kvs = sorted(v[1], key=lambda kv: f"k{kv[0]}")  # JAX sorts dictionary keys
        return "(ADict [" + "; ".join(f"({int(kk)}, {coq_aval(x)})" for kk, x in kvs) + "])"
    if k == "fun":
        return "AFun"
    if k == "none":
        return "ANone"
    if k == "jetode":
        return f"(AJetOde {int(v[1])})"
    if k == "jetauto":
        return f"(AJetOdeAuto {int(v[1])})"
    if k == "jetres":
        return f"(AJetResidual {int(v[1])})"
    if k == "markov":
        return "AMarkovSeq"
    if k == "normal":
        return "ANormal"
    raise KeyError(k)


def coq_lift(v) -> str:
    if isinstance(v, str):
        return "None"
    z = int(v)
    return f"(Some ({z})%Z)"


STRAT = {"filter": "SFilter", "smoother_fixedinterval": "SFixedInterval", "smoother_fixedpoint": "SFixedPoint"}
ROUT = {"save_at": "(RSaveAt true)", "save_at_nowarn": "(RSaveAt false)", "terminal_values": "RTerminalValues",
        "fixed_grid": "RFixedGrid", "save_every_step": "RSaveEveryStep"}


def coq_term(c) -> str:
    ep, a = c["ep"], c["args"]
    f = FACT.get(c["fact"], "Dense")
    if ep == "verify":
        return f"c20_verify {coq_aval(a['x'])}"
    if ep == "prior_iwp":
        return f"c20_prior_iwp {f} {coq_aval(a['tcoeffs'])} {coq_aval(a['is_exact'])} {coq_aval(a['scale'])}"
    if ep == "prior_iwp_diffuse":
        return f"c20_prior_iwp_diffuse {f} {coq_aval(a['mean'])} {coq_aval(a['std'])} {coq_aval(a['scale'])}"
    if ep == "prior_exp":
        return (f"c20_prior_exp {f} {coq_aval(a['ode'])} {coq_aval(a['tcoeffs'])} {coq_aval(a['is_exact'])} "
                f"{coq_aval(a['scale'])}")
    if ep == "prior_matern":
        return f"c20_prior_matern {f} {coq_aval(a['tcoeffs'])} {coq_aval(a['is_exact'])} {coq_aval(a['scale'])}"
    if ep == "prior_ioup":
        return f"c20_prior_exp_builtin {f} {coq_aval(a['tcoeffs'])} {coq_aval(a['is_exact'])} {coq_aval(a['scale'])}"
    if ep == "transition":
        return f"c20_transition {f} {coq_aval(a['tcoeffs'])} {coq_aval(a['cal'])}"
    if ep.startswith("constraint_"):
        which = {"constraint_ts0": 0, "constraint_ts1": 1, "constraint_residual": 2}[ep]
        return f"c20_constraint {which} {lib.coq_bool(c['fact'] == 'matfree')} {coq_aval(a['obj'])}"
    if ep == "jetexpand":
        return f"c20_jetexpand {lib.coq_bool(a['alg'] != 'doubling_unroll')} {coq_aval(a['vf'])}"
    if ep == "lift_residual":
        return f"c20_lift_residual {a['k']} {a['n']} {coq_lift(a['lift_by'])}"
    if ep == "lift_ode":
        return f"c20_lift_ode {a['k']} {a['n']} {coq_lift(a['lift_by'])}"
    if ep == "loss_terminal":
        exp = c20_cases.valid_loss_std_terminal(c["fact"], a["tcoeffs"])
        return f"c20_loss_terminal {coq_aval(a['std'])} {coq_aval(exp)}"
    if ep == "loss_timeseries":
        exp = c20_cases.valid_loss_std_timeseries(c["fact"], a["tcoeffs"])
        return f"c20_loss_timeseries {coq_aval(a['posterior'])} {coq_aval(a['std'])} {coq_aval(exp)}"
    if ep == "error_residual":
        d = a["d"]
        m = d if a["m"] == "same" else (1 if a["m"] == 0 else a["m"])
        return f"c20_error_residual {f} {m} {d}"
    if ep == "matfree_ens":
        return f"c20_matfree {a['S']} {a['n']}"
    if ep == "warn":
        return f"c20_warn {STRAT[a['strategy']]} {ROUT[a['routine']]}"
    raise KeyError(ep)


USE_MODELLED = ("lift_residual", "lift_ode", "error_residual", "matfree_ens")


def impl_class(r):
    """(construct verdict, use verdict) of the implementation as model codes / class names."""
    return r["construct"], r["use"]


def matches(code, observed):
    """Does the observed outcome ('accept' / exception class name) match the model code?"""
    if code == 0 or code == 4:
        return observed == "accept"
    if code == 1:
        return observed == "TypeError"
    if code == 2:
        return observed == "ValueError"
    if code == 3:
        return observed not in ("accept", None)
    return True


def use_matches(code, observed):
    if code == 9:
        return True
    if code == 0:
        return observed in ("numbers",)
    if code == 2:
        return observed == "ValueError"
    if code == 3:
        return observed not in ("numbers", "nonfinite", "empty", None)
    return False


def short_field(f):
    return f.split("[")[0]


def main():
    ck = lib.Check("C20")
    pr = ck.run_proof()
    cases = c20_cases.matrix(thorough=(ck.tier == "thorough"))
    corpus_dir = os.path.join(lib.VERIF, "corpus", "C20")
    if os.path.isdir(corpus_dir):
        for fn in sorted(os.listdir(corpus_dir)):
            with open(os.path.join(corpus_dir, fn)) as f:
                cases.append(json.load(f)["case"])
    terms = [coq_term(c) for c in cases]
    # the runner is not a dependency of Props/C20.vo: bring it up to date explicitly
    lib.sh("timeout 600 make Run/C20Run.vo", cwd=lib.COQ, timeout=660)
    try:
        mres = lib.coq_eval("C20", HEADER, terms, shard=250)
    except RuntimeError as e:
        mres = None
        ck.notes.append(f"model evaluation failed: {str(e)[:800]}")

    # the expensive "first use" of an accepted object is only needed where the model has a
    # use-stage verdict, for valid argument sets, and where the specification says malformed
    for i, c in enumerate(cases):
        m = mres[i] if mres is not None and not isinstance(mres[i], str) else None
        c["use"] = bool(c["ep"] in USE_MODELLED or c["corr"].startswith("valid") or m is None or m[2] == 0)
    t_model = lib.time.time() - ck.t0
    ires = lib.run_impl("c20_impl.py", {"cases": cases, "jobs": 15}, timeout=3000)["results"]
    ck.hist["seconds"] = {"proof+model": round(t_model, 1), "implementation": round(lib.time.time() - ck.t0 - t_model, 1)}

    bad_corr = {}
    all_bad = []
    n_malformed = n_rejected = n_warn = 0
    for i, c in enumerate(cases):
        r = ires[i]
        key = json.dumps([c["ep"], c["fact"], c["args"]], sort_keys=True)
        replay = {"case": {k: c[k] for k in ("ep", "fact", "args", "base", "field", "corr")}, "impl": r}
        if "runner_error" in r:
            ck.count(key, sample=replay)
            ck.report("C20.runner", f"implementation runner failed: {r['runner_error']}", replay, nofail=True)
            continue
        m = mres[i] if mres is not None and not isinstance(mres[i], str) else None
        outcome = r["construct"] if r["construct"] != "accept" else ("accept" if r["use"] in (None, "numbers", "nonfinite", "empty") else "use:" + str(r["use"]))
        ck.count(key, nontrivial=not c["corr"].startswith("valid"),
                 sample={"case": replay["case"], "impl": {k: r[k] for k in ("construct", "use", "warned")}, "model": m},
                 entry_point=c["ep"], fact=c["fact"], outcome=outcome.split(":")[0] if outcome.startswith("use") else outcome)
        if m is None:
            continue
        mc, mu, wf = m
        replay["model"] = {"construct": mc, "use": mu, "wellformed": wf, "term": terms[i]}
        sig_tail = f"{c['ep']}.{short_field(c['field'])}.{c['corr']}" if c["field"] != "-" else f"{c['ep']}.{c['corr']}"
        # stable signature of a genuine defect: entry point + kind of corruption (position / field stripped)
        kind = c["corr"].split(".")[-1]
        if c["ep"] == "error_residual":
            kind = "constraint_shape_1" if c["corr"] in ("0", "1") else "constraint_shape"
        elif c["ep"] in ("lift_residual", "lift_ode"):
            kind = "lift_by_not_int" if isinstance(c["args"]["lift_by"], str) else \
                ("lift_by_negative" if c["args"]["lift_by"] < 0 else "lift_by_too_large")
        elif c["ep"] == "prior_iwp_diffuse" and short_field(c["field"]) in ("mean", "std"):
            # one root cause: from_mean_and_std never compares std with mean
            kind = f"std_mean_mismatch.{c['fact']}"
        elif c["ep"] == "matfree_ens":
            kind = "too_few_ensembles"
        elif c["ep"] == "warn":
            kind = f"{c['args']['strategy']}.{c['args']['routine']}"
        sig_defect = f"C20.{c['ep']}.{kind}"

        # ---- (3) the property, directly on the implementation
        if c["ep"] == "warn":
            unsuitable = wf == 0
            if unsuitable and c["args"]["routine"] != "save_at_nowarn":
                n_warn += 1
                if not (r["warned"] and r["warn_try"]):
                    ck.report(sig_defect, f"unsuitable pairing {c['args']} ({c['fact']}) emitted "
                              f"{'a warning without a remedy' if r['warned'] else 'no warning'}", replay)
                    continue
            if not unsuitable and r["warned"]:
                ck.report(sig_defect, f"suitable pairing {c['args']} ({c['fact']}) emitted a warning: {r.get('wmsg')}", replay)
                continue
        elif wf == 0:
            n_malformed += 1
            # verify() returns None: its own gaps (T20.1) only matter where a constructor lets them through
            silent = r["construct"] == "accept" and r["use"] in ("numbers", "nonfinite")
            if silent:
                all_bad.append(("DEFECT", sig_defect, c["fact"], c["base"], c["field"], c["corr"], m, r["construct"], r["use"]))
                ck.report(sig_defect,
                          f"malformed input accepted silently and numbers came back: {c['ep']}({c['fact']}) "
                          f"field {c['field']} corruption {c['corr']} of base '{c['base']}' (args {json.dumps(c['args'])[:300]})",
                          replay)
                continue
            n_rejected += 1
        else:
            # well-formed according to the specification: must work
            if r["construct"] != "accept" or (c["use"] and r["use"] not in ("numbers", None, "empty")):
                all_bad.append(("spec", c["ep"], c["fact"], c["base"], c["field"], c["corr"], m, r["construct"], r["use"], r["msg"][:80]))
                first = bad_corr.setdefault("C20.spec." + c["ep"], (replay, f"well-formed argument set rejected by the implementation "
                                                                   f"({r['construct']}/{r['use']}: {r['msg'][:120]}): {sig_tail} ({c['fact']}, base {c['base']})"))
                del first
                continue

        # ---- (2) correspondence model <-> implementation
        ok = matches(mc, r["construct"])
        if ok and mc == 4:
            ok = r["warned"]
        if ok and mc == 0 and c["ep"] == "warn":
            ok = not r["warned"]
        if ok and r["construct"] == "accept" and c["use"]:
            ok = use_matches(mu, r["use"])
        if not ok:
            all_bad.append(("corr", c["ep"], c["fact"], c["base"], c["field"], c["corr"], m, r["construct"], r["use"], r["msg"][:80]))
            bad_corr.setdefault("C20.correspondence." + c["ep"],
                                (replay, f"model verdict (construct={mc}, use={mu}) vs implementation "
                                 f"({r['construct']}/{r['use']}: {r['msg'][:100]}) for {sig_tail} ({c['fact']}, base {c['base']})"))

    if os.environ.get("C20_DEBUG"):
        with open(os.environ["C20_DEBUG"], "w") as f:
            for b in all_bad:
                f.write(repr(b) + "\n")
    for sig, (replay, text) in bad_corr.items():
        ck.report(sig, "correspondence Model/Validate.v vs implementation broken: " + text +
                  "; no malformed input of the matrix came back with numbers in this case", dict(replay, broken=sig), nofail=True)
    if mres is None:
        ck.report("C20.model-eval", "model evaluation failed (Coq)", {"notes": ck.notes, "broken": "Run/C20Run.v"}, nofail=True)
    if not pr["ok"] and not ck.violations:
        ck.report("C20.proof", f"proof obligations no longer check: {pr['errors']}",
                  {"broken": pr.get("failed_at", "Props/C20.v"), "errors": pr["errors"],
                   "build_tail": pr.get("build_tail", "")[-1500:]}, nofail=True)
    ck.hist["malformed_cases"] = {"n": n_malformed}
    ck.hist["malformed_rejected_loudly"] = {"n": n_rejected}
    ck.hist["unsuitable_pairings_checked"] = {"n": n_warn}
    by_ep = {}
    for c in cases:
        by_ep[c["ep"]] = by_ep.get(c["ep"], 0) + 1
    ck.finish(rule="the FULL finite matrix: public entry point x factorisation (dense, isotropic, blockdiag; matfree where it "
              "differs) x valid argument set (vector / scalar / dict-valued coefficients; bool, per-leaf, per-coefficient flags; "
              "default and custom base scale) x every single-field corruption (object type, container type, wrap/unwrap, "
              "length, per-leaf rank/length/broadcastable shape/scalar/dtype/Python scalar/function/None/nesting, on the "
              "first, last and all leaves); non-trivial = corrupted (not a valid base set); distinct by (entry point, "
              "factorisation, abstract arguments); malformed = Spec/Shapes.v says not well-formed",
              extra_cov={"exhaustive": True, "matrix": by_ep, "matrix_size": len(cases)})


if __name__ == "__main__":
    main()
