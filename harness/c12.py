"""C12 check: the marginal-likelihood losses equal the exact Gaussian log-density of the data.

For posteriors produced by the real solvers (fixed-interval smoother on a fixed grid; fixed-point smoother with
checkpoints and the real error control) the implementation's loss value is compared with

 (a) the Coq model (Model/Loss.v: to_derivative, bayes_rule_and_logpdf, evaluate_lml with its reverse scan,
     remove_filtering_distributions, terminal-value loss) evaluated on the EXACT posterior (the implementation's
     floats converted to rationals, Cholesky factors to Gram matrices, raw conditionals incl. to_latent / to_observed):
     the model returns for every density term the exact pair (maha, det); log, pi and the final mean / sum are
     evaluated here in floats (the mean / sum is justified by the accumulator theorem T12.1);
 (b) an INDEPENDENT direct evaluation of the joint density: mean and covariance of (y_0..y_N) are assembled from the
     Markov factorisation with the PLAIN backward gains (Cov(x_i,x_j) = G_i ... G_{j-1} Cov(x_j)), diagonal noise is
     added, and the multivariate normal density is evaluated EXACTLY (all inputs are dyadic rationals: fraction-free
     Bareiss elimination gives det and the quadratic form as exact rationals; only log and pi are floats).  The
     same density is also evaluated in float64 (Cholesky / eigenvalue fallback) and its agreement is recorded.
 (c) exactly (as rationals): sum of the model's mahas = joint quadratic form, product of the model's determinants =
     joint determinant -- the N-point chain rule that is proved only for N = 2 (T12.3) is checked on every case.

Tolerance.  The implementation works in float64 on square-root factors; its value is compared relative to the size of
the pieces of the log-density (|maha|, |log det|, n log 2 pi).  The conditioning of the given posterior is measured by
re-evaluating the exact density (b) on two copies of the posterior whose stored numbers are perturbed componentwise by a
random relative 2^-44: tolerance = RTOL + SENS_FACTOR * (relative change); posteriors whose exact loss moves by more
than SENS_MAX are counted as ill-conditioned and not compared (they arise when a dynamically calibrated output scale is
(numerically) zero because the prior solves the ODE exactly: the stored backward conditionals then contain 0/0 garbage
such as 1e27, see hist "illconditioned_posteriors").

Also checked: remove_filtering_distributions on a stacked marginal (exact equality with the model), the documented input
checks (wrong std containers -> ValueError, filter posterior / SmoothingSolution -> TypeError), and the model's running
mean / sum executed on a rational surrogate valuation (= mean / sum over its terms, exactly).

Replay a reported case: C12_REPLAY=<copy of replays/C12-...json> python harness/c12.py (copy the file first: the run
rewrites replays/).
"""

from __future__ import annotations

import concurrent.futures as cf
import json
import math
import multiprocessing
import os
import random as _random
import shutil
import subprocess
import sys
import time
from fractions import Fraction as Fr

sys.set_int_max_str_digits(0)      # exact rationals of the model run to thousands of digits
sys.path.insert(0, os.path.dirname(os.path.abspath(__file__)))
import gen  # noqa: E402
import lib  # noqa: E402

import numpy as np  # noqa: E402

RTOL = 2e-7          # implementation (float64, QR-based) vs exact value, relative to the size of the terms
SENS_MAX = 1e-6      # posteriors whose exact loss moves by more than this (relative) under a 2^-44 componentwise perturbation are not compared
SENS_FACTOR = 64.0   # tolerance = RTOL + SENS_FACTOR * (relative change under that perturbation)
LOG2PI = math.log(2.0 * math.pi)

HEADER = """From Coq Require Import List ZArith QArith Qcanon.
From PD Require Import Base.Field Base.Matrix Model.Gauss Model.Poly Model.Prior Model.Solver Model.Loss Run.LossRun.
Import ListNotations.
Local Open Scope Z_scope.
"""

ML_DIR = os.path.join(lib.WORK, "ocaml_c12")


# ===================================================================== running the implementation (parallel chunks)
def _run_chunk(args):
    idx, cases = args
    inp = os.path.join(lib.WORK, f"in_c12_{os.getpid()}_{idx}.json")
    outp = os.path.join(lib.WORK, f"out_c12_{os.getpid()}_{idx}.json")
    with open(inp, "w") as f:
        json.dump({"cases": cases}, f)
    rc, out = lib.sh([lib.PY, os.path.join(lib.VERIF, "harness", "c12_impl.py"), inp, outp], timeout=3000, env=lib.impl_env())
    if rc != 0 or not os.path.exists(outp):
        raise RuntimeError(f"implementation runner c12_impl.py failed (rc={rc}):\n{out[-3000:]}")
    with open(outp) as f:
        res = json.load(f)["results"]
    os.remove(inp)
    os.remove(outp)
    return idx, res


def run_impl_parallel(cases, jobs=8):
    lib.ensure_work()
    n = len(cases)
    jobs = max(1, min(jobs, n))
    chunks = [[] for _ in range(jobs)]
    where = []
    for i, c in enumerate(cases):
        chunks[i % jobs].append(c)
        where.append((i % jobs, len(chunks[i % jobs]) - 1))
    out = {}
    with cf.ThreadPoolExecutor(max_workers=jobs) as ex:
        for idx, res in ex.map(_run_chunk, list(enumerate(chunks))):
            out[idx] = res
    return [out[a][b] for a, b in where]


# ===================================================================== extracted OCaml loss model (own directory)
def ensure_extracted_loss():
    os.makedirs(ML_DIR, exist_ok=True)
    stamp = os.path.join(ML_DIR, "helpers_loss.cmx")
    srcs = [os.path.join(lib.COQ, "Extract", "ExtractLoss.v"), os.path.join(lib.COQ, "Run", "LossRun.vo"),
            os.path.join(lib.COQ, "Model", "Loss.vo"), os.path.join(lib.VERIF, "harness", "ocaml", "helpers_loss.ml")]
    if os.path.exists(stamp) and all(os.path.exists(p) and os.path.getmtime(p) <= os.path.getmtime(stamp) for p in srcs):
        return
    rc, out = lib.sh(f"timeout 300 coqc -Q {lib.COQ} PD {lib.COQ}/Extract/ExtractLoss.v", cwd=ML_DIR, timeout=330)
    if rc != 0:
        raise RuntimeError("extraction of the loss model failed:\n" + out[-2000:])
    shutil.copy(os.path.join(lib.VERIF, "harness", "ocaml", "helpers_loss.ml"), os.path.join(ML_DIR, "helpers_loss.ml"))
    rc, out = lib.sh("ocamlfind ocamlopt -w -a -package zarith -c model_loss.mli model_loss.ml helpers_loss.ml", cwd=ML_DIR, timeout=300)
    if rc != 0:
        raise RuntimeError("ocaml compilation of the extracted loss model failed:\n" + out[-2000:])


def _run_ml_shard(args):
    idx, name, terms, timeout = args
    base = f"cases_{name}_{os.getpid()}_{idx}"
    with open(os.path.join(ML_DIR, base + ".ml"), "w") as f:
        f.write("open Model_loss\nopen Helpers_loss\n")
        for k, t in enumerate(terms):
            f.write(f"let () = run_case {k} (fun () -> {t})\n")
    rc, out = lib.sh(f"ocamlfind ocamlopt -w -a -package zarith -linkpkg model_loss.cmx helpers_loss.cmx {base}.ml -o {base}.exe",
                     cwd=ML_DIR, timeout=900)
    if rc != 0:
        return idx, rc, "COMPILE: " + out[-2000:], []
    try:
        rc, out = lib.sh(f"ulimit -s unlimited 2>/dev/null; timeout {timeout} ./{base}.exe", cwd=ML_DIR, timeout=timeout + 30)
    except subprocess.TimeoutExpired:
        rc, out = 124, ""
    for ext in (".ml", ".exe", ".cmx", ".cmi", ".o"):
        p_ = os.path.join(ML_DIR, base + ext)
        if os.path.exists(p_):
            os.remove(p_)
    vals = []
    for ln in out.splitlines():
        if ln.startswith("E "):
            vals.append("EVAL-FAILED: " + ln[2:])
        elif ln.strip():
            vals.append([int(x) for x in ln.split()])
    return idx, rc, out[-500:], vals


def ml_eval_loss(name, terms, shard=6, timeout=900, jobs=16):
    ensure_extracted_loss()
    shards = [terms[i:i + shard] for i in range(0, len(terms), shard)]
    res = [None] * len(shards)
    with cf.ThreadPoolExecutor(max_workers=jobs) as ex:
        for idx, rc, out, vals in ex.map(_run_ml_shard, [(i, name, s, timeout) for i, s in enumerate(shards)]):
            if out.startswith("COMPILE:"):
                raise RuntimeError(f"ocaml case file failed to compile ({name}):\n{out}")
            if len(vals) < len(shards[idx]):
                vals = vals + ["EVAL-FAILED: timeout or crash"] * (len(shards[idx]) - len(vals))
            res[idx] = vals
    return [v for r in res for v in r]


def dual_eval_loss(name, emitters, sample=2, shard=6, coq_case_timeout=150):
    """All cases with the extracted OCaml model; `sample` cheapest ones also inside Coq (vm_compute, Qc), must agree exactly."""
    lib.BACKEND[0] = "ocaml"
    try:
        terms = [f() for f in emitters]
        vals = ml_eval_loss(name, terms, shard=shard)
        lib.BACKEND[0] = "coq"
        order = [i for i in sorted(range(len(terms)), key=lambda i: len(terms[i]))[:sample] if len(terms[i]) < 40000]
        cterms = [emitters[i]() for i in order]
    finally:
        lib.BACKEND[0] = "coq"
    info = {"crosschecked": 0, "skipped": 0}
    if cterms:
        cv = lib.coq_eval(name + "x", HEADER, cterms, shard=1, timeout=coq_case_timeout, case_timeout=coq_case_timeout)
        for i, v in zip(order, cv):
            if isinstance(v, str) or isinstance(vals[i], str):
                info["skipped"] += 1
                continue
            if v != vals[i]:
                raise RuntimeError(f"extracted OCaml loss model and in-Coq evaluation disagree on case {i} of {name}")
            info["crosschecked"] += 1
    return vals, info


# ===================================================================== case generation
def tame(c, by=4):
    c["f"] = [[[Fr(cf) / by, ex] for cf, ex in p] for p in c["f"]]
    return c


def gen_std(rng, kind, T, d):
    """std in [1e-6, 1e3]: per time and (dense / blockdiag) per dimension; isotropic one scalar per time."""
    n = 1 if kind == "iso" else d
    mode = rng.choice(["loguniform", "loguniform", "constant", "extremes", "unit", "per-time"])
    if mode == "loguniform":
        return mode, [[10.0 ** rng.uniform(-6, 3) for _ in range(n)] for _ in range(T)]
    if mode == "constant":
        v = 10.0 ** rng.uniform(-6, 3)
        return mode, [[v] * n for _ in range(T)]
    if mode == "extremes":
        return mode, [[rng.choice([1e-6, 1e3, 1e-6, 1.0]) for _ in range(n)] for _ in range(T)]
    if mode == "unit":
        return mode, [[1.0] * n for _ in range(T)]
    vals = [10.0 ** rng.uniform(-6, 3) for _ in range(T)]
    return mode, [[v] * n for v in vals]


def gen_offsets(rng, T, d, stds):
    mode = rng.choice(["near", "near", "near-noise", "far", "exact-mean"])
    if mode == "exact-mean":
        return "near", mode, [[0.0] * d for _ in range(T)]
    if mode == "near":
        sc = rng.choice([1e-6, 1e-3, 1e-1])
        return "near", mode, [[float(Fr(rng.randint(-64, 64), 64)) * sc for _ in range(d)] for _ in range(T)]
    if mode == "near-noise":
        return "near", mode, [[rng.gauss(0.0, 1.0) * stds[t][a if len(stds[t]) > 1 else 0] for a in range(d)] for t in range(T)]
    return "far", mode, [[float(Fr(rng.randint(-800, 800), 8)) for _ in range(d)] for _ in range(T)]


def gen_loss_cfgs(rng, c, T, n_ts, n_term):
    kind, q, d = c["kind"], c["q"], c["d"]
    ts, term = [], []
    for _ in range(n_ts):
        smode, stds = gen_std(rng, kind, T, d)
        dm, dmode, off = gen_offsets(rng, T, d, stds)
        ts.append({"tcoeff": rng.choice([0, 0, rng.randint(0, q)]), "avg": rng.random() < 0.5, "std": stds, "std_mode": smode,
                   "data_mode": dm, "data_kind": dmode, "offset": off, "jit": rng.random() < 0.7})
    for _ in range(n_term):
        smode, stds = gen_std(rng, kind, 1, d)
        dm, dmode, off = gen_offsets(rng, 1, d, stds)
        term.append({"tcoeff": rng.choice([0, rng.randint(0, q)]), "std": stds[0], "std_mode": smode, "data_mode": dm,
                     "data_kind": dmode, "offset": off[0]})
    return ts, term


def gen_cases(ck, n_grid, n_save, n_filter):
    rng, quick = ck.rng, ck.tier == "quick"
    Tmax = 6 if quick else 12
    qmax = 3 if quick else 5
    cases = []
    for route, count in (("fixed_grid", n_grid), ("save_at", n_save), ("filter", n_filter)):
        for k in range(count):
            strat = {"fixed_grid": "fixedinterval", "save_at": "fixedpoint", "filter": "filter"}[route]
            c = gen.gen_solver_case(rng, ck.tier, strats=(strat,), qmax=qmax, max_steps=2)
            tame(c, 4)
            # every 4th smoother case: exact (noise-free) initial state; otherwise as drawn
            if k % 4 == 0 and c["init_mode"] != "exact":
                c["init_mode"] = "exact"
                c["std"] = [Fr(0)] * (c["q"] + 1) if c["kind"] == "iso" else [[Fr(0)] * c["d"] for _ in range(c["q"] + 1)]
            T = rng.randint(2, Tmax)
            if k == 1:
                T = Tmax
            t0 = c["grid"][0]
            deg = max([sum(ex) for p in c["f"] for _cf, ex in p] + [0])
            hs = [16, 32] if deg >= 3 else [4, 8, 16]
            times = [t0]
            style = rng.choice(["uniform", "random"])
            h = Fr(1, rng.choice(hs))
            for _ in range(T - 1):
                times.append(times[-1] + (h if style == "uniform" else Fr(rng.choice([1, 2, 3, 5]), rng.choice(hs) * 2)))
            spec = {"route": "save_at" if route == "save_at" else "fixed_grid"}
            if route == "save_at":
                tol = 10.0 ** -rng.randint(2, 5)
                spec["save_at"] = times
                spec["adaptive"] = {"atol": tol * 0.1, "rtol": tol, "dt0": float(Fr(1, rng.choice([8, 32, 128]))), "clip": rng.random() < 0.3,
                                    "control": rng.choice([None, "i", "pi"])}
                c["damp"] = Fr(0)
            else:
                c["grid"] = times
            n_ts = 0 if route == "filter" else (2 if quick else 3)
            n_term = 1 if route != "filter" else 2
            spec["timeseries"], spec["terminal"] = gen_loss_cfgs(rng, c, T, n_ts, n_term)
            spec["checks"] = route != "filter" and (k % 3 == 0)
            c["c12"] = spec
            c["T"] = T
            cases.append(c)
    return cases


# ===================================================================== emitting model terms
def coq_shape(c):
    return f"(mkShape {gen.KIND_COQ[c['kind']]} {lib.coq_nat(c['q'])} {lib.coq_nat(c['d'])})"


def data_blocks(kind, row):
    """one time point's data (d floats) in the model's block layout."""
    if kind == "dense":
        return [[[x] for x in row]]
    if kind == "iso":
        return [[list(row)]]
    return [[[x]] for x in row]


def coq_data(kind, row):
    return "[" + "; ".join(lib.qcmat(b) for b in data_blocks(kind, row)) + "]"


def std2_row(kind, row):
    r = [Fr(x) ** 2 for x in (row if isinstance(row, list) else [row])]
    return r


def coq_fnormal(blocks):
    return "[" + "; ".join(gen.coq_raw_normal(b) for b in blocks) + "]"


def coq_post(r, stacked=None):
    conds = "[" + "; ".join("[" + "; ".join(gen.coq_raw_cond(b) for b in blocks) + "]" for blocks in r["post_conds"]) + "]"
    if stacked is None:
        marg = f"(Single {coq_fnormal(r['post_marginal'])})"
    else:
        marg = "(Stacked [" + "; ".join(coq_fnormal(b) for b in stacked) + "])"
    return f"(mkMSq {marg} {conds})"


def term_timeseries(c, r, cfg, res):
    kind = c["kind"]
    us = "[" + "; ".join(coq_data(kind, row) for row in res["data"]) + "]"
    stds = res["std"]
    std2s = "[" + "; ".join(lib.qclist(std2_row(kind, row)) for row in stds) + "]"
    return (f"lml_timeseries_run {coq_shape(c)} {lib.coq_nat(cfg['tcoeff'])} {lib.coq_bool(cfg['avg'])} {us} {coq_post(r)} {std2s}")


def term_terminal(c, r, cfg, res):
    kind = c["kind"]
    return (f"lml_terminal_run {coq_shape(c)} {lib.coq_nat(cfg['tcoeff'])} {coq_data(kind, res['data'])} {coq_fnormal(r['margT'])} "
            f"{lib.qclist(std2_row(kind, res['std']))}")


def term_stacked(c, r):
    """the time-series loss called with a posterior that still carries stacked marginals (must fail: std container)."""
    kind, d, T = c["kind"], c["d"], c["T"]
    us = "[" + "; ".join(coq_data(kind, [0.0] * d) for _ in range(T)) + "]"
    n = 1 if kind == "iso" else d
    std2s = "[" + "; ".join(lib.qclist([Fr(1)] * n) for _ in range(T)) + "]"
    return (f"lml_timeseries_run {coq_shape(c)} {lib.coq_nat(0)} {lib.coq_bool(True)} {us} {coq_post(r, stacked=r['checks']['stack'])} {std2s}")


def term_remove(c, r):
    return f"remove_filtering_run {coq_shape(c)} {coq_post(r, stacked=r['checks']['stack'])}"


# ===================================================================== exact direct joint density (independent of the model)
def fr_mat(rows):
    return [[Fr(x) for x in r] for r in rows]


def mmul(A, B):
    n, k, m = len(A), len(B), len(B[0]) if B else 0
    return [[sum(A[i][l] * B[l][j] for l in range(k)) for j in range(m)] for i in range(n)]


def mT(A):
    return [list(r) for r in zip(*A)] if A else []


def madd(A, B):
    return [[a + b for a, b in zip(ra, rb)] for ra, rb in zip(A, B)]


def gram(L):
    return mmul(L, mT(L))


def plain_cond(b):
    A, bb, L, tl, to = fr_mat(b["A"]), fr_mat(b["b"]), fr_mat(b["L"]), [Fr(x) for x in b["tl"]], [Fr(x) for x in b["to"]]
    n = len(to)
    Q = gram(L)
    Ap = [[to[i] * A[i][j] * tl[j] for j in range(len(tl))] for i in range(n)]
    bp = [[to[i] * x for x in bb[i]] for i in range(n)]
    Qp = [[to[i] * Q[i][j] * to[j] for j in range(n)] for i in range(n)]
    return Ap, bp, Qp


def obs_rows(kind, q, d, i):
    """indices of the observed latent coordinates per block (the observation matrix is a row selection)."""
    if kind == "dense":
        return [i * d + r for r in range(d)]
    return [i]


def bareiss_minors(M):
    """leading principal minors of an integer matrix (fraction-free elimination without pivoting)."""
    n = len(M)
    A = [row[:] for row in M]
    prev = 1
    minors = []
    for k in range(n):
        p = A[k][k]
        minors.append(p)
        if p == 0:
            return minors, False
        Ak = A[k]
        for i in range(k + 1, n):
            Ai = A[i]
            aik = Ai[k]
            for j in range(k + 1, n):
                Ai[j] = (Ai[j] * p - aik * Ak[j]) // prev
        prev = p
    return minors, True


def exact_gauss(S, resid_cols):
    """S: n x n Fractions (dyadic), resid_cols: list of residual vectors.  Returns (det S, [r^T S^-1 r]) exactly."""
    n = len(S)
    D = 1
    for row in S:
        for x in row:
            D = max(D, x.denominator)
    for rc in resid_cols:
        for x in rc:
            D = max(D, x.denominator)
    Si = [[int(x * D) for x in row] for row in S]
    mahas = []
    detS = None
    for rc in resid_cols:
        ri = [int(x * D) for x in rc]
        B = [Si[a] + [ri[a]] for a in range(n)] + [ri + [0]]
        minors, ok = bareiss_minors(B)
        if not ok and len(minors) <= n:
            return None, None
        detS = minors[n - 1]
        mahas.append(Fr(-minors[n], detS * D))
    if detS is None:
        minors, ok = bareiss_minors(Si)
        if not ok:
            return None, None
        detS = minors[n - 1]
    return Fr(detS, D ** n), mahas


def log_fr(x):
    return math.log(x.numerator) - math.log(x.denominator)


def joint_blocks(c, r, cfg, res):
    """Per block: (mean list over time of k x cc, joint covariance (T k) x (T k) of the observed coordinates incl. noise,
    residual columns).  Built from the Markov factorisation with plain backward gains."""
    kind, q, d = c["kind"], c["q"], c["d"]
    N, cc, nb = gen.shape_dims(kind, q, d)
    rows = obs_rows(kind, q, d, cfg["tcoeff"])
    k = len(rows)
    T = len(res["data"])
    out = []
    for a in range(nb):
        bm = r["post_marginal"][a]
        mean = [fr_mat(bm["m"])]
        covs = [gram(fr_mat(bm["L"]))]
        plains = [plain_cond(r["post_conds"][j][a]) for j in range(T - 1)]
        # backward marginalisation: index 0 of the lists = terminal time; prepend earlier times
        for j in range(T - 2, -1, -1):
            G, b, Q = plains[j]
            mean.insert(0, madd(mmul(G, mean[0]), b))
            covs.insert(0, madd(mmul(mmul(G, covs[0]), mT(G)), Q))
        # cross covariances restricted to observed columns: C[i][j] = Cov(x_i, H x_j) (N x k), i <= j
        n = T * k
        S = [[Fr(0)] * n for _ in range(n)]
        for j in range(T):
            Cj = [[covs[j][p][col] for col in rows] for p in range(N)]
            for i in range(j, -1, -1):
                if i < j:
                    Cj = mmul(plains[i][0], Cj)
                for p_, rp in enumerate(rows):
                    for q_ in range(k):
                        S[i * k + p_][j * k + q_] = Cj[rp][q_]
                        S[j * k + q_][i * k + p_] = Cj[rp][q_]
        for t in range(T):
            srow = res["std"][t] if isinstance(res["std"][t], list) else [res["std"][t]]
            for p_ in range(k):
                if kind == "dense":
                    s = Fr(srow[p_])
                elif kind == "iso":
                    s = Fr(srow[0])
                else:
                    s = Fr(srow[a])
                S[t * k + p_][t * k + p_] += s * s
        resid_cols = []
        for col in range(cc):
            rc = []
            for t in range(T):
                for p_, rp in enumerate(rows):
                    if kind == "dense":
                        y = Fr(res["data"][t][p_])
                    elif kind == "iso":
                        y = Fr(res["data"][t][col])
                    else:
                        y = Fr(res["data"][t][a])
                    rc.append(y - mean[t][rp][col])
            resid_cols.append(rc)
        out.append((S, resid_cols))
    return out


def perturbed_posterior(marginal, conds, rng, bits=44):
    """componentwise relative perturbation x -> x (1 + u 2^-bits), u uniform in [-1, 1], of every stored number (exact rationals)."""
    def f():
        return 1 + Fr(rng.randint(-2 ** 20, 2 ** 20), 2 ** (bits + 20))

    def pm(M):
        return [[Fr(x) * f() for x in row] for row in M]

    def pv(v):
        return [Fr(x) * f() for x in v]

    pmarg = [{"m": pm(b["m"]), "L": pm(b["L"])} for b in marginal]
    pconds = [[{"A": pm(b["A"]), "b": pm(b["b"]), "L": pm(b["L"]), "tl": pv(b["tl"]), "to": pv(b["to"])} for b in blocks] for blocks in conds]
    return pmarg, pconds


def exact_joint_value(blocks):
    """blocks from joint_blocks -> (float log-density, size of its pieces, exact maha sum, exact dets) or None if not PD."""
    tot, scale, maha_sum, dets = 0.0, 0.0, Fr(0), []
    for (S, rcs) in blocks:
        det, mahas = exact_gauss(S, rcs)
        if det is None or det <= 0:
            return None
        n = len(S)
        ld = log_fr(det)
        tot += -0.5 * (float(sum(mahas)) + len(rcs) * (ld + n * LOG2PI))
        scale += 0.5 * (float(sum(mahas)) + len(rcs) * (abs(ld) + n * LOG2PI))
        maha_sum += sum(mahas)
        dets.append(det)
    return tot, scale, maha_sum, dets


def spec_job(args):
    """(b): exact direct joint density + its change under two random 2^-44 componentwise perturbations of the stored
    posterior + the float64 evaluation.  Runs in a worker process."""
    c, rr, cfg, resx, seedstr = args
    sys.set_int_max_str_digits(0)
    blocks = joint_blocks(c, rr, cfg, resx)
    ej = exact_joint_value(blocks)
    if ej is None:
        return None
    tot, scale, maha_sum, dets = ej
    prng = _random.Random(seedstr)
    sens_abs = 0.0
    for _rep in range(2):
        pmarg, pconds = perturbed_posterior(rr["post_marginal"], rr["post_conds"], prng)
        ejp = exact_joint_value(joint_blocks(c, {"post_marginal": pmarg, "post_conds": pconds}, cfg, resx))
        sens_abs = float("inf") if ejp is None else max(sens_abs, abs(ejp[0] - tot))
    fl_tot, fl_cond = 0.0, 0.0
    for (S, rcs) in blocks:
        fv, fc = float_logpdf(S, rcs)
        fl_tot += fv
        fl_cond = max(fl_cond, fc)
    return tot, scale, maha_sum, dets, sens_abs, fl_tot, fl_cond


def float_logpdf(S, resid_cols):
    """float64 evaluation of sum_cols logN(resid; 0, S): Cholesky, eigenvalue fallback.  Returns (value, cond)."""
    Sf = np.array([[float(x) for x in row] for row in S], dtype=np.float64)
    n = Sf.shape[0]
    try:
        w = np.linalg.eigvalsh(Sf)
        cond = float(w[-1] / w[0]) if w[0] > 0 else float("inf")
    except np.linalg.LinAlgError:
        cond = float("inf")
    total = 0.0
    for rc in resid_cols:
        rf = np.array([float(x) for x in rc], dtype=np.float64)
        try:
            Lc = np.linalg.cholesky(Sf)
            z = np.linalg.solve(Lc, rf)
            maha = float(z @ z)
            logdet = 2.0 * float(np.sum(np.log(np.diag(Lc))))
        except np.linalg.LinAlgError:
            w, V = np.linalg.eigh(Sf)
            w = np.maximum(w, 1e-300)
            z = (V.T @ rf) / np.sqrt(w)
            maha = float(z @ z)
            logdet = float(np.sum(np.log(w)))
        total += -0.5 * (maha + logdet + n * LOG2PI)
    return total, cond


# ===================================================================== comparison helpers
def lp_from_terms(terms, k, cc):
    """terms: list of (maha, det) Fractions -> float log-density and the magnitude of its pieces."""
    val, scale = 0.0, 0.0
    for maha, det in terms:
        if det <= 0:
            return None, None
        ld = log_fr(det)
        val += -0.5 * (float(maha) + cc * ld + k * cc * LOG2PI)
        scale += 0.5 * (abs(float(maha)) + cc * abs(ld) + k * cc * LOG2PI)
    return val, scale


def main():
    ck = lib.Check("C12")
    pr = ck.run_proof()
    quick = ck.tier == "quick"
    t_start = time.time()
    cases = gen_cases(ck, 14 if quick else 90, 14 if quick else 90, 4 if quick else 20)
    if os.environ.get("C12_REPLAY"):        # re-run the case of a replay file (all its loss configurations)
        with open(os.environ["C12_REPLAY"]) as f:
            rp = json.load(f)
        c0 = gen.unjson(rp["case"])
        c0["c12"]["route"] = rp["case"]["c12"]["route"]
        for lst in ("timeseries", "terminal"):
            for cfg_new, cfg_old in zip(c0["c12"][lst], rp["case"]["c12"][lst]):
                for kk in ("std_mode", "data_mode", "data_kind"):
                    cfg_new[kk] = cfg_old[kk]
        if "adaptive" in c0["c12"]:
            c0["c12"]["adaptive"]["control"] = rp["case"]["c12"]["adaptive"]["control"]
        cases = [c0]
    ires = run_impl_parallel([gen.floatable(c) for c in cases], jobs=12)
    t_impl = time.time() - t_start

    emit, meta = [], []
    nonfinite = 0
    for ci, (c, r) in enumerate(zip(cases, ires)):
        jc = gen.jsonable(c)
        if "error" in r:
            ck.count("case:" + json.dumps(jc, sort_keys=True), nontrivial=False, failed="solve-exception")
            ck.report(f"C12.{c['kind']}.exception", f"solver raised {r['error']}", {"case": jc, "impl": r})
            continue
        if not r.get("finite", False):
            nonfinite += 1
            continue
        if c["strat"] != "filter":
            if r["post_type"] != "MarkovSequence" or not r["post_reverse"] or len(r["post_conds"]) != c["T"] - 1:
                ck.report(f"C12.{c['kind']}.posterior-structure", f"solution_full.posterior is {r['post_type']} reverse={r['post_reverse']} with "
                          f"{len(r['post_conds'])} conditionals for {c['T']} output times", {"case": jc})
                continue
        for k_, (cfg, res) in enumerate(zip(c["c12"]["timeseries"], r["timeseries"])):
            if "error" in res:
                ck.count(f"ts-exc:{ci}:{k_}", nontrivial=False, failed="loss-exception")
                ck.report(f"C12.{c['kind']}.exception", f"time-series loss raised {res['error']}", {"case": jc, "cfg": cfg, "impl": res})
                continue
            emit.append(lambda c=c, r=r, cfg=cfg, res=res: term_timeseries(c, r, cfg, res))
            meta.append((ci, "ts", k_))
        for k_, (cfg, res) in enumerate(zip(c["c12"]["terminal"], r["terminal"])):
            if "error" in res:
                ck.count(f"term-exc:{ci}:{k_}", nontrivial=False, failed="loss-exception")
                ck.report(f"C12.{c['kind']}.exception", f"terminal-value loss raised {res['error']}", {"case": jc, "cfg": cfg, "impl": res})
                continue
            emit.append(lambda c=c, r=r, cfg=cfg, res=res: term_terminal(c, r, cfg, res))
            meta.append((ci, "term", k_))
        if "checks" in r:
            emit.append(lambda c=c, r=r: term_remove(c, r))
            meta.append((ci, "remove", 0))
            emit.append(lambda c=c, r=r: term_stacked(c, r))
            meta.append((ci, "stacked", 0))
    # (b) exact direct densities in worker processes (forked before any thread is started), concurrently with the model evaluation
    spec_args = {}
    for mi, (ci, what, k_) in enumerate(meta):
        if what not in ("ts", "term"):
            continue
        c, r = cases[ci], ires[ci]
        cfg = c["c12"]["timeseries" if what == "ts" else "terminal"][k_]
        res = r["timeseries" if what == "ts" else "terminal"][k_]
        if what == "ts":
            rr, resx = {"post_marginal": r["post_marginal"], "post_conds": r["post_conds"]}, {"data": res["data"], "std": res["std"]}
        else:      # terminal marginal + noise: the joint assembly with T = 1
            rr, resx = {"post_marginal": r["margT"], "post_conds": []}, {"data": [res["data"]], "std": [res["std"]]}
        spec_args[mi] = (c, rr, cfg, resx, f"{ck.seed}-{ci}-{what}-{k_}")
    pool = cf.ProcessPoolExecutor(max_workers=14, mp_context=multiprocessing.get_context("fork"))
    spec_fut = {mi: pool.submit(spec_job, a) for mi, a in spec_args.items()}
    t1 = time.time()
    mres = None
    try:
        mres, xinfo = dual_eval_loss("C12", emit, sample=2, shard=4 if quick else 6)
        ck.hist["ocaml_vs_coq_crosscheck"] = xinfo
    except RuntimeError as e:
        ck.notes.append(f"model evaluation failed: {str(e)[:1500]}")
        ck.report("C12.model-eval", "model evaluation failed", {"err": str(e)[:3000], "broken": "Run/LossRun.v / Extract/ExtractLoss.v"}, nofail=True)
    t_model = time.time() - t1

    worst = {"model": 0.0, "joint": 0.0, "terminal-model": 0.0, "terminal-direct": 0.0, "float64-vs-exact": 0.0}
    illc, pairs = [], []
    stat = {"illconditioned_not_compared": 0, "model_skipped": 0, "float64_illconditioned": 0, "float64_compared": 0, "chain_rule_exact_ok": 0, "surrogate_ok": 0,
            "nonfinite_solutions_skipped": nonfinite}
    t2 = time.time()
    for mi, ((ci, what, k_), v) in enumerate(zip(meta, mres or [])):
        c, r = cases[ci], ires[ci]
        kind, q, d = c["kind"], c["q"], c["d"]
        N, cc, nb = gen.shape_dims(kind, q, d)
        kobs = d if kind == "dense" else 1
        jc = gen.jsonable(c)
        if what == "remove":
            chk = r["checks"]
            mv = lib.decode_optQ(v)
            ck.count(f"remove:{ci}", nontrivial=True, r_kind=kind)
            if mv is None:
                stat["model_skipped"] += 1
                continue
            ok = int(mv[0]) == chk["removed_nconds"]
            want = []
            for b in chk["removed_marginal"]:
                want += [Fr(x) for row in b["m"] for x in row] + [x for row in gram(fr_mat(b["L"])) for x in row]
            ok = ok and want == mv[1:] and chk["single_unchanged"]
            if not ok:
                ck.report(f"C12.{kind}.remove-filtering", "remove_filtering_distributions does not keep the last stacked marginal / the conditionals "
                          "(or changes a single-marginal sequence)", {"case": jc})
            # documented input checks
            expect = {"short_std": "ValueError", "long_std": "ValueError", "extra_axis_std": "ValueError", "filter_posterior": "TypeError",
                      "smoothing_solution": "TypeError", "terminal_extra_axis": "ValueError", "per_dim_std_iso": "ValueError",
                      "scalar_std_per_time": "ValueError", "terminal_scalar_std": "ValueError", "stacked_posterior": "ValueError"}
            for key, exc in expect.items():
                if key in chk and not chk[key].startswith(exc + ":"):
                    ck.report(f"C12.{kind}.input-checks", f"malformed input '{key}' should raise {exc}, got {chk[key]}", {"case": jc, "checks": chk})
            if not chk["terminal_ok"].startswith("value:"):
                ck.report(f"C12.{kind}.input-checks", f"well-formed terminal-value call failed: {chk['terminal_ok']}", {"case": jc, "checks": chk})
            continue
        if what == "stacked":
            ck.count(f"stacked:{ci}", nontrivial=True, r_kind=kind)
            if isinstance(v, str):
                stat["model_skipped"] += 1
            elif lib.decode_optQ(v) is not None:
                ck.report("C12.model-eval", "the model accepts a posterior with stacked marginals, the implementation rejects it (std container check)",
                          {"case": jc}, nofail=True)
            continue
        cfg = c["c12"]["timeseries" if what == "ts" else "terminal"][k_]
        res = r["timeseries" if what == "ts" else "terminal"][k_]
        key = json.dumps({"case": jc, "what": what, "k": k_}, sort_keys=True)
        hist = dict(kind=kind, loss=what, strat=c["strat"], tcoeff=cfg["tcoeff"], q=q, d=d, T=c["T"], init=c["init_mode"], calib=c["calib"],
                    std_mode=cfg["std_mode"], data=cfg["data_kind"])
        if what == "ts":
            hist["average"] = cfg["avg"]
        ck.count(key, nontrivial=True, sample={"kind": kind, "strat": c["strat"], "q": q, "d": d, "T": c["T"], "loss": what, "cfg": {kk: cfg[kk] for kk in cfg if kk != "offset"}}, **hist)
        impl = res["value"]
        if res["shape"] != [] or not math.isfinite(impl):
            ck.report(f"C12.{kind}.{'timeseries.model' if what == 'ts' else 'terminal'}", f"loss value is not a finite scalar: {impl!r} shape {res['shape']}",
                      {"case": jc, "cfg": cfg, "impl": res})
            continue
        mv = lib.decode_optQ(v)
        T = len(res["data"]) if what == "ts" else 1
        div = T if (what == "ts" and cfg["avg"]) else 1
        # ---------------- (b) direct joint density, exact; conditioning by exact evaluations on perturbed posteriors
        sj = spec_fut[mi].result()
        if sj is None:
            ck.report("C12.spec-eval", "joint covariance not positive definite in exact arithmetic", {"case": jc, "cfg": cfg}, nofail=True)
            continue
        tot, scale, maha_sum, dets, sens_abs, fl_tot, fl_cond = sj
        tot, scale = tot / div, scale / div
        # ---------------- (a) model terms
        model_terms = None
        mval = None
        if mv is None:
            stat["model_skipped"] += 1
        else:
            sur, body = mv[0], mv[1:]
            flat = [(body[2 * j], body[2 * j + 1]) for j in range(len(body) // 2)]
            if len(flat) != T * nb:
                ck.report("C12.model-eval", f"model returned {len(flat)} density terms, expected {T * nb}", {"case": jc, "cfg": cfg}, nofail=True)
                continue
            model_terms = flat
            # the accumulating recursion of the model on the surrogate valuation = mean / sum of the valuation over the terms
            per_time = [sum(flat[t * nb + a][0] + 2 * flat[t * nb + a][1] for a in range(nb)) for t in range(T)]
            if sum(per_time) / div == sur:
                stat["surrogate_ok"] += 1
            else:
                ck.report("C12.accumulator-exact", "the model's running mean / sum disagrees with the mean / sum of its terms (T12.1 broken?)",
                          {"case": jc, "cfg": cfg}, nofail=True)
            mval, msc = lp_from_terms(flat, kobs, cc)
            if mval is None:
                ck.report("C12.model-eval", "model returned a non-positive determinant", {"case": jc, "cfg": cfg}, nofail=True)
                continue
            mval, msc = mval / div, msc / div
            scale = max(scale, msc)
            # ---------------- (c) N-point chain rule, exactly
            ok = sum(m for m, _d in model_terms) == maha_sum
            for a in range(nb):
                prod = Fr(1)
                for t in range(T):
                    prod *= model_terms[t * nb + a][1]
                ok = ok and prod == dets[a]
            if ok:
                stat["chain_rule_exact_ok"] += 1
            else:
                ck.report("C12.chain-rule-exact", f"{kind}: sum of the recursion's quadratic forms / product of its determinants differs (as exact rationals) "
                          "from the joint quadratic form / determinant", {"case": jc, "cfg": cfg}, nofail=True)
        # conditioning: change of the exact value under a 2^-44 componentwise relative perturbation of the stored posterior arrays
        sens = sens_abs / div / scale
        if not sens <= SENS_MAX:
            stat["illconditioned_not_compared"] += 1
            d_ = ck.hist.setdefault("illconditioned_posteriors", {})
            key_ = f"{kind}/{c['strat']}/{c['calib']}/{what}"
            d_[key_] = d_.get(key_, 0) + 1
            if len(illc) < 6:
                illc.append({"kind": kind, "strat": c["strat"], "calib": c["calib"], "lin": c["lin"], "init": c["init_mode"], "f": jc["f"], "loss": what,
                             "implementation": impl, "exact": tot, "relative_sensitivity": sens})
            continue
        tol = RTOL + SENS_FACTOR * sens
        pairs.append((abs(impl - tot) / scale, sens))
        if mval is not None:
            err = abs(impl - mval) / scale
            sig = f"C12.{kind}.timeseries.model" if what == "ts" else f"C12.{kind}.terminal"
            wk = "model" if what == "ts" else "terminal-model"
            if not err <= tol:
                ck.report(sig, f"{kind}/{c['strat']}/{what} tcoeff={cfg['tcoeff']} avg={cfg.get('avg')} T={T}: implementation {impl!r} vs model {mval!r} "
                          f"(relative to term size {scale:.3g}: {err:.3g}; tolerance {tol:.3g})", {"case": jc, "cfg": cfg, "impl": res, "model_value": mval})
            else:
                worst[wk] = max(worst[wk], err)
        err = abs(impl - tot) / scale
        sig = f"C12.{kind}.timeseries.joint-density" if what == "ts" else f"C12.{kind}.terminal"
        wk = "joint" if what == "ts" else "terminal-direct"
        if not err <= tol:
            ck.report(sig, f"{kind}/{c['strat']}/{what} tcoeff={cfg['tcoeff']} avg={cfg.get('avg')} T={T}: implementation {impl!r} vs direct "
                      f"{'joint' if what == 'ts' else 'marginal'} Gaussian log-density {tot!r} (relative to term size {scale:.3g}: {err:.3g}; tolerance {tol:.3g})",
                      {"case": jc, "cfg": cfg, "impl": res, "direct_value": tot})
        else:
            worst[wk] = max(worst[wk], err)
        # float64 evaluation of the same density (recorded; judged only when well conditioned)
        if fl_cond < 1e10 and math.isfinite(fl_tot):
            stat["float64_compared"] += 1
            worst["float64-vs-exact"] = max(worst["float64-vs-exact"], abs(fl_tot / div - tot) / scale)
        else:
            stat["float64_illconditioned"] += 1
    t_cmp = time.time() - t2
    pool.shutdown()
    if stat["float64_compared"] and worst["float64-vs-exact"] > 1e-6:
        ck.notes.append(f"float64 evaluation of the joint density deviates from the exact one by {worst['float64-vs-exact']:.3g} on a well-conditioned case")
    ck.hist["worst_rel_discrepancy"] = worst
    ck.hist["illconditioned_examples"] = {"list": illc}
    if os.environ.get("C12_DEBUG_PAIRS"):
        ck.hist["err_vs_sens"] = {"pairs": sorted(pairs, reverse=True)[:40]}
    ck.hist["bookkeeping"] = stat
    ck.hist["timing_s"] = {"implementation": round(t_impl, 1), "model": round(t_model, 1), "exact_joint_wait_and_compare": round(t_cmp, 1)}
    ck.notes.append("restriction: observation noise std > 0 (std in [1e-6, 1e3]); std = 0 with a noise-free initial state gives a singular predicted "
                    "covariance, which needs a pseudo-inverse that the model does not certify")
    ck.notes.append("observation (not a C12 violation): a MarkovSequence that still carries stacked filtering marginals is rejected by loss_lml_timeseries "
                    "(the std-shape check runs against the stacked marginal before remove_filtering_distributions), i.e. that call inside the loss is unreachable")
    if not pr["ok"] and not ck.violations:
        ck.report("C12.proof", f"proof obligations no longer check: {pr['errors']}",
                  {"broken": pr.get("failed_at", "Props/C12.v"), "errors": pr["errors"]}, nofail=True)
    ck.finish(rule="polynomial ODEs (gen.gen_solver_case, tamed), three factorisations, TS0/TS1, all calibrations, exact / inexact / mixed / diffuse initial "
              "states; posteriors from solve_fixed_grid + fixed-interval smoother and from solve_adaptive_save_at + fixed-point smoother (real error "
              "control), 2..6 (quick) / 2..12 output times; per posterior several loss configurations: tcoeff_index 0..q, average on/off, std in "
              "[1e-6,1e3] per time and per dimension (log-uniform, constant, extremes, unit), data = solution mean + small / noise-sized offsets or "
              "far away; terminal-value loss on the final marginal (also from filters). Compared: implementation vs Coq model on the exact posterior, "
              "vs exact direct joint density; model vs joint exactly (chain rule). Every loss configuration is one non-trivial evaluation; distinct by full input")


if __name__ == "__main__":
    main()
