"""C07 check: the acceptance quantity equals the documented local error estimate."""

from __future__ import annotations

import json
import math
import os
import sys
from fractions import Fraction as Fr

sys.path.insert(0, os.path.dirname(os.path.abspath(__file__)))
import gen  # noqa: E402
import lib  # noqa: E402

RTOL = 2e-6


def coeff_of_state(c, e, i):
    """Taylor coefficient i (all d dimensions) of an encoded state's mean, as Fractions."""
    kind, d = c["kind"], c["d"]
    if kind == "dense":
        return [Fr(e["u"][0]["m"][i * d + a][0]) for a in range(d)]
    if kind == "iso":
        return [Fr(x) for x in e["u"][0]["m"][i]]
    return [Fr(e["u"][a]["m"][i][0]) for a in range(d)]


def coq_error(c, prev, prop, dt):
    e = c["error"]
    est = "ResidualStd" if e["est"] == "residual" else f"(StateStd {lib.coq_nat(e['idx'])})"
    idx = 0 if e["est"] == "residual" else e["idx"]
    u0, u1 = coeff_of_state(c, prev, idx), coeff_of_state(c, prop, idx)
    ref = [max(abs(a), abs(b)) for a, b in zip(u0, u1)]
    u = "[" + "; ".join(gen.coq_raw_normal(b) for b in prev["u"]) + "]"
    return (f"error_run {gen.coq_config(c)} {est} {lib.coq_bool(e['per_unit'])} {u} {lib.qclit(prop['t'])} {lib.qclit(dt)} "
            f"{lib.qclist(ref)} {lib.qclit(e['atol'])} {lib.qclit(e['rtol'])} {lib.coq_nat(e['norm'])}"), ref


def main():
    ck = lib.Check("C07")
    pr = ck.run_proof()
    n = 60 if ck.tier == "quick" else 800
    cases = []
    for _ in range(n):
        c = gen.gen_solver_case(ck.rng, ck.tier, strats=("filter", "filter", "fixedpoint"), max_steps=3)
        q = c["q"]
        c["error"] = {"est": ck.rng.choice(["residual", "residual", "state"]), "norm": ck.rng.choice([0, 0, 1]),
                      "relin": ck.rng.random() < 0.5, "per_unit": ck.rng.random() < 0.4,
                      "idx": ck.rng.choice([0, 0, min(1, q)]),
                      "atol": float(10.0 ** -ck.rng.randint(1, 10)), "rtol": float(10.0 ** -ck.rng.randint(1, 10))}
        c["routine"] = "error"
        cases.append(c)
    ires = lib.run_impl("solve_impl.py", {"cases": [gen.floatable(c) for c in cases]}, timeout=3000)["results"]
    emit, meta = [], []
    for i, c in enumerate(cases):
        r = ires[i]
        if "error" in r and "states" not in r:
            msg = r["error"]
            # the residual estimator documents a shape restriction (error/reference); not a violation when it applies
            ck.count("exc:" + json.dumps(gen.jsonable(c), sort_keys=True), nontrivial=False, sample=None)
            ck.report(f"C07.{c['kind']}.exception", f"implementation raised {msg}", {"case": gen.jsonable(c), "impl": r})
            continue
        sts = r["states"]
        for k in range(len(sts) - 1):
            dt = c["grid"][k + 1] - c["grid"][k]
            if not (gen.all_finite(sts[k]) and gen.all_finite(sts[k + 1])):
                # NaN states (dynamic calibration with an exactly-zero local scale, finding F21) cannot be converted to rationals;
                # the estimate computed from / for them is not compared
                ck.hist.setdefault("non_finite_states_skipped", {"n": 0})["n"] += 1
                if not c["calib"].startswith("dyn"):
                    ck.report(f"C07.{c['kind']}.non-finite-state", f"{c['kind']}/{c['calib']}/{c['lin']}: the solver produced non-finite states at step {k}",
                              {"case": gen.jsonable(c)})
                break
            emit.append(lambda c=c, a=sts[k], b=sts[k + 1], dt=dt: coq_error(c, a, b, dt)[0])
            meta.append((i, k))
    try:
        mres, xinfo = lib.dual_eval("C07", gen.HEADER.replace("Model.Solver", "Model.Solver Model.Error"), emit, sample=2, shard=40)
        ck.hist["ocaml_vs_coq_crosscheck"] = xinfo
    except RuntimeError as e:
        ck.report("C07.model-eval", "model evaluation failed", {"err": str(e)[:1500], "broken": "Run/GenRun.v g_error"}, nofail=True)
        mres = None
    worst, skipped = 0.0, 0
    seen = set()
    if mres is not None:
        for (i, k), v in zip(meta, mres):
            c = cases[i]
            e = c["error"]
            jc = gen.jsonable(c)
            if i not in seen:
                seen.add(i)
                ck.count(json.dumps(jc, sort_keys=True), nontrivial=True,
                         sample={kk: jc[kk] for kk in ("kind", "q", "d", "ord", "lin", "calib", "grid", "error")},
                         kind=c["kind"], est=e["est"], norm=e["norm"], relin=e["relin"], per_unit=e["per_unit"], calib=c["calib"],
                         lin=c["lin"], order=c["ord"], idx=e["idx"])
            mv = lib.decode_optQ(v)
            if mv is None:
                skipped += 1
                continue
            power = ires[i]["powers"][k]
            rate = c["q"] + 1
            if e["norm"] == 0:
                want = float(mv[0])
            else:
                want = float(mv[0]) / (e["atol"] + e["rtol"] * math.sqrt(float(mv[1]))) ** 2
            if want < 1e-24:
                # exactly (or essentially) zero estimate, e.g. the standard deviation of a coordinate that is observed
                # noise-free: the implementation returns rounding noise (a huge or infinite error_power)
                # The comparison is made on the ABSOLUTE error estimate (norm x tolerance): below 1e-12 x the size of the state
                # it is float64 rounding noise of the factorisations (the norm itself is that noise divided by a tolerance as
                # small as 1e-10, so it need not be small).
                got = 0.0 if math.isinf(power) else (power ** (-2 * rate) if power > 0 else float("nan"))
                usize = max([1.0] + [abs(float(x)) for row in c["tcoeffs"] for x in (row if isinstance(row, (list, tuple)) else [row])])
                ok = got <= 1e-18 or math.sqrt(got) * (e["atol"] + e["rtol"] * usize) <= 1e-12 * usize
            else:
                got = power ** (-2 * rate) if power > 0 else float("nan")
                ok = abs(got - want) <= RTOL * rate * abs(want)
                if ok and want > 0:
                    worst = max(worst, abs(got - want) / abs(want))
            if not ok:
                ck.report(f"C07.{c['kind']}.{e['est']}.norm{e['norm']}",
                          f"{c['kind']}/{e['est']}/norm{e['norm']}/per_unit={e['per_unit']}/{c['calib']}/{c['lin']}: "
                          f"error_power^(-2(q+1)) = {got!r} but the documented estimate gives {want!r} (step {k})",
                          {"case": jc, "step": k, "power": power, "norm2_model": want})
    ck.hist["model_skipped(singular or timeout)"] = {"n": skipped}
    ck.hist["worst_rel_discrepancy"] = {"value": worst}
    if not pr["ok"] and not ck.violations:
        ck.report("C07.proof", f"proof obligations no longer check: {pr['errors']}",
                  {"broken": pr.get("failed_at", "Props/C07.v"), "errors": pr["errors"]}, nofail=True)
    ck.finish(rule="solver cases as in C02 x {residual, state(derivative index)} estimators x {scale-then-rms, rms-then-scale} x cached/re-linearised x "
              "error-per-unit-step x atol, rtol in 1e-1..1e-10; for every step of a manually stepped trajectory the implementation's error_power is "
              f"compared through power^(-2(q+1)) with the model's rational norm^2 (rtol {RTOL}*(q+1)); non-trivial: all; distinct by full input")


if __name__ == "__main__":
    main()
