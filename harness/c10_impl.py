"""C10 implementation runner: the five Taylor-coefficient routines of /repo, called through the
public API on polynomial vector fields (flat arrays or nested pytrees).

A case: {"k", "d", "polys" (d lists of [coef, exps over k*d state variables + t]), "inits"
(k lists of d floats), "t0", "calls": [{"routine", "num"}...], "tree": shape | None,
"residual": None | {...}}.  Outputs are lists (orders) of lists (natural coordinates)."""

import concurrent.futures as cf
import json
import multiprocessing as mp
import os
import sys
import traceback
import warnings

warnings.simplefilter("ignore")


def _setup():
    import jax

    jax.config.update("jax_enable_x64", True)
    import jax.numpy as jnp
    import numpy as np

    import probdiffeq
    from probdiffeq import probdiffeq as pdq

    assert probdiffeq.__file__.startswith(os.environ.get("VERIF_REPO", "/repo") + "/"), probdiffeq.__file__
    return jax, jnp, np, pdq


# ----------------------------------------------------------------------------- pytrees
def tree_paths(shape, prefix=()):
    """natural index -> access path; a path element is ('k', key) | ('i', pos) | ('e', pos in 1-d leaf) | ('s',)."""
    out = {}
    if shape["t"] == "leaf":
        if shape.get("scalar"):
            out[shape["idx"][0]] = prefix + (("s",),)
        else:
            for pos, i in enumerate(shape["idx"]):
                out[i] = prefix + (("e", pos),)
    elif shape["t"] == "tuple":
        for pos, c in enumerate(shape["cs"]):
            out.update(tree_paths(c, prefix + (("i", pos),)))
    else:
        for key, c in shape["kvs"]:
            out.update(tree_paths(c, prefix + (("k", key),)))
    return out


def tree_get(u, path):
    for el in path:
        if el[0] == "k":
            u = u[el[1]]
        elif el[0] == "i":
            u = u[el[1]]
        elif el[0] == "e":
            u = u[el[1]]
    return u


def tree_build(shape, values, jnp):
    """values: natural index -> scalar."""
    if shape["t"] == "leaf":
        if shape.get("scalar"):
            return jnp.asarray(values[shape["idx"][0]], dtype=jnp.float64)
        return jnp.stack([jnp.asarray(values[i], dtype=jnp.float64) for i in shape["idx"]])
    if shape["t"] == "tuple":
        cs = [tree_build(c, values, jnp) for c in shape["cs"]]
        return tuple(cs) if shape.get("py", "tuple") == "tuple" else list(cs)
    return {key: tree_build(c, values, jnp) for key, c in shape["kvs"]}


# ------------------------------------------------------------------------- vector fields
def poly_eval(monos, env, jnp):
    acc = jnp.zeros((), dtype=jnp.float64)
    for coef, exps in monos:
        term = jnp.asarray(coef, dtype=jnp.float64)
        for j, e in enumerate(exps):
            if e:
                term = term * env[j] ** e
        acc = acc + term
    return acc


def make_vf(case, jnp, pdq):
    k, d, polys, shape = case["k"], case["d"], case["polys"], case.get("tree")
    paths = tree_paths(shape) if shape else None

    def coords(u):
        if shape:
            return [tree_get(u, paths[i]) for i in range(d)]
        return [u[i] for i in range(d)]

    def f(*args, t):
        env = []
        for a in args:
            env += coords(a)
        env.append(jnp.asarray(t, dtype=jnp.float64))
        outs = [poly_eval(polys[a], env, jnp) for a in range(d)]
        if shape:
            return tree_build(shape, outs, jnp)
        return jnp.stack(outs)

    if k == 1:
        return pdq.ode(lambda u, /, *, t: f(u, t=t)), f
    if k == 2:
        return pdq.ode_order_two(lambda u, du, /, *, t: f(u, du, t=t)), f
    return pdq.ode_order_arbitrary(lambda *a, t: f(*a, t=t), num_tcoeffs_in_args=k), f


def make_inits(case, jnp, np):
    shape = case.get("tree")
    out = []
    for vec in case["inits"]:
        if shape:
            out.append(tree_build(shape, vec, jnp))
        else:
            out.append(jnp.asarray(np.array(vec, dtype=np.float64)))
    return out


def extract(case, tcoeffs, np):
    shape = case.get("tree")
    d = case["d"]
    res = []
    if shape:
        paths = tree_paths(shape)
        for c in tcoeffs:
            res.append([float(np.asarray(tree_get(c, paths[i]))) for i in range(d)])
    else:
        for c in tcoeffs:
            a = np.asarray(c, dtype=np.float64)
            if a.shape != (d,):
                raise RuntimeError(f"harness: coefficient of shape {a.shape}, expected {(d,)}")
            res.append(a.tolist())
    return res


def make_residual(case, vf_ode, f, jnp, pdq):
    """Implicit formulations whose solution is the ODE's (or the equivalent ODE's) solution."""
    r = case["residual"]
    k, d, num = case["k"], case["d"], r["num"]
    if r["form"] == "from_ode":
        return pdq.residual_from_ode(vf_ode).jet_lift(lift_by=num - 1)
    if r["form"] == "implicit":
        # r = M (u^(k) - f(u, .., t)) with M unit lower triangular times a diagonal scaling
        M = r["M"]

        def body(*args, t):
            top = args[-1]
            fx = f(*args[:-1], t=t)
            diff = top - fx
            return jnp.stack([sum(M[a][b] * diff[b] for b in range(d)) for a in range(d)])

        if k == 1:
            res = pdq.residual_velocity(lambda u, du, /, *, t: body(u, du, t=t))
        else:
            res = pdq.residual_acceleration(lambda u, du, ddu, /, *, t: body(u, du, ddu, t=t))
        return res.jet_lift(lift_by=num - 1)
    if r["form"] == "dae":
        # first-order: u_a' = f_a(u, t) for a < d-1, and 0 = u_{d-1} - h(u_0..u_{d-2}, t)
        hpoly = r["h"]
        polys = case["polys"]

        def differential(u, du, /, *, t):
            env = [u[i] for i in range(d)] + [jnp.asarray(t, dtype=jnp.float64)]
            return jnp.stack([du[a] - poly_eval(polys[a], env, jnp) for a in range(d - 1)])

        def algebraic(u, /, *, t):
            env = [u[i] for i in range(d)] + [jnp.asarray(t, dtype=jnp.float64)]
            return u[d - 1] - poly_eval(hpoly, env, jnp)

        dl = pdq.residual_velocity(differential).jet_lift(lift_by=num - 1)
        al = pdq.residual_position(algebraic).jet_lift(lift_by=num)
        return pdq.residual_from_stack(dl, al)
    raise RuntimeError("harness: residual form")


def run_case(case):
    jax, jnp, np, pdq = _setup()
    vf, f = make_vf(case, jnp, pdq)
    inits = make_inits(case, jnp, np)
    t0 = case["t0"]
    res = {"calls": []}
    for call in case["calls"]:
        rname, num = call["routine"], call["num"]
        rec = {"routine": rname, "num": num}
        try:
            if rname == "padded_scan":
                out, _ = pdq.jetexpand_ode_padded_scan(num=num)(vf, inits, t=t0)
            elif rname == "unroll":
                out, _ = pdq.jetexpand_ode_unroll(num=num)(vf, inits, t=t0)
            elif rname == "via_jvp":
                out, _ = pdq.jetexpand_ode_via_jvp(num=num)(vf, inits, t=t0)
            elif rname == "doubling":
                out, _ = pdq.jetexpand_ode_doubling_unroll(num_doublings=num)(vf, inits, t=t0)
            elif rname == "residual":
                residual = make_residual(case, vf, f, jnp, pdq)
                # default Gauss-Newton (tol 1e-6, maxiter 10) and a tightened one through the public argument
                out_d, info = pdq.jetexpand_residual(num=num)(residual, inits, t=t0)
                rec["iters_default"] = int(info["iters"]) if "iters" in info else None
                rec["out_default"] = extract(case, out_d, np)
                tight = pdq.lstsq_constrained_gauss_newton(tol=1e-13, maxiter=40)
                out, info = pdq.jetexpand_residual(num=num, nlstsq=tight)(residual, inits, t=t0)
                rec["iters"] = int(info["iters"]) if "iters" in info else None
                rec["maxiter"] = 40
                fc = np.asarray(info["final_constraint"], dtype=np.float64) if "final_constraint" in info else np.zeros(1)
                rec["constraint_norm"] = float(np.max(np.abs(fc))) if fc.size else 0.0
            else:
                raise RuntimeError("harness: routine")
            rec["out"] = extract(case, out, np)
        except Exception as e:  # noqa: BLE001
            rec["raised"] = type(e).__name__
            rec["msg"] = str(e)[:300]
            rec["tb"] = traceback.format_exc()[-1200:]
        res["calls"].append(rec)
    return res


def safe_run(case):
    try:
        return run_case(case)
    except Exception as e:  # noqa: BLE001
        return {"error": f"{type(e).__name__}: {e}", "tb": traceback.format_exc()[-1500:]}


def main():
    payload = json.load(open(sys.argv[1]))
    cases = payload["cases"]
    workers = int(payload.get("workers", 8))
    if workers <= 1 or len(cases) <= 2:
        res = [safe_run(c) for c in cases]
    else:
        ctx = mp.get_context("spawn")
        with cf.ProcessPoolExecutor(max_workers=workers, mp_context=ctx) as ex:
            res = list(ex.map(safe_run, cases, chunksize=1))
    json.dump({"results": res}, open(sys.argv[2], "w"))


if __name__ == "__main__":
    main()
