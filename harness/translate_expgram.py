"""Fail-closed translator for the Pade/Legendre tables of /repo/probdiffeq/util/gram_util.py.

`lines()` returns Coq source lines (to be appended to coq/Generated/Constants.v through
translate.EXTRA_GENERATORS, or written to coq/Generated/ExpGramConstants.v by `write()`):

    src_pade_<p>            : list Q          pade_coeffs          (p+1 literals)
    src_legendre_<p>        : list (list Q)   legendre_coeffs      ((p+1) x (p+1) literals)
    src_legendre_norms_<p>  : list Q          legendre_norms       (p+1 literals)
    src_eta64_<p>, src_eta32_<p> : Q          eta_fp64 / eta_fp32 of the returned PadeLegendre
    src_q_<p>               : nat             q of the returned PadeLegendre
    src_legendre_loop_<p>   : list nat        the literal list of `for k in [...]` in init ([] if no loop)
    src_legendre_advance_<p>: bool            the loop body starts with `P = A2 @ P` (true if no loop)
    src_expgram_orders      : list nat        the orders offered, [3; 5; 7; 9; 13]
    src_default_order64 / src_default_order32 : nat   orders chosen by prior_exponential_diffuse

Only literal data and the literal loop header are read.  Any unexpected AST shape raises
translate.TranslateError.
"""

from __future__ import annotations

import ast
import os
import sys

sys.path.insert(0, os.path.dirname(os.path.abspath(__file__)))
import translate  # noqa: E402
from translate import TranslateError, qlit  # noqa: E402

REL = "probdiffeq/util/gram_util.py"
EXPECTED_ORDERS = [3, 5, 7, 9, 13]


def _assigns(fn: ast.FunctionDef):
    out = {}
    for st in fn.body:
        if isinstance(st, ast.Assign) and len(st.targets) == 1 and isinstance(st.targets[0], ast.Name):
            name = st.targets[0].id
            if name in out:
                raise TranslateError(f"{fn.name}: {name} assigned twice")
            out[name] = st.value
    return out


def _seq(node, src, what, kinds):
    if not isinstance(node, kinds):
        raise TranslateError(f"{what}: expected {'/'.join(k.__name__ for k in kinds)}, found {type(node).__name__}")
    return [translate._num_literal(e, src) for e in node.elts]


def _table(fn: ast.FunctionDef, src, p):
    a = _assigns(fn)
    for k in ("pade_coeffs", "legendre_coeffs", "legendre_norms"):
        if k not in a:
            raise TranslateError(f"{fn.name}: {k} not found")
    pade = _seq(a["pade_coeffs"], src, f"{fn.name}.pade_coeffs", (ast.Tuple, ast.List))
    if not isinstance(a["legendre_coeffs"], ast.List):
        raise TranslateError(f"{fn.name}.legendre_coeffs: expected a list of lists")
    leg = [_seq(r, src, f"{fn.name}.legendre_coeffs row", (ast.List, ast.Tuple)) for r in a["legendre_coeffs"].elts]
    norms = _seq(a["legendre_norms"], src, f"{fn.name}.legendre_norms", (ast.List, ast.Tuple))
    if len(pade) != p + 1 or len(leg) != p + 1 or any(len(r) != p + 1 for r in leg) or len(norms) != p + 1:
        raise TranslateError(f"{fn.name}: table sizes do not match order {p}")
    # the returned PadeLegendre(init=init, q=..., eta_fp64=..., eta_fp32=...)
    rets = [n for n in fn.body if isinstance(n, ast.Return)]
    if len(rets) != 1 or not isinstance(rets[0].value, ast.Call):
        raise TranslateError(f"{fn.name}: expected exactly one `return PadeLegendre(...)`")
    call = rets[0].value
    if not (isinstance(call.func, ast.Name) and call.func.id == "PadeLegendre") or call.args:
        raise TranslateError(f"{fn.name}: return value is not PadeLegendre(keywords...)")
    kw = {k.arg: k.value for k in call.keywords}
    if set(kw) != {"init", "q", "eta_fp64", "eta_fp32"}:
        raise TranslateError(f"{fn.name}: unexpected PadeLegendre keywords {sorted(kw)}")
    if not (isinstance(kw["init"], ast.Name) and kw["init"].id == "init"):
        raise TranslateError(f"{fn.name}: init is not the local function")
    q = translate._num_literal(kw["q"], src)
    if q != p:
        raise TranslateError(f"{fn.name}: q={q} differs from the order in the name")
    eta64 = translate._num_literal(kw["eta_fp64"], src)
    eta32 = translate._num_literal(kw["eta_fp32"], src)
    if eta64 <= 0 or eta32 <= 0:
        raise TranslateError(f"{fn.name}: non-positive eta")
    # the Legendre loop header of init
    init = translate._find_func(fn.body, "init")
    loops = [n for n in init.body if isinstance(n, ast.For)
             and isinstance(n.target, ast.Name) and n.target.id == "k"]
    if len(loops) > 1:
        raise TranslateError(f"{fn.name}.init: more than one `for k in` loop")
    ks, advance = [], True
    if loops:
        lp = loops[0]
        if not isinstance(lp.iter, ast.List):
            raise TranslateError(f"{fn.name}.init: loop range is not a literal list")
        ks = []
        for e in lp.iter.elts:
            v = translate._num_literal(e, src)
            if v.denominator != 1 or v < 0:
                raise TranslateError(f"{fn.name}.init: loop index {v} is not a natural number")
            ks.append(int(v))
        first = lp.body[0] if lp.body else None
        advance = (isinstance(first, ast.Assign) and ast.get_source_segment(src, first) is not None
                   and "".join(ast.get_source_segment(src, first).split()) == "P=A2@P")
        # the remaining statements must be the two accumulations (shape only)
        rest = lp.body[1:] if advance else lp.body
        names = [s.targets[0].id for s in rest if isinstance(s, ast.Assign) and len(s.targets) == 1
                 and isinstance(s.targets[0], ast.Name)]
        if names != ["L_even", "L_odd"] or len(rest) != 2:
            raise TranslateError(f"{fn.name}.init: unexpected Legendre loop body")
    return {"p": p, "pade": pade, "leg": leg, "norms": norms, "eta64": eta64, "eta32": eta32, "ks": ks,
            "advance": advance}


def tables():
    src, _ = translate._src(REL)
    tree = ast.parse(src)
    fns = [n for n in tree.body if isinstance(n, ast.FunctionDef) and n.name.startswith("pade_and_legendre_")]
    orders = []
    out = {}
    for fn in fns:
        suffix = fn.name[len("pade_and_legendre_"):]
        if not suffix.isdigit():
            raise TranslateError(f"unexpected function name {fn.name}")
        p = int(suffix)
        if p in out:
            raise TranslateError(f"{fn.name} defined twice")
        out[p] = _table(fn, src, p)
        orders.append(p)
    if orders != EXPECTED_ORDERS:
        raise TranslateError(f"offered Pade/Legendre orders {orders} differ from the modelled {EXPECTED_ORDERS}")
    return out


def default_orders():
    """Orders used by state_space_model_dense.prior_exponential_diffuse:
    pade_and_legendre_9() if dtype_str == "float64" else pade_and_legendre_5()."""
    src, _ = translate._src("probdiffeq/_probdiffeq/ssm_impl_dense.py")
    tree = ast.parse(src)
    found = []
    for n in ast.walk(tree):
        if isinstance(n, ast.IfExp):
            seg = ast.get_source_segment(src, n) or ""
            if "pade_and_legendre_" in seg:
                found.append(n)
    if len(found) != 1:
        raise TranslateError("prior_exponential_diffuse: expected one conditional choice of pade_and_legendre_*")
    n = found[0]
    test = "".join((ast.get_source_segment(src, n.test) or "").split())
    if test != 'dtype_str=="float64"':
        raise TranslateError(f"prior_exponential_diffuse: unexpected test {test}")

    def order(call):
        seg = "".join((ast.get_source_segment(src, call) or "").split())
        pre = "gram_util.pade_and_legendre_"
        if not (seg.startswith(pre) and seg.endswith("()") and seg[len(pre):-2].isdigit()):
            raise TranslateError(f"prior_exponential_diffuse: unexpected branch {seg}")
        return int(seg[len(pre):-2])

    return order(n.body), order(n.orelse)


def _qlist(xs):
    return "[" + "; ".join(qlit(x) for x in xs) + "]"


def lines():
    T = tables()
    o64, o32 = default_orders()
    L = ["(* Pade/Legendre tables of probdiffeq/util/gram_util.py (harness/translate_expgram.py) *)",
         "From Coq Require Import List.", "Import ListNotations."]
    for p in EXPECTED_ORDERS:
        t = T[p]
        L.append(f"Definition src_pade_{p} : list Q := {_qlist(t['pade'])}.")
        L.append(f"Definition src_legendre_{p} : list (list Q) := [" + ";\n  ".join(_qlist(r) for r in t["leg"]) + "].")
        L.append(f"Definition src_legendre_norms_{p} : list Q := {_qlist(t['norms'])}.")
        L.append(f"Definition src_eta64_{p} : Q := {qlit(t['eta64'])}.")
        L.append(f"Definition src_eta32_{p} : Q := {qlit(t['eta32'])}.")
        L.append(f"Definition src_q_{p} : nat := {p}%nat.")
        L.append(f"Definition src_legendre_loop_{p} : list nat := [" + "; ".join(f"{k}%nat" for k in t["ks"]) + "].")
        L.append(f"Definition src_legendre_advance_{p} : bool := {'true' if t['advance'] else 'false'}.")
    L.append("Definition src_expgram_orders : list nat := [" + "; ".join(f"{p}%nat" for p in EXPECTED_ORDERS) + "].")
    L.append(f"Definition src_default_order64 : nat := {o64}%nat.")
    L.append(f"Definition src_default_order32 : nat := {o32}%nat.")
    return L


HEADER = ["(* GENERATED by harness/translate_expgram.py from /repo on every run of harness/c09.py. Do not edit. *)",
          "From Coq Require Import QArith.", "Local Open Scope Q_scope."]


def write(path):
    text = "\n".join(HEADER + lines()) + "\n"
    old = None
    if os.path.exists(path):
        with open(path) as f:
            old = f.read()
    if old != text:
        with open(path, "w") as f:
            f.write(text)
        return True
    return False


if __name__ == "__main__":
    out = sys.argv[1] if len(sys.argv) > 1 else "/verif/coq/Generated/ExpGramConstants.v"
    try:
        changed = write(out)
    except TranslateError as e:
        print(f"TRANSLATE-ERROR: {e}")
        sys.exit(2)
    print("changed" if changed else "unchanged")
