"""C14 check: state-space factorisations agree wherever theory says they must.

Implementation vs implementation (float64): the same problem is solved with the dense, isotropic and
block-diagonal models; every solution is converted to the dense layout (index i*d + a) and compared on
exactly the quantities the property claims to coincide.  The theorems (Props/C14.v) explain why: the dense
model is the Kronecker embedding of the isotropic one (T14.a-c), the block-diagonal MLE scale is the
per-dimension split of the same residual energy (T14.d).
"""

from __future__ import annotations

import copy
import json
import math
import os
import sys
from fractions import Fraction as Fr

import numpy as np

sys.path.insert(0, os.path.dirname(os.path.abspath(__file__)))
import gen  # noqa: E402
import lib  # noqa: E402

RTOL = 1e-9


def rtol_of(q):
    """1e-9 up to q = 3; the conditioning of the (preconditioned) q-times integrated Wiener process, and with it the
    cancellation in smoothed high derivatives at t0, grows by more than an order of magnitude per derivative"""
    return {4: 1e-8, 5: 1e-6, 6: 1e-4}.get(q, RTOL if q <= 3 else 1e-4)


def deriv_floor(c, coeff_mag):
    """Intrinsic rounding noise of the i-th Taylor coefficient estimated from data at spacing h: eps * |u^(j)| (2/h)^(i-j)
    (a k-th difference quotient has weights summing to 2^k / h^k).
    coeff_mag: max |u^(j)| per coefficient j (length q+1). Returns one floor per coefficient (fixed grids only)."""
    if c.get("routine", "fixed_grid") != "fixed_grid":
        return np.zeros(len(coeff_mag))
    g = [float(x) for x in c["grid"]]
    h = min(b - a for a, b in zip(g[:-1], g[1:]))
    out = []
    for i in range(len(coeff_mag)):
        out.append(200 * 2.3e-16 * max(max(coeff_mag[j], 1.0) * (2.0 / h) ** (i - j) for j in range(i + 1)))
    return np.array(out)


def floor_dense(c, m):
    """per-entry floor (N,) for a (T, (q+1) d) mean array in the dense layout"""
    d = m.shape[1] // (c["q"] + 1)
    mag = np.abs(m).reshape(m.shape[0], c["q"] + 1, d).max(axis=(0, 2))
    return np.repeat(deriv_floor(c, mag), d)[None, :]
STRATS = ("filter", "fixedinterval", "fixedpoint")
CALIBS = ("none", "mle", "dyn")


# ------------------------------------------------------------------ comparison
def sd_of(cov):
    """floor-ed standard deviations (T, N) of a (T, N, N) stack"""
    sd = np.sqrt(np.maximum(np.einsum("tii->ti", cov), 0.0))
    smax = sd.max() if sd.size else 0.0
    return np.maximum(sd, 1e-7 * smax)


WORST = {}


def _track(label, err, tol, rtol):
    if label and err.size and np.all(np.isfinite(tol)):
        w = float(np.nanmax(err / tol)) * rtol
        WORST[label] = max(WORST.get(label, 0.0), w)


def cmp_mean(ma, mb, sd, rtol=RTOL, label=None, extra=0.0):
    mag = max(1.0, float(np.max(np.abs(ma))))
    tol = rtol * (np.abs(ma) + sd) + 1e-13 * mag + extra
    err = np.abs(ma - mb)
    _track(label, err, tol, rtol)
    bad = ~(err <= tol)
    if bad.any():
        k, i = np.argwhere(bad)[0]
        return f"mean at t[{k}] entry {i}: {ma[k, i]!r} vs {mb[k, i]!r} (sd {sd[k, i]:.3g})"
    return None


def cmp_cov(ca, cb, sd, rtol=RTOL, label=None):
    # entries involving an exactly determined coordinate (zero variance) carry rounding noise eps * smax * sd_j
    noise = 1e-14 * sd.max(axis=1)[:, None, None] * np.maximum(sd[:, :, None], sd[:, None, :])
    tol = rtol * (sd[:, :, None] * sd[:, None, :] + np.abs(ca)) + noise
    err = np.abs(ca - cb)
    _track(label, err, tol, rtol)
    bad = ~(err <= tol)
    if bad.any():
        k, i, j = np.argwhere(bad)[0]
        return f"cov at t[{k}] entry ({i},{j}): {ca[k, i, j]!r} vs {cb[k, i, j]!r} (sd {sd[k, i]:.3g},{sd[k, j]:.3g})"
    return None


def perturb(r, rng):
    """twin of a run: initial Taylor coefficients * (1 + k 2^-48) +- 2^-50 (random k in -4..4), first step size *
    (1 + 2^-48).  The difference between a run and its twin measures how strongly the adaptive solve amplifies
    rounding-size perturbations (cancellation in the residual that drives the error estimate and the dynamic scale,
    smoothing back to diffuse initial conditions)."""
    def wiggle(x):
        return x * (1 + Fr(rng.choice([-4, -3, -2, -1, 1, 2, 3, 4]), 2 ** 48)) + Fr(rng.choice([-1, 1]), 2 ** 50)

    r["tcoeffs"] = [[wiggle(x) for x in row] for row in r["tcoeffs"]]
    r["adaptive"] = dict(r["adaptive"], dt0=float(r["adaptive"]["dt0"]) * (1 + 2.0 ** -48))
    return r


def noise_of(ra, rt, sd, d):
    """(per-entry mean noise (N,), relative covariance noise, relative scale noise) between a run and its twin"""
    if "error" in rt or rt["num_steps"] != ra["num_steps"] or not finite(rt):
        # the twin takes a different number of steps: the run sits on a step-acceptance boundary
        big = np.full(np.asarray(ra["mean"]).shape[1], np.inf)
        return big, np.inf, np.inf
    ma, Pa, sa = arrs(ra)
    mt, Pt, st = arrs(rt)
    nm = np.max(np.abs(ma - mt), axis=0)                      # per state entry, max over time
    # all dimensions of one Taylor coefficient share their scale
    nm = np.repeat(nm.reshape(-1, d).max(axis=1), d)
    nc = float(np.max(np.abs(Pa - Pt) / (sd[:, :, None] * sd[:, None, :] + np.abs(Pa) + 1e-300)))
    ns = float(np.max(np.abs(sa - st) / (np.abs(sa) + sfloor(sa, st))))
    return nm, nc, ns


def finite(r):
    return bool(np.all(np.isfinite(r["mean"])) and np.all(np.isfinite(r["cov"])) and np.all(np.isfinite(np.asarray(r["output_scale"], dtype=float))))


def arrs(r):
    return np.asarray(r["mean"], dtype=float), np.asarray(r["cov"], dtype=float), np.asarray(r["output_scale"], dtype=float)


def sfloor(*xs):
    """output scales that are pure rounding noise (a dimension solved exactly) are compared absolutely"""
    return 1e-11 * max([float(np.max(np.abs(x))) for x in xs if np.size(x)] + [0.0]) + 1e-13


# ------------------------------------------------------------------ problem generators
def shared_std(c):
    """initial standard deviations shared by all dimensions (the isotropic model cannot express anything else)"""
    return c["std"]  # generated with kind == "iso": one value per coefficient


def as_kind(c, kind):
    c2 = copy.deepcopy(c)
    c2["kind"] = kind
    if kind != "iso":
        c2["std"] = [[s] * c["d"] for s in c["std"]]
    c2["base"] = None
    return c2


def bound_field(c, horizon):
    """Scale the polynomial field by one common factor such that the solution provably stays in |u^(i)| <= R on the
    horizon (no finite-time blow-up, hence no adaptive solve that never terminates)."""
    R = Fr(4 if c["ord"] == 1 else 6)
    S = max(sum(abs(Fr(cf)) * R ** sum(ex) for cf, ex in p) for p in c["f"])
    fac = min(Fr(1), Fr(2) / (Fr(horizon) * S)) if S > 0 else Fr(1)
    # a power of two keeps the coefficients exactly representable
    e = 0
    while Fr(1, 2 ** e) > fac:
        e += 1
    c["f"] = [[[Fr(cf) / 2 ** e, ex] for cf, ex in p] for p in c["f"]]
    return c


def gen_ts0(ck, quick):
    c = gen.gen_solver_case(ck.rng, ck.tier, kinds=("iso",), strats=STRATS, lins=("ts0",), calibs=CALIBS,
                            qmax=4 if quick else 6)
    for _ in range(3):
        if c["d"] > 1 or ck.rng.random() < 0.25:
            break
        c = gen.gen_solver_case(ck.rng, ck.tier, kinds=("iso",), strats=STRATS, lins=("ts0",), calibs=CALIBS,
                                qmax=4 if quick else 6)
    c["base"] = None
    return c


def embed_poly(p, k, d, a):
    """polynomial over (x_0..x_{k-1}, t) -> polynomial over (x_{i,b} at i*d+b, t at k*d), using dimension a only"""
    out = []
    for cf, ex in p:
        full = [0] * (k * d + 1)
        for i in range(k):
            full[i * d + a] = ex[i]
        full[k * d] = ex[k]
        out.append([cf, full])
    return out


def gen_decoupled(ck, quick):
    """f_a depends on (u_a, u_a', ..., t) only"""
    c = gen.gen_solver_case(ck.rng, ck.tier, kinds=("blockdiag",), strats=STRATS, lins=("ts1",), calibs=CALIBS,
                            qmax=4 if quick else 6)
    d = ck.rng.choice([2, 2, 3])
    k, q = c["ord"], c["q"]
    deg = ck.rng.choice([1, 2, 2, 3])
    local = [gen.gen_poly(ck.rng, k, deg, ck.rng.randint(1, 3), True) for _ in range(d)]
    c["d"] = d
    c["local_f"] = local
    c["f"] = [embed_poly(local[a], k, d, a) for a in range(d)]
    c["tcoeffs"] = [[Fr(ck.rng.randint(-8, 8), 4) for _ in range(d)] for _ in range(q + 1)]
    mode = ck.rng.choice(["exact", "inexact", "mixed"])
    if mode == "exact":
        c["std"] = [[Fr(0)] * d for _ in range(q + 1)]
    elif mode == "inexact":
        c["std"] = [[Fr(1, 1024)] * d for _ in range(q + 1)]
    else:
        c["std"] = [[Fr(ck.rng.choice([0, 1, 2, 8]), 8) for _ in range(d)] for _ in range(q + 1)]
    c["init_mode"] = mode
    if deg == 3:
        c["grid"] = c["grid"][:3]
    if ck.rng.random() < 0.5:
        c["base"] = None
    else:
        c["base"] = [Fr(ck.rng.choice([1, 2, 3, 8]), ck.rng.choice([1, 4])) for _ in range(d)]
    return c


def scalar_of(c, a):
    s = copy.deepcopy(c)
    s.pop("local_f")
    s["kind"] = "dense"
    s["d"] = 1
    s["f"] = [c["local_f"][a]]
    s["tcoeffs"] = [[row[a]] for row in c["tcoeffs"]]
    s["std"] = [[row[a]] for row in c["std"]]
    s["base"] = None if c["base"] is None else [c["base"][a]]
    return s


def gen_scalar_jacobian(ck, quick):
    """Jacobian w.r.t. every Taylor coefficient a multiple of the identity:
    d >= 2: f_a = sum_i c_i(t) x_{i,a} + h_a(t);  d = 1: any polynomial."""
    c = gen.gen_solver_case(ck.rng, ck.tier, kinds=("iso",), strats=STRATS, lins=("ts1",), calibs=CALIBS,
                            qmax=4 if quick else 6)
    c["base"] = None
    k = c["ord"]
    if ck.rng.random() < 0.3:
        c["d"] = d = 1
        deg = ck.rng.choice([2, 3])
        c["f"] = [gen.gen_poly(ck.rng, k, deg, ck.rng.randint(2, 3), True)]
        if deg == 3:
            c["grid"] = c["grid"][:3]
        c["jac"] = "scalar problem, nonlinear"
    else:
        c["d"] = d = ck.rng.choice([2, 3])
        cs = [[(Fr(ck.rng.choice([-3, -2, -1, 1, 2, 3]), ck.rng.choice([1, 2, 4])), ck.rng.randint(0, 2))
               for _ in range(ck.rng.randint(1, 2))] for _ in range(k)]
        f = []
        for a in range(d):
            p = []
            for i in range(k):
                for cf, te in cs[i]:
                    ex = [0] * (k * d + 1)
                    ex[i * d + a] = 1
                    ex[k * d] = te
                    p.append([cf, ex])
            for _ in range(ck.rng.randint(0, 2)):
                ex = [0] * (k * d + 1)
                ex[k * d] = ck.rng.randint(0, 3)
                p.append([Fr(ck.rng.choice([-3, -2, -1, 1, 2, 3]), ck.rng.choice([1, 2, 4])), ex])
            f.append(p)
        c["f"] = f
        c["jac"] = "c_i(t) * I"
    c["tcoeffs"] = [[Fr(ck.rng.randint(-8, 8), 4) for _ in range(d)] for _ in range(c["q"] + 1)]
    return c


# ------------------------------------------------------------------ the comparisons
def run(ck, runs):
    payload = {"cases": [gen.floatable(r) for r in runs], "workers": 14, "budget_s": 330 if ck.tier == "quick" else 6000}
    return lib.run_impl("c14_impl.py", payload, timeout=3000)["results"]


def check_errors(ck, c, rs, pair, mode):
    for r in rs:
        if r.get("timeout"):
            ck.hist.setdefault("runs_killed_by_time_budget", {"n": 0})["n"] += 1
            return True
    for r in rs:
        if "error" in r:
            ck.report(f"C14.{pair}.{mode}.exception", f"implementation raised {r['error']}", {"case": gen.jsonable(c), "tb": r.get("tb")})
            return True
    return False


def describe(c):
    return f"q={c['q']} d={c['d']} ord={c['ord']} {c['strat']}/{c['calib']}/{c['lin']} damp={float(c['damp']):g}"


def ts0_three(ck, n):
    """dense / isotropic / block-diagonal on the same problem, all three calibration modes"""
    probs, runs = [], []
    for g in range(n):
        c = gen_ts0(ck, ck.tier == "quick")
        for cal in CALIBS:
            for kind in ("dense", "iso", "blockdiag"):
                r = as_kind(c, kind)
                r["calib"] = cal
                runs.append(r)
        probs.append(c)
    res = yield runs
    for g, c in enumerate(probs):
        jc = gen.jsonable(c)
        for ci, cal in enumerate(CALIBS):
            rd, ri, rb = res[9 * g + 3 * ci:9 * g + 3 * ci + 3]
            cc = dict(c, calib=cal)
            ck.count("ts0:" + json.dumps(jc, sort_keys=True) + cal, nontrivial=c["d"] > 1,
                     sample={"ts0": {k: jc[k] for k in ("q", "d", "ord", "strat", "f", "grid", "damp")}, "calib": cal},
                     ts0_strat=c["strat"], ts0_calib=cal, ts0_d=c["d"], ts0_q=c["q"], ts0_damp=("zero" if c["damp"] == 0 else "positive"),
                     ts0_init=c["init_mode"])
            if check_errors(ck, cc, (rd, ri, rb), "three", cal):
                continue
            rep = {"case": gen.jsonable(cc)}
            if not (finite(rd) and finite(ri) and finite(rb)):
                who = [k for k, r in zip(("dense", "iso", "blockdiag"), (rd, ri, rb)) if not finite(r)]
                if len(who) < 3:
                    ck.report(f"C14.three.{cal}.nonfinite", f"{describe(cc)}: non-finite output only in {who}", rep)
                else:
                    ck.hist.setdefault("ts0_all_nonfinite", {"n": 0})["n"] += 1
                continue
            (md, Pd, sd_), (mi, Pi, si), (mb, Pb, sb) = arrs(rd), arrs(ri), arrs(rb)
            sd = sd_of(Pd)
            # dense vs isotropic: everything, every mode
            p = cmp_mean(md, mi, sd, rtol=rtol_of(c["q"]), label="ts0 dense-iso mean", extra=floor_dense(c, md))
            if p:
                ck.report(f"C14.dense-iso.{cal}.mean", f"{describe(cc)}: {p}", rep)
            p = cmp_cov(Pd, Pi, sd, rtol=rtol_of(c["q"]), label="ts0 dense-iso cov")
            if p:
                ck.report(f"C14.dense-iso.{cal}.cov", f"{describe(cc)}: {p}", rep)
            if sd_.shape != si.shape or not np.all(np.abs(sd_ - si) <= 1e-8 * np.abs(sd_) + sfloor(sd_, si)):
                ck.report(f"C14.dense-iso.{cal}.scale", f"{describe(cc)}: output scales {sd_.ravel().tolist()} vs {si.ravel().tolist()}", rep)
            if rd["num_steps"] != ri["num_steps"]:
                ck.report(f"C14.dense-iso.{cal}.num_steps", f"{describe(cc)}: {rd['num_steps']} vs {ri['num_steps']}", rep)
            # dense vs block-diagonal: means in none + mle, covariances in none, scale split in mle
            if cal in ("none", "mle"):
                p = cmp_mean(md, mb, sd, rtol=rtol_of(c["q"]), label="ts0 dense-blockdiag mean", extra=floor_dense(c, md))
                if p:
                    ck.report(f"C14.dense-blockdiag.{cal}.mean", f"{describe(cc)}: {p}", rep)
            if cal == "none":
                p = cmp_cov(Pd, Pb, sd, rtol=rtol_of(c["q"]), label="ts0 dense-blockdiag cov")
                if p:
                    ck.report(f"C14.dense-blockdiag.{cal}.cov", f"{describe(cc)}: {p}", rep)
            if cal == "mle":
                lhs = sd_[:, 0] ** 2
                rhs = np.mean(sb ** 2, axis=1)
                if not np.all(np.abs(lhs - rhs) <= 1e-8 * np.abs(lhs) + sfloor(sd_, sb) ** 2):
                    ck.report(f"C14.dense-blockdiag.{cal}.scale", f"{describe(cc)}: dense scale^2 {lhs.tolist()} vs mean of block-diagonal scale_a^2 {rhs.tolist()}", rep)
                # the calibrated block-diagonal covariance is the uncalibrated one times its own scale:
                # block a of blockdiag / scale_a^2 == block a of dense / dense_scale^2
                s2d = float(lhs[-1])
                s2b = sb[-1] ** 2
                d = c["d"]
                if s2d > 0 and np.all(s2b > 0):
                    Pb_n = Pb.copy()
                    for a in range(d):
                        Pb_n[:, a::d, a::d] *= s2d / s2b[a]
                    p = cmp_cov(Pd, Pb_n, sd, rtol=max(1e-7, rtol_of(c["q"])), label="ts0 dense-blockdiag cov rescaled (mle)")
                    if p:
                        ck.report(f"C14.dense-blockdiag.{cal}.cov-rescaled", f"{describe(cc)}: {p}", rep)


def ts1_decoupled(ck, n):
    probs, runs, index = [], [], []
    for g in range(n):
        c = gen_decoupled(ck, ck.tier == "quick")
        start = len(runs)
        r = copy.deepcopy(c)
        r.pop("local_f")
        runs.append(r)
        for a in range(c["d"]):
            s = scalar_of(c, a)
            runs.append(s)
        probs.append(c)
        index.append(start)
    res = yield runs
    for c, start in zip(probs, index):
        jc = gen.jsonable(c)
        d, n1 = c["d"], c["q"] + 1
        cal = c["calib"]
        mode = f"ts1-{cal}"
        ck.count("dec:" + json.dumps(jc, sort_keys=True), nontrivial=True,
                 sample={"decoupled": {k: jc[k] for k in ("q", "d", "ord", "strat", "calib", "local_f", "grid", "damp", "base")}},
                 dec_strat=c["strat"], dec_calib=cal, dec_d=d, dec_q=c["q"], dec_base=("default" if c["base"] is None else "per-dimension"))
        rs = res[start:start + d + 1]
        if check_errors(ck, c, rs, "blockdiag-scalar", mode):
            continue
        rep = {"case": jc}
        if not all(finite(r) for r in rs):
            who = [i for i, r in enumerate(rs) if not finite(r)]
            if cal.startswith("dyn") and 0 in who and len(who) >= 2:
                # dynamic calibration with an exactly-zero local residual returns NaN (finding F21, property C01) -- in the block-diagonal
                # run AND in the scalar run of the same dimension: the factorisations agree, which is all C14 asks
                ck.hist.setdefault("dynamic_zero_residual_nan_in_both(F21)", {"n": 0})["n"] += 1
                continue
            ck.report(f"C14.blockdiag-scalar.{mode}.nonfinite", f"{describe(c)}: non-finite output in runs {who} (0 = block-diagonal, 1.. = scalar)", rep)
            continue
        mb, Pb, sb = arrs(rs[0])
        sb = sb.reshape(sb.shape[0], -1)
        if sb.shape[1] == 1:
            sb = np.repeat(sb, d, axis=1)
        for a in range(d):
            ms, Ps, ss = arrs(rs[1 + a])
            sd = sd_of(Ps)
            p = cmp_mean(ms, mb[:, a::d], sd, rtol=rtol_of(c["q"]), label="ts1 blockdiag-scalar mean", extra=deriv_floor(c, np.abs(ms).max(axis=0))[None, :])
            if p:
                ck.report(f"C14.blockdiag-scalar.{mode}.mean", f"{describe(c)} dimension {a}: scalar dense vs block: {p}", rep)
            p = cmp_cov(Ps, Pb[:, a::d, a::d], sd, rtol=rtol_of(c["q"]), label="ts1 blockdiag-scalar cov")
            if p:
                ck.report(f"C14.blockdiag-scalar.{mode}.cov", f"{describe(c)} dimension {a}: scalar dense vs block: {p}", rep)
            if not np.all(np.abs(ss[:, 0] - sb[:, a]) <= 1e-8 * np.abs(ss[:, 0]) + sfloor(sb, ss)):
                ck.report(f"C14.blockdiag-scalar.{mode}.scale", f"{describe(c)} dimension {a}: scalar scale {ss[:, 0].tolist()} vs block scale {sb[:, a].tolist()}", rep)
        # off-diagonal blocks of the dense layout are zero by construction of the conversion; nothing to compare


def ts1_scalar_jacobian(ck, n):
    probs, runs = [], []
    for g in range(n):
        c = gen_scalar_jacobian(ck, ck.tier == "quick")
        for kind in ("dense", "iso"):
            r = as_kind(c, kind)
            r.pop("jac")
            runs.append(r)
        probs.append(c)
    res = yield runs
    for g, c in enumerate(probs):
        jc = gen.jsonable(c)
        cal = c["calib"]
        mode = f"ts1-{cal}"
        ck.count("sj:" + json.dumps(jc, sort_keys=True), nontrivial=True,
                 sample={"scalar-jacobian": {k: jc[k] for k in ("q", "d", "ord", "strat", "calib", "f", "grid", "damp", "jac")}},
                 sj_strat=c["strat"], sj_calib=cal, sj_d=c["d"], sj_q=c["q"], sj_kind=c["jac"])
        rd, ri = res[2 * g], res[2 * g + 1]
        if check_errors(ck, c, (rd, ri), "dense-iso", mode):
            continue
        rep = {"case": jc}
        if not (finite(rd) and finite(ri)):
            if finite(rd) != finite(ri):
                ck.report(f"C14.dense-iso.{mode}.nonfinite", f"{describe(c)}: non-finite output in only one of dense/isotropic", rep)
            continue
        (md, Pd, sd_), (mi, Pi, si) = arrs(rd), arrs(ri)
        sd = sd_of(Pd)
        p = cmp_mean(md, mi, sd, rtol=rtol_of(c["q"]), label="ts1 dense-iso mean", extra=floor_dense(c, md))
        if p:
            ck.report(f"C14.dense-iso.{mode}.mean", f"{describe(c)} [{c['jac']}]: {p}", rep)
        p = cmp_cov(Pd, Pi, sd, rtol=rtol_of(c["q"]), label="ts1 dense-iso cov")
        if p:
            ck.report(f"C14.dense-iso.{mode}.cov", f"{describe(c)} [{c['jac']}]: {p}", rep)
        if sd_.shape != si.shape or not np.all(np.abs(sd_ - si) <= 1e-8 * np.abs(sd_) + sfloor(sd_, si)):
            ck.report(f"C14.dense-iso.{mode}.scale", f"{describe(c)}: output scales {sd_.ravel().tolist()} vs {si.ravel().tolist()}", rep)


def adaptive_pair(ck, n):
    probs, runs = [], []
    for g in range(n):
        if ck.rng.random() < 0.6:
            c = gen.gen_solver_case(ck.rng, ck.tier, kinds=("iso",), strats=("filter", "fixedpoint"), lins=("ts0",), calibs=CALIBS, qmax=3)
            c["jac"] = "n/a (ts0)"
        else:
            c = gen_scalar_jacobian(ck, True)
            if c["q"] > 3:
                c["q"] = 3
                c["tcoeffs"] = c["tcoeffs"][:4]
                c["std"] = c["std"][:4]
            if c["strat"] == "fixedinterval":
                c["strat"] = "fixedpoint"
        bound_field(c, 1)
        # adaptive runs are compared on well-conditioned initial conditions only (exact, or a small uniform std): with
        # O(1) prior std on some coefficients ("mixed"/"diffuse") the posterior variances are differences of numbers 1e7
        # apart and two equivalent floating-point programs agree to a few per cent only (those modes stay in (1)-(3))
        if c["init_mode"] in ("mixed", "diffuse") or ck.rng.random() < 0.3:
            c["init_mode"] = ck.rng.choice(["exact", "exact", "inexact"])
            c["std"] = [Fr(0) if c["init_mode"] == "exact" else Fr(1, 1024)] * (c["q"] + 1)
        c["base"] = None
        c["damp"] = Fr(0)
        c["routine"] = "adaptive"
        t0 = c["grid"][0]
        tol = 10.0 ** -ck.rng.randint(2, 5)
        c["adaptive"] = {"mode": "save_at", "save_at": [t0, t0 + Fr(1, 4), t0 + Fr(1, 2), t0 + Fr(1)], "atol": 0.1 * tol, "rtol": tol,
                         "dt0": float(Fr(1, ck.rng.choice([8, 32]))), "clip": ck.rng.random() < 0.5,
                         "control": ck.rng.choice([None, "i", "pi"])}
        # both documented error norms and both estimators: the isotropic model reports ONE shared standard deviation (shape (1,)),
        # the dense model d of them, and the acceptance test must not depend on that representation
        c["error"] = {"est": ck.rng.choice(["residual", "residual", "state"]), "norm": ck.rng.choice([0, 1]), "relin": False,
                      "per_unit": False, "idx": 0}
        for kind in ("dense", "iso", "twin"):
            r = as_kind(c, "dense" if kind == "twin" else kind)
            r.pop("jac")
            if kind == "twin":
                perturb(r, ck.rng)
            runs.append(r)
        probs.append(c)
    res = yield runs
    for g, c in enumerate(probs):
        jc = gen.jsonable(c)
        cal = c["calib"]
        mode = f"adaptive-{c['lin']}-{cal}-{c['error']['est']}-norm{c['error']['norm']}"
        rd, ri, rt = res[3 * g], res[3 * g + 1], res[3 * g + 2]
        steps = rd.get("num_steps")
        total = int(np.sum(steps)) if steps is not None and "error" not in rd else -1
        ck.count("ad:" + json.dumps(jc, sort_keys=True), nontrivial=total > 3,
                 sample={"adaptive": {k: jc[k] for k in ("q", "d", "ord", "strat", "calib", "lin", "f", "adaptive")}, "num_steps": steps},
                 ad_strat=c["strat"], ad_calib=cal, ad_lin=c["lin"], ad_d=c["d"], ad_init=c["init_mode"], ad_total_steps=("<=3" if total <= 3 else "4..20" if total <= 20 else ">20"))
        if check_errors(ck, c, (rd, ri), "dense-iso", mode):
            continue
        rep = {"case": jc, "num_steps_dense": rd["num_steps"], "num_steps_iso": ri["num_steps"]}
        if rd["num_steps"] != ri["num_steps"]:
            if "error" not in rt and not rt.get("timeout") and rt["num_steps"] != rd["num_steps"]:
                # the rounding-size twin of the dense run also takes other steps: an error norm within rounding of the
                # acceptance threshold (typically thousands of steps) -- not a disagreement of the factorisations
                ck.hist.setdefault("adaptive_runs_on_an_acceptance_boundary(skipped)", {"n": 0})["n"] += 1
            else:
                ck.report(f"C14.dense-iso.{mode}.num_steps", f"{describe(c)}: accepted step counts differ: dense {rd['num_steps']} vs isotropic {ri['num_steps']}", rep)
            continue
        if not (finite(rd) and finite(ri)):
            if finite(rd) != finite(ri):
                ck.report(f"C14.dense-iso.{mode}.nonfinite", f"{describe(c)}: non-finite output in only one of dense/isotropic", rep)
            continue
        (md, Pd, sd_), (mi, Pi, si) = arrs(rd), arrs(ri)
        sd = sd_of(Pd)
        # conditioning of this adaptive run: the same dense solve with inputs perturbed by 2^-48 (see perturb)
        nm, nc, ns = noise_of(rd, rt, sd, c["d"])
        ck.hist.setdefault("adaptive_noise_amplification(twin/2^-48)", {})
        key = "<1e3" if max(nm.max(), nc) < 1e3 * 2.0 ** -48 else "<1e6" if max(nm.max(), nc) < 1e6 * 2.0 ** -48 else ">=1e6"
        ck.hist["adaptive_noise_amplification(twin/2^-48)"][key] = ck.hist["adaptive_noise_amplification(twin/2^-48)"].get(key, 0) + 1
        K = 50.0
        # Two different floating-point programs drive the step-size controller through an error estimate that is
        # proportional to the residual u' - f(u) (cancellation: with a non-zero initial covariance the controller first
        # shrinks the step to ~1e-5, where the residual is 1e-7 of its operands).  Exact initial conditions avoid that
        # regime: 1e-7; otherwise 1e-4; both plus 50 x the twin's deviation.
        base = 1e-7 if c["init_mode"] == "exact" else 1e-4   # inexact: std 1/1024 on every coefficient
        p = cmp_mean(md, mi, sd, rtol=base, label=f"adaptive dense-iso mean, init {'exact' if base < 1e-5 else 'inexact'} (beyond 50x twin noise)", extra=K * nm[None, :])
        if p:
            ck.report(f"C14.dense-iso.{mode}.mean", f"{describe(c)}: {p} [twin noise {nm.max():.2e}]", rep)
        p = cmp_cov(Pd, Pi, sd, rtol=base + K * nc, label=f"adaptive dense-iso cov, init {'exact' if base < 1e-5 else 'inexact'} (beyond 50x twin noise)")
        if p:
            ck.report(f"C14.dense-iso.{mode}.cov", f"{describe(c)}: {p} [twin noise {nc:.2e}]", rep)
        if sd_.shape != si.shape or (np.isfinite(ns) and not np.all(np.abs(sd_ - si) <= (base + K * ns) * np.abs(sd_) + sfloor(sd_, si))):
            ck.report(f"C14.dense-iso.{mode}.scale", f"{describe(c)}: output scales {sd_.ravel().tolist()} vs {si.ravel().tolist()}", rep)


def main():
    ck = lib.Check("C14")
    pr = ck.run_proof()
    quick = ck.tier == "quick"
    phases = [ts0_three(ck, 18 if quick else 150), ts1_decoupled(ck, 18 if quick else 150),
              ts1_scalar_jacobian(ck, 18 if quick else 150), adaptive_pair(ck, 16 if quick else 100)]
    batches = [next(ph) for ph in phases]            # every phase first yields its runs ...
    res = run(ck, [r for b in batches for r in b])    # ... all runs are dispatched together ...
    k = 0
    for ph, b in zip(phases, batches):               # ... and every phase then evaluates its slice
        try:
            ph.send(res[k:k + len(b)])
        except StopIteration:
            pass
        k += len(b)
    ck.hist["worst_relative_difference"] = {k: f"{v:.2e}" for k, v in WORST.items()}
    if not pr["ok"] and not ck.violations:
        ck.report("C14.proof", f"proof obligations no longer check: {pr['errors']}",
                  {"broken": pr.get("failed_at", "Props/C14.v"), "errors": pr["errors"]}, nofail=True)
    ck.finish(rule="implementation vs implementation in the dense layout (index i*d+a), float64, tolerance 1e-9 (q <= 3; 1e-8, 1e-6, 1e-4 for q = 4, 5, 6: eps x 100 x the condition number of the (q+1) Hilbert matrix) relative to |mean|+sd resp. sd_i*sd_j, plus the rounding floor eps |u^(j)| (2/h)^(i-j) of the i-th Taylor coefficient on a grid of spacing h: "
              "(1) TS0, default scales, shared initial std: dense/isotropic/block-diagonal on the same random polynomial ODE and fixed grid, "
              "strategies filter/fixed-interval/fixed-point, calibration none/mle/dynamic: dense=isotropic in everything (means, covariances, "
              "output scales) in every mode; dense=block-diagonal means (none, mle), covariances (none), dense_scale^2 = mean_a blockdiag_scale_a^2 (mle); "
              "block-diagonal dynamic-mode values are NOT compared with dense; (2) TS1 on componentwise-decoupled problems: block-diagonal = d scalar "
              "dense solves (means, covariances, per-dimension scales; optional per-dimension base scales); (3) TS1 on problems whose Jacobian is "
              "c_i(t) I (or d=1, nonlinear): isotropic = dense; (4) adaptive solve_adaptive_save_at with the real error estimate and controllers: "
              "dense vs isotropic: identical num_steps; values and scales within 1e-7 (exact initial condition; 1e-4 otherwise: the error estimate is a cancellation-prone residual once the controller has shrunk the step) + 50x the deviation of a rounding-size-perturbed twin of the dense run "
              "(the two floating-point programs drive the controller through a cancellation-prone residual); non-trivial: d>1 (1), all (2,3), more than 3 steps (4); distinct by full input")


if __name__ == "__main__":
    main()
