"""C06 implementation runner: drive the REAL solve_adaptive_save_at / RejectionLoop /
controllers of /repo with scripted Solver and ErrorEstimator objects and record
every call (under jax.disable_jit(), float64)."""

import json
import sys

import jax

jax.config.update("jax_enable_x64", True)
import jax.numpy as jnp  # noqa: E402

import probdiffeq  # noqa: E402
from probdiffeq import ivpsolve  # noqa: E402

import os as _os

assert probdiffeq.__file__.startswith(_os.environ.get("VERIF_REPO", "/repo") + "/"), probdiffeq.__file__


def F(x):
    return float(x)


@jax.tree_util.register_pytree_node_class
class St:
    def __init__(self, t, n):
        self.t, self.n = t, n

    def tree_flatten(self):
        return (self.t, self.n), None

    @classmethod
    def tree_unflatten(cls, aux, ch):
        return cls(*ch)


def prof_at(h0, prof, t):
    h = h0
    for tk, hk in prof:
        if tk <= t:
            h = hk
        else:
            break
    return h


def quant_pow(h, dt):
    for j, p in ((8.0, 8.0), (4.0, 4.0), (2.0, 2.0), (1.0, 1.0), (0.5, 0.5), (0.25, 0.25), (0.125, 0.125)):
        if dt * j <= h:
            return p
    return 0.0625


class ScriptedSolver:
    is_suitable_for_save_at = True
    is_suitable_for_save_every_step = True

    def __init__(self, log):
        self.log = log

    def init(self, t, u, *, damp):
        self.kw = {("damp", float(damp))}
        return St(jnp.asarray(t, dtype=jnp.float64), jnp.asarray(0))

    def step(self, state, *, dt, damp):
        self.kw.add(("damp", float(damp)))
        self.log.append(["step", F(state.t), F(dt)])
        return St(state.t + dt, state.n + 1)

    def interpolate_fwd(self, *, t, interp_from, interp_to):
        self.log.append(["beyond", F(t), F(interp_from.t), F(interp_to.t)])
        sol = St(jnp.asarray(t, dtype=jnp.float64), interp_to.n)
        step_from = interp_to
        ifr = St(jnp.asarray(t, dtype=jnp.float64), interp_from.n)
        from probdiffeq._probdiffeq import utilities

        return sol, utilities.InterpResult(step_from=step_from, interp_from=ifr)

    def interpolate_fwd_at_t1(self, *, t, interp_from, interp_to):
        self.log.append(["at", F(t), F(interp_from.t), F(interp_to.t)])
        sol = interp_to
        ifr = St(interp_to.t, interp_from.n)
        from probdiffeq._probdiffeq import utilities

        return sol, utilities.InterpResult(step_from=interp_to, interp_from=ifr)

    def userfriendly_output(self, *, solution0, solution, solution1):
        return {"solution": solution, "solution1": solution1}


class ScriptedError:
    def __init__(self, log, mode, h0, prof):
        self.log, self.mode, self.h0, self.prof = log, mode, h0, prof

    def init_error(self):
        return jnp.asarray(-1.0)

    def estimate_error_norm(self, state, previous, proposed, *, dt, atol, rtol, damp):
        self.calls = getattr(self, "calls", 0) + 1
        self.kw = getattr(self, "kw", set()) | {("atol", float(atol)), ("rtol", float(rtol)), ("damp", float(damp))}
        if self.calls > 3000:
            raise RuntimeError("too-many-attempts (3000): the rejection loop does not terminate")
        h = prof_at(self.h0, self.prof, F(previous.t))
        dtf = F(dt)
        if self.mode == 0:
            pow_ = quant_pow(h, dtf)
        elif self.mode == 1:
            pow_ = h / dtf
        else:
            pow_ = (h / dtf) * (h / dtf)
        e = F(state)
        if not (e == -1.0 or e == F(previous.t)):
            pow_ = 1.0 / 1024.0
        self.log.append(["est", e, F(previous.t), F(proposed.t), dtf, pow_])
        return jnp.asarray(pow_), proposed.t


class LoggedControl:
    def __init__(self, inner, log):
        self.inner, self.log = inner, log

    def init(self, dt):
        return self.inner.init(dt)

    def apply(self, dt, state, *, error_power):
        dtn, st = self.inner.apply(dt, state, error_power=error_power)
        mem = F(st) if not isinstance(st, tuple) else None
        self.log.append(["ctrl", F(dt), F(error_power), F(dtn), mem])
        return dtn, st


def run_case(c):
    log = []
    solver = ScriptedSolver(log)
    err = ScriptedError(log, c["mode"], c["h0"], c["prof"])
    p = c["params"]
    if c["ctrl"] == 0:
        inner = ivpsolve.control_integral(safety=p[0], factor_min=p[1], factor_max=p[2])
    else:
        inner = ivpsolve.control_proportional_integral(
            safety=p[0], factor_min=p[1], factor_max=p[2], exponent_integral=p[3], exponent_proportional=p[4])
    control = LoggedControl(inner, log)
    solve = ivpsolve.solve_adaptive_save_at(solver=solver, error=err, control=control, clip_dt=c["clip"], warn=False)
    save_at = jnp.asarray([c["t0"]] + c["cps"], dtype=jnp.float64)
    with jax.disable_jit():
        # distinct powers of two: what the scripted estimator / solver receive must be what the caller passed
        out = solve(None, save_at=save_at, atol=2.0 ** -7, rtol=2.0 ** -11, damp=2.0 ** -5, dt0=c["dt0"], eps=c["eps"])
    sols = [[float(t), int(n)] for t, n in zip(out["solution"].t, out["solution"].n)]
    fin = [float(out["solution1"].t), int(out["solution1"].n)]
    received = sorted(getattr(err, "kw", set()) | getattr(solver, "kw", set()))
    return {"log": log, "sols": sols, "final": fin, "received": [list(x) for x in received],
            "passed": [["atol", 2.0 ** -7], ["damp", 2.0 ** -5], ["rtol", 2.0 ** -11]]}


def main():
    cases = json.load(open(sys.argv[1]))["cases"]
    res = []
    for c in cases:
        try:
            res.append(run_case(c))
        except Exception as e:  # noqa: BLE001
            res.append({"error": f"{type(e).__name__}: {e}"})
    json.dump({"results": res}, open(sys.argv[2], "w"))


if __name__ == "__main__":
    main()
