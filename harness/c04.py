"""C04 check: output-scale calibration is the documented estimator and is scale-equivariant."""

from __future__ import annotations

import copy
import json
import math
import os
import sys
from fractions import Fraction as Fr

sys.path.insert(0, os.path.dirname(os.path.abspath(__file__)))
import gen  # noqa: E402
import lib  # noqa: E402
import traj  # noqa: E402

RTOL = 5e-7


def with_scale(c, fac):
    c2 = copy.deepcopy(c)
    kind, d = c["kind"], c["d"]
    if kind == "iso":
        base = Fr(1) if c["base"] is None else Fr(c["base"])
        c2["base"] = base * fac
    else:
        base = [Fr(1)] * d if c["base"] is None else [Fr(b) for b in c["base"]]
        c2["base"] = [b * fac for b in base]
    return c2


def metamorphic(ck, cases, facs, adaptive):
    runs = []
    for c, f in zip(cases, facs):
        runs.append(gen.floatable(c))
        runs.append(gen.floatable(with_scale(c, f)))
    ires = lib.run_impl("solve_impl.py", {"cases": runs}, timeout=3000)["results"]
    for i, (c, f) in enumerate(zip(cases, facs)):
        a, b = ires[2 * i], ires[2 * i + 1]
        jc = gen.jsonable(c)
        tag = "adaptive" if adaptive else "fixed"
        ck.count(f"meta-{tag}:" + json.dumps(jc, sort_keys=True) + str(f), nontrivial=True,
                 sample={"metamorphic": tag, "factor": str(f), "kind": c["kind"], "calib": c["calib"], "strat": c["strat"]},
                 meta_kind=c["kind"], meta_calib=c["calib"], meta_factor=str(f), meta_mode=tag)
        if "error" in a or "error" in b:
            ck.report(f"C04.{c['kind']}.exception", f"implementation raised {a.get('error') or b.get('error')}", {"case": jc, "factor": str(f)})
            continue
        N, cc, nb = gen.shape_dims(c["kind"], c["q"], c["d"])
        T = len(a["t"])
        na, _ = gen.split_normals(a["out"], N, cc, T * nb)
        nbb, _ = gen.split_normals(b["out"], N, cc, T * nb)
        fz = float(f)
        cal = c["calib"] != "none"
        problem = None
        if a["num_steps"] != b["num_steps"]:
            problem = f"step counts differ: {a['num_steps']} vs {b['num_steps']}"
        for k in range(T * nb):
            if problem:
                break
            (ma, ca), (mb, cb) = na[k], nbb[k]
            sd = [math.sqrt(max(ca[i][i], 0.0)) for i in range(N)]
            smax = max(sd + [1e-300])
            for i in range(N):
                for j in range(len(ma[i])):
                    if abs(ma[i][j] - mb[i][j]) > RTOL * (abs(ma[i][j]) + max(sd[i], 1e-7 * smax)) + 1e-13:
                        problem = f"t[{k // nb}] mean[{i}][{j}] changes under base-scale x{fz:g}: {ma[i][j]!r} vs {mb[i][j]!r}"
            want = 1.0 if cal else fz * fz
            for i in range(N):
                for j in range(N):
                    tol = 4 * RTOL * (max(sd[i], 1e-7 * smax) * max(sd[j], 1e-7 * smax)) * want + 1e-300
                    if abs(cb[i][j] - want * ca[i][j]) > tol:
                        problem = problem or (f"t[{k // nb}] cov[{i}][{j}] under base-scale x{fz:g}: {cb[i][j]!r} vs expected "
                                              f"{want * ca[i][j]!r} ({'calibrated: invariant' if cal else 'uncalibrated: x c^2'})")
        if not problem and cal:
            for ra, rb in zip(a["output_scale"], b["output_scale"]):
                for x, y in zip(ra, rb):
                    if x == 1.0 and y == 1.0:
                        continue   # the initial entry of the dynamic solver
                    if abs(y * fz - x) > 10 * RTOL * abs(x):
                        problem = f"estimated output scale does not divide by c: {x!r} vs {y!r} * {fz:g}"
        if problem:
            ck.report(f"C04.{c['kind']}.{c['calib']}.equivariance.{tag}", f"{c['kind']}/{c['strat']}/{c['calib']}/{c['lin']}: {problem}",
                      {"case": jc, "factor": str(f)})


def main():
    ck = lib.Check("C04")
    pr = ck.run_proof()
    quick = ck.tier == "quick"
    # (a) the calibration formulas, by one-step refinement (running RMS, dynamic scale, MLE finalisation)
    n = 24 if quick else 400
    cases = []
    for _ in range(n):
        c = gen.gen_solver_case(ck.rng, ck.tier, strats=("filter", "fixedinterval", "fixedpoint"),
                                calibs=("mle", "mle_nocorr", "dyn", "dyn_relin"), qmax=3, max_steps=4 if quick else 6)
        # wide base scales -- with an exact initial state, where every covariance scales with the base scale and the problem stays
        # well-conditioned; with O(1) initial standard deviations a base scale of 2^-20 means whitened residuals of 1e6 and a
        # covariance conditioning of 1e12 (rounding errors of 1e-4 standard deviations in the means), so those keep moderate scales
        e = ck.rng.choice([-20, -10, -3, 0, 3, 10, 20]) if c["init_mode"] == "exact" else ck.rng.choice([-3, -1, 0, 1, 3])
        if c["kind"] == "iso":
            c["base"] = Fr(2) ** e
        else:
            c["base"] = [Fr(2) ** (e + ck.rng.randint(-2, 2)) for _ in range(c["d"])]
        cases.append(c)
    fi = [c for c in cases if c["strat"] != "fixedpoint"]
    fp = [c for c in cases if c["strat"] == "fixedpoint"]
    traj.check_trajectories(ck, fi, "C04", rtol=RTOL, what=("step", "final"))
    if fp:
        traj.check_trajectories(ck, fp, "C04", rtol=RTOL, what=("step",))
    # (b) equivariance, implementation vs implementation
    m = 16 if quick else 200
    mcases = [gen.gen_solver_case(ck.rng, ck.tier, strats=("filter", "fixedinterval"), qmax=3, max_steps=4) for _ in range(m)]
    for c in mcases:
        c["routine"] = "fixed_grid"
        c["damp"] = Fr(0)   # the equivariance statement is about the prior's scale only
        if c["init_mode"] in ("inexact", "mixed"):
            # a non-zero initial covariance is not scaled by the base scale
            c["init_mode"] = "exact"
            c["std"] = [Fr(0)] * (c["q"] + 1) if c["kind"] == "iso" else [[Fr(0)] * c["d"] for _ in range(c["q"] + 1)]
        if c["init_mode"] == "diffuse":
            c["init_mode"] = "exact"
            c["std"] = [Fr(0)] * (c["q"] + 1) if c["kind"] == "iso" else [[Fr(0)] * c["d"] for _ in range(c["q"] + 1)]
    facs = [Fr(2) ** ck.rng.choice([-20, -7, -1, 1, 5, 20]) for _ in mcases]
    metamorphic(ck, mcases, facs, adaptive=False)
    # adaptive: the accepted step sequence must be invariant as well
    ma = 10 if quick else 100
    acases = []
    for _ in range(ma):
        c = gen.gen_solver_case(ck.rng, ck.tier, strats=("filter", "fixedpoint"), qmax=3, max_steps=2, lins=("ts0", "ts1"))
        c["routine"] = "adaptive"
        c["damp"] = Fr(0)
        c["init_mode"] = "exact"
        c["std"] = [Fr(0)] * (c["q"] + 1) if c["kind"] == "iso" else [[Fr(0)] * c["d"] for _ in range(c["q"] + 1)]
        t0 = c["grid"][0]
        c["adaptive"] = {"mode": "save_at", "save_at": [t0, t0 + Fr(1, 4), t0 + Fr(1, 2)], "atol": 1e-4, "rtol": 1e-3,
                         "dt0": 0.05, "clip": ck.rng.random() < 0.5}
        # tame polynomial fields only: keep the solution bounded on [t0, t0+1/2]
        c["f"] = [[[Fr(cf) / 4, ex] for cf, ex in p] for p in c["f"]]
        gen.bound_field(c, max(abs(t0), abs(t0 + Fr(1, 2))) + Fr(1, 2))     # provably no finite-time blow-up (no hanging solve)
        acases.append(c)
    afacs = [Fr(2) ** ck.rng.choice([-10, -3, 3, 10]) for _ in acases]
    metamorphic(ck, acases, afacs, adaptive=True)
    # (c) the scale REPORTED at an interpolated checkpoint is the one its covariance was computed with (the right end-point's;
    #     in dynamic mode the local estimate of the step containing the checkpoint); the carried states keep theirs
    import c05
    c05.interp_refinement(ck, 10 if quick else 120, pid="C04", calibs=("dyn", "dyn_relin", "dyn", "mle"), book_only=True)
    if not pr["ok"] and not ck.violations:
        ck.report("C04.proof", f"proof obligations no longer check: {pr['errors']}",
                  {"broken": pr.get("failed_at", "Props/C04.v"), "errors": pr["errors"]}, nofail=True)
    ck.finish(rule="(a) one-step refinement of the calibrating solvers (running RMS update, dynamic scale, MLE finalisation with/without the 1/sqrt(N) "
              "correction, per-dimension scales for the block-diagonal model) with base scales 2^-22..2^22; (b) metamorphic: base scale x c "
              "(c = 2^-20..2^20) on fixed grids and adaptive runs: means, calibrated covariances and step counts invariant, estimated scale / c, "
              "uncalibrated covariances x c^2; (c) solver.interpolate_fwd between stepped states: the interpolated state reports the output scale "
              "(and step counter) of the right end-point, with which its covariance was computed; step_from / interp_from keep theirs (model: Solver.interpolate_fwd); non-trivial: all; distinct by full input")


if __name__ == "__main__":
    main()
