"""C18 implementation runner.

mode "propose": call the REAL ivpsolve.dt0 / ivpsolve.dt0_adaptive of /repo (float64,
eager) on polynomial vector fields
    f(u, t) = b + A (u - m) + c * (u - m)^2 + g * (t - tc)
acting on flat or pytree states, and record (a) every call of the user's vector field
(arguments and values), (b) every call the helper makes to linalg.vector_norm, np.where,
np.maximum, np.minimum (observed by wrapping the `linalg` / `np` names inside
probdiffeq._ivpsolve.stepsize_initialisers; the source is not modified), (c) the result.

mode "solve": compute a proposal with one of the helpers and start the real
ivpsolve.solve_adaptive_terminal_values (dense IWP prior, ts0, solver_mle, filter) from it.
A watchdog thread bounds the wall time of each solve: on expiry the case is recorded as a
time-out, the partial results are written and the process exits; the caller re-launches
the runner for the remaining cases.
"""

import json
import math
import os
import sys
import threading
import time

import jax

jax.config.update("jax_enable_x64", True)
import jax.flatten_util  # noqa: E402
import jax.numpy as jnp  # noqa: E402
import numpy as onp  # noqa: E402

import probdiffeq  # noqa: E402
from probdiffeq import ivpsolve  # noqa: E402
from probdiffeq import probdiffeq as pdq  # noqa: E402
from probdiffeq._ivpsolve import stepsize_initialisers as SI  # noqa: E402

assert probdiffeq.__file__.startswith(os.environ.get("VERIF_REPO", "/repo") + "/"), probdiffeq.__file__


def fl(x):
    """JSON-able exact copy of a scalar / array (floats, bools)."""
    a = onp.asarray(x)
    if a.dtype == bool:
        return a.tolist()
    return onp.asarray(a, dtype=onp.float64).tolist()


# ------------------------------------------------------------------ observation
class Observe:
    """Forward every attribute to `inner`; log the calls of the names in `names`."""

    def __init__(self, inner, names, log):
        self._inner, self._names, self._log = inner, names, log

    def __getattr__(self, k):
        v = getattr(self._inner, k)
        if k not in self._names:
            return v
        log = self._log

        def wrapped(*a, **kw):
            out = v(*a, **kw)
            log.append([k, [fl(x) for x in a], fl(out)])
            return out

        return wrapped


class observed:
    def __init__(self, log):
        self.log = log

    def __enter__(self):
        self.saved = (SI.linalg, SI.np)
        SI.linalg = Observe(self.saved[0], {"vector_norm"}, self.log)
        SI.np = Observe(self.saved[1], {"where", "maximum", "minimum"}, self.log)

    def __exit__(self, *exc):
        SI.linalg, SI.np = self.saved


# ------------------------------------------------------------------ problems
def template(struct, n):
    z = onp.zeros
    if struct == "flat" or n == 1 and struct in ("tuple", "nested"):
        return jnp.asarray(z((n,)))
    k = max(1, n // 2)
    if struct == "dict":
        return {"a": jnp.asarray(z((k,))), "b": jnp.asarray(z((n - k,)))} if n > 1 else {"a": jnp.asarray(z((1,)))}
    if struct == "tuple":
        return (jnp.asarray(0.0), jnp.asarray(z((n - 1,))))
    if struct == "nested":
        if n >= 4 and (n - 2) % 2 == 0:
            return {"p": (jnp.asarray(0.0), jnp.asarray(z((1,)))), "q": jnp.asarray(z((2, (n - 2) // 2)))}
        return {"p": (jnp.asarray(0.0),), "q": [jnp.asarray(z((n - 1,)))]}
    raise ValueError(struct)


def make_problem(c, vflog=None, coeffs=None):
    """Returns (vf, u0_tree, ravel). coeffs may be traced arrays (solve mode)."""
    n = c["n"]
    _flat0, unravel = jax.flatten_util.ravel_pytree(template(c["struct"], n))
    if coeffs is None:
        coeffs = {k: jnp.asarray(c[k], dtype=jnp.float64) for k in ("b", "A", "c", "g", "m")}
    tc = c["tc"]

    def f_flat(z, t):
        w = z - coeffs["m"]
        return coeffs["b"] + coeffs["A"] @ w + coeffs["c"] * w * w + coeffs["g"] * (t - tc)

    def func(u, *, t):
        z, _ = jax.flatten_util.ravel_pytree(u)
        out = f_flat(z, t)
        if vflog is not None:
            vflog.append([fl(z), fl(t), fl(out)])
        return unravel(out)

    vf = pdq.ode(func)
    return vf, unravel, f_flat


def propose(c, u0, vf):
    if c["helper"] == "dt0":
        kw = {}
        if c.get("scale") is not None:
            kw = {"scale": c["scale"], "nugget": c["nugget"]}
        return ivpsolve.dt0(vf, [u0], t=c["t0"], **kw)
    return ivpsolve.dt0_adaptive(vf, [u0], c["t0"], error_contraction_rate=c["rate"], rtol=c["rtol"], atol=c["atol"])


def run_propose(c):
    vflog, log = [], []
    vf, unravel, _ = make_problem(c, vflog)
    u0 = unravel(jnp.asarray(c["y0"], dtype=jnp.float64))
    with observed(log):
        out = propose(c, u0, vf)
    return {"result": fl(out), "shape": list(onp.shape(out)), "vf": vflog, "log": log}


# ------------------------------------------------------------------ solves
_SOLVERS = {}


def solver_for(c):
    key = (c["n"], c["struct"], c["num"], c["tc"])
    if key in _SOLVERS:
        return _SOLVERS[key]

    def run(coeffs, y0, dt0, atol, rtol, t0, t1):
        vf, unravel, _ = make_problem(c, None, coeffs)
        u0 = unravel(y0)
        tcoeffs, _ = pdq.jetexpand_ode_padded_scan(num=c["num"])(vf, [u0], t=t0)
        ssm = pdq.state_space_model_dense()
        iwp = ssm.prior_wiener_integrated(tcoeffs)
        ts0 = ssm.constraint_ode_ts0(vf)
        solver = pdq.solver_mle(strategy=pdq.strategy_filter(), constraint=ts0)
        error = pdq.error_residual_std(constraint=ts0)
        solve = ivpsolve.solve_adaptive_terminal_values(solver=solver, error=error)
        sol = solve(iwp, t0=t0, t1=t1, dt0=dt0, atol=atol, rtol=rtol)
        z, _ = jax.flatten_util.ravel_pytree(sol.u.mean[0])
        return z, sol.num_steps, sol.t

    _SOLVERS[key] = jax.jit(run)
    return _SOLVERS[key]


def run_solve(c, state):
    vf, unravel, _ = make_problem(c)
    u0 = unravel(jnp.asarray(c["y0"], dtype=jnp.float64))
    prop = propose(c, u0, vf)
    p = float(prop)
    r = {"proposal": p}
    coeffs = {k: jnp.asarray(c[k], dtype=jnp.float64) for k in ("b", "A", "c", "g", "m")}
    args = (coeffs, jnp.asarray(c["y0"], dtype=jnp.float64), jnp.asarray(p), jnp.asarray(c["solve_atol"]),
            jnp.asarray(c["solve_rtol"]), jnp.asarray(c["t0"]), jnp.asarray(c["t1"]))
    run = solver_for(c)
    tc0 = time.time()
    compiled = run.lower(*args).compile()      # compile time is not charged to the solve
    r["compile_s"] = round(time.time() - tc0, 2)
    state["deadline"] = time.time() + state["timeout"]
    ts = time.time()
    z, nsteps, tfin = compiled(*args)
    z = jax.block_until_ready(z)
    state["deadline"] = None
    r.update({"solve_s": round(time.time() - ts, 3), "u": fl(z), "num_steps": fl(nsteps), "t": fl(tfin)})
    return r


def main():
    inp = json.load(open(sys.argv[1]))
    cases = inp["cases"]
    mode = inp.get("mode", "propose")
    res = []
    if mode == "propose":
        for c in cases:
            try:
                res.append(run_propose(c))
            except Exception as e:  # noqa: BLE001
                res.append({"error": f"{type(e).__name__}: {e}"})
        json.dump({"results": res}, open(sys.argv[2], "w"))
        return

    state = {"deadline": None, "timeout": float(inp.get("timeout", 8.0)), "current": None}

    def dump():
        tmp = sys.argv[2] + ".tmp"
        json.dump({"results": res}, open(tmp, "w"))
        os.replace(tmp, sys.argv[2])

    def watchdog():
        while True:
            time.sleep(0.2)
            d = state["deadline"]
            if d is not None and time.time() > d:
                r = dict(state["current"] or {})
                r["timeout"] = True
                res.append(r)
                dump()
                os._exit(0)

    threading.Thread(target=watchdog, daemon=True).start()
    for c in cases:
        state["current"] = {"id": c["id"]}
        try:
            r = run_solve(c, state)
        except Exception as e:  # noqa: BLE001
            state["deadline"] = None
            r = {"error": f"{type(e).__name__}: {e}"}
        r["id"] = c["id"]
        res.append(r)
        dump()
    dump()


if __name__ == "__main__":
    main()
