"""Shared machinery of the /verif checks.

* prove():    regenerate Generated/Constants.v from /repo, (re)build the
              property's Props file with a full .vo build, collect the
              Print Assumptions blocks, scan the development for forbidden
              constructs.
* coq_eval(): evaluate model terms inside Coq (vm_compute over exact rationals)
              in parallel shards and parse the printed integer lists.
* Check:      bookkeeping of cases, violations, known findings, evidence.
"""

from __future__ import annotations

import concurrent.futures as cf
import json
import os
import random
import re
import shutil
import subprocess
import sys
import time
from fractions import Fraction

VERIF = os.path.dirname(os.path.dirname(os.path.abspath(__file__)))
COQ = os.path.join(VERIF, "coq")
WORK = os.path.join(VERIF, ".work")
REPO = os.environ.get("VERIF_REPO", "/repo")
PY = "/venv/bin/python"

ALLOWED_AXIOMS = {
    # standard-library axioms that may appear (each named in the trusted base)
    "ClassicalDedekindReals.sig_forall_dec",
    "ClassicalDedekindReals.sig_not_dec",
    "FunctionalExtensionality.functional_extensionality_dep",
    "functional_extensionality_dep",
    "sig_forall_dec",
    "sig_not_dec",
    "Classical_Prop.classic",
    "classic",
}

FORBIDDEN = re.compile(
    r"\b(Admitted|admit|Axiom|Axioms|Parameter|Parameters|Conjecture|Conjectures)\b|Unset\s+Guard|bypass_check|type-in-type|impredicative-set|Admit\s+Obligations"
)

TRUSTED_BASE = [
    "Coq 8.16.1 kernel (coqc full .vo build; no -vos/-vok); vm_compute is used for reflective finite checks and for evaluating model cases; no native_compute",
    "extraction (only for running the model at volume, never for a theorem): coq/Extract/Extract*.v, `Require Extraction. Require Import ExtrOcamlBasic.` and nothing else (no Extract Constant / Extract Inductive of our own; ExtrOcamlBasic maps bool, option, unit, prod, list, sumbool, sumor to OCaml's); positive/Z/N stay the extracted inductives; the field is an OCaml FieldOps dictionary over Zarith Q (harness/ocaml/helpers*.ml); a sample of every OCaml-evaluated batch is re-evaluated inside Coq (vm_compute, Qc) and must give identical integers",
    "axioms: none declared; Print Assumptions of every property theorem is recorded in this file (expected: Closed under the global context; the standard library's real-number axioms sig_forall_dec, sig_not_dec, functional_extensionality_dep and classic only where a theorem is stated over R); thorough tier: coqchk -o on the property's compiled files, its axiom list recorded here",
    "harness/translate.py (fail-closed Python-ast translator of literal tables/constants from /repo into coq/Generated/Constants.v)",
    "correspondence harness (generators, implementation runners under /venv/bin/python with PYTHONPATH=/repo, float64; comparison tolerances as recorded)",
    "oracles with stated contracts: QR (Gram identity), linear solve / pseudo-inverse (result checked in the model), jax.experimental.jet (truncated series semantics), ** with non-integer exponent, user vector field",
    "modelled, not verified: float rounding, XLA jit/vmap, JAX AD transposition, Python exception mechanics, LAPACK",
]


# back end for case terms: "coq" (vm_compute inside coqc) or "ocaml" (extracted model, Zarith rationals)
BACKEND = ["coq"]


# ----------------------------------------------------------------- rationals
def frac(x) -> Fraction:
    if isinstance(x, Fraction):
        return x
    if isinstance(x, int):
        return Fraction(x)
    return Fraction(float(x))  # exact binary value


def qlit(x) -> str:
    x = frac(x)
    n, d = x.numerator, x.denominator
    ns = f"({n})" if n < 0 else f"{n}"
    return f"({ns} # {d})%Q"


def qclit(x) -> str:
    if BACKEND[0] == "ocaml":
        x = frac(x)
        return f'(q "{x.numerator}/{x.denominator}")'
    return f"(Q2Qc {qlit(x)})"


def coq_list(items, scope=None) -> str:
    s = "[" + "; ".join(items) + "]"
    return s


def qlist(xs) -> str:
    return coq_list([qlit(x) for x in xs])


def qclist(xs) -> str:
    return coq_list([qclit(x) for x in xs])


def qcmat(rows) -> str:
    return coq_list([qclist(r) for r in rows])


def coq_bool(b) -> str:
    return "true" if b else "false"


def coq_nat(n) -> str:
    if BACKEND[0] == "ocaml":
        return f"(nat {int(n)})"
    return f"{int(n)}%nat"


# ------------------------------------------------------------------ running
def sh(cmd, timeout=600, cwd=None, env=None):
    p = subprocess.run(cmd, shell=isinstance(cmd, str), cwd=cwd, env=env, stdout=subprocess.PIPE,
                       stderr=subprocess.STDOUT, timeout=timeout, text=True)
    return p.returncode, p.stdout


def impl_env():
    e = dict(os.environ)
    e["PYTHONPATH"] = REPO
    e["VERIF_REPO"] = REPO
    e["PYTHONHASHSEED"] = "0"
    e["JAX_ENABLE_X64"] = "1"
    e["PYTHONDONTWRITEBYTECODE"] = "1"
    e["JAX_PLATFORMS"] = "cpu"
    e["PNKRAEMER_PROBDIFFEQ_VERIF"] = "1"
    e.setdefault("XLA_FLAGS", "--xla_force_host_platform_device_count=1")
    return e


def ensure_work():
    os.makedirs(WORK, exist_ok=True)
    os.makedirs(os.path.join(VERIF, "replays"), exist_ok=True)
    os.makedirs(os.path.join(VERIF, "evidence"), exist_ok=True)


def translate():
    """Regenerate Generated/Constants.v. Returns (ok, message)."""
    rc, out = sh([PY, os.path.join(VERIF, "harness", "translate.py"),
                  os.path.join(COQ, "Generated", "Constants.v")], timeout=120, env=impl_env())
    return rc == 0, out.strip()


def ensure_makefile():
    mk = os.path.join(COQ, "Makefile")
    cp = os.path.join(COQ, "_CoqProject")
    if not os.path.exists(mk) or os.path.getmtime(mk) < os.path.getmtime(cp):
        sh("coq_makefile -f _CoqProject -o Makefile", cwd=COQ, timeout=60)


_PA_SPLIT = re.compile(r"^(Closed under the global context|Axioms:)", re.M)


def parse_assumptions(out: str):
    """Return list of assumption blocks: [] for closed, else list of axiom names."""
    blocks = []
    lines = out.splitlines()
    i = 0
    while i < len(lines):
        ln = lines[i]
        if ln.startswith("Closed under the global context"):
            blocks.append([])
        elif ln.startswith("Axioms:"):
            names = []
            i += 1
            while i < len(lines):
                cur = lines[i]
                if cur.startswith("Closed under") or cur.startswith("Axioms:") or cur.startswith("COQC") or cur.startswith("make"):
                    break
                if cur and not cur[0].isspace():
                    m = re.match(r"^([A-Za-z_][\w.']*)", cur)
                    if m:
                        names.append(m.group(1))
                    else:
                        break
                i += 1
            blocks.append(names)
            continue
        i += 1
    return blocks


def scan_forbidden():
    bad = []
    for root, _dirs, files in os.walk(COQ):
        for fn in files:
            if fn.endswith(".v") and not fn.startswith("_Scratch"):
                p = os.path.join(root, fn)
                with open(p) as f:
                    txt = f.read()
                # strip comments (non-nested approximation is enough: we never
                # write the forbidden words in comments)
                for m in FORBIDDEN.finditer(txt):
                    bad.append(f"{os.path.relpath(p, COQ)}:{txt.count(chr(10), 0, m.start()) + 1}:{m.group(0)}")
    return bad


def prove(pid: str, timeout=1500, jobs=16):
    """Build Props/<pid>.vo from the current /repo constants. Returns dict."""
    ensure_work()
    res = {"ok": False, "obligations": 0, "discharged": 0, "theorems": [], "axioms": {}, "errors": [],
           "translate": ""}
    ok, msg = translate()
    res["translate"] = msg
    if not ok:
        res["errors"].append(f"translator failed (fail-closed): {msg}")
    ensure_makefile()
    import glob as _glob
    pfiles = sorted(_glob.glob(os.path.join(COQ, "Props", f"{pid}.v")) + _glob.glob(os.path.join(COQ, "Props", f"{pid}[a-z].v")))
    ptxt = ""
    for pf in pfiles:
        with open(pf) as f:
            ptxt += f.read() + "\n"
    thms = re.findall(r"^\s*Theorem\s+([A-Za-z_][\w']*)", ptxt, re.M)
    res["theorems"] = thms
    res["obligations"] = len(thms)
    if not ok:
        return res
    # force re-check of the property files themselves so that Print Assumptions is re-emitted
    targets = []
    for pf in pfiles:
        stem = os.path.splitext(os.path.basename(pf))[0]
        targets.append(f"Props/{stem}.vo")
        for ext in (".vo", ".vok", ".vos", ".glob"):
            p_ = os.path.join(COQ, "Props", stem + ext)
            if os.path.exists(p_):
                os.remove(p_)
    t0 = time.time()
    # one make per file, in order, so that the Print Assumptions blocks come out in the order of the theorems
    rc, out = 0, ""
    for tg in targets:
        rc1, out1 = sh(f"timeout {timeout} make -j{jobs} {tg}", cwd=COQ, timeout=timeout + 60)
        out += out1
        rc = rc or rc1
    # bring every other compiled file (Run/*.vo used by the correspondence, the extraction inputs) up to date with the
    # regenerated constants as well: a stale .vo would otherwise surface as "inconsistent assumptions" in the model evaluation
    if rc == 0:
        rc2, out2 = sh(f"timeout {timeout} make -j{jobs}", cwd=COQ, timeout=timeout + 60)
        if rc2 != 0:
            rc = rc2
            out += out2
    res["build_s"] = round(time.time() - t0, 1)
    res["build_tail"] = out[-3000:]
    if rc != 0:
        m = re.search(r'File "([^"]+)", line (\d+)', out)
        where = f"{m.group(1)}:{m.group(2)}" if m else "?"
        res["errors"].append(f"coq build failed at {where}")
        res["failed_at"] = where
        return res
    blocks = parse_assumptions(out)
    printed = re.findall(r"^\s*Print Assumptions\s+([A-Za-z_][\w']*)", ptxt, re.M)
    if len(blocks) != len(printed):
        res["errors"].append(f"Print Assumptions blocks ({len(blocks)}) != requested ({len(printed)})")
    disc = 0
    for name, b in zip(printed, blocks):
        res["axioms"][name] = b
    for t in thms:
        if t not in res["axioms"]:
            res["errors"].append(f"theorem {t} has no Print Assumptions")
            continue
        extra = [a for a in res["axioms"][t] if a not in ALLOWED_AXIOMS and a.split(".")[-1] not in ALLOWED_AXIOMS]
        if extra:
            res["errors"].append(f"theorem {t} depends on non-allowed axioms {extra}")
        else:
            disc += 1
    res["discharged"] = disc
    bad = scan_forbidden()
    if bad:
        res["errors"].append("forbidden constructs: " + ", ".join(bad[:10]))
    if not res["errors"] and _tier_from_argv() == "thorough":
        res["coqchk"] = coqchk([os.path.splitext(os.path.basename(pf))[0] for pf in pfiles])
        if res["coqchk"].get("error"):
            res["errors"].append("coqchk: " + res["coqchk"]["error"])
    res["ok"] = not res["errors"]
    return res


def _tier_from_argv():
    a = sys.argv
    for i, x in enumerate(a):
        if x == "--tier" and i + 1 < len(a):
            return a[i + 1]
        if x.startswith("--tier="):
            return x.split("=", 1)[1]
    return os.environ.get("VERIF_TIER", "quick")


def coqchk(stems, timeout=2400):
    """Independent re-check of the compiled property files (and everything they depend on) with coqchk -o.
    A timeout is recorded but is not an error (coqc's kernel already accepted the files)."""
    t0 = time.time()
    mods = " ".join(f"PD.Props.{s}" for s in stems)
    rc, out = sh(f"timeout {timeout} coqchk -silent -o -Q . PD {mods}", cwd=COQ, timeout=timeout + 60)
    res = {"modules": stems, "seconds": round(time.time() - t0, 1), "rc": rc}
    if rc == 124:
        res["status"] = "timeout (not completed; not an error)"
        return res
    if rc != 0:
        res["status"] = "rejected"
        res["error"] = "coqchk rejected the compiled files: " + out[-400:]
        return res
    sect = {}
    cur = None
    for line in out.splitlines():
        m = re.match(r"^\* ([^:]+):\s*(.*)$", line)
        if m:
            cur = m.group(1).strip()
            sect[cur] = [] if m.group(2).strip() in ("", "<none>") else [m.group(2).strip()]
        elif cur and line.strip():
            sect[cur].append(line.strip())
    res["axioms"] = sect.get("Axioms", [])
    res["summary"] = {k: v for k, v in sect.items() if k != "Axioms"}
    extra = [a for a in res["axioms"] if a.split(".")[-1] not in ALLOWED_AXIOMS]
    unsafe = [k for k, v in sect.items() if k != "Axioms" and k != "Theory" and v]
    if extra:
        res["error"] = f"axioms outside the allow-list: {extra}"
    elif unsafe:
        res["error"] = f"unsafe features reported: {unsafe}"
    res["status"] = "ok" if "error" not in res else "rejected"
    return res


_EVAL_RE = re.compile(r"=\s*(\[.*?\])(?:%Z)?\s*:\s*list Z", re.S)


def _run_shard(args):
    idx, name, header, terms, timeout = args
    base = f"Case_{name}_{idx}"
    vpath = os.path.join(WORK, base + ".v")
    with open(vpath, "w") as f:
        f.write(header)
        f.write("\nSet Printing Width 1000000.\nSet Printing Depth 100000000.\n")
        for t in terms:
            f.write(f"Eval vm_compute in ({t}).\n")
    t0 = time.time()
    try:
        rc, out = sh(f"ulimit -s unlimited 2>/dev/null; timeout {timeout} coqc -Q {COQ} PD -R {WORK} Work {vpath}",
                     timeout=timeout + 30)
    except subprocess.TimeoutExpired:
        rc, out = 124, "TIMEOUT"
    for ext in (".vo", ".vok", ".vos", ".glob"):
        p = os.path.join(WORK, base + ext)
        if os.path.exists(p):
            os.remove(p)
    aux = os.path.join(WORK, "." + base + ".aux")
    if os.path.exists(aux):
        os.remove(aux)
    vals = []
    for m in _EVAL_RE.finditer(out):
        body = m.group(1)[1:-1].strip()
        vals.append([int(x) for x in body.replace("%Z", "").replace("\n", " ").split(";")] if body else [])
    return idx, rc, out, vals, time.time() - t0


def coq_eval(name: str, header: str, terms: list[str], shard=200, timeout=300, jobs=16, tolerant=True,
             case_timeout=60):
    """Evaluate each term (of type list Z) by vm_compute. Returns list of int lists.

    A shard that fails or times out is re-run case by case (case_timeout each);
    cases that still fail are returned as the string 'EVAL-FAILED: ...' when
    tolerant, else RuntimeError is raised.  Callers must treat failed cases as
    'not compared' (never as agreement) and bound their number.
    """
    ensure_work()
    shards = [terms[i:i + shard] for i in range(0, len(terms), shard)]
    out_vals = [None] * len(shards)
    with cf.ThreadPoolExecutor(max_workers=jobs) as ex:
        futs = [ex.submit(_run_shard, (i, name, header, s, timeout)) for i, s in enumerate(shards)]
        results = [fu.result() for fu in futs]
        for idx, rc, out, vals, dt in results:
            if rc == 0 and len(vals) == len(shards[idx]):
                out_vals[idx] = vals
        for idx, rc, out, vals, dt in results:
            if out_vals[idx] is not None:
                continue
            if rc not in (0, 124, 137) and "Error" in out and "Stack overflow" not in out and len(shards[idx]) == 1:
                pass
            sub = [ex.submit(_run_shard, (f"{idx}x{j}", name, header, [t], case_timeout)) for j, t in enumerate(shards[idx])]
            vs = []
            for fu in sub:
                _i, rc2, out2, v2, _dt = fu.result()
                if rc2 == 0 and len(v2) == 1:
                    vs.append(v2[0])
                elif tolerant and rc2 in (124, 137):
                    vs.append("EVAL-FAILED: timeout")
                else:
                    raise RuntimeError(f"coq evaluation failed for a case of {name} (rc={rc2}):\n{out2[-2000:]}")
            out_vals[idx] = vs
    flat = []
    for v in out_vals:
        flat.extend(v)
    return flat


OCAML_DIR = os.path.join(WORK, "ocaml")


def ensure_extracted():
    """(Re)extract the model to OCaml and compile model+helpers once per process / model change."""
    os.makedirs(OCAML_DIR, exist_ok=True)
    stamp = os.path.join(OCAML_DIR, "helpers.cmx")
    srcs = [os.path.join(COQ, "Extract", "Extract.v"), os.path.join(COQ, "Run", "GenRun.vo"),
            os.path.join(VERIF, "harness", "ocaml", "helpers.ml")]
    if os.path.exists(stamp) and all(os.path.exists(p) and os.path.getmtime(p) <= os.path.getmtime(stamp) for p in srcs):
        return
    rc, out = sh(f"timeout 300 coqc -Q {COQ} PD {COQ}/Extract/Extract.v", cwd=OCAML_DIR, timeout=330)
    if rc != 0:
        raise RuntimeError("extraction failed:\n" + out[-2000:])
    shutil.copy(os.path.join(VERIF, "harness", "ocaml", "helpers.ml"), os.path.join(OCAML_DIR, "helpers.ml"))
    rc, out = sh("ocamlfind ocamlopt -w -a -package zarith -c model.mli model.ml helpers.ml", cwd=OCAML_DIR, timeout=300)
    if rc != 0:
        raise RuntimeError("ocaml compilation of the extracted model failed:\n" + out[-2000:])


def _run_ml_shard(args):
    idx, name, terms, timeout = args
    base = f"cases_{name}_{idx}"
    src = os.path.join(OCAML_DIR, base + ".ml")
    with open(src, "w") as f:
        f.write("open Model\nopen Helpers\n")
        for k, t in enumerate(terms):
            f.write(f"let () = run_case {k} (fun () -> {t})\n")
    exe = os.path.join(OCAML_DIR, base + ".exe")
    rc, out = sh(f"ocamlfind ocamlopt -w -a -package zarith -linkpkg model.cmx helpers.cmx {base}.ml -o {base}.exe",
                 cwd=OCAML_DIR, timeout=600)
    if rc != 0:
        return idx, rc, "COMPILE: " + out[-2000:], []
    try:
        rc, out = sh(f"ulimit -s unlimited 2>/dev/null; timeout {timeout} ./{base}.exe", cwd=OCAML_DIR, timeout=timeout + 30)
    except subprocess.TimeoutExpired:
        rc, out = 124, ""
    for ext in (".ml", ".exe", ".cmx", ".cmi", ".o"):
        p_ = os.path.join(OCAML_DIR, base + ext)
        if os.path.exists(p_):
            os.remove(p_)
    vals = []
    for ln in out.splitlines():
        if ln.startswith("E "):
            vals.append("EVAL-FAILED: " + ln[2:])
        elif ln.strip():
            vals.append([int(x) for x in ln.split()])
    return idx, rc, out[-500:], vals


def ml_eval(name: str, terms: list[str], shard=50, timeout=900, jobs=16):
    """Evaluate case terms with the extracted OCaml model (Zarith rationals). Same result format as coq_eval."""
    ensure_extracted()
    shards = [terms[i:i + shard] for i in range(0, len(terms), shard)]
    res = [None] * len(shards)
    with cf.ThreadPoolExecutor(max_workers=jobs) as ex:
        for idx, rc, out, vals in ex.map(_run_ml_shard, [(i, name, s, timeout) for i, s in enumerate(shards)]):
            if out.startswith("COMPILE:"):
                raise RuntimeError(f"ocaml case file failed to compile ({name}):\n{out}")
            if len(vals) < len(shards[idx]):
                vals = vals + ["EVAL-FAILED: timeout or crash"] * (len(shards[idx]) - len(vals))
            res[idx] = vals
    flat = []
    for v in res:
        flat.extend(v)
    return flat


def model_eval(name, header, terms, backend="ocaml", **kw):
    """Evaluate model terms; terms must have been emitted under the same BACKEND."""
    if backend == "ocaml":
        return ml_eval(name, terms, shard=kw.get("shard", 50), timeout=kw.get("timeout", 900))
    return coq_eval(name, header, terms, **{k: v for k, v in kw.items() if k in ("shard", "timeout", "case_timeout")})


def dual_eval(name, header, emitters, sample=2, shard=50, timeout=900, coq_case_timeout=120):
    """emitters: list of zero-argument functions producing a case term under the CURRENT lib.BACKEND.

    All cases are evaluated with the extracted OCaml model; `sample` of them (the cheapest-looking: shortest
    terms) are ALSO evaluated inside Coq by vm_compute and must agree exactly, which ties the OCaml
    FieldOps dictionary / extraction to the in-Coq evaluation on every run.  Returns (values, crosscheck_info).
    """
    BACKEND[0] = "ocaml"
    terms = [f() for f in emitters]
    vals = ml_eval(name, terms, shard=shard, timeout=timeout)
    BACKEND[0] = "coq"
    order = sorted(range(len(terms)), key=lambda i: len(terms[i]))[:sample]
    cterms = [emitters[i]() for i in order]
    BACKEND[0] = "ocaml"
    info = {"crosschecked": 0, "skipped": 0}
    if cterms:
        cv = coq_eval(name + "x", header, cterms, shard=1, timeout=coq_case_timeout, case_timeout=coq_case_timeout)
        for i, v in zip(order, cv):
            if isinstance(v, str) or isinstance(vals[i], str):
                info["skipped"] += 1
                continue
            if v != vals[i]:
                raise RuntimeError(f"extracted OCaml model and in-Coq evaluation disagree on case {i} of {name}")
            info["crosschecked"] += 1
    return vals, info


def decode_optQ(v):
    """[0] -> None ; 1 :: n1 :: d1 :: ... -> list of Fractions."""
    if isinstance(v, str) or not v or v[0] == 0:
        return None
    body = v[1:]
    return [Fraction(body[i], body[i + 1]) for i in range(0, len(body), 2)]


def close(a: float, b: Fraction, rtol=1e-8, atol=1e-10) -> bool:
    fb = float(b)
    if a != a:  # nan
        return False
    return abs(a - fb) <= atol + rtol * abs(fb)


# ------------------------------------------------------------------- findings
def load_known_findings():
    p = os.path.join(VERIF, "known_findings.json")
    if not os.path.exists(p):
        return []
    with open(p) as f:
        return json.load(f).get("findings", [])


LAST_CHECK = [None]


class Check:
    def __init__(self, pid: str):
        LAST_CHECK[0] = self
        self.pid = pid
        self.tier = os.environ.get("VERIF_TIER", "quick")
        if "--tier" in sys.argv:
            self.tier = sys.argv[sys.argv.index("--tier") + 1]
        if self.tier not in ("quick", "thorough"):
            self.tier = "quick"
        self.seed = int(os.environ.get("VERIF_SEED", "0") or 0)
        self.rng = random.Random(f"{pid}-{self.seed}")
        self.t0 = time.time()
        self.violations = []      # (signature, replay_path, text, nofail)
        self.known_hits = []      # (finding, text)
        self.evaluations = 0
        self.nontrivial = set()
        self.samples = []
        self.hist = {}
        self.notes = []
        self.proof = None
        self.known = [k for k in load_known_findings() if k.get("property") == pid]
        ensure_work()

    # -- counting
    def count(self, key, nontrivial=True, sample=None, **hist):
        self.evaluations += 1
        if nontrivial:
            self.nontrivial.add(key)
        if sample is not None and len(self.samples) < 5:
            self.samples.append(sample)
        for k, v in hist.items():
            d = self.hist.setdefault(k, {})
            d[str(v)] = d.get(str(v), 0) + 1

    # -- proof
    def run_proof(self):
        self.proof = prove(self.pid)
        return self.proof

    # -- reporting
    def report(self, signature: str, text: str, replay: dict, nofail=False):
        """Report a violation candidate; suppressed to KNOWN-FINDING iff a 'known' entry has this signature."""
        for k in self.known:
            if k.get("status") == "known" and k.get("signature") == signature:
                if not any(h[0] is k for h in self.known_hits):
                    self.known_hits.append((k, text))
                return "known"
        # one VIOLATION line per distinct signature
        if any(v[0] == signature for v in self.violations):
            return "dup"
        n = len(self.violations)
        path = os.path.join(VERIF, "replays", f"{self.pid}-{self.tier}-{self.seed}-{n}.json")
        replay = dict(replay)
        replay.update({"property": self.pid, "signature": signature, "text": text, "seed": self.seed,
                       "tier": self.tier, "no_failing_input_found": bool(nofail)})
        with open(path, "w") as f:
            json.dump(replay, f, indent=1, default=str)
        self.violations.append((signature, path, text, nofail))
        return "violation"

    def finish(self, rule: str, extra_cov=None, assumptions=None):
        pr = self.proof or {"obligations": 0, "discharged": 0, "axioms": {}, "errors": ["proof step not run"], "theorems": []}
        for k, text in self.known_hits:
            print(f"KNOWN-FINDING: property={self.pid} {k.get('id', '')} {k.get('text', text)}")
        for sig, path, text, nofail in self.violations:
            tail = " no-failing-input-found" if nofail else ""
            print(f"VIOLATION property={self.pid} replay={path} [{sig}] {text}{tail}" if not nofail else
                  f"VIOLATION property={self.pid} replay={path} [{sig}] {text} no-failing-input-found")
        cov = {
            "obligations": pr["obligations"],
            "discharged": pr["discharged"],
            "checker_cmd": f"cd /verif/coq && make -j16 Props/{self.pid}.vo   # full .vo build by coqc; Print Assumptions under every theorem",
            "trusted_base": TRUSTED_BASE,
            "theorems": pr.get("theorems", []),
            "print_assumptions": {k: (v if v else "Closed under the global context") for k, v in pr.get("axioms", {}).items()},
            "proof_errors": pr.get("errors", []),
            "coqchk": pr.get("coqchk", "not run in this tier (thorough tier only)"),
            "evaluations": self.evaluations,
            "distinct_nontrivial": len(self.nontrivial),
            "rule": rule,
            "samples": self.samples if self.samples else [{"note": "no correspondence cases in this run"}],
            "input_distribution": self.hist,
            "known_findings_seen": [k.get("id") for k, _ in self.known_hits],
            "notes": self.notes,
        }
        if extra_cov:
            cov.update(extra_cov)
        ev = {
            "property_id": self.pid,
            "tier": self.tier,
            "seed": self.seed,
            "level": "proof",
            "coverage": cov,
            "assumptions": assumptions or TRUSTED_BASE,
            "wall_s": round(time.time() - self.t0, 2),
            "violations": len(self.violations),
        }
        with open(os.path.join(VERIF, "evidence", f"{self.pid}.json"), "w") as f:
            json.dump(ev, f, indent=1, default=str)
        ok = not self.violations
        print(f"{self.pid}: tier={self.tier} seed={self.seed} theorems={pr['discharged']}/{pr['obligations']} "
              f"cases={self.evaluations} nontrivial={len(self.nontrivial)} violations={len(self.violations)} "
              f"known={len(self.known_hits)} wall={ev['wall_s']}s")
        sys.exit(0 if ok else 1)


def run_impl(script: str, payload: dict, timeout=1800, shards=None):
    """Run harness/<script> under /venv/bin/python with PYTHONPATH=/repo; JSON in, JSON out.
    Payloads with a long "cases" list are split into contiguous shards that run as concurrent processes (the runner scripts
    treat cases independently); the results are concatenated in the original order."""
    cases = payload.get("cases") if isinstance(payload, dict) else None
    if shards is None:
        auto = os.path.basename(script) in ("solve_impl.py", "c06_impl.py", "c08_impl.py", "c16_impl.py")
        shards = 1 if (not auto or not isinstance(cases, list) or len(cases) < 24) else min(12, len(cases) // 12)
    if shards > 1:
        n = len(cases)
        bounds = [(k * n) // shards for k in range(shards + 1)]
        parts = [dict(payload, cases=cases[bounds[k]:bounds[k + 1]]) for k in range(shards)]
        with cf.ThreadPoolExecutor(max_workers=shards) as ex:
            outs = list(ex.map(lambda a: _run_impl_one(script, a[1], timeout, tag=f"s{a[0]}"), enumerate(parts)))
        merged = dict(outs[0])
        merged["results"] = [r for o in outs for r in o["results"]]
        return merged
    return _run_impl_one(script, payload, timeout)


def _run_impl_one(script: str, payload: dict, timeout=1800, tag=""):
    ensure_work()
    inp = os.path.join(WORK, f"in_{os.path.basename(script)}_{os.getpid()}{tag}.json")
    outp = os.path.join(WORK, f"out_{os.path.basename(script)}_{os.getpid()}{tag}.json")
    with open(inp, "w") as f:
        json.dump(payload, f)
    rc, out = sh([PY, os.path.join(VERIF, "harness", script), inp, outp], timeout=timeout, env=impl_env())
    if rc != 0 or not os.path.exists(outp):
        raise RuntimeError(f"implementation runner {script} failed (rc={rc}):\n{out[-3000:]}")
    with open(outp) as f:
        res = json.load(f)
    os.remove(inp)
    os.remove(outp)
    return res
