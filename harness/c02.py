"""C02 check: the filter posterior equals the exact Gaussian posterior of the linearised model."""

from __future__ import annotations

import os
import sys

sys.path.insert(0, os.path.dirname(os.path.abspath(__file__)))
import gen  # noqa: E402
import lib  # noqa: E402
import traj  # noqa: E402

RTOL = 2e-7


def main():
    ck = lib.Check("C02")
    pr = ck.run_proof()
    n = 40 if ck.tier == "quick" else 600
    cases = [gen.gen_solver_case(ck.rng, ck.tier, strats=("filter",)) for _ in range(n)]
    traj.check_trajectories(ck, cases, "C02", rtol=RTOL)
    if not pr["ok"] and not ck.violations:
        ck.report("C02.proof", f"proof obligations no longer check: {pr['errors']}",
                  {"broken": pr.get("failed_at", "Props/C02.v"), "errors": pr["errors"]}, nofail=True)
    ck.finish(rule="cases = random polynomial ODE (order 1/2, degree<=3, d<=3, autonomous or not) x grid (uniform/geometric/random dyadic steps) x "
              "q<=4 (6 thorough) x 3 factorisations x 5 calibration modes x TS0/TS1 x damp x base scale x exact/inexact/mixed/diffuse init; "
              "one-step refinement: each implementation state (converted exactly to rationals) is advanced by the Coq model and compared with the "
              f"implementation's next state (all Taylor coefficients, full covariance, scales), then userfriendly_output; rtol {RTOL} relative to the marginal std; "
              "non-trivial = more than one step or TS1; distinct by full input")


if __name__ == "__main__":
    main()
