"""C01 check: adaptive solves meet the tolerance; fixed-step solves converge at order q+1.

PARTIAL (see DESIGN.md): the convergence theory itself is not formalised.  Proved: the local order
condition's algebraic core (Props/C01.v).  Checked here: exactness on polynomial solutions (all
factorisations / calibrations / strategies), observed order under grid halving, tolerance compliance of
adaptive solves on IVPs with closed-form solutions, incl. final times that leave a tiny remainder after
the last natural step (known finding F7).
"""

from __future__ import annotations

import copy
import json
import math
import os
import sys
from fractions import Fraction as Fr

sys.path.insert(0, os.path.dirname(os.path.abspath(__file__)))
import gen  # noqa: E402
import lib  # noqa: E402

DEBUG_ROWS = []
HOMOG = []
K_TOL = 60.0   # "fixed modest multiple" of atol + rtol*|u| (worst ratio observed on the unchanged tree is recorded in the evidence)
# Error-per-step control: the global error of an order-q method controlled by LOCAL errors behaves like C |u| (tol/|u|)^(q/(q+1)),
# so error/tol grows like tol^(-1/(q+1)) as the tolerance shrinks (measured on the unchanged tree: q=2, tol 1e-8: 100..1300 x tol).
# A tolerance miss is reported only when the error ALSO exceeds K_EPS x that law (worst measured constant: 45, u' = t u on [0,3]).
K_EPS = 150.0


# ------------------------------------------------------------------ problem family with closed-form solutions
def problems():
    """name -> (d, ord, f polys over vars [x_{i,a} (i<ord)] + [t], u0 rows (ord x d), solution(t, t0))"""
    P = {}
    # u' = a u
    for a in (Fr(-1), Fr(1, 2), Fr(-3)):
        P[f"linear({a})"] = dict(d=1, ord=1, f=[[[a, [1, 0]]]], u0=[[Fr(1)]], sol=lambda t, t0, a=a: [math.exp(float(a) * (t - t0))])
    # rotation
    P["rotation"] = dict(d=2, ord=1, f=[[[Fr(1), [0, 1, 0]]], [[Fr(-1), [1, 0, 0]]]], u0=[[Fr(1), Fr(0)]],
                         sol=lambda t, t0: [math.cos(t - t0), -math.sin(t - t0)])
    # logistic u' = u (1 - u), u0 = 1/4
    P["logistic"] = dict(d=1, ord=1, f=[[[Fr(1), [1, 0]], [Fr(-1), [2, 0]]]], u0=[[Fr(1, 4)]],
                         sol=lambda t, t0: [1.0 / (1.0 + 3.0 * math.exp(-(t - t0)))])
    # u' = t u  (t0 = 0)
    P["gaussian"] = dict(d=1, ord=1, f=[[[Fr(1), [1, 1]]]], u0=[[Fr(1)]], sol=lambda t, t0: [math.exp((t * t - t0 * t0) / 2)], t0=Fr(0))
    # harmonic oscillator as a second-order problem u'' = -u
    P["oscillator2"] = dict(d=1, ord=2, f=[[[Fr(-1), [1, 0, 0]]]], u0=[[Fr(1)], [Fr(0)]], sol=lambda t, t0: [math.cos(t - t0)])
    # damped oscillator u'' = -u - u'/2
    w = math.sqrt(1 - 1 / 16)
    P["damped2"] = dict(d=1, ord=2, f=[[[Fr(-1), [1, 0, 0]], [Fr(-1, 2), [0, 1, 0]]]], u0=[[Fr(1)], [Fr(0)]],
                        sol=lambda t, t0: [math.exp(-(t - t0) / 4) * (math.cos(w * (t - t0)) + math.sin(w * (t - t0)) / (4 * w))])
    return P


def taylor_init(p, q, t0):
    """Exact Taylor coefficients u, u', ..., u^(q) at t0 by repeated differentiation of the polynomial field (rationals)."""
    d, k = p["d"], p["ord"]
    # series solution by the recursion c_{n+k} = n!/(n+k)! [tau^n] f(U(tau), ..., t0+tau) with truncated series arithmetic
    nvars = k * d + 1
    L = q + 1

    def smul(a, b):
        out = [Fr(0)] * L
        for i, x in enumerate(a):
            if x:
                for j, y in enumerate(b):
                    if i + j < L and y:
                        out[i + j] += x * y
        return out

    def spow(a, e):
        r = [Fr(1)] + [Fr(0)] * (L - 1)
        for _ in range(e):
            r = smul(r, a)
        return r

    U = [[Fr(0)] * L for _ in range(d)]          # normalised coefficients of u_a
    for i in range(k):
        for a in range(d):
            U[a][i] = Fr(p["u0"][i][a]) / math.factorial(i)
    T = [Fr(t0), Fr(1)] + [Fr(0)] * (L - 2) if L > 1 else [Fr(t0)]
    for n in range(0, L - k):
        # derivatives series of order i: D_i[a] = i-th derivative series of u_a
        def dser(s, i):
            out = [Fr(0)] * L
            for m in range(L - i):
                out[m] = s[m + i] * Fr(math.factorial(m + i), math.factorial(m))
            return out
        env = [dser(U[a], i) for i in range(k) for a in range(d)] + [T]
        for a in range(d):
            acc = [Fr(0)] * L
            for cf, ex in p["f"][a]:
                term = [Fr(cf)] + [Fr(0)] * (L - 1)
                for j, e in enumerate(ex):
                    if e:
                        term = smul(term, spow(env[j], e))
                acc = [x + y for x, y in zip(acc, term)]
            U[a][n + k] = acc[n] * Fr(math.factorial(n), math.factorial(n + k))
    return [[U[a][i] * math.factorial(i) for a in range(d)] for i in range(q + 1)]


def base_case(p, q, kind, strat, calib, lin, t0):
    d = p["d"]
    c = {"kind": kind, "q": q, "d": d, "ord": p["ord"], "f": p["f"], "lin": lin, "strat": strat, "calib": calib,
         "tcoeffs": taylor_init(p, q, t0), "base": None, "damp": Fr(0), "init_mode": "exact"}
    c["std"] = [Fr(0)] * (q + 1) if kind == "iso" else [[Fr(0)] * d for _ in range(q + 1)]
    return c


def u_of(res, c, ti):
    """position mean (d values) at output index ti"""
    N, cc, nb = gen.shape_dims(c["kind"], c["q"], c["d"])
    T = len(res["t"])
    nm, _ = gen.split_normals(res["out"], N, cc, T * nb)
    d = c["d"]
    if c["kind"] == "dense":
        return [nm[ti][0][a][0] for a in range(d)]
    if c["kind"] == "iso":
        return [nm[ti][0][0][a] for a in range(d)]
    return [nm[ti * nb + a][0][0][0] for a in range(d)]


def main():
    ck = lib.Check("C01")
    pr = ck.run_proof()
    rng = ck.rng
    quick = ck.tier == "quick"
    P = problems()
    kinds = ["dense", "iso", "blockdiag"]
    runs, meta = [], []

    # (1) exactness on polynomial solutions: u' = p'(t), degree(p) <= q
    for _ in range(6 if quick else 40):
        q = rng.randint(1, 5)
        deg = rng.randint(1, q)
        coefs = [Fr(rng.randint(-6, 6), 4) for _ in range(deg + 1)]           # p(t) = sum c_k t^k
        dp = [[coefs[k] * k, [0, k - 1]] for k in range(1, deg + 1)]             # p'(t) over vars [u, t]
        p = dict(d=1, ord=1, f=[dp], u0=[[sum(coefs[k] * Fr(1, 2) ** k for k in range(deg + 1))]])
        t0 = Fr(1, 2)
        kind, strat = rng.choice(kinds), rng.choice(["filter", "fixedinterval"])
        c = base_case(p, q, kind, strat, rng.choice(["none", "mle", "dyn"]), rng.choice(["ts0", "ts1"]), t0)
        grid = [t0]
        for _s in range(rng.randint(2, 5)):
            grid.append(grid[-1] + Fr(rng.choice([1, 2, 3, 5]), 16))
        c["grid"] = grid
        c["routine"] = "fixed_grid"
        runs.append(gen.floatable(c))
        meta.append(("poly", c, {"coefs": coefs}))

    # (2) observed order on fixed grids
    for _ in range(6 if quick else 30):
        name = rng.choice(["linear(-1)", "rotation", "logistic", "oscillator2"])
        p = P[name]
        q = rng.randint(max(1, p["ord"]), 4)
        kind = rng.choice(kinds)
        t0 = Fr(0)
        c0 = base_case(p, q, kind, rng.choice(["filter", "fixedinterval"]), rng.choice(["none", "mle"]), rng.choice(["ts0", "ts1"]), t0)
        n0 = rng.choice([8, 16])
        for mult in (1, 2):
            c = copy.deepcopy(c0)
            n = n0 * mult
            c["grid"] = [t0 + Fr(i, n) for i in range(n + 1)]
            c["routine"] = "fixed_grid"
            runs.append(gen.floatable(c))
            meta.append(("order", c, {"name": name, "n": n, "pair": mult}))

    # (3) adaptive tolerance compliance
    strat_of = {"filter": "filter", "fixedpoint": "fixedpoint"}
    for _ in range(14 if quick else 150):
        name = rng.choice(list(P))
        p = P[name]
        q = rng.randint(max(1, p["ord"]), 5 if quick else 6)
        kind = rng.choice(kinds)
        t0 = p.get("t0", Fr(0))
        c = base_case(p, q, kind, rng.choice(["filter", "fixedpoint"]), rng.choice(["none", "mle", "dyn"]), rng.choice(["ts0", "ts1"]), t0)
        tol = 10.0 ** -rng.randint(2, 7 if quick else 9)
        t1 = t0 + Fr(rng.choice([1, 2, 3]), 1)
        ncp = rng.randint(0, 3)
        cps = sorted({t0 + (t1 - t0) * Fr(rng.randint(1, 31), 32) for _ in range(ncp)})
        c["routine"] = "adaptive"
        c["adaptive"] = {"mode": "save_at", "save_at": [t0] + cps + [t1], "atol": tol * 1e-2, "rtol": tol, "dt0": float(rng.choice([1e-3, 1e-1, 1.0])),
                         "clip": rng.random() < 0.5, "control": rng.choice([None, "pi"])}
        runs.append(gen.floatable(c))
        meta.append(("tol", c, {"name": name, "tol": tol}))

    # (3b) atol and rtol play their documented roles: linear problems with the solution scaled far from 1 and atol != rtol
    #      (small |u|: the bound is dominated by atol although rtol is loose; large |u|: dominated by rtol|u| although atol is loose)
    for _ in range(6 if quick else 40):
        name = rng.choice(["linear(-1)", "linear(1/2)", "rotation", "oscillator2", "damped2"])
        p0 = P[name]
        small = rng.random() < 0.5
        e = rng.choice([2, 3]) if small else -rng.choice([3, 4])
        scale = Fr(1, 10 ** e) if e > 0 else Fr(10 ** (-e))
        p = dict(p0)
        p["u0"] = [[x * scale for x in row] for row in p0["u0"]]
        q = rng.randint(max(2, p["ord"]), 4)
        kind = rng.choice(kinds)
        t0 = Fr(0)
        c = base_case(p, q, kind, rng.choice(["filter", "fixedpoint"]), rng.choice(["none", "mle", "dyn"]), rng.choice(["ts0", "ts1"]), t0)
        # requested bound ~ 1e-6 |scale|-free: small u: atol tiny, rtol loose; large u: atol loose, rtol tiny
        if small:
            atol, rtol = float(scale) * 1e-6, 1e-3
        else:
            atol, rtol = 1e-2, 1e-9 if e <= -4 else 1e-8
        t1 = t0 + Fr(rng.choice([1, 2, 3]), 1)
        c["routine"] = "adaptive"
        c["adaptive"] = {"mode": "save_at", "save_at": [t0, t0 + (t1 - t0) * Fr(rng.randint(1, 31), 32), t1], "atol": atol, "rtol": rtol,
                         "dt0": 0.1, "clip": rng.random() < 0.5, "control": rng.choice([None, "pi"])}
        runs.append(gen.floatable(c))
        meta.append(("tol", c, {"name": name, "tol": rtol if small else atol, "scale": float(scale)}))

    # (3c) homogeneity of the tolerance test atol + rtol|u| (metamorphic, no constant involved): for a LINEAR problem, scaling the
    #      initial value, the prior's base scale and atol by s = 2^k (exact in binary floating point) and keeping rtol scales every
    #      quantity of the run by s: the accepted step sequence is identical and the means scale by s.
    for _ in range(5 if quick else 40):
        name = rng.choice(["linear(-1)", "linear(1/2)", "rotation", "oscillator2", "damped2"])
        p0 = P[name]
        k2 = rng.choice([-13, -10, -7, 6, 9, 12])
        sc = Fr(2) ** k2
        q = rng.randint(max(2, p0["ord"]), 4)
        kind = rng.choice(kinds)
        strat, calib, linz = rng.choice(["filter", "fixedpoint"]), rng.choice(["none", "mle", "dyn"]), rng.choice(["ts0", "ts1"])
        atol = 10.0 ** -rng.randint(4, 8)
        rtol = 10.0 ** -rng.randint(3, 6)
        t1 = Fr(rng.choice([1, 2]), 1)
        mid = t1 * Fr(rng.randint(1, 31), 32)
        clip, control = rng.random() < 0.5, rng.choice([None, "pi"])
        pair = []
        for fac in (Fr(1), sc):
            p = dict(p0)
            p["u0"] = [[x * fac for x in row] for row in p0["u0"]]
            c = base_case(p, q, kind, strat, calib, linz, Fr(0))
            c["base"] = fac if kind == "iso" else [fac] * p["d"]
            c["routine"] = "adaptive"
            c["adaptive"] = {"mode": "save_at", "save_at": [Fr(0), mid, t1], "atol": atol * float(fac), "rtol": rtol, "dt0": 0.1, "clip": clip, "control": control}
            runs.append(gen.floatable(c))
            pair.append(c)
            meta.append(("homog", c, {"name": name, "scale": float(fac), "pair_id": len(HOMOG)}))
        HOMOG.append(pair)

    # (4) tiny remainder after the last natural step (clip_dt): first find the natural step ends
    pre, premeta = [], []
    for _ in range(3 if quick else 20):
        name = rng.choice(["linear(-1)", "logistic", "rotation"])
        p = P[name]
        q = rng.choice([2, 3, 4])
        kind = rng.choice(kinds)
        c = base_case(p, q, kind, "filter", rng.choice(["none", "mle"]), "ts0", Fr(0))
        tol = 10.0 ** -rng.choice([4, 6])
        c["routine"] = "adaptive"
        c["adaptive"] = {"mode": "every_step", "save_at": [Fr(0), Fr(1)], "atol": tol, "rtol": tol, "dt0": 0.1, "clip": False}
        pre.append(gen.floatable(c))
        premeta.append((c, name, tol))
    pres = lib.run_impl("solve_impl.py", {"cases": pre}, timeout=3000)["results"]
    for (c, name, tol), r in zip(premeta, pres):
        if "error" in r or len(r["t"]) < 4:
            continue
        tk = r["t"][len(r["t"]) // 2]
        c2 = copy.deepcopy(c)
        c2["adaptive"] = {"mode": "terminal", "save_at": [0.0, tk + 3e-8], "atol": tol, "rtol": tol, "dt0": 0.1, "clip": True}
        runs.append(gen.floatable(c2))
        meta.append(("tiny", c2, {"name": name, "tol": tol, "t1": tk + 3e-8}))

    ires = lib.run_impl("solve_impl.py", {"cases": runs}, timeout=3000)["results"]
    worst_ratio, order_seen = 0.0, []
    worst_norm = 0.0
    homog_res = {}
    pend_order = {}
    for (what, c, info), r in zip(meta, ires):
        jc = gen.jsonable(c)
        key = what + json.dumps(jc, sort_keys=True) + json.dumps(gen.jsonable(info), sort_keys=True, default=str)
        ck.count(key, nontrivial=True, sample={"what": what, "kind": c["kind"], "q": c["q"], "strat": c["strat"], "calib": c["calib"], "lin": c["lin"],
                                                **{k: (str(v) if not isinstance(v, (int, float, str)) else v) for k, v in info.items() if k != "coefs"}},
                 what=what, kind=c["kind"], q=c["q"], calib=c["calib"], strat=c["strat"], lin=c["lin"])
        if "error" in r:
            ck.report(f"C01.{c['kind']}.exception", f"implementation raised {r['error']}", {"case": jc, "info": str(info)})
            continue
        if what == "poly":
            coefs = info["coefs"]
            for ti, t in enumerate(r["t"]):
                want = sum(float(cf) * t ** k for k, cf in enumerate(coefs))
                got = u_of(r, c, ti)[0]
                if abs(got - want) > 1e-9 * max(1.0, abs(want)):
                    ck.report(f"C01.polynomial-exactness.{c['kind']}", f"{c['kind']}/{c['strat']}/{c['calib']}/{c['lin']} q={c['q']}: the solver is not exact on a polynomial "
                              f"solution of degree {len(coefs) - 1} <= q: u({t}) = {got!r}, exact {want!r}", {"case": jc, "coefs": [str(x) for x in coefs]})
                    break
        elif what == "order":
            p = P[info["name"]]
            err = max(abs(g - w) for g, w in zip(u_of(r, c, len(r["t"]) - 1), p["sol"](r["t"][-1], r["t"][0])))
            k2 = (info["name"], c["kind"], c["q"], c["strat"], c["calib"], c["lin"], info["n"] // info["pair"])
            pend_order.setdefault(k2, {})[info["pair"]] = (err, jc)
        elif what == "homog":
            homog_res.setdefault(info["pair_id"], []).append((c, info, r, jc))
        elif what in ("tol", "tiny"):
            p = P[info["name"]]
            tol = info["tol"]
            a = c["adaptive"]
            ratio_here = 0.0
            norm_here = 0.0
            nonfinite = False
            qq = c["q"]
            for ti, t in enumerate(r["t"]):
                sol = [info.get("scale", 1.0) * w for w in p["sol"](t, r["t"][0])]
                got = u_of(r, c, ti)
                for g, w in zip(got, sol):
                    if not math.isfinite(g):
                        nonfinite = True
                        continue
                    tol_pt = a["atol"] + a["rtol"] * abs(w)
                    ratio_here = max(ratio_here, abs(g - w) / tol_pt)
                    norm_here = max(norm_here, abs(g - w) / (max(abs(w), 1e-300) * (tol_pt / max(abs(w), 1e-300)) ** (qq / (qq + 1.0))))
            DEBUG_ROWS.append({"what": what, "name": info["name"], "q": qq, "atol": a["atol"], "rtol": a["rtol"], "scale": info.get("scale", 1.0),
                               "ratio": ratio_here, "norm": norm_here, "nonfinite": nonfinite, "kind": c["kind"], "calib": c["calib"],
                               "strat": c["strat"], "lin": c["lin"], "out_scale": r.get("output_scale")})
            if nonfinite:
                osc = [x for row in (r.get("output_scale") or []) for x in row]
                if c["calib"].startswith("dyn") and any((x == 0.0) or (x != x) for x in osc):
                    ck.report("C01.dynamic-calibration.zero-residual.non-finite",
                              f"{c['kind']}/{c['strat']}/{c['calib']}/{c['lin']} q={c['q']} {info['name']}: the adaptive solve returns NaN means; the local "
                              f"(dynamic) output scale is exactly zero at some step (reported scales {osc[:6]})", {"case": jc, "output_scale": osc})
                else:
                    ck.report(f"C01.{c['kind']}.non-finite-output", f"{c['kind']}/{c['strat']}/{c['calib']}/{c['lin']} q={c['q']} {info['name']}: "
                              "the adaptive solve returns non-finite means", {"case": jc})
                continue
            if what == "tol":
                worst_ratio = max(worst_ratio, ratio_here)
                worst_norm = max(worst_norm, norm_here)
            if not (ratio_here <= K_TOL or (what == "tol" and norm_here <= K_EPS)):
                if what == "tiny":
                    ck.report("C01.clip-dt.tiny-last-step", f"{c['kind']}/{c['calib']} q={c['q']} {info['name']}: final time leaves a remainder of 3e-8 after a natural step "
                              f"(clip_dt=True): error is {ratio_here:.3g} x (atol + rtol|u|) at tol {tol:g}", {"case": jc, "ratio": ratio_here})
                else:
                    ck.report(f"C01.tolerance.{c['kind']}.{c['strat']}.{c['calib']}.{c['lin']}",
                              f"{c['kind']}/{c['strat']}/{c['calib']}/{c['lin']} q={c['q']} {info['name']} atol={a['atol']:g} rtol={a['rtol']:g} |u|~{info.get('scale', 1.0):g}: error is {ratio_here:.3g} x (atol + rtol|u|) "
                              f"(> {K_TOL}) and {norm_here:.3g} x |u| (tol/|u|)^(q/(q+1)) (> {K_EPS})", {"case": jc, "ratio": ratio_here, "eps_law_constant": norm_here})
    # (3c) homogeneity pairs
    n_h = 0
    for pid_, lst in homog_res.items():
        if len(lst) != 2:
            continue
        (c1, i1, r1, j1), (c2, i2, r2, j2) = lst
        if "error" in r1 or "error" in r2:
            continue
        sc = i2["scale"] / i1["scale"]
        n_h += 1
        cfg = f"{c1['kind']}/{c1['strat']}/{c1['calib']}/{c1['lin']} q={c1['q']} {i1['name']}"
        if r1["num_steps"] != r2["num_steps"]:
            ck.report("C01.tolerance-homogeneity.steps", f"{cfg}: scaling the initial value, the base scale and atol by {sc:g} (rtol kept) changes the accepted "
                      f"step counts {r1['num_steps']} -> {r2['num_steps']}: atol and rtol do not enter as atol + rtol|u|", {"case": j1, "scaled_case": j2})
            continue
        bad = None
        for ti in range(len(r1["t"])):
            for g1, g2 in zip(u_of(r1, c1, ti), u_of(r2, c2, ti)):
                if not (math.isfinite(g1) and math.isfinite(g2)):
                    continue
                if abs(g2 / sc - g1) > 1e-9 * max(abs(g1), 1e-300) + 1e-300:
                    bad = (ti, g1, g2 / sc)
        if bad:
            ck.report("C01.tolerance-homogeneity.values", f"{cfg}: scaled run / {sc:g} differs from the unscaled run at output {bad[0]}: {bad[2]!r} vs {bad[1]!r}",
                      {"case": j1, "scaled_case": j2})
    ck.hist["homogeneity_pairs_compared"] = {"n": n_h}
    for k2, d in pend_order.items():
        if 1 in d and 2 in d:
            e1, e2 = d[1][0], d[2][0]
            q = k2[2]
            if e1 > 1e-11 and e2 > 1e-13:
                order = math.log2(e1 / e2)
                order_seen.append(round(order - (q + 1), 2))
                if order < q + 1 - 1.6:
                    ck.report(f"C01.order.{k2[1]}.{k2[3]}.{k2[4]}.{k2[5]}", f"{k2}: observed order {order:.2f} under grid halving, expected about q+1 = {q + 1}",
                              {"case": d[1][1], "errors": [e1, e2]})
    if os.environ.get("C01_DEBUG"):
        with open(os.environ["C01_DEBUG"], "w") as f_:
            json.dump(DEBUG_ROWS, f_, default=str)
    ck.hist["worst_error_over_tolerance"] = {"value": worst_ratio}
    ck.hist["worst_eps_law_constant"] = {"value": worst_norm, "K_EPS": K_EPS, "K_TOL": K_TOL}
    ck.hist["observed_order_minus_(q+1)"] = {"values": order_seen}
    if not pr["ok"] and not ck.violations:
        ck.report("C01.proof", f"proof obligations no longer check: {pr['errors']}",
                  {"broken": pr.get("failed_at", "Props/C01.v"), "errors": pr["errors"]}, nofail=True)
    ck.finish(rule="(1) polynomial solutions of degree <= q on random fixed grids: exact to 1e-9; (2) grid halving on closed-form IVPs: observed order >= q; "
              f"(3) adaptive solves on a closed-form family (linear, rotation, logistic, u'=tu, two second-order oscillators), tol 1e-2..1e-9, random checkpoints, "
              f"dt0, clip on/off, I/PI control, 3 factorisations x none/MLE/dynamic x filter/fixed-point x TS0/TS1, q<=6: error <= {K_TOL} (atol+rtol|u|), "
               f"or, for tight tolerances at low order, <= {K_EPS} |u| (tol/|u|)^(q/(q+1)) (the error-per-step law); incl. linear problems scaled to |u| ~ 1e-3..1e4 with "
              "atol != rtol; (3c) homogeneity: linear problem, initial value / base scale / atol x 2^k, rtol kept => identical accepted steps, means x 2^k; "
              "(4) final time leaving a 3e-8 remainder after a natural step with clip_dt; non-trivial: all; distinct by full input")


if __name__ == "__main__":
    main()
