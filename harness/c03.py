"""C03 check: the smoothing posterior equals the exact Rauch-Tung-Striebel posterior."""

from __future__ import annotations

import json
import os
import sys

sys.path.insert(0, os.path.dirname(os.path.abspath(__file__)))
import gen  # noqa: E402
import lib  # noqa: E402
import traj  # noqa: E402

RTOL = 5e-7


def spec_check(ck, cases, tag):
    """Textbook RTS (Spec/RTS.v) on the exact filtering states vs the returned smoothing marginals."""
    for c in cases:
        c["routine"] = "trajectory"
    ires = lib.run_impl("solve_impl.py", {"cases": [gen.floatable(c) for c in cases]}, timeout=3000)["results"]
    terms, idx = [], []
    for i, c in enumerate(cases):
        if "error" in ires[i]:
            ck.report(f"C03.{c['kind']}.exception", f"implementation raised {ires[i]['error']}", {"case": gen.jsonable(c)})
            continue
        if c["calib"].startswith("dyn") and any((not (abs(x) >= 1e-9)) for st in ires[i]["states"][1:] for x in st["out"]):
            # degenerate dynamic scale in some block: that block's covariances (and the smoothed means built on them) are rounding noise
            ck.hist.setdefault("spec_degenerate_dynamic_scale_skipped", {"n": 0})["n"] += 1
            continue
        if not gen.all_finite(ires[i]["states"]):
            # NaN states: dynamic calibration with an exactly-zero local scale (finding F21) -- excluded like the other degenerate-scale
            # cases; anything else is reported
            if c["calib"].startswith("dyn"):
                ck.hist.setdefault("spec_non_finite_degenerate_dynamic_skipped", {"n": 0})["n"] += 1
            else:
                ck.report(f"C03.{c['kind']}.{c['strat']}.{c['calib']}.non-finite-state",
                          f"{c['kind']}/{c['strat']}/{c['lin']}/{c['calib']}: the solver produced non-finite states on a fixed grid", {"case": gen.jsonable(c)})
            continue
        terms.append(lambda c=c, sts=ires[i]["states"]: gen.coq_spec_smooth(c, sts))
        idx.append(i)
    try:
        mres, _x = lib.dual_eval("C03s", gen.HEADER, terms, sample=1, shard=25)
    except RuntimeError as e:
        ck.report("C03.model-eval", "spec evaluation failed (Coq)", {"err": str(e)[:800], "broken": "Run/GaussRun.v spec_smooth_run"}, nofail=True)
        return
    skipped = 0
    for i, v in zip(idx, mres):
        c = cases[i]
        jc = gen.jsonable(c)
        ck.count("spec:" + json.dumps(jc, sort_keys=True), nontrivial=len(c["grid"]) > 2,
                 sample={"spec-vs-impl": {k: jc[k] for k in ("kind", "q", "d", "lin", "strat", "calib", "grid")}},
                 spec_kind=c["kind"], spec_steps=len(c["grid"]) - 1, spec_calib=c["calib"])
        mv = lib.decode_optQ(v)
        if mv is None:
            skipped += 1
            continue
        N, cc, nb = gen.shape_dims(c["kind"], c["q"], c["d"])
        T = len(c["grid"])
        mm, _ = gen.split_normals(mv, N, cc, T * nb)
        im, _ = gen.split_normals(ires[i]["out"], N, cc, T * nb)
        for k in range(T * nb):
            mism, _w = gen.compare_normal(im[k], mm[k], RTOL, where=f"t[{k // nb}] block {k % nb}")
            if mism:
                where = "terminal" if k // nb == T - 1 else "interior"
                ck.report(f"C03.{tag}.rts.{where}",
                          f"{c['kind']}/{c['strat']}/{c['calib']} on a fixed grid: returned smoothing marginal differs from the exact RTS posterior: {mism}",
                          {"case": jc, "mismatch": mism, "time_index": k // nb, "grid": jc["grid"]})
                break
    ck.hist["spec_skipped(singular or timeout)"] = {"n": skipped}


def main():
    ck = lib.Check("C03")
    pr = ck.run_proof()
    n = 30 if ck.tier == "quick" else 400
    cases = [gen.gen_solver_case(ck.rng, ck.tier, strats=("fixedinterval", "fixedpoint"), qmax=3,
                                 max_steps=3 if ck.tier == "quick" else 5) for _ in range(n)]
    # (a) the strategy code (predict = revert [+ merge]) refines the model, step by step; finalisation likewise
    fi = [c for c in cases if c["strat"] == "fixedinterval"]
    fp = [c for c in cases if c["strat"] == "fixedpoint"]
    traj.check_trajectories(ck, fi, "C03", rtol=RTOL, what=("step", "final"))
    if fp:
        # fixed-point smoothers are not meant for fixed grids: only their step function is compared here
        traj.check_trajectories(ck, fp, "C03", rtol=RTOL, what=("step",))
    # (b) returned marginals vs the textbook RTS recursion on the exact filtering states
    m = 16 if ck.tier == "quick" else 200
    spec_cases = [gen.gen_solver_case(ck.rng, ck.tier, strats=("fixedinterval",), qmax=3,
                                      max_steps=3 if ck.tier == "quick" else 5) for _ in range(m)]
    for c in spec_cases:
        # RTS needs invertible predicted covariances
        if c["init_mode"] == "exact":
            c["init_mode"] = "inexact"
            c["std"] = [[gen.Fr(1, 64)] * c["d"] for _ in range(c["q"] + 1)] if c["kind"] != "iso" else [gen.Fr(1, 64)] * (c["q"] + 1)
    spec_check(ck, spec_cases, "fixedinterval-fixedgrid")
    if not pr["ok"] and not ck.violations:
        ck.report("C03.proof", f"proof obligations no longer check: {pr['errors']}",
                  {"broken": pr.get("failed_at", "Props/C03.v"), "errors": pr["errors"]}, nofail=True)
    ck.finish(rule="(a) one-step refinement of both smoothers (predict = revert, fixed-point merge) and of finalize along implementation trajectories; "
              "(b) fixed-interval smoother on fixed grids vs the textbook RTS recursion (Spec/RTS.v) evaluated on the exact filtering states; "
              "cases as in C02; non-trivial = more than one step or TS1; distinct by full input")


if __name__ == "__main__":
    main()
