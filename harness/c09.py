"""C09 check: prior transitions are the exact discretisation of their SDE and compose.

1. prove Props/C09.vo (closed forms of the preconditioned Pascal/Hilbert transition for every q,
   linearity in the squared scale, merge = composition) and (re)build the Pade/Legendre development
   (Generated/ExpGramConstants.v regenerated from the source by harness/translate_expgram.py,
   Model/ExpGram.v, Run/ExpGramRun.v, Proofs/ExpGramProofs.v, Props/C09b.v);
2. correspondence, all on the REAL implementation (float64 unless stated):
   iwp     prior.transition(dt=h, output_scale=s).preconditioner_apply() of the dense / isotropic /
           block-diagonal integrated Wiener priors vs the Coq model (Model/Prior.v through
           Run/GaussRun.v, exact rationals), h in [1e-6, 1e2], q <= 6 (10 thorough), d <= 5, diagonal base
           scales, calibrated output scales;
   merge   t2.merge(t1) vs transition(h1+h2) vs the model's merge and the model's closed form at h1+h2;
   lin     process noise quadratic in the calibrated and in the base scale (implementation only);
   hilbert cholesky_hilbert(n, K): squared entries and Gram vs the Kahan-recurrence model and the exact
           Hilbert matrix; system_matrices_1d_iwp(q) vs flipped Pascal / flipped Hilbert;
   expgram exp_gram_cholesky(order, solve_lu)(A, B), five orders: (i) vs the Coq model of the same
           algorithm (Model/ExpGram.v, extracted to OCaml over Zarith rationals and cross-checked against
           vm_compute on designated cases) on the same rational inputs with the implementation's own
           number of doublings; the doubling count vs its exact definition; one doubling step on float
           inputs; (ii) vs an INDEPENDENT high-precision reference (harness/c09_ref.py: Van Loan block
           exponential by Taylor + scaling/squaring in 900-bit fixed point), ||A||_1 up to 50, n <= 6,
           float64 (x64 process) and float32 (separate process with x64 disabled);
   expprior prior_ornstein_uhlenbeck_integrated / prior_matern / prior_exponential (dense): drift and
           dispersion matrices vs the documented companion form (and vs the model's Jacobian of the
           `autonomous` maps), transition in preconditioned coordinates vs (exp(F h), Gramian over
           [0, h]) from the independent reference, vs the IWP closed form when the drift vanishes, vs
           the Coq model of DenseExponential.transition on small cases; float32 (order 5) separately.
"""

from __future__ import annotations

import concurrent.futures as cf
import json
import math
import os
import shutil
import sys
import time
from fractions import Fraction as Fr

sys.path.insert(0, os.path.dirname(os.path.abspath(__file__)))
if hasattr(sys, "set_int_max_str_digits"):
    sys.set_int_max_str_digits(0)   # exact rationals of the doubling model have thousands of digits
import c09_ref as ref  # noqa: E402
import lib  # noqa: E402
import translate_expgram  # noqa: E402

HEADER_IWP = """From Coq Require Import List ZArith QArith Qcanon.
From PD Require Import Base.Field Base.Matrix Model.Gauss Run.GaussRun.
Import ListNotations.
Local Open Scope Z_scope.
"""
HEADER_EG = """From Coq Require Import List ZArith QArith Qcanon.
From PD Require Import Base.Field Base.Matrix Model.ExpGram Run.ExpGramRun.
Import ListNotations.
Local Open Scope Z_scope.
"""

KINDS = ["dense", "iso", "blockdiag"]
ORDERS = [3, 5, 7, 9, 13]
MY_V = ["Generated/ExpGramConstants.v", "Model/ExpGram.v", "Run/ExpGramRun.v"]
MY_PROOFS = ["Proofs/ExpGramProofs.v", "Props/C09b.v"]
EG_DIR = os.path.join(lib.WORK, "ocaml_expgram")

# ---- tolerances (recorded in the evidence) ----
TOL_IWP_A = 1e-12           # entrywise relative, transition matrix
TOL_MODEL_EG = 1e-11        # implementation vs exact model of the same algorithm, relative to max-norm
# implementation vs independent reference, relative to max-norm, per Pade/Legendre order.  Observed worst on
# the unchanged tree over ~3000 cases (||A||_1 <= 50, n <= 6): float64 4.3e-11 / 1.4e-12 / 2.0e-13 / 7.1e-14 /
# 1.3e-14, float32 3.9e-4 / 1.3e-5 / 9.2e-6 / 5.7e-6 / 3.6e-5 for orders 3 / 5 / 7 / 9 / 13 (the loss grows
# like 2^num * eps with the number of doublings: 17 for order 3 at ||A||_1 = 50 in float64).
TOL_REF64 = {3: 2e-10, 5: 2e-11, 7: 5e-12, 9: 2e-12, 13: 1e-12}
TOL_REF32 = {3: 3e-3, 5: 1e-4, 7: 1e-4, 9: 1e-4, 13: 3e-4}
TOL_DOUBLE = 1e-13
TOL_HILBERT = 1e-13
TOL_PRIOR64 = 1e-10         # observed worst 3.0e-12 (general exponential prior, order 9)
TOL_PRIOR32 = 1e-4          # x max(1, h); observed worst 9.0e-6 for h <= 1, 4.7e-4 at h = 15 (order 5, q = 4)


def tol_iwp_q(q):
    """Process noise, entrywise relative to sqrt(Q_ii Q_jj).  Observed worst on the unchanged tree: 3e-15 for
    q <= 6 and 1e-14 for q = 10 (Kahan's recurrence is entrywise accurate, the QR of the flipped factor too)."""
    return 1e-11


# ------------------------------------------------------------------ utilities
def jsonable(o):
    if isinstance(o, Fr):
        return str(o)
    if isinstance(o, dict):
        return {k: jsonable(v) for k, v in o.items()}
    if isinstance(o, (list, tuple)):
        return [jsonable(v) for v in o]
    return o


def floatable(o):
    if isinstance(o, Fr):
        return float(o)
    if isinstance(o, dict):
        return {k: floatable(v) for k, v in o.items()}
    if isinstance(o, (list, tuple)):
        return [floatable(v) for v in o]
    return o


def dyadic(rng, lo_e, hi_e, bits=3):
    m = rng.randint(1 << bits, (2 << bits) - 1)
    return Fr(m, 1 << bits) * Fr(2) ** rng.randint(lo_e, hi_e)


def gen_h(rng):
    while True:
        h = dyadic(rng, -20, 6)
        if Fr(1, 10 ** 6) <= h <= 100:
            return h


def gen_scale(rng):
    return Fr(rng.choice([1, 2, 3, 5, 8, 32]), rng.choice([1, 4, 16, 256]))


def reshape(flat, n, m):
    return [flat[i * m:(i + 1) * m] for i in range(n)]


def transpose(M):
    return [list(r) for r in zip(*M)]


def fmm(X, Y):
    return [[sum(X[i][k] * Y[k][j] for k in range(len(Y))) for j in range(len(Y[0]))] for i in range(len(X))]


def split_cond(flat, nout, nin, c):
    k = 0
    A = reshape(flat[k:k + nout * nin], nout, nin)
    k += nout * nin
    b = reshape(flat[k:k + nout * c], nout, c)
    k += nout * c
    Q = reshape(flat[k:k + nout * nout], nout, nout)
    k += nout * nout
    return A, b, Q, k


def cmp_cond(impl, model, tolA, tolQ):
    """impl: (A,b,Q) floats; model: (A,b,Q) Fractions.  Returns (text|None, worstA, worstQ)."""
    (Ai, bi, Qi), (Am, bm, Qm) = impl, model
    wA = wQ = 0.0
    n = len(Am)
    for i in range(n):
        for j in range(len(Am[0])):
            a, m = Ai[i][j], float(Am[i][j])
            if a != a:
                return f"A[{i}][{j}] is nan", wA, wQ
            if m == 0.0:
                if abs(a) > 1e-300:
                    return f"A[{i}][{j}]: implementation {a!r} vs model 0", wA, wQ
                continue
            e = abs(a - m) / abs(m)
            wA = max(wA, e)
            if e > tolA:
                return f"A[{i}][{j}]: implementation {a!r} vs model {m!r} (rel {e:.3g} > {tolA:.3g})", wA, wQ
    for i in range(n):
        for j in range(len(bm[0])):
            if bi[i][j] != 0.0 or bm[i][j] != 0:
                return f"offset[{i}][{j}]: implementation {bi[i][j]!r} vs model {float(bm[i][j])!r}", wA, wQ
    dg = [math.sqrt(float(Qm[i][i])) for i in range(n)]
    for i in range(n):
        for j in range(n):
            a, m = Qi[i][j], float(Qm[i][j])
            sc = dg[i] * dg[j]
            if a != a:
                return f"Q[{i}][{j}] is nan", wA, wQ
            if sc == 0.0:
                if abs(a) > 1e-300:
                    return f"Q[{i}][{j}]: implementation {a!r} vs model 0", wA, wQ
                continue
            e = abs(a - m) / sc
            wQ = max(wQ, e)
            if e > tolQ:
                return (f"Q[{i}][{j}]: implementation {a!r} vs model {m!r} "
                        f"(error/sqrt(QiiQjj) {e:.3g} > {tolQ:.3g})"), wA, wQ
    return None, wA, wQ


def relmax(X, Y):
    """max |X - Y| / max |Y|  (X floats, Y Fractions or floats)."""
    sc = max(abs(float(v)) for r in Y for v in r)
    if sc == 0.0:
        sc = 1.0
    w = 0.0
    for r, s in zip(X, Y):
        for a, b in zip(r, s):
            if a != a:
                return float("inf")
            w = max(w, abs(a - float(b)) / sc)
    return w


# ------------------------------------------------------ building my Coq files
MY_DEPS = {
    "Generated/ExpGramConstants.v": [],
    "Model/ExpGram.v": ["Base/Field.v", "Base/Matrix.v", "Base/Solve.v", "Model/Gauss.v"],
    "Run/ExpGramRun.v": ["Base/Field.v", "Base/Matrix.v", "Base/Solve.v", "Model/Gauss.v", "Model/Prior.v", "Run/Show.v",
                         "Model/ExpGram.v", "Generated/ExpGramConstants.v"],
    "Proofs/ExpGramProofs.v": ["Base/Field.v", "Base/Matrix.v", "Base/Solve.v", "Model/Gauss.v", "Model/Prior.v",
                               "Proofs/GaussProofs.v", "Proofs/PriorProofs.v", "Model/ExpGram.v", "Generated/ExpGramConstants.v"],
    "Props/C09b.v": ["Proofs/ExpGramProofs.v"],
}


def ensure_built(with_proofs=True):
    """Regenerate ExpGramConstants.v from the source; compile my files when out of date with respect to their
    source or to the compiled files they import (they are not in _CoqProject until the maintainer appends them)."""
    info = {"translate": "", "compiled": [], "errors": [], "assumptions": ""}
    try:
        changed = translate_expgram.write(os.path.join(lib.COQ, "Generated", "ExpGramConstants.v"))
        info["translate"] = "changed" if changed else "unchanged"
    except translate_expgram.TranslateError as e:
        info["errors"].append(f"translator failed (fail-closed): {e}")
        return info

    def mt(rel_v):
        p_ = os.path.join(lib.COQ, rel_v + "o")
        return os.path.getmtime(p_) if os.path.exists(p_) else None

    for rel in MY_V + (MY_PROOFS if with_proofs else []):
        v = os.path.join(lib.COQ, rel)
        if not os.path.exists(v):
            if rel in MY_PROOFS:
                continue
            info["errors"].append(f"{rel} missing")
            return info
        last = rel == MY_PROOFS[-1]
        own = mt(rel)
        deps = [mt(d) for d in MY_DEPS[rel]]
        fresh = (own is not None and own >= os.path.getmtime(v) and all(d is not None and d <= own for d in deps))
        if fresh and not last:
            continue
        rc, out = lib.sh(f"timeout 900 coqc -Q . PD {rel}", cwd=lib.COQ, timeout=960)
        info["compiled"].append(rel)
        if rc != 0:
            info["errors"].append(f"coqc {rel} failed: {out[-600:]}")
            if rel in MY_PROOFS:
                continue
            return info
        if last:
            info["assumptions"] = out
    return info


def eg_ensure_extracted():
    os.makedirs(EG_DIR, exist_ok=True)
    stamp = os.path.join(EG_DIR, "helpers_expgram.cmx")
    srcs = [os.path.join(lib.COQ, "Extract", "ExtractExpGram.v"), os.path.join(lib.COQ, "Run", "ExpGramRun.vo"),
            os.path.join(lib.VERIF, "harness", "ocaml", "helpers_expgram.ml")]
    if os.path.exists(stamp) and all(os.path.exists(p) and os.path.getmtime(p) <= os.path.getmtime(stamp) for p in srcs):
        return
    rc, out = lib.sh(f"timeout 300 coqc -Q {lib.COQ} PD {lib.COQ}/Extract/ExtractExpGram.v", cwd=EG_DIR, timeout=330)
    if rc != 0:
        raise RuntimeError("extraction failed:\n" + out[-2000:])
    shutil.copy(os.path.join(lib.VERIF, "harness", "ocaml", "helpers_expgram.ml"), os.path.join(EG_DIR, "helpers_expgram.ml"))
    rc, out = lib.sh("ocamlfind ocamlopt -w -a -package zarith -c model_expgram.mli model_expgram.ml helpers_expgram.ml",
                     cwd=EG_DIR, timeout=300)
    if rc != 0:
        raise RuntimeError("ocaml compilation of the extracted model failed:\n" + out[-2000:])


def _eg_shard(args):
    idx, terms, timeout = args
    base = f"cases_eg_{os.getpid()}_{idx}"
    with open(os.path.join(EG_DIR, base + ".ml"), "w") as f:
        f.write("open Model_expgram\nopen Helpers_expgram\n")
        for k, t in enumerate(terms):
            f.write(f"let () = run_case {k} (fun () -> {t})\n")
    rc, out = lib.sh(f"ocamlfind ocamlopt -w -a -package zarith -linkpkg model_expgram.cmx helpers_expgram.cmx {base}.ml -o {base}.exe",
                     cwd=EG_DIR, timeout=600)
    if rc != 0:
        return idx, "COMPILE: " + out[-2000:], []
    try:
        rc, out = lib.sh(f"ulimit -s unlimited 2>/dev/null; timeout {timeout} ./{base}.exe", cwd=EG_DIR, timeout=timeout + 30)
    except Exception:  # noqa: BLE001
        rc, out = 124, ""
    for ext in (".ml", ".exe", ".cmx", ".cmi", ".o"):
        p_ = os.path.join(EG_DIR, base + ext)
        if os.path.exists(p_):
            os.remove(p_)
    vals = []
    for ln in out.splitlines():
        if ln.startswith("E "):
            vals.append("EVAL-FAILED: " + ln[2:])
        elif ln.strip():
            vals.append([int(x) for x in ln.split()])
    return idx, "", vals


def eg_eval(emitters, cross, shard=12, timeout=600, coq_timeout=200):
    """Evaluate all case terms with the extracted OCaml model; the cases listed in `cross` are ALSO evaluated
    inside Coq by vm_compute and must agree exactly."""
    eg_ensure_extracted()
    lib.BACKEND[0] = "ocaml"
    try:
        terms = [f() for f in emitters]
    finally:
        lib.BACKEND[0] = "coq"
    shards = [terms[i:i + shard] for i in range(0, len(terms), shard)]
    res = [None] * len(shards)
    with cf.ThreadPoolExecutor(max_workers=16) as ex:
        for idx, err, vals in ex.map(_eg_shard, [(i, s, timeout) for i, s in enumerate(shards)]):
            if err.startswith("COMPILE:"):
                raise RuntimeError("ocaml case file failed to compile:\n" + err)
            if len(vals) < len(shards[idx]):
                vals = vals + ["EVAL-FAILED: timeout or crash"] * (len(shards[idx]) - len(vals))
            res[idx] = vals
    flat = [v for r in res for v in r]
    info = {"crosschecked": 0, "skipped": 0}
    if cross:
        cterms = [emitters[i]() for i in cross]
        cv = lib.coq_eval("C09eg", HEADER_EG, cterms, shard=1, timeout=coq_timeout, case_timeout=coq_timeout)
        for i, v in zip(cross, cv):
            if isinstance(v, str) or isinstance(flat[i], str):
                info["skipped"] += 1
                continue
            if v != flat[i]:
                raise RuntimeError(f"extracted OCaml model and in-Coq evaluation disagree on expgram case {i}")
            info["crosschecked"] += 1
    return flat, info


def run_impl_tag(script, payload, tag, timeout=1500):
    lib.ensure_work()
    inp = os.path.join(lib.WORK, f"in_{script}_{os.getpid()}_{tag}.json")
    outp = os.path.join(lib.WORK, f"out_{script}_{os.getpid()}_{tag}.json")
    with open(inp, "w") as f:
        json.dump(payload, f)
    rc, out = lib.sh([lib.PY, os.path.join(lib.VERIF, "harness", script), inp, outp], timeout=timeout, env=lib.impl_env())
    if rc != 0 or not os.path.exists(outp):
        raise RuntimeError(f"implementation runner {script} failed (rc={rc}):\n{out[-3000:]}")
    with open(outp) as f:
        r = json.load(f)
    os.remove(inp)
    os.remove(outp)
    return r["results"]


def run_impl_parallel(script, tasks, nproc, tagbase):
    """Split tasks round-robin over nproc runner processes; returns results in task order."""
    if not tasks:
        return []
    nproc = max(1, min(nproc, len(tasks)))
    parts = [list(range(k, len(tasks), nproc)) for k in range(nproc)]
    out = [None] * len(tasks)
    with cf.ThreadPoolExecutor(max_workers=nproc) as ex:
        futs = [ex.submit(run_impl_tag, script, {"tasks": [tasks[i] for i in idxs]}, f"{tagbase}{k}")
                for k, idxs in enumerate(parts)]
        for idxs, fu in zip(parts, futs):
            for i, r in zip(idxs, fu.result()):
                out[i] = r
    return out


# ------------------------------------------------------------------ generators
def gen_iwp(rng, qmax, kind=None, q=None):
    kind = kind or rng.choice(KINDS)
    q = rng.randint(0, qmax) if q is None else q
    d = rng.randint(1, 5)
    if kind == "iso":
        base = gen_scale(rng)
        out = gen_scale(rng)
    elif kind == "dense":
        base = [gen_scale(rng) for _ in range(d)]
        out = gen_scale(rng)
    else:
        base = [gen_scale(rng) for _ in range(d)]
        out = [gen_scale(rng) for _ in range(d)]
    if rng.random() < 0.15:
        base = None
    return {"kind": kind, "q": q, "d": d, "base": base, "out": out}


def gen_h_pair(rng):
    """h1, h2 with h1 + h2 exactly representable and inside [1e-6, 1e2]."""
    while True:
        e = rng.randint(-20, 4)
        h1 = Fr(rng.randint(1, 15)) * Fr(2) ** e
        h2 = Fr(rng.randint(1, 15)) * Fr(2) ** (e + rng.randint(-2, 2))
        if Fr(1, 10 ** 6) <= h1 and Fr(1, 10 ** 6) <= h2 and h1 + h2 <= 100:
            return h1, h2


def base_vec(c):
    """base scales as a list (default: ones)."""
    if c["base"] is None:
        return [Fr(1)] * (1 if c["kind"] == "iso" else c["d"])
    return [c["base"]] if c["kind"] == "iso" else list(c["base"])


def n_model_blocks(c):
    return c["d"] if c["kind"] == "blockdiag" else 1


def block_s2(c):
    """squared (base x calibrated) scale per model block."""
    base = base_vec(c)
    if c["kind"] == "iso":
        return [base[0] ** 2 * c["out"] ** 2]
    if c["kind"] == "dense":
        return [b ** 2 * c["out"] ** 2 for b in base]
    return [b ** 2 * o ** 2 for b, o in zip(base, c["out"])]


def iwp_terms(c):
    """Coq terms of the model's transition, one per model block."""
    q, d, h = c["q"], c["d"], c["h"]
    base = base_vec(c)
    if c["kind"] == "dense":
        return [f"c09_transition {lib.coq_nat(0)} {lib.coq_nat(q)} {lib.coq_nat(d)} {lib.qclist([b ** 2 for b in base])} "
                f"{lib.qclit(h)} {lib.qclit(c['out'] ** 2)}"]
    if c["kind"] == "iso":
        return [f"c09_transition {lib.coq_nat(1)} {lib.coq_nat(q)} {lib.coq_nat(d)} {lib.qclist([base[0] ** 2])} "
                f"{lib.qclit(h)} {lib.qclit(c['out'] ** 2)}"]
    return [f"c09_transition {lib.coq_nat(1)} {lib.coq_nat(q)} {lib.coq_nat(1)} {lib.qclist([b ** 2])} "
            f"{lib.qclit(h)} {lib.qclit(o ** 2)}" for b, o in zip(base, c["out"])]


def impl_blocks(flat, c):
    """Implementation flat output -> list of (A, b, Q) in the model's block layout."""
    q, d = c["q"], c["d"]
    if c["kind"] == "dense":
        N = (q + 1) * d
        A, b, Q, k = split_cond(flat, N, N, 1)
        assert k == len(flat)
        return [(A, b, Q)]
    if c["kind"] == "iso":
        A, b, Q, k = split_cond(flat, q + 1, q + 1, d)
        assert k == len(flat)
        return [(A, b, Q)]
    out = []
    k0 = 0
    for _ in range(d):
        A, b, Q, k = split_cond(flat[k0:], q + 1, q + 1, 1)
        k0 += k
        out.append((A, b, Q))
    assert k0 == len(flat)
    return out


def per_dim_blocks(blocks, c):
    """(q+1)x(q+1) sub-blocks (A, Q) per model scale s2 (one per dimension for dense / blockdiag, one for iso);
    for dense also the largest |cross-dimension entry| relative to the diagonal scale."""
    q, d = c["q"], c["d"]
    if c["kind"] != "dense":
        return [(A, Q) for A, _b, Q in blocks], 0.0
    A, _b, Q = blocks[0]
    N = (q + 1) * d
    out = []
    for a in range(d):
        idx = [i * d + a for i in range(q + 1)]
        out.append(([[A[i][j] for j in idx] for i in idx], [[Q[i][j] for j in idx] for i in idx]))
    cross = 0.0
    for i in range(N):
        for j in range(N):
            if i % d != j % d:
                sc = math.sqrt(abs(Q[i][i] * Q[j][j])) or 1.0
                cross = max(cross, abs(Q[i][j]) / sc, abs(A[i][j]))
    return out, cross


def closed_form(q, h, s2):
    f = math.factorial
    A = [[(h ** (j - i) / f(j - i)) if j >= i else Fr(0) for j in range(q + 1)] for i in range(q + 1)]
    Q = [[s2 * h ** (2 * q + 1 - i - j) / ((2 * q + 1 - i - j) * f(q - i) * f(q - j)) for j in range(q + 1)]
         for i in range(q + 1)]
    return A, Q


# ---- expgram ----
def eta_of(tables, order, dtype):
    return Fr(float(tables[order]["eta64" if dtype == "float64" else "eta32"]))


def expected_num(normA, eta, n, q):
    """least k >= 0 with normA <= eta 2^k and (n-1) <= q 2^k; near-ties flagged."""
    k = 0
    while normA > eta * 2 ** k or (n - 1) > q * 2 ** k:
        k += 1
        if k > 200:
            raise RuntimeError("num")
    tie = False
    for kk in (k, k - 1):
        if kk >= 0 and normA > 0 and abs(normA / (eta * 2 ** kk) - 1) < Fr(1, 10 ** 9):
            tie = True
    return k, tie


def gen_eg_model_case(rng, tables, order, nmax, nummax):
    n = rng.randint(1, nmax)
    mB = rng.choice([1, n, n, max(1, n - 1)])
    num = rng.randint(0, nummax)
    while True:
        A0 = [[Fr(rng.randint(-4, 4)) for _ in range(n)] for _ in range(n)]
        if ref.norm1(A0) > 0:
            break
    eta = eta_of(tables, order, "float64")
    nrm = ref.norm1(A0)
    e = 0
    while nrm * Fr(2) ** e > eta * 2 ** num:
        e -= 1
    while nrm * Fr(2) ** (e + 1) <= eta * 2 ** num:
        e += 1
    if num > 0 and nrm * Fr(2) ** e <= eta * 2 ** (num - 1):
        num = expected_num(nrm * Fr(2) ** e, eta, n, order)[0]
    A = [[v * Fr(2) ** e for v in r] for r in A0]
    B = [[Fr(rng.randint(-4, 4), 2) for _ in range(mB)] for _ in range(n)]
    if all(v == 0 for r in B for v in r):
        B[n - 1][0] = Fr(1)
    return {"order": order, "n": n, "mB": mB, "A": A, "B": B, "dtype": "float64", "want_num": num}


def rand_matrix(rng, cls, n):
    u = lambda: rng.uniform(-1, 1)  # noqa: E731
    if cls == "dense":
        return [[u() for _ in range(n)] for _ in range(n)]
    if cls == "stable":
        M = [[u() for _ in range(n)] for _ in range(n)]
        return [[-sum(M[i][k] * M[j][k] for k in range(n)) + 0.5 * (M[i][j] - M[j][i]) for j in range(n)] for i in range(n)]
    if cls == "companion":
        A = [[1.0 if j == i + 1 else 0.0 for j in range(n)] for i in range(n)]
        A[n - 1] = [-abs(rng.uniform(0.2, 1.0)) * 3.0 ** (n - i - 1) for i in range(n)]
        return A
    if cls == "nilpotent":
        return [[1.0 if j == i + 1 else 0.0 for j in range(n)] for i in range(n)]
    if cls == "uppertri":
        return [[u() if j >= i else 0.0 for j in range(n)] for i in range(n)]
    if cls == "skew":
        M = [[u() for _ in range(n)] for _ in range(n)]
        return [[M[i][j] - M[j][i] for j in range(n)] for i in range(n)]
    raise ValueError(cls)


CLASSES = ["dense", "stable", "companion", "nilpotent", "uppertri", "skew"]


def gen_eg_ref_case(rng, order, dtype, cls=None, norm=None):
    import struct
    n = rng.choice([1, 2, 3, 4, 5, 6])
    cls = cls or rng.choice(CLASSES)
    if n == 1 and cls in ("nilpotent", "skew"):
        cls = "dense"
    norm = norm or rng.choice([1e-6, 1e-3, 0.05, 0.3, 2.0, 10.0, 30.0, 50.0])
    A = rand_matrix(rng, cls, n)
    s = max(sum(abs(A[i][j]) for i in range(n)) for j in range(n))
    A = [[v * norm / s for v in r] for r in A]
    mB = rng.choice([1, n, n])
    B = [[rng.uniform(-1, 1) for _ in range(mB)] for _ in range(n)]
    if dtype == "float32":
        f32 = lambda x: struct.unpack("f", struct.pack("f", x))[0]  # noqa: E731
        A = [[f32(v) for v in r] for r in A]
        B = [[f32(v) for v in r] for r in B]
    return {"order": order, "n": n, "mB": mB, "A": [[Fr(v) for v in r] for r in A], "B": [[Fr(v) for v in r] for r in B],
            "dtype": dtype, "cls": cls, "norm": norm}


def eg_term(c, num):
    return (f"eg_run {lib.coq_nat(c['order'])} {lib.coq_nat(c['n'])} {lib.coq_nat(c['mB'])} {lib.coq_nat(num)} "
            f"{lib.qcmat(c['A'])} {lib.qcmat(c['B'])}")


# ---- exponential priors ----
def gen_prior_case(rng, which, quick, zero_drift=False, small=False):
    q = rng.randint(0 if which == "ou" else 1, 2 if (quick or small) else 6)
    d = rng.randint(1, 2 if small else 3)
    d = max(1, min(d, 12 // (q + 1)))     # the fixed-point reference works on 2N x 2N blocks: keep N <= 12
    c = {"prior": which, "q": q, "d": d, "base": rng.choice([None, [gen_scale(rng) for _ in range(d)]]),
         "out": gen_scale(rng)}
    if which == "ou":
        c["Lop"] = [[Fr(0) if zero_drift else Fr(rng.randint(-6, 6), 2) for _ in range(d)] for _ in range(d)]
    elif which == "matern":
        c["length_scale"] = Fr(rng.choice([1, 2, 3, 5, 8]), rng.choice([1, 2, 4]))
    else:
        c["W"] = [[[Fr(0) if zero_drift else Fr(rng.randint(-4, 4), 2) for _ in range(d)] for _ in range(d)]
                  for _ in range(q + 1)]
    for _ in range(200):
        c["h"] = gen_h(rng)
        z = math.sqrt(2 * (q + 1 - 0.5)) / float(c["length_scale"]) if which == "matern" else None
        if ref.norm1(documented_drift(c, z)) * c["h"] <= 50:
            break
    else:
        c["h"] = Fr(1, 2 ** 10)
    return c


def documented_drift(c, z_float=None):
    """F = kron(shift, I_d) with the documented bottom block (Fractions; Matern uses the float z exactly)."""
    q, d = c["q"], c["d"]
    N = (q + 1) * d
    F = [[Fr(0)] * N for _ in range(N)]
    for i in range(q * d):
        F[i][i + d] = Fr(1)
    D = q + 1
    for r in range(d):
        for k in range(q + 1):
            for a in range(d):
                if c["prior"] == "ou":
                    v = c["Lop"][r][a] if k == q else Fr(0)
                elif c["prior"] == "matern":
                    v = -Fr(math.comb(D, k)) * Fr(z_float) ** (D - k) if a == r else Fr(0)
                else:
                    v = c["W"][k][r][a]
                F[q * d + r][k * d + a] = v
    return F


def main():
    ck = lib.Check("C09")
    t_start = time.time()
    pr = ck.run_proof()
    rng = ck.rng
    quick = ck.tier == "quick"
    build = ensure_built(with_proofs=True)
    ck.hist["expgram_development"] = {"translate": build["translate"], "compiled": build["compiled"],
                                      "errors": build["errors"]}
    extra_thms = []
    if build["assumptions"]:
        blocks = lib.parse_assumptions(build["assumptions"])
        with open(os.path.join(lib.COQ, MY_PROOFS[-1])) as f:
            import re
            names = re.findall(r"^\s*Print Assumptions\s+([A-Za-z_][\w']*)", f.read(), re.M)
        extra_thms = [{"theorem": nm, "assumptions": (b if b else "Closed under the global context")}
                      for nm, b in zip(names, blocks)]
        ck.hist["expgram_theorems"] = {"n": len(extra_thms), "closed": sum(1 for t in extra_thms if t["assumptions"] == "Closed under the global context")}
        ck.notes.append({"expgram_theorems": extra_thms})
    model_ok = not build["errors"] or all("Proofs/" in e for e in build["errors"])
    try:
        tables = translate_expgram.tables()
    except translate_expgram.TranslateError as e:
        tables = None
        ck.notes.append(f"translate_expgram failed: {e}")

    st = ref.self_test()
    ck.hist["reference_self_test_abs_diff"] = {"value": st}
    if st > 1e-40:
        ck.report("C09.reference", f"the two independent reference evaluations disagree by {st:.3g}", {"diff": st}, nofail=True)

    # ------------------------------------------------------------ generate
    qmax = 6 if quick else 10
    iwp_cases = []
    for kind in KINDS:
        for q in range(qmax + 1):
            c = gen_iwp(rng, qmax, kind=kind, q=q)
            c["h"] = gen_h(rng)
            iwp_cases.append(c)
    for _ in range(9 if quick else 400):
        c = gen_iwp(rng, qmax)
        c["h"] = rng.choice([gen_h(rng), Fr(1, 2 ** 19), Fr(100), Fr(1)])
        iwp_cases.append(c)
    merge_cases = []
    for kind in KINDS:
        for q in ([0, 1, 2, 4, 6] if quick else range(qmax + 1)):
            c = gen_iwp(rng, qmax, kind=kind, q=q)
            c["h1"], c["h2"] = gen_h_pair(rng)
            merge_cases.append(c)
    for _ in range(0 if quick else 200):
        c = gen_iwp(rng, qmax)
        c["h1"], c["h2"] = gen_h_pair(rng)
        merge_cases.append(c)
    lin_cases = []
    for _ in range(9 if quick else 120):
        c = gen_iwp(rng, qmax)
        if c["base"] is None:
            continue
        c["h"] = gen_h(rng)
        c["c"] = rng.choice([Fr(2), Fr(3), Fr(1, 4), Fr(5, 2), Fr(7, 8), Fr(10)])
        lin_cases.append(c)
    hil_cases = [{"n": n, "K": 0} for n in range(1, 12)] + [{"n": n, "K": K} for K in (1, 2, 3) for n in ((3, 7, 11) if quick else range(1, 12))]
    iwp1d_cases = [{"q": q} for q in range(0, 11)]

    eg_model_cases, eg_ref_cases, eg_ref32_cases, dbl_cases = [], [], [], []
    if tables is not None:
        for order in ORDERS:
            for _ in range(4 if quick else 40):
                eg_model_cases.append(gen_eg_model_case(rng, tables, order, 4 if quick else 5, 3 if quick else 6))
        # designated cheap cases that are also evaluated inside Coq
        cross_cases = [gen_eg_model_case(rng, tables, 3, 2, 1), gen_eg_model_case(rng, tables, 13, 2, 0)]
        eg_model_cases = cross_cases + eg_model_cases
        for order in ORDERS:
            for cls in CLASSES:
                for norm in ([50.0, 2.0] if quick else [50.0, 30.0, 10.0, 2.0, 0.3, 0.05, 1e-3, 1e-6]):
                    for _ in range(1 if quick else 3):
                        eg_ref_cases.append(gen_eg_ref_case(rng, order, "float64", cls, norm))
            for _ in range(4 if quick else 40):
                eg_ref32_cases.append(gen_eg_ref_case(rng, order, "float32"))
    for _ in range(6 if quick else 60):
        n = rng.randint(1, 4)
        Phi = [[Fr(rng.uniform(-1.5, 1.5)) for _ in range(n)] for _ in range(n)]
        U = [[Fr(rng.uniform(-1, 1)) if j <= i else Fr(0) for j in range(n)] for i in range(n)]
        dbl_cases.append({"n": n, "eA": Phi, "U": U})

    prior_cases, prior32_cases, prior_model_idx = [], [], []
    for which in ("ou", "matern", "exp"):
        for _ in range(5 if quick else 40):
            prior_cases.append(gen_prior_case(rng, which, quick))
        for _ in range(2 if quick else 10):
            # float32: keep the Taylor preconditioner h^q/q! and its inverse inside the float32 range
            # (q = 6, h = 1e-6 gives p_inv = 720/h^6 = 6.7e38 > float32 max: the transition is then non-finite)
            while True:
                c32 = gen_prior_case(rng, which, quick)
                pq = float(c32["h"]) ** c32["q"] / math.factorial(c32["q"])
                if 1e-25 <= pq <= 1e25:
                    break
            prior32_cases.append(c32)
    for which in ("ou", "exp"):
        for _ in range(2 if quick else 8):
            prior_cases.append(gen_prior_case(rng, which, quick, zero_drift=True))
    for which in ("ou", "matern", "exp"):
        for _ in range(1 if quick else 6):
            c = gen_prior_case(rng, which, quick, small=True)
            c["h"] = Fr(rng.choice([1, 3, 5]), 2 ** rng.randint(3, 8))
            prior_model_idx.append(len(prior_cases))
            prior_cases.append(c)

    # ------------------------------------------------------------ implementation (background)
    tasks64 = []

    def add(kind, cases, mk):
        idx = []
        for c in cases:
            idx.append(len(tasks64))
            tasks64.append(mk(c))
        return idx

    def base_f(c):
        return floatable(c["base"])

    ix_iwp = add("iwp", iwp_cases, lambda c: {"t": "iwp", "kind": c["kind"], "q": c["q"], "d": c["d"], "base": base_f(c),
                                               "h": float(c["h"]), "out": floatable(c["out"])})
    ix_merge = add("merge", merge_cases, lambda c: {"t": "merge", "kind": c["kind"], "q": c["q"], "d": c["d"], "base": base_f(c),
                                                     "h1": float(c["h1"]), "h2": float(c["h2"]), "out": floatable(c["out"])})
    ix_lin = add("lin", lin_cases, lambda c: {"t": "lin", "kind": c["kind"], "q": c["q"], "d": c["d"], "base": base_f(c),
                                               "h": float(c["h"]), "out": floatable(c["out"]), "c": float(c["c"])})
    ix_hil = add("hilbert", hil_cases, lambda c: {"t": "hilbert", "n": c["n"], "K": c["K"]})
    ix_1d = add("iwp1d", iwp1d_cases, lambda c: {"t": "iwp1d", "q": c["q"]})
    ix_egm = add("expgram", eg_model_cases, lambda c: {"t": "expgram", "order": c["order"], "dtype": "float64",
                                                        "A": floatable(c["A"]), "B": floatable(c["B"])})
    ix_egr = add("expgram", eg_ref_cases, lambda c: {"t": "expgram", "order": c["order"], "dtype": "float64",
                                                      "A": floatable(c["A"]), "B": floatable(c["B"])})
    ix_dbl = add("double", dbl_cases, lambda c: {"t": "double", "eA": floatable(c["eA"]), "U": floatable(c["U"])})

    def prior_task(c):
        t = {"t": "expprior", "prior": c["prior"], "q": c["q"], "d": c["d"], "base": base_f(c), "h": float(c["h"]),
             "out": float(c["out"])}
        for k in ("Lop", "W"):
            if k in c:
                t[k] = floatable(c[k])
        if "length_scale" in c:
            t["length_scale"] = float(c["length_scale"])
        return t

    ix_pr = add("expprior", prior_cases, prior_task)
    tasks32 = [{"t": "expgram", "order": c["order"], "dtype": "float32", "A": floatable(c["A"]), "B": floatable(c["B"])}
               for c in eg_ref32_cases] + [prior_task(c) for c in prior32_cases]

    pool = cf.ThreadPoolExecutor(max_workers=2)
    fut64 = pool.submit(run_impl_parallel, "c09_impl.py", tasks64, 6, "a")
    fut32 = pool.submit(run_impl_parallel, "c09_impl32.py", tasks32, 2, "b")

    # ------------------------------------------------------------ model: IWP part (lib's extracted model)
    emit, owner = [], []
    for i, c in enumerate(iwp_cases):
        for b in range(n_model_blocks(c)):
            emit.append(lambda c=c, b=b: iwp_terms(c)[b])
            owner.append(("iwp", i, b))
    for i, c in enumerate(merge_cases):
        for b, s2 in enumerate(block_s2(c)):
            emit.append(lambda c=c, s2=s2: f"c09_merge {lib.coq_nat(c['q'])} {lib.qclit(c['h1'])} {lib.qclit(c['h2'])} {lib.qclit(s2)}")
            owner.append(("merge", i, b))
            emit.append(lambda c=c, s2=s2: f"c09_closed {lib.coq_nat(c['q'])} {lib.qclit(c['h1'] + c['h2'])} {lib.qclit(s2)}")
            owner.append(("closed", i, b))
    iwp_model = {}
    try:
        vals, xinfo = lib.dual_eval("C09", HEADER_IWP, emit, sample=3, shard=40)
        ck.hist["ocaml_vs_coq_crosscheck_iwp"] = xinfo
        for o, v in zip(owner, vals):
            iwp_model[o] = lib.decode_optQ(v)
    except RuntimeError as e:
        ck.notes.append(f"IWP model evaluation failed: {str(e)[:600]}")
        ck.report("C09.model-eval", "model evaluation failed (Run/GaussRun.v c09_*)", {"error": str(e)[:1500]}, nofail=True)

    # ------------------------------------------------------------ model: expgram part (my extracted model)
    # needs the implementation's own doubling counts: wait for the x64 runner first
    try:
        res64 = fut64.result()
    except Exception as e:  # noqa: BLE001
        ck.report("C09.impl-runner", f"implementation runner failed: {str(e)[:400]}", {"error": str(e)[:3000]}, nofail=True)
        ck.finish(rule="implementation runner failed")
        return
    eg_emit, eg_owner = [], []
    for i, c in enumerate(eg_model_cases):
        r = res64[ix_egm[i]]
        if "error" in r:
            continue
        eg_emit.append(lambda c=c, r=r: eg_term(c, int(r["num"])))
        eg_owner.append(("eg", i))
    cross = [k for k, o in enumerate(eg_owner) if o[1] in (0, 1)]
    for i, c in enumerate(dbl_cases):
        U = c["U"]
        G = fmm(U, transpose(U))
        eg_emit.append(lambda c=c, G=G: f"eg_double_run {lib.coq_nat(c['n'])} {lib.qcmat(c['eA'])} {lib.qcmat(G)}")
        eg_owner.append(("dbl", i))
    cross.append(len(eg_owner) - 1)
    var_cases = []
    for i in range(3 if quick else 12):
        n = rng.randint(1, 3)
        mB = rng.randint(1, 2)
        vc = {"n": n, "mB": mB, "A": [[Fr(rng.randint(-6, 6), 4) for _ in range(n)] for _ in range(n)],
              "B": [[Fr(rng.randint(-4, 4), 2) for _ in range(mB)] for _ in range(n)]}
        var_cases.append(vc)
        eg_emit.append(lambda vc=vc: f"eg_variants_run {lib.coq_nat(vc['n'])} {lib.coq_nat(vc['mB'])} {lib.qcmat(vc['A'])} {lib.qcmat(vc['B'])}")
        eg_owner.append(("var", i))
    for i, c in enumerate(hil_cases):
        eg_emit.append(lambda c=c: f"kahan_run {lib.coq_nat(c['K'])} {lib.coq_nat(c['n'])}")
        eg_owner.append(("hil", i))
    cross.append(len(eg_owner) - len(hil_cases) + 4)
    for i, c in enumerate(iwp1d_cases):
        eg_emit.append(lambda c=c: f"iwp_1d_run {lib.coq_nat(c['q'])}")
        eg_owner.append(("1d", i))
    cross.append(len(eg_owner) - len(iwp1d_cases) + 3)
    for i in range(len(prior_cases)):
        c = prior_cases[i]
        r = res64[ix_pr[i]]
        if "error" in r:
            continue
        if c["prior"] == "ou":
            eg_emit.append(lambda c=c: f"bottom_ou_run {lib.coq_nat(c['q'])} {lib.coq_nat(c['d'])} {lib.qcmat(c['Lop'])}")
            eg_owner.append(("drift", i))
        elif c["prior"] == "matern":
            z = math.sqrt(2 * (c["q"] + 1 - 0.5)) / float(c["length_scale"])
            eg_emit.append(lambda c=c, z=z: f"bottom_matern_run {lib.coq_nat(c['q'])} {lib.coq_nat(c['d'])} {lib.qclit(Fr(z))}")
            eg_owner.append(("drift", i))
        if i in prior_model_idx:
            F = [[Fr(v) for v in row] for row in r["F"]]
            base = c["base"] or [Fr(1)] * c["d"]
            eg_emit.append(lambda c=c, r=r, F=F, base=base: (
                f"exp_transition_run {lib.coq_nat(r['order'])} {lib.coq_nat(c['q'])} {lib.coq_nat(c['d'])} {lib.coq_nat(int(r['num']))} "
                f"{lib.qcmat(F)} {lib.qclist(base)} {lib.qclit(c['h'])} {lib.qclit(c['out'] ** 2)}"))
            eg_owner.append(("ptrans", i))
    eg_model = {}
    if model_ok:
        try:
            vals, xinfo = eg_eval(eg_emit, cross, shard=6 if quick else 12)
            ck.hist["ocaml_vs_coq_crosscheck_expgram"] = xinfo
            for o, v in zip(eg_owner, vals):
                eg_model[o] = v if isinstance(v, str) else lib.decode_optQ(v)
        except RuntimeError as e:
            ck.notes.append(f"expgram model evaluation failed: {str(e)[:600]}")
            ck.report("C09.model-eval", "model evaluation failed (Run/ExpGramRun.v)", {"error": str(e)[:1500]}, nofail=True)
    else:
        ck.report("C09.model-build", f"Pade/Legendre model does not build: {build['errors']}", {"errors": build["errors"]}, nofail=True)

    # ============================================================ compare: iwp transitions
    worst = {"iwp_A": 0.0, "iwp_Q_by_q": {}, "merge_Q_by_q": {}, "merge_A": 0.0, "direct_Q_by_q": {}, "lin": 0.0,
             "cross_dim": 0.0}

    def upd(dct, q, w):
        dct[str(q)] = max(dct.get(str(q), 0.0), w)

    for i, c in enumerate(iwp_cases):
        r = res64[ix_iwp[i]]
        jc = jsonable(c)
        ck.count("iwp" + json.dumps(jc, sort_keys=True), nontrivial=c["q"] >= 1, part="iwp", kind=c["kind"], q=c["q"], d=c["d"],
                 log10_h=round(math.log10(float(c["h"]))),
                 sample={"part": "iwp", "case": jc} if i == 0 else None)
        sig = f"C09.{c['kind']}.iwp.transition"
        if "error" in r:
            ck.report(sig, f"transition raised {r['error']}", {"case": jc, "impl": r})
            continue
        nb = n_model_blocks(c)
        ms = [iwp_model.get(("iwp", i, b)) for b in range(nb)]
        if any(m is None for m in ms):
            continue
        blocks = impl_blocks(r["out"], c)
        for b, (blk, m) in enumerate(zip(blocks, ms)):
            n_out = len(blk[0])
            cc = len(blk[1][0])
            Am, bm, Qm, k = split_cond(m, n_out, n_out, cc)
            mism, wA, wQ = cmp_cond(blk, (Am, bm, Qm), TOL_IWP_A, tol_iwp_q(c["q"]))
            worst["iwp_A"] = max(worst["iwp_A"], wA)
            upd(worst["iwp_Q_by_q"], c["q"], wQ)
            if mism:
                ck.report(sig, f"{c['kind']} IWP q={c['q']} d={c['d']} h={float(c['h'])!r} block {b}: {mism}",
                          {"case": jc, "block": b, "mismatch": mism, "impl": r["out"]})
                break

    # ============================================================ compare: merges
    for i, c in enumerate(merge_cases):
        r = res64[ix_merge[i]]
        jc = jsonable(c)
        ck.count("merge" + json.dumps(jc, sort_keys=True), nontrivial=c["q"] >= 1, part="merge", kind=c["kind"], q=c["q"], d=c["d"],
                 sample={"part": "merge", "case": jc} if i == 0 else None)
        sig = f"C09.{c['kind']}.iwp.merge"
        if "error" in r:
            ck.report(sig, f"merge raised {r['error']}", {"case": jc, "impl": r})
            continue
        q = c["q"]
        n = q + 1
        s2s = block_s2(c)
        bad = None
        for name in ("merged", "direct"):
            blocks, crossv = per_dim_blocks(impl_blocks(r[name], c), c)
            worst["cross_dim"] = max(worst["cross_dim"], crossv)
            if crossv > 1e-12:
                bad = f"{name}: cross-dimension coupling {crossv:.3g} in the dense transition"
            for b, ((Ai, Qi), s2) in enumerate(zip(blocks, s2s)):
                mm = iwp_model.get(("merge", i, b))
                mc = iwp_model.get(("closed", i, b))
                if mm is None or mc is None:
                    continue
                Amm, _bm, Qmm, _k = split_cond(mm, n, n, 1)
                Amc, Qmc = reshape(mc[:n * n], n, n), reshape(mc[n * n:], n, n)
                if (Amm, Qmm) != (Amc, Qmc):
                    ck.report("C09.model.merge-vs-closed", f"model: merged IWP transitions differ from the closed form at h1+h2 (q={q})",
                              {"case": jc}, nofail=True)
                pa, pq = closed_form(q, c["h1"] + c["h2"], s2)
                if (pa, pq) != (Amc, Qmc):
                    ck.report("C09.model.closed-vs-python", f"model closed form differs from the documented formula (q={q})",
                              {"case": jc}, nofail=True)
                zb = [[0.0] for _ in range(n)]
                zm = [[Fr(0)] for _ in range(n)]
                mism, wA, wQ = cmp_cond((Ai, zb, Qi), (Amc, zm, Qmc), 1e-11 if name == "merged" else TOL_IWP_A,
                                        tol_iwp_q(q) * (10 if name == "merged" else 1))
                worst["merge_A"] = max(worst["merge_A"], wA)
                upd(worst["merge_Q_by_q" if name == "merged" else "direct_Q_by_q"], q, wQ)
                if mism and not bad:
                    bad = f"{name} ({'t2.merge(t1)' if name == 'merged' else 'transition(h1+h2)'}) vs exact transition over h1+h2, block {b}: {mism}"
        if bad:
            ck.report(sig, f"{c['kind']} IWP q={q} d={c['d']} h1={float(c['h1'])!r} h2={float(c['h2'])!r}: {bad}",
                      {"case": jc, "mismatch": bad, "impl": r})

    # ============================================================ compare: linearity
    for i, c in enumerate(lin_cases):
        r = res64[ix_lin[i]]
        jc = jsonable(c)
        ck.count("lin" + json.dumps(jc, sort_keys=True), nontrivial=True, part="lin", kind=c["kind"], q=c["q"], d=c["d"])
        sig = f"C09.{c['kind']}.iwp.linearity"
        if "error" in r:
            ck.report(sig, f"transition raised {r['error']}", {"case": jc, "impl": r})
            continue
        refb = impl_blocks(r["ref"], c)
        c2 = float(c["c"]) ** 2
        for name in ("out_scaled", "base_scaled"):
            for (A0, _b0, Q0), (A1, _b1, Q1) in zip(refb, impl_blocks(r[name], c)):
                n = len(Q0)
                for a in range(n):
                    for b in range(n):
                        sc = math.sqrt(abs(Q0[a][a] * Q0[b][b])) * c2
                        e = abs(Q1[a][b] - c2 * Q0[a][b]) / sc if sc > 0 else abs(Q1[a][b])
                        worst["lin"] = max(worst["lin"], e)
                        if e > 1e-12 or A0[a][b] != A1[a][b]:
                            ck.report(sig, f"{c['kind']} IWP q={c['q']}: process noise with {name.split('_')[0]} scale x{float(c['c'])} is not "
                                      f"{c2} x the reference noise (entry {a},{b}: {Q1[a][b]!r} vs {c2 * Q0[a][b]!r})", {"case": jc, "impl": r})

    # ============================================================ compare: hilbert / pascal
    worst_h = {"L2": 0.0, "gram": 0.0, "pascal": 0.0, "gram_flip_by_q": {}}
    for i, c in enumerate(hil_cases):
        r = res64[ix_hil[i]]
        n, K = c["n"], c["K"]
        ck.count(f"hilbert-{n}-{K}", nontrivial=n >= 2, part="hilbert", n=n, K=K)
        if "error" in r:
            ck.report("C09.hilbert", f"cholesky_hilbert({n},{K}) raised {r['error']}", {"case": c, "impl": r})
            continue
        L = r["L"]
        H = [[Fr(1, a + b + K + 1) for b in range(n)] for a in range(n)]
        G = fmm(L, transpose(L))
        bad = None
        for a in range(n):
            for b in range(n):
                e = abs(G[a][b] - float(H[a][b])) / float(H[a][b])
                worst_h["gram"] = max(worst_h["gram"], e)
                if e > TOL_HILBERT:
                    bad = bad or f"(L L^T)[{a}][{b}] = {G[a][b]!r} vs 1/{a + b + K + 1} (rel {e:.3g})"
                if b > a and L[a][b] != 0.0:
                    bad = bad or f"L[{a}][{b}] = {L[a][b]!r} above the diagonal"
        m = eg_model.get(("hil", i))
        if m is not None and not isinstance(m, str):
            L2m, Gm = reshape(m[:n * n], n, n), reshape(m[n * n:], n, n)
            if Gm != H:
                ck.report("C09.model.kahan-vs-hilbert", f"model: Gram of the Kahan factor differs from the Hilbert matrix (n={n}, K={K})",
                          {"case": c}, nofail=True)
            for a in range(n):
                for b in range(a + 1):
                    want = float(L2m[a][b])
                    e = abs(L[a][b] ** 2 - want) / want if want else abs(L[a][b])
                    worst_h["L2"] = max(worst_h["L2"], e)
                    if e > TOL_HILBERT or L[a][b] < 0:
                        bad = bad or f"L[{a}][{b}]^2 = {L[a][b] ** 2!r} vs model {want!r} (rel {e:.3g})"
        if bad:
            ck.report("C09.hilbert", f"cholesky_hilbert(n={n}, K={K}): {bad}", {"case": c, "impl": r, "mismatch": bad})
    for i, c in enumerate(iwp1d_cases):
        r = res64[ix_1d[i]]
        q = c["q"]
        n = q + 1
        ck.count(f"iwp1d-{q}", nontrivial=q >= 1, part="iwp1d", q=q)
        if "error" in r:
            ck.report("C09.hilbert", f"system_matrices_1d_iwp({q}) raised {r['error']}", {"case": c, "impl": r})
            continue
        P = [[Fr(math.comb(q - a, q - b)) if q - b <= q - a else Fr(0) for b in range(n)] for a in range(n)]
        Hf = [[Fr(1, 2 * q + 1 - a - b) for b in range(n)] for a in range(n)]
        m = eg_model.get(("1d", i))
        if m is not None and not isinstance(m, str):
            Pm, Gm, Hm = (reshape(m[k * n * n:(k + 1) * n * n], n, n) for k in range(3))
            if Pm != P or Gm != Hf or Hm != Hf:
                ck.report("C09.model.iwp1d", f"model: flipped Pascal / flipped Kahan Gram / flipped Hilbert disagree with the exact formulas (q={q})",
                          {"case": c}, nofail=True)
        A1, Q1 = r["A"], r["Q"]
        G = fmm(Q1, transpose(Q1))
        bad = None
        for a in range(n):
            for b in range(n):
                if abs(A1[a][b] - float(P[a][b])) > 1e-13 * max(1.0, float(P[a][b])):
                    bad = bad or f"A_1d[{a}][{b}] = {A1[a][b]!r} vs binom({q - a},{q - b}) = {float(P[a][b])!r}"
                worst_h["pascal"] = max(worst_h["pascal"], abs(A1[a][b] - float(P[a][b])) / max(1.0, float(P[a][b])))
                sc = math.sqrt(float(Hf[a][a] * Hf[b][b]))
                e = abs(G[a][b] - float(Hf[a][b])) / sc
                upd(worst_h["gram_flip_by_q"], q, e)
                if e > 1e-12:
                    bad = bad or f"(Q_1d Q_1d^T)[{a}][{b}] = {G[a][b]!r} vs 1/{2 * q + 1 - a - b} (error/scale {e:.3g})"
                if b > a and Q1[a][b] != 0.0:
                    bad = bad or f"Q_1d[{a}][{b}] = {Q1[a][b]!r} above the diagonal"
            if Q1[a][a] < 0:
                bad = bad or f"Q_1d[{a}][{a}] negative"
        if bad:
            ck.report("C09.hilbert", f"system_matrices_1d_iwp({q}): {bad}", {"case": c, "impl": r, "mismatch": bad})

    # ============================================================ compare: expgram vs model
    worst_eg = {str(p): {"model_expm": 0.0, "model_gram": 0.0, "ref64_expm": 0.0, "ref64_gram": 0.0, "ref32_expm": 0.0,
                         "ref32_gram": 0.0, "max_num": 0} for p in ORDERS}
    n_eg_failed = 0
    for i, c in enumerate(eg_model_cases):
        r = res64[ix_egm[i]]
        p = c["order"]
        jc = jsonable(c)
        ck.count("egm" + json.dumps(jc, sort_keys=True), nontrivial=c["n"] >= 2, part="expgram-model", order=p, n=c["n"],
                 num=(int(r["num"]) if "num" in r else -1), sample={"part": "expgram-model", "case": jc} if i == 2 else None)
        if "error" in r:
            ck.report(f"C09.expgram.order{p}.expm", f"exp_gram_cholesky raised {r['error']}", {"case": jc, "impl": r})
            continue
        n = c["n"]
        want, tie = expected_num(ref.norm1(c["A"]), eta_of(tables, p, "float64"), n, p)
        if not tie and int(r["num"]) != want:
            ck.report(f"C09.expgram.order{p}.num", f"order {p}: {int(r['num'])} doublings for ||A||_1={float(ref.norm1(c['A']))!r}, n={n}; "
                      f"the definition max(0, ceil(max(log2(||A||/eta), log2((n-1)/q)))) gives {want}", {"case": jc, "impl": r}, nofail=True)
        if not r["lower"] or not r["diag_nonneg"]:
            ck.report(f"C09.expgram.order{p}.gramian", f"order {p}: returned factor is not lower triangular with non-negative diagonal",
                      {"case": jc, "impl": r})
        m = eg_model.get(("eg", i))
        if m is None or isinstance(m, str):
            n_eg_failed += 1
            continue
        Pm, Gm = reshape(m[:n * n], n, n), reshape(m[n * n:], n, n)
        eE, eG = relmax(r["eA"], Pm), relmax(r["G"], Gm)
        w = worst_eg[str(p)]
        w["model_expm"], w["model_gram"] = max(w["model_expm"], eE), max(w["model_gram"], eG)
        if eE > TOL_MODEL_EG:
            ck.report(f"C09.expgram.order{p}.expm", f"order {p}, n={n}, {int(r['num'])} doublings: e^A differs from the exact model of the same "
                      f"algorithm by {eE:.3g} (relative to max-norm)", {"case": jc, "impl": r, "model": [[float(v) for v in row] for row in Pm]})
        if eG > TOL_MODEL_EG:
            ck.report(f"C09.expgram.order{p}.gramian", f"order {p}, n={n}, {int(r['num'])} doublings: U U^T differs from the exact model of the same "
                      f"algorithm by {eG:.3g} (relative to max-norm)", {"case": jc, "impl": r, "model": [[float(v) for v in row] for row in Gm]})
    ck.hist["expgram_model_cases_not_evaluated"] = {"n": n_eg_failed}
    # the order-3 blocks and the order-13 Pade polynomials as literally written vs the generic model (exact)
    for i, vc in enumerate(var_cases):
        m = eg_model.get(("var", i))
        ck.count("var" + json.dumps(jsonable(vc), sort_keys=True), nontrivial=vc["n"] >= 2, part="model-variants", n=vc["n"])
        if m is None or isinstance(m, str):
            continue
        nb = 4 * vc["n"] * vc["mB"]
        nn = vc["n"] ** 2
        if m[:nb] != m[nb:2 * nb] or m[2 * nb:2 * nb + 2 * nn] != m[2 * nb + 2 * nn:]:
            ck.report("C09.model.variants", "model: the order-3 blocks / order-13 Pade polynomials as written in the source differ from "
                      "the generic initialiser", {"case": jsonable(vc)}, nofail=True)
    worst_dbl = 0.0
    for i, c in enumerate(dbl_cases):
        r = res64[ix_dbl[i]]
        n = c["n"]
        ck.count("dbl" + json.dumps(jsonable(c), sort_keys=True), nontrivial=n >= 2, part="double", n=n)
        m = eg_model.get(("dbl", i))
        if "error" in r:
            ck.report("C09.expgram.double", f"_exp_gram_cholesky_double raised {r['error']}", {"case": jsonable(c), "impl": r})
            continue
        if m is None or isinstance(m, str):
            continue
        Pm, Gm = reshape(m[:n * n], n, n), reshape(m[n * n:], n, n)
        e = max(relmax(r["eA"], Pm), relmax(r["G"], Gm))
        worst_dbl = max(worst_dbl, e)
        if e > TOL_DOUBLE or r["i"] != 1:
            ck.report("C09.expgram.double", f"one doubling step differs from (Phi Phi, Gamma + Phi Gamma Phi^T) by {e:.3g}",
                      {"case": jsonable(c), "impl": r})

    # ============================================================ compare: expgram vs independent reference
    def ref_compare(c, r, tol, tag):
        p, n = c["order"], c["n"]
        W = fmm(c["B"], transpose(c["B"]))
        eA, G = ref.expm_gramian(c["A"], W)
        eE, eG = relmax(r["eA"], eA), relmax(r["G"], G)
        w = worst_eg[str(p)]
        w[tag + "_expm"], w[tag + "_gram"] = max(w[tag + "_expm"], eE), max(w[tag + "_gram"], eG)
        w["max_num"] = max(w["max_num"], int(r["num"]))
        jc = jsonable(c)
        if not (eE <= tol):
            ck.report(f"C09.expgram.order{p}.expm", f"order {p} {c['dtype']} {c['cls']} n={n} ||A||_1={c['norm']}: e^A relative error {eE:.3g} "
                      f"> {tol:.1g} against the independent reference", {"case": jc, "impl": r, "reference": [[float(v) for v in row] for row in eA]})
        if not (eG <= tol):
            ck.report(f"C09.expgram.order{p}.gramian", f"order {p} {c['dtype']} {c['cls']} n={n} ||A||_1={c['norm']}: Gramian relative error {eG:.3g} "
                      f"> {tol:.1g} against the independent reference", {"case": jc, "impl": r, "reference": [[float(v) for v in row] for row in G]})

    for i, c in enumerate(eg_ref_cases):
        r = res64[ix_egr[i]]
        ck.count("egr" + json.dumps(jsonable(c), sort_keys=True), nontrivial=c["n"] >= 2, part="expgram-ref64", order=c["order"], n=c["n"],
                 cls=c["cls"], norm=c["norm"], sample={"part": "expgram-ref64", "case": jsonable(c)} if i == 0 else None)
        if "error" in r:
            ck.report(f"C09.expgram.order{c['order']}.expm", f"exp_gram_cholesky raised {r['error']}", {"case": jsonable(c), "impl": r})
            continue
        ref_compare(c, r, TOL_REF64[c["order"]], "ref64")

    # ============================================================ exponential priors (float64)
    worst_pr = {"ou": 0.0, "matern": 0.0, "exp": 0.0, "drift": 0.0, "model": 0.0, "precon": 0.0}

    def prior_compare(c, r, tol, model=None):
        """returns mismatch text or None; updates worst_pr."""
        which, q, d = c["prior"], c["q"], c["d"]
        N = (q + 1) * d
        h = c["h"]
        z = math.sqrt(2 * (q + 1 - 0.5)) / float(c["length_scale"]) if which == "matern" else None
        F = documented_drift(c, z)
        base = c["base"] or [Fr(1)] * d
        Bd = [[base[a] if (i == q * d + a) else Fr(0) for a in range(d)] for i in range(N)]
        for i in range(N):
            for j in range(N):
                want = float(F[i][j])
                e = abs(r["F"][i][j] - want) / max(abs(want), 1e-300) if want else abs(r["F"][i][j])
                if tol <= 1e-9:
                    worst_pr["drift"] = max(worst_pr["drift"], e)
                if e > (1e-13 if tol <= 1e-9 else 1e-5):
                    return f"drift matrix entry ({i},{j}) = {r['F'][i][j]!r} vs documented {want!r}"
            for a in range(d):
                if abs(r["B"][i][a] - float(Bd[i][a])) > 1e-6 * max(1.0, abs(float(Bd[i][a]))):
                    return f"dispersion matrix entry ({i},{a}) = {r['B'][i][a]!r} vs {float(Bd[i][a])!r}"
        if model is not None and model != [v for row in F for v in row]:
            ck.report("C09.model.drift", f"model: Jacobian of the {which} `autonomous` map differs from the documented companion matrix",
                      {"case": jsonable(c)}, nofail=True)
        # exact transition over h of the implementation's own drift/dispersion (floats taken exactly)
        Fi = [[Fr(v) * h for v in row] for row in r["F"]]
        Bi = [[Fr(v) for v in row] for row in r["B"]]
        W = [[v * h for v in row] for row in fmm(Bi, transpose(Bi))]
        eA, G = ref.expm_gramian(Fi, W)
        f = math.factorial
        pvec = [h ** (q - i // d) / f(q - i // d) for i in range(N)]
        A, _b, Q, _k = split_cond(r["out"], N, N, 1)
        o2 = c["out"] ** 2
        # compare in preconditioned coordinates: P^-1 A P and P^-1 Q P^-1
        Ap = [[A[i][j] * float(pvec[j] / pvec[i]) for j in range(N)] for i in range(N)]
        Qp = [[Q[i][j] / float(pvec[i] * pvec[j]) for j in range(N)] for i in range(N)]
        eAp = [[eA[i][j] * pvec[j] / pvec[i] for j in range(N)] for i in range(N)]
        Gp = [[o2 * G[i][j] / (pvec[i] * pvec[j]) for j in range(N)] for i in range(N)]
        eE, eG = relmax(Ap, eAp), relmax(Qp, Gp)
        if tol <= 1e-9:
            worst_pr[which] = max(worst_pr[which], eE, eG)
        else:
            worst_pr[which + "32"] = max(worst_pr.get(which + "32", 0.0), eE, eG)
        if not (eE <= tol):
            return f"transition matrix differs from exp(F h) by {eE:.3g} (preconditioned coordinates, relative to max-norm)"
        if not (eG <= tol):
            return f"process noise differs from the Gramian over [0,h] by {eG:.3g} (preconditioned coordinates, relative to max-norm)"
        return None

    for i, c in enumerate(prior_cases):
        r = res64[ix_pr[i]]
        jc = jsonable(c)
        zero = (c["prior"] == "ou" and all(v == 0 for row in c["Lop"] for v in row)) or \
               (c["prior"] == "exp" and all(v == 0 for Wk in c["W"] for row in Wk for v in row))
        ck.count("prior" + json.dumps(jc, sort_keys=True), nontrivial=not zero, part="expprior", prior=c["prior"], q=c["q"], d=c["d"],
                 log10_h=round(math.log10(float(c["h"]))), zero_drift=zero, num=(int(r["num"]) if "num" in r else -1),
                 sample={"part": "expprior", "case": jc} if i == 0 else None)
        sig = f"C09.exponential.{c['prior']}"
        if "error" in r:
            ck.report(sig, f"{c['prior']} prior raised {r['error']}", {"case": jc, "impl": r})
            continue
        dm = eg_model.get(("drift", i))
        mism = prior_compare(c, r, TOL_PRIOR64, model=dm if (dm is not None and not isinstance(dm, str)) else None)
        q, d = c["q"], c["d"]
        N = (q + 1) * d
        if not mism and zero:
            A, _b, Q, _k = split_cond(r["out"], N, N, 1)
            base = c["base"] or [Fr(1)] * d
            for a in range(d):
                idx = [k * d + a for k in range(q + 1)]
                ca, cq = closed_form(q, c["h"], base[a] ** 2 * c["out"] ** 2)
                zb = [[0.0] for _ in idx]
                mm, wA, wQ = cmp_cond(([[A[x][y] for y in idx] for x in idx], zb, [[Q[x][y] for y in idx] for x in idx]),
                                      (ca, [[Fr(0)] for _ in idx], cq), 1e-10, 1e-10)
                # entries below the diagonal of A are compared in preconditioned coordinates above; here only the closed form
                if mm and "vs model 0" not in mm:
                    mism = f"zero drift: {mm} (IWP closed form)"
        pm = eg_model.get(("ptrans", i))
        if not mism and pm is not None and not isinstance(pm, str):
            Am, _bm, Qm, _k = split_cond(pm, N, N, 1)
            f = math.factorial
            pvec = [c["h"] ** (q - k // d) / f(q - k // d) for k in range(N)]
            A, _b, Q, _k = split_cond(r["out"], N, N, 1)
            Ap = [[A[x][y] * float(pvec[y] / pvec[x]) for y in range(N)] for x in range(N)]
            Qp = [[Q[x][y] / float(pvec[x] * pvec[y]) for y in range(N)] for x in range(N)]
            Amp = [[Am[x][y] * pvec[y] / pvec[x] for y in range(N)] for x in range(N)]
            Qmp = [[Qm[x][y] / (pvec[x] * pvec[y]) for y in range(N)] for x in range(N)]
            e = max(relmax(Ap, Amp), relmax(Qp, Qmp))
            worst_pr["model"] = max(worst_pr["model"], e)
            if e > TOL_MODEL_EG:
                mism = f"transition differs from the exact model of DenseExponential.transition (order {r['order']}, {int(r['num'])} doublings) by {e:.3g}"
        if mism:
            ck.report(sig, f"{c['prior']} prior q={q} d={d} h={float(c['h'])!r}: {mism}", {"case": jc, "impl": r, "mismatch": mism})

    # ============================================================ float32 runner
    try:
        res32 = fut32.result()
    except Exception as e:  # noqa: BLE001
        res32 = None
        ck.notes.append(f"float32 runner failed: {str(e)[:500]}")
        ck.report("C09.impl-runner32", f"float32 implementation runner failed: {str(e)[:300]}", {"error": str(e)[:3000]}, nofail=True)
    if res32 is not None:
        for i, c in enumerate(eg_ref32_cases):
            r = res32[i]
            ck.count("eg32" + json.dumps(jsonable(c), sort_keys=True), nontrivial=c["n"] >= 2, part="expgram-ref32", order=c["order"], n=c["n"])
            if "error" in r:
                ck.report(f"C09.expgram.order{c['order']}.expm", f"exp_gram_cholesky (float32) raised {r['error']}", {"case": jsonable(c), "impl": r})
                continue
            if r["dtype"] != ["float32", "float32"]:
                ck.notes.append(f"float32 case returned dtypes {r['dtype']}")
            ref_compare(c, r, TOL_REF32[c["order"]], "ref32")
        for i, c in enumerate(prior32_cases):
            r = res32[len(eg_ref32_cases) + i]
            jc = jsonable(c)
            ck.count("prior32" + json.dumps(jc, sort_keys=True), nontrivial=True, part="expprior32", prior=c["prior"], q=c["q"], d=c["d"])
            sig = f"C09.exponential.{c['prior']}"
            if "error" in r:
                ck.report(sig, f"{c['prior']} prior (float32) raised {r['error']}", {"case": jc, "impl": r})
                continue
            # float32: the loss grows like 2^num * eps32 with the number of doublings, i.e. proportionally to ||drift * h|| (see the
            # note at TOL_REF32): the tolerance is scaled with the step (observed on the unchanged tree: 4.7e-4 at q = 4, h = 15)
            mism = prior_compare(c, r, TOL_PRIOR32 * max(1.0, float(c["h"])))
            if mism:
                ck.report(sig, f"{c['prior']} prior (float32, order {r['order']}) q={c['q']} d={c['d']} h={float(c['h'])!r}: {mism}",
                          {"case": jc, "impl": r, "mismatch": mism})

    ck.hist["worst_discrepancy_iwp"] = worst
    ck.hist["worst_discrepancy_hilbert"] = worst_h
    ck.hist["worst_rel_error_expgram_by_order"] = worst_eg
    ck.hist["worst_discrepancy_doubling_step"] = {"value": worst_dbl}
    ck.hist["worst_discrepancy_exponential_priors"] = worst_pr
    ck.hist["tolerances"] = {"iwp_A": TOL_IWP_A, "iwp_Q(q)": {str(q): tol_iwp_q(q) for q in range(11)}, "expgram_model": TOL_MODEL_EG,
                             "expgram_ref64": {str(k): v for k, v in TOL_REF64.items()}, "expgram_ref32": {str(k): v for k, v in TOL_REF32.items()}, "prior64": TOL_PRIOR64, "prior32": TOL_PRIOR32}
    ck.hist["phases_s"] = {"total": round(time.time() - t_start, 1)}

    proof_errors = list(pr["errors"]) + [e for e in build["errors"]]
    if proof_errors and not ck.violations:
        ck.report("C09.proof", f"proof obligations no longer check: {proof_errors}",
                  {"broken": pr.get("failed_at", "Props/C09.v / Props/C09b.v"), "errors": proof_errors}, nofail=True)
    ck.finish(rule="iwp: every (factorisation, q) once plus random (kind, q<=6 (10 thorough), d<=5, dyadic h in [1e-6,1e2], dyadic diagonal base "
              "scales and calibrated scales); merge: (kind, q) grid with h1+h2 exact; expgram-model: random small-integer matrices scaled by a "
              "power of two to hit a prescribed number of doublings, n<=4 (5), all five orders; expgram-ref: six matrix classes x norms up to 50 "
              "x n<=6 x five orders, float64 and float32; expprior: OU/Matern/general exponential, q<=2 (6), d<=3, (q+1)d<=12, h dyadic in [1e-6,1e2]; "
              "non-trivial = q>=1 resp. n>=2 resp. non-zero drift; distinct by full input")


if __name__ == "__main__":
    main()
