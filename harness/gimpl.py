"""Helpers shared by the implementation runners (run under /venv/bin/python, PYTHONPATH=/repo)."""

import jax

jax.config.update("jax_enable_x64", True)
import jax.numpy as jnp  # noqa: E402
import numpy as np  # noqa: E402

import probdiffeq  # noqa: E402
from probdiffeq import probdiffeq as pdq  # noqa: E402

import os as _os

assert probdiffeq.__file__.startswith(_os.environ.get("VERIF_REPO", "/repo") + "/"), probdiffeq.__file__

KINDS = {"dense": pdq.state_space_model_dense, "iso": pdq.state_space_model_isotropic,
         "blockdiag": pdq.state_space_model_blockdiag}


def ssm_of(kind):
    return KINDS[kind]()


def arr(x):
    return jnp.asarray(np.array(x, dtype=np.float64))


def normal_blocks(rv, kind):
    """List of (mean 2-D list, cov 2-D list) in the model's block layout."""
    m = np.asarray(rv.mean_flat, dtype=np.float64)
    L = np.asarray(rv.cholesky_flat, dtype=np.float64)
    if kind == "dense":
        return [[m.reshape(-1, 1).tolist(), (L @ L.T).tolist()]]
    if kind == "iso":
        return [[m.tolist(), (L @ L.T).tolist()]]
    return [[m[a].reshape(-1, 1).tolist(), (L[a] @ L[a].T).tolist()] for a in range(m.shape[0])]


def cond_blocks(c, kind):
    """Plain form (after preconditioner_apply) as list of (A, b, Q)."""
    p = c.preconditioner_apply()
    A = np.asarray(p.A, dtype=np.float64)
    nb = normal_blocks(p.noise, kind)
    if kind == "blockdiag":
        return [[A[a].tolist(), nb[a][0], nb[a][1]] for a in range(A.shape[0])]
    return [[A.tolist(), nb[0][0], nb[0][1]]]


def flat_blocks_normal(blocks):
    out = []
    for mean, cov in blocks:
        out += [x for r in mean for x in r] + [x for r in cov for x in r]
    return out


def flat_blocks_cond(blocks):
    out = []
    for A, b, Q in blocks:
        out += [x for r in A for x in r] + [x for r in b for x in r] + [x for r in Q for x in r]
    return out
