"""C19 check: constrained least-squares points are feasible, optimal, exact if affine.

Correspondence between Model/LstSq.v (Coq, exact rationals) and
probdiffeq.lstsq_constrained_gauss_newton / taylor_point_maximum_a_posteriori /
DenseResidual.linearize (float64).  ONE-STEP rule: the model is evaluated on the
implementation's own states (converted exactly), never iterated over long nonlinear runs.
"""

from __future__ import annotations

import concurrent.futures as cf
import json
import math
import os
import re
import sys
import time
from fractions import Fraction as Fr

sys.path.insert(0, os.path.dirname(os.path.abspath(__file__)))
import lib  # noqa: E402

HEADER = """From Coq Require Import List ZArith QArith Qcanon.
From PD Require Import Base.Field Base.Matrix Model.Poly Model.LstSq Run.C19Run.
Import ListNotations.
Local Open Scope Z_scope.
"""


# ------------------------------------------------------------------ generation
def q4(rng, lo=-8, hi=8, den=4):
    return Fr(rng.randint(lo, hi), den)


def rlower(rng, n, singular):
    L = [[Fr(0)] * n for _ in range(n)]
    for i in range(n):
        for j in range(i + 1):
            L[i][j] = Fr(rng.randint(-6, 6), 4)
        if L[i][i] == 0:
            L[i][i] = Fr(rng.choice([1, 2, 3, 5]), 4)
    if singular:
        for k in rng.sample(range(n), rng.randint(1, max(1, n // 2))):
            for i in range(n):
                L[i][k] = Fr(0)
    return L


def gram(L):
    n = len(L)
    return [[sum(L[i][k] * L[j][k] for k in range(n)) for j in range(n)] for i in range(n)]


def unit(D, j, e=1):
    ex = [0] * D
    ex[j] = e
    return ex


def gen_case(rng, tier, force=None):
    Dmax = 6 if tier == "quick" else 10
    D = rng.randint(2, Dmax)
    K = rng.randint(1, D - 1)
    kind = force or rng.choice(["affine"] * 4 + ["nonlinear"] * 5 + ["stall"])
    update = False
    stall = False
    if kind == "stall":
        # two affine rows that contradict each other + nonlinear rows: the residual cannot
        # vanish, the increments shrink gradually -> exits through the increment test
        kind, stall = "nonlinear", True
        D = max(D, 4)
        K = rng.randint(3, D - 1)
    if kind == "update":               # affine residual through the dense SSM (D even)
        kind = "affine"
        update = True
        D = rng.choice([2, 4, 6] if tier == "quick" else [2, 4, 6, 8, 10])
        K = rng.randint(1, D - 1)
    A = [[Fr(0) if rng.random() < 0.2 else q4(rng) for _ in range(D)] for _ in range(K)]
    for r in A:
        if all(v == 0 for v in r):
            r[rng.randrange(D)] = Fr(rng.choice([-4, -2, 1, 3, 4]), 4)
    dup = False
    if stall or (K >= 2 and rng.random() < 0.1 and not update):
        A[K - 1] = [2 * v for v in A[0]]   # rank-deficient Jacobian (pseudo-inverse path)
        dup = True
    c = [q4(rng) for _ in range(K)]
    if dup:
        c[K - 1] = 2 * c[0] if (rng.random() < 0.7 and not stall) else c[K - 1]
    if stall and c[K - 1] == 2 * c[0]:
        c[K - 1] += Fr(1, 2)
    polys = []
    for i in range(K):
        p = [(A[i][j], unit(D, j)) for j in range(D) if A[i][j] != 0]
        if c[i] != 0:
            p.append((c[i], [0] * D))
        if kind == "nonlinear" and not (dup and i == K - 1) and not (stall and i == 0):
            for _ in range(rng.randint(1, 2)):
                a, b = rng.randrange(D), rng.randrange(D)
                ex = [0] * D
                ex[a] += 1
                ex[b] += 1
                if rng.random() < 0.15:
                    ex[rng.randrange(D)] += 1   # one cubic term now and then
                p.append((Fr(rng.choice([-2, -1, 1, 2]), rng.choice([8, 16])), ex))
        polys.append(p)
    singular = rng.random() < 0.3
    L = rlower(rng, D, singular)
    m = [q4(rng) for _ in range(D)]
    x0 = list(m) if (update or rng.random() < 0.7) else [q4(rng) for _ in range(D)]
    if rng.random() < 0.06 and kind == "affine" and not update:
        # start already feasible: zero iterations
        j = next(j for j in range(D) if A[0][j] != 0)
        if K == 1:
            x0 = list(x0)
            x0[j] -= (sum(A[0][l] * x0[l] for l in range(D)) + c[0]) / A[0][j]
    tol_e = rng.randint(4, 12)
    maxiter = rng.choice([1, 2, 3, 5, 10, 20, 50]) if rng.random() < 0.7 else rng.randint(1, 50)
    return {"kind": kind, "D": D, "K": K, "polys": polys, "A": A, "c": c, "m": m, "L": L, "x0": x0,
            "tol_e": tol_e, "tol": Fr(float(Fr(1, 10 ** tol_e))), "probe": "", "maxiter": maxiter, "singular": singular, "dup": dup, "update": update, "stall": stall}


def to_impl(case):
    return {"D": case["D"], "K": case["K"],
            "polys": [[[float(cf), ex] for cf, ex in p] for p in case["polys"]],
            "m": [float(v) for v in case["m"]], "L": [[float(v) for v in r] for r in case["L"]],
            "x0": [float(v) for v in case["x0"]], "tol": float(case["tol"]),
            "maxiter": case["maxiter"], "update": case["update"]}


def jsonable(o):
    if isinstance(o, Fr):
        return str(o)
    if isinstance(o, dict):
        return {k: jsonable(v) for k, v in o.items()}
    if isinstance(o, (list, tuple)):
        return [jsonable(v) for v in o]
    return o


# ------------------------------------------------------------------ Coq terms
# Terms are written against the bigQ instance (c19b_*, literals bq n d); to_qc() rewrites a
# term to the reference Qc instance (c19_*, Q2Qc literals) for the cross-check.
def blit(x):
    x = lib.frac(x)
    n = f"({x.numerator})" if x.numerator < 0 else f"{x.numerator}"
    return f"(bq {n}%Z {x.denominator}%N)"


def blist(xs):
    return "[" + "; ".join(blit(x) for x in xs) + "]"


def bmat(rows):
    return "[" + "; ".join(blist(r) for r in rows) + "]"


_BQ = re.compile(r"\(bq (\(?-?\d+\)?)%Z (\d+)%N\)")


def to_qc(term):
    return _BQ.sub(r"(Q2Qc (\1 # \2)%Q)", term).replace("c19b_", "c19_")


def q_polys(polys):
    rows = []
    for p in polys:
        ms = ["(" + blit(cf) + ", [" + "; ".join(f"{e}%nat" for e in ex) + "])" for cf, ex in p]
        rows.append("[" + "; ".join(ms) + "]")
    return "[" + "; ".join(rows) + "]"


def nat(n):
    return f"{int(n)}%nat"


def common(case):
    return f"{nat(case['D'])} {nat(case['K'])} {q_polys(case['polys'])} {blist(case['m'])} {bmat(gram(case['L']))}"


def tol2(case):
    return case["tol"] ** 2      # tol is the exact value of the float handed to the implementation


def probe_cases(rng, cases, ires, limit):
    """Second round: the same problems with the tolerance placed just above / below the
    residual (or increment) norm of one recorded iterate, so that each threshold of cond_fun
    (norm vs tol * sqrt(size)) decides the exit."""
    out = []
    idx = [i for i, (c, r) in enumerate(zip(cases, ires))
           if "error" not in r and c["kind"] == "nonlinear" and r["primary"]["iters"] >= 2 and not c["update"]
           and math.isfinite(sum(abs(v) for s_ in r["traj"] for key_ in ("x", "fx", "dx") for v in s_[key_]))]
    rng.shuffle(idx)
    for i in idx:
        if len(out) >= limit:
            break
        c, r = cases[i], ires[i]
        traj = r["traj"]
        which = "increment" if (c["stall"] or rng.random() < 0.5) else "residual"
        rms = lambda v: math.sqrt(sum(t * t for t in v) / len(v))   # noqa: E731
        # iterates at which the OTHER norm test would not stop the loop at the probed tolerance
        cand = [j for j in range(1, len(traj) - 1)
                if (1e-13 < rms(traj[j]["dx"]) < 1e-2 and rms(traj[j]["fx"]) > 1.01 * rms(traj[j]["dx"]) if which == "increment"
                    else 1e-13 < rms(traj[j]["fx"]) < 1e-2 and rms(traj[j]["dx"]) > 1.01 * rms(traj[j]["fx"]))]
        if not cand:
            continue
        j = rng.choice(cand)
        side = rng.choice([1, -1])
        tol = rms(traj[j]["fx"] if which == "residual" else traj[j]["dx"]) * (1 + side * 2.0 ** -10)
        pc = dict(c)
        pc["tol"] = Fr(tol)
        pc["tol_e"] = int(round(-math.log10(tol)))
        pc["probe"] = f"{which}{'+' if side > 0 else '-'}"
        pc["maxiter"] = max(c["maxiter"], j + 2)
        out.append(pc)
    return out


# ------------------------------------------------------------------ exact helpers
def eval_poly(p, x):
    s = Fr(0)
    for cf, ex in p:
        t = Fr(cf)
        for j, e in enumerate(ex):
            if e:
                t *= x[j] ** e
        s += t
    return s


def poly_scale(p, x):
    s = 0.0
    for cf, ex in p:
        t = abs(float(cf))
        for j, e in enumerate(ex):
            if e:
                t *= abs(float(x[j])) ** e
        s += t
    return s + 1e-300


def decode_state(v, D, K):
    q = lib.decode_optQ(v)
    if q is None:
        return None
    return {"x": q[:D], "fx": q[D:D + K], "dx": q[D + K:2 * D + K], "iters": int(q[2 * D + K]),
            "r2": q[2 * D + K + 1], "d2": q[2 * D + K + 2], "flags": [int(t) for t in q[2 * D + K + 3:2 * D + K + 6]]}


def run_impl_parallel(payload_cases, shards=8):
    n = len(payload_cases)
    if n == 0:
        return []
    size = max(1, math.ceil(n / shards))
    chunks = [payload_cases[i:i + size] for i in range(0, n, size)]
    with cf.ProcessPoolExecutor(max_workers=len(chunks)) as ex:
        futs = [ex.submit(lib.run_impl, "c19_impl.py", {"cases": ch}, 3000) for ch in chunks]
        out = []
        for fu in futs:
            out.extend(fu.result()["results"])
    return out


def vec_close(impl, model, atol):
    """None or description of the first mismatch (absolute tolerance)."""
    if len(impl) != len(model):
        return f"length {len(impl)} vs {len(model)}"
    for i, (a, b) in enumerate(zip(impl, model)):
        fb = float(b)
        if a != a or abs(a - fb) > atol:
            return f"entry {i}: implementation {a!r} vs model {fb!r} (tolerance {atol:.3g})"
    return None


def sq_close(a, b, rel=1e-7, floor=0.0):
    fb = float(b)
    return a == a and abs(a - fb) <= rel * max(abs(fb), abs(a)) + floor


def main():
    ck = lib.Check("C19")
    pr = ck.run_proof()
    quick = ck.tier == "quick"
    n_main, n_upd = (60, 10) if quick else (420, 60)
    cases = [gen_case(ck.rng, ck.tier) for _ in range(n_main)] + \
            [gen_case(ck.rng, ck.tier, force="update") for _ in range(n_upd)]
    t_impl = time.time()
    ires = run_impl_parallel([to_impl(c) for c in cases], shards=12 if quick else 16)
    probes = probe_cases(ck.rng, cases, ires, 12 if quick else 90)
    ires += run_impl_parallel([to_impl(c) for c in probes], shards=8 if quick else 16)
    cases += probes
    ck.hist["impl_seconds"] = {"value": round(time.time() - t_impl, 1)}

    # ---- build model terms on the implementation's own states
    terms, tags = [], []

    def add(i, what, term, extra=None):
        terms.append(term)
        tags.append((i, what, extra))

    def all_finite(o):
        if isinstance(o, dict):
            return all(all_finite(v) for v in o.values())
        if isinstance(o, (list, tuple)):
            return all(all_finite(v) for v in o)
        if isinstance(o, float):
            return math.isfinite(o)
        return True

    nonfinite = set()
    for i, (c, r) in enumerate(zip(cases, ires)):
        if "error" in r:
            continue
        if not all_finite(r):
            # inf/nan iterates on a well-posed problem (rational data, certified solvable steps): nothing to convert exactly
            nonfinite.add(i)
            ck.report(f"C19.{c['kind']}.non-finite-iterate",
                      f"{c['kind']} constraint (D={c['D']}, K={c['K']}, maxiter={c['maxiter']}): the Gauss-Newton iteration produced non-finite "
                      "states / statistics on a well-posed problem", {"case": jsonable(c), "impl": str(r)[:4000]})
            continue
        D, K = c["D"], c["K"]
        traj = r["traj"]
        k = r["primary"]["iters"]
        t2 = blit(tol2(c))
        # (1) cond_fun on every recorded state
        for j, s in enumerate(traj):
            add(i, "cond", f"c19b_cond {nat(D)} {nat(K)} {nat(c['maxiter'])} {t2} {blist(s['fx'])} "
                           f"{blist(s['dx'])} {nat(s['i'])}", j)
        # (2) body_fun on sampled transitions
        nt = len(traj) - 1
        extra_t = [ck.rng.randrange(nt) for _ in range(2 if (D <= 7 and not quick) else 1)] if nt > 2 else []
        sel = sorted(set([0, nt - 1] + extra_t) & set(range(nt)))
        for t in sel:
            add(i, "step", f"c19b_step {common(c)} {blist(traj[t]['x'])} {blist(traj[t]['fx'])}", t)
        # (3) the loop from the state the last iteration of the DEFAULT while_loop started from
        if k >= 1:
            p = r["prev"]
            add(i, "loop", f"c19b_loop 1%nat {common(c)} {nat(c['maxiter'])} {t2} {blist(p['x'])} "
                           f"{blist(p['fx'])} {blist(p['dx'])} {nat(p['iters'])}")
        else:
            fx0 = [eval_poly(p_, c["x0"]) for p_ in c["polys"]]
            add(i, "loop", f"c19b_loop 0%nat {common(c)} {nat(c['maxiter'])} {t2} {blist(c['x0'])} "
                           f"{blist(fx0)} {blist([1] * D)} 0%nat")
        # (4) affine: the complete routine and the Gaussian conditional mean
        if c["kind"] == "affine":
            add(i, "run", f"c19b_run {common(c)} {nat(c['maxiter'])} {t2} {blist(c['x0'])}")
            add(i, "condmean", f"c19b_condmean {nat(D)} {nat(K)} {bmat(c['A'])} {blist(c['c'])} "
                               f"{blist(c['m'])} {bmat(gram(c['L']))}")
        elif c["maxiter"] <= 2:
            add(i, "run", f"c19b_run {common(c)} {nat(c['maxiter'])} {t2} {blist(c['x0'])}")
        # (5) the MAP-linearised update at the implementation's linearisation point
        if c["update"] and "update" in r:
            add(i, "update", f"c19b_update {common(c)} {blist(r['update']['xi'])}")

    mvals = None
    t_coq = time.time()
    # cross-check terms: the reference Qc instance on the cheap ones (all kinds, small sizes)
    xsel = [j for j, (i, what, _e) in enumerate(tags)
            if what == "cond" or (cases[i]["D"] <= 3 and what in ("step", "condmean", "update"))]
    ck.rng.shuffle(xsel)
    xsel = sorted(xsel[:40 if quick else 200])
    try:
        with cf.ThreadPoolExecutor(max_workers=2) as tex:
            fut_ref = tex.submit(lib.coq_eval, "C19ref", HEADER, [to_qc(terms[j]) for j in xsel], 10, 600, 4)
            # small shards: a shard that times out is re-run term by term, which wastes its whole budget
            mvals = lib.coq_eval("C19", HEADER, terms, shard=16 if quick else 12, timeout=1500, case_timeout=300)
            rvals = fut_ref.result()
        nref = 0
        for j, rv in zip(xsel, rvals):
            if isinstance(rv, str) or isinstance(mvals[j], str):
                continue
            a, b = lib.decode_optQ(rv), lib.decode_optQ(mvals[j])
            nref += 1
            ok = (a is None) == (b is None) and (a is None or (len(a) == len(b) and all(
                (u == 0 and v == 0) or (u != 0 and abs((u - v) / u) < Fr(1, 2 ** 100)) for u, v in zip(a, b))))
            if not ok:
                ck.report("C19.model-instances-disagree", f"Qc and bigQ instances of the model disagree on term {tags[j][1]}",
                          {"term": terms[j][:4000], "broken": "Run/C19Run.v (bigQ instance / printer)"}, nofail=True)
        ck.hist["qc_reference_crosschecks"] = {"n": nref}
    except RuntimeError as e:
        ck.notes.append(f"model evaluation failed: {str(e)[:1500]}")
        mvals = None
    if mvals is None:
        ck.report("C19.model-eval", "model evaluation failed (Coq)", {"notes": ck.notes, "broken": "Run/C19Run.v"},
                  nofail=True)
        mvals = ["EVAL-FAILED"] * len(terms)
    ck.hist["model_seconds"] = {"value": round(time.time() - t_coq, 1), "terms": len(terms)}
    per = {}
    for (i, what, extra), v in zip(tags, mvals):
        per.setdefault(i, []).append((what, extra, v))

    stats = {"steps_compared": 0, "conds_compared": 0, "cond_ambiguous": 0, "eval_failed": 0,
             "roundoff_extra_iteration": 0, "pinv_cases": 0, "jit_vs_eager_diverged": 0, "model_solve_failed": 0}
    worst = 0.0

    for i, (c, r) in enumerate(zip(cases, ires)):
        D, K = c["D"], c["K"]
        replay = {"case": jsonable(c), "impl": r}
        key = json.dumps(jsonable(c), sort_keys=True)
        if "error" in r:
            ck.count(key, nontrivial=False, kind=c["kind"])
            ck.report("C19.exception", f"implementation raised {r['error']}", replay)
            continue
        if i in nonfinite:
            ck.count(key, nontrivial=False, kind=c["kind"])
            continue
        prim, traj = r["primary"], r["traj"]
        k = prim["iters"]
        tol = float(c["tol"])

        def flags(fx, dx, it, K=K, D=D, tol=tol, c=c):
            return (math.sqrt(sum(v * v for v in fx)) > tol * math.sqrt(K), it < c["maxiter"],
                    math.sqrt(sum(v * v for v in dx)) > tol * math.sqrt(D))

        ck.count(key, nontrivial=k >= 1,
                 sample={"kind": c["kind"], "D": D, "K": K, "iters": k, "maxiter": c["maxiter"], "tol": tol,
                         "singular_factor": c["singular"], "polys": jsonable(c["polys"])},
                 kind=c["kind"] + ("+update" if c["update"] else ""), D=D, K=K, iters=min(k, 10), tol_exp=c["tol_e"],
                 singular_factor=c["singular"], rank_deficient_jacobian=c["dup"], contradictory_rows=c["stall"],
                 probe=c["probe"] or "none",
                 exit_by="+".join(n_ for n_, f_ in zip(("residual", "budget", "increment"), flags(prim["fx"], prim["dx"], k)) if not f_))
        C = gram(c["L"])
        base = max([abs(float(v)) for v in c["m"]] + [math.sqrt(float(C[a][a])) for a in range(D)] + [1e-300])

        def scale_of(*states):      # scale of x around the given states, of the mean and of sqrt(diag C)
            return max([base] + [abs(float(v)) for s_ in states for v in s_["x"]])

        xs = scale_of(prim, *(traj[-2:]))
        xtol = 1e-8 * xs

        # ---------------- direct checks on the implementation's own output
        xk = [Fr(v) for v in prim["x"]]
        # iteration count within budget and truthful
        if k > c["maxiter"]:
            ck.report("C19.iters-exceed-budget", f"iters {k} > maxiter {c['maxiter']}", replay)
        if len(traj) - 1 != r["traj_final"]["iters"]:
            ck.report("C19.iters-not-truthful", f"reported iters {r['traj_final']['iters']} but body_fun ran {len(traj) - 1} times", replay)
        same_path = (r["traj_final"]["iters"] == k and vec_close(r["traj_final"]["x"], xk, 1e-6 * xs) is None)
        if not same_path:
            stats["jit_vs_eager_diverged"] += 1
        # reported residual is f at the returned point
        for a, p_ in enumerate(c["polys"]):
            ex = eval_poly(p_, xk)
            if abs(prim["fx"][a] - float(ex)) > 1e-9 * poly_scale(p_, xk):
                ck.report("C19.residual-not-truthful", f"final_constraint[{a}]={prim['fx'][a]!r} but f(x)[{a}]={float(ex)!r}", replay)
        # reported increment is the last step (ones when no iteration was made)
        if k == 0:
            if any(v != 1.0 for v in prim["dx"]) or prim["x"] != [float(v) for v in c["x0"]]:
                ck.report("C19.increment-not-truthful", "zero iterations but x != x0 or increment != ones", replay)
        else:
            exp = [float(Fr(a) - Fr(b)) for a, b in zip(prim["x"], r["prev"]["x"])]
            mm = vec_close(prim["dx"], exp, 1e-12 * xs)
            if mm:
                ck.report("C19.increment-not-truthful", f"final_increment != x_k - x_(k-1): {mm}", replay)
        # exit decision on the returned state: one of the three conditions must fail,
        # and all must hold at every earlier state (float evaluation as in cond_fun)
        if all(flags(prim["fx"], prim["dx"], k)):
            ck.report("C19.exit-premature", "returned although residual > tol, iters < maxiter and increment > tol", replay)

        # ---------------- model comparisons
        for what, extra, v in per.get(i, []):
            if isinstance(v, str):
                stats["eval_failed"] += 1
                continue
            if what == "cond":
                s = traj[extra]
                q = lib.decode_optQ(v)
                mflags = [int(t) for t in q[:3]]
                r2, d2 = float(q[3]), float(q[4])
                thr1, thr3 = tol * tol * K, tol * tol * D
                amb = (abs(r2 - thr1) <= 1e-9 * thr1) or (abs(d2 - thr3) <= 1e-9 * thr3)
                impl_cont = r["conds"][extra]
                model_cont = all(mflags)
                if amb:
                    stats["cond_ambiguous"] += 1
                    continue
                stats["conds_compared"] += 1
                if impl_cont != model_cont:
                    ck.report("C19.cond-mismatch", f"cond_fun at state {extra}: implementation {'continues' if impl_cont else 'stops'}, "
                              f"model flags {mflags} (|f|^2={r2:.3g} vs {thr1:.3g}, |dx|^2={d2:.3g} vs {thr3:.3g}, i={s['i']}, maxiter={c['maxiter']})",
                              dict(replay, state=extra))
            elif what == "step":
                t = extra
                st = decode_state(v, D, K)
                if st is None:
                    stats["model_solve_failed"] += 1
                    ck.report("C19.model-solve-failed", f"the certified pseudo-inverse gave no answer at transition {t}",
                              dict(replay, transition=t), nofail=True)
                    continue
                nxt = traj[t + 1]
                stats["steps_compared"] += 1
                xs_t = scale_of(traj[t], nxt)
                xtol_t = 1e-8 * xs_t
                mm = vec_close(nxt["x"], st["x"], xtol_t)
                if mm:
                    ck.report(f"C19.step.{c['kind']}", f"body_fun transition {t}->{t + 1}: x {mm}", dict(replay, transition=t, model=jsonable(st)))
                    continue
                worst = max(worst, max(abs(a - float(b)) for a, b in zip(nxt["x"], st["x"])) / xs_t)
                mm = vec_close(nxt["dx"], st["dx"], 2 * xtol_t)
                if mm:
                    ck.report(f"C19.step-increment.{c['kind']}", f"body_fun transition {t}->{t + 1}: dx {mm}", dict(replay, transition=t))
                fs = max(poly_scale(p_, [Fr(x_) for x_ in nxt["x"]]) for p_ in c["polys"])
                mm = vec_close(nxt["fx"], st["fx"], 1e-7 * fs)
                if mm:
                    ck.report(f"C19.step-residual.{c['kind']}", f"body_fun transition {t}->{t + 1}: fx {mm}", dict(replay, transition=t))
            elif what == "loop":
                q = lib.decode_optQ(v)
                if q is None:
                    stats["model_solve_failed"] += 1
                    continue
                tag = int(q[0])
                st = decode_state([1] + [z for fr in q[1:] for z in (fr.numerator, fr.denominator)], D, K)
                thr1, thr3 = tol * tol * K, tol * tol * D
                r2i, d2i = sum(v_ * v_ for v_ in prim["fx"]), sum(v_ * v_ for v_ in prim["dx"])
                near = (abs(r2i - thr1) <= 1e-6 * thr1) or (abs(d2i - thr3) <= 1e-6 * thr3)
                if tag != 1 or st["iters"] != k:
                    # float roundoff floor: the model's exact residual is (near) zero, the
                    # implementation's is rounding noise; either may sit on the other side of tol
                    fs = max(poly_scale(p_, xk) for p_ in c["polys"])
                    noise = math.sqrt(r2i) <= 1e-11 * fs * math.sqrt(K) or math.sqrt(float(st["r2"])) <= 1e-11 * fs * math.sqrt(K)
                    if near or noise:
                        stats["roundoff_extra_iteration"] += 1
                        continue
                    ck.report("C19.exit-mismatch", f"loop from the state before the last iteration: implementation stops at iters={k}, "
                              f"model {'stops' if tag == 1 else 'continues'} at iters={st['iters']} flags={st['flags']}",
                              dict(replay, model=jsonable(st)))
                    continue
                mm = vec_close(prim["x"], st["x"], xtol)
                if mm:
                    ck.report(f"C19.final-point.{c['kind']}", f"returned point: {mm}", dict(replay, model=jsonable(st)))
                fs = max(poly_scale(p_, xk) for p_ in c["polys"])
                # a squared norm |v|^2 whose entries carry an absolute error e is off by 2 |v| e sqrt(n) + n e^2
                e_r = 1e-7 * fs
                if not sq_close(r2i, st["r2"], floor=2 * math.sqrt(max(float(st["r2"]), 0.0)) * e_r * math.sqrt(K) + K * e_r ** 2):
                    ck.report("C19.final-residual-norm", f"|final_constraint|^2 {r2i!r} vs model {float(st['r2'])!r}", dict(replay, model=jsonable(st)))
                e_x = 2 * xtol
                if not sq_close(d2i, st["d2"], floor=2 * math.sqrt(max(float(st["d2"]), 0.0)) * e_x * math.sqrt(D) + D * e_x ** 2):
                    ck.report("C19.final-increment-norm", f"|final_increment|^2 {d2i!r} vs model {float(st['d2'])!r}", dict(replay, model=jsonable(st)))
            elif what == "run":
                q = lib.decode_optQ(v)
                if q is None:
                    stats["model_solve_failed"] += 1
                    continue
                tag = int(q[0])
                st = decode_state([1] + [z for fr in q[1:] for z in (fr.numerator, fr.denominator)], D, K)
                if tag != 1:
                    ck.report("C19.model-out-of-fuel", "model loop ran out of fuel (contradicts C19_budget_is_enough_fuel)", replay, nofail=True)
                    continue
                if st["iters"] != k:
                    fs = max(poly_scale(p_, [Fr(x_) for x_ in s_["x"]]) for p_ in c["polys"] for s_ in traj)
                    j = min(st["iters"], len(traj) - 1)
                    res_j = math.sqrt(sum(v_ * v_ for v_ in traj[j]["fx"]))
                    if c["kind"] == "affine" and k == st["iters"] + 1 and res_j <= 1e-11 * fs * math.sqrt(K):
                        stats["roundoff_extra_iteration"] += 1   # residual at rounding level but above a tiny tol
                    elif c["kind"] != "affine" and abs(k - st["iters"]) == 1:
                        stats["roundoff_extra_iteration"] += 1
                    else:
                        ck.report("C19.iters-mismatch", f"complete routine: implementation iters={k}, model iters={st['iters']}",
                                  dict(replay, model=jsonable(st)))
                    continue
                mm = vec_close(prim["x"], st["x"], xtol if c["kind"] == "affine" else 1e-6 * xs)
                if mm:
                    ck.report(f"C19.run-point.{c['kind']}", f"complete routine, returned point: {mm}", dict(replay, model=jsonable(st)))
            elif what == "condmean":
                q = lib.decode_optQ(v)
                if q is None:
                    stats["model_solve_failed"] += 1
                    continue
                cm = q[:D]
                # (printer rounds to 2^-119 relative)
                feasible = all(abs(sum(c["A"][a][j] * cm[j] for j in range(D)) + c["c"][a])
                               <= Fr(1, 10 ** 25) * (sum(abs(c["A"][a][j] * cm[j]) for j in range(D)) + abs(c["c"][a]) + 1)
                               for a in range(K))
                if not feasible or c["dup"] or c["singular"]:
                    stats["pinv_cases"] += 1
                if k >= 1:
                    mm = vec_close(prim["x"], cm, xtol)
                    if mm:
                        ck.report("C19.affine-not-conditional-mean", f"affine constraint, returned point vs Gaussian conditional mean: {mm}",
                                  dict(replay, conditional_mean=jsonable(cm)))
                    if k > 1:
                        fs1 = max(poly_scale(p_, [Fr(x_) for x_ in traj[1]["x"]]) for p_ in c["polys"])
                        res1 = math.sqrt(sum(v_ * v_ for v_ in traj[1]["fx"]))
                        if feasible and res1 > 1e-11 * fs1 * math.sqrt(K):
                            ck.report("C19.affine-more-than-one-iteration", f"affine constraint needed {k} iterations (residual after the first: {res1:.3g})", replay)
                    if feasible:
                        for a in range(K):
                            val = sum(float(c["A"][a][j]) * prim["x"][j] for j in range(D)) + float(c["c"][a])
                            sc = sum(abs(float(c["A"][a][j]) * prim["x"][j]) for j in range(D)) + abs(float(c["c"][a])) + 1e-300
                            if abs(val) > 1e-9 * max(sc, 1.0):
                                ck.report("C19.affine-infeasible", f"affine constraint row {a}: |A x + c| = {abs(val):.3g}", replay)
            elif what == "update":
                q = lib.decode_optQ(v)
                u = r["update"]
                if q is None:
                    stats["model_solve_failed"] += 1
                    continue
                mm = vec_close(u["post_mean"], q[:D], xtol)
                if mm:
                    ck.report("C19.update-mean", f"MAP-linearised update, posterior mean: {mm}", dict(replay, model=jsonable(q[:D])))
                cs = max(abs(float(C[a][a])) for a in range(D)) + 1e-300
                mm = vec_close(u["post_cov"], q[D:], 1e-8 * cs)
                if mm:
                    ck.report("C19.update-cov", f"MAP-linearised update, posterior covariance: {mm}", replay)
                if "init_error" in u:
                    ck.notes.append(f"solver.init path not available: {u['init_error']}")
                else:
                    mm = vec_close(u["init_mean"], q[:D], xtol) or vec_close(u["init_cov"], q[D:], 1e-8 * cs)
                    if mm:
                        ck.report("C19.update-solver-init", f"solver.init(constraint_init=MAP residual): {mm}", replay)
                # exactness: linearised constraint == constraint, posterior mean feasible and == MAP point
                mmJ = vec_close(u["J"], [v_ for row in c["A"] for v_ in row], 1e-12 * 4)
                mmb = vec_close(u["bias"], c["c"], 1e-9 * (xs + 1))
                if mmJ or mmb:
                    ck.report("C19.update-linearisation-not-exact", f"affine residual: J {mmJ}, bias {mmb}", replay)
                if vec_close(u["post_mean"], [Fr(x_) for x_ in u["xi"]], xtol):
                    ck.report("C19.update-mean-not-map-point", "posterior mean differs from the MAP linearisation point", replay)
                # (an affine constraint that misses the support of a singular prior cannot be met:
                #  feasibility is required exactly when the model's exact posterior mean is feasible)
                mfeas = all(abs(sum(c["A"][a][j] * q[j] for j in range(D)) + c["c"][a])
                            <= Fr(1, 10 ** 25) * (sum(abs(c["A"][a][j] * q[j]) for j in range(D)) + abs(c["c"][a]) + 1)
                            for a in range(K))
                for a in range(K if mfeas else 0):
                    val = sum(float(c["A"][a][j]) * u["post_mean"][j] for j in range(D)) + float(c["c"][a])
                    sc = sum(abs(float(c["A"][a][j]) * u["post_mean"][j]) for j in range(D)) + abs(float(c["c"][a])) + 1.0
                    if abs(val) > 1e-9 * sc:
                        ck.report("C19.update-infeasible", f"updated mean violates affine constraint row {a} by {abs(val):.3g}", replay)

    for kx, vx in stats.items():
        ck.hist[kx] = {"n": vx}
    ck.hist["worst_rel_step_discrepancy"] = {"value": worst}
    if stats["eval_failed"] > max(3, len(terms) // 20):
        ck.report("C19.model-eval", f"{stats['eval_failed']} model evaluations timed out", {"broken": "Run/C19Run.v"}, nofail=True)
    if not pr["ok"] and not ck.violations:
        ck.report("C19.proof", f"proof obligations no longer check: {pr['errors']}",
                  {"broken": pr.get("failed_at", "Props/C19.v"), "errors": pr["errors"]}, nofail=True)
    ck.finish(rule="cases = polynomial constraints (affine; affine + 1-2 quadratic/cubic monomials with coefficients k/8, k/16) with K in 1..D-1 rows on "
              "D<=6 (10 thorough) variables, coefficients/means multiples of 1/4, lower-triangular factors incl. singular (zero columns, 30%), "
              "rank-deficient Jacobians (10%), x0 = mean (70%) or random, tol 1e-4..1e-12, maxiter 1..50; implementation = "
              "lstsq_constrained_gauss_newton(maxiter, tol)(f, x0, mean, cholesky) with default while_loop, with maxiter-1, and with a recording "
              "while_loop; model on the implementation's states: cond_fun on every state, body_fun on <=4 transitions per case (x, dx 1e-8 of scale), "
              "loop exit + statistics from the state before the last iteration (iters exact, squared norms 1e-7), complete routine for affine / budget<=2, "
              "Gaussian conditional mean (Model/Gauss.v) and feasibility for affine, MAP-linearised dense update incl. solver.init; "
              "non-trivial = at least one iteration; distinct by full input")


if __name__ == "__main__":
    main()
