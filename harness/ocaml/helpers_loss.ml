(* C12: trusted glue for running the extracted loss model (model_loss.ml): a
   FieldOps dictionary over Zarith rationals and constructor aliases with the
   same names as in coq/Run/LossRun.v, so that case terms are the same text in
   both back ends. *)
module ZZ = Z
module QQ = Q
open Model_loss

let rec nat k = if k <= 0 then O else S (nat (k - 1))
let q s = Q.of_string s

let qops : Q.t fieldOps =
  { f0 = Q.zero; f1 = Q.one; fadd = Q.add; fmul = Q.mul; fsub = Q.sub;
    fopp = Q.neg;
    fdiv = (fun a b -> if Q.equal b Q.zero then Q.zero else Q.div a b);
    finv = (fun a -> if Q.equal a Q.zero then Q.zero else Q.inv a);
    feqb = Q.equal }

let mkNq m c = { n_mean = m; n_cov = c }
let mkCq a b qq tl t_o = { c_A = a; c_b = b; c_Q = qq; c_tl = tl; c_to = t_o }
let mkShape k qq d = { sh_kind = k; sh_q = qq; sh_d = d }
let mkMSq m c = { ms_marginal = m; ms_conditional = c }

let lml_timeseries_run s i avg us post std2s = g_lml_timeseries qops s i avg us post std2s
let lml_terminal_run s i u marginals std2 = g_lml_terminal qops s i u marginals std2
let remove_filtering_run s post = g_remove_filtering qops s post

let show (r : Q.t list option) =
  match r with
  | None -> print_string "0\n"
  | Some l ->
    print_string "1";
    List.iter (fun x -> print_char ' '; print_string (ZZ.to_string (Q.num x)); print_char ' ';
                        print_string (ZZ.to_string (Q.den x))) l;
    print_char '\n'

let run_case (i : int) (f : unit -> Q.t list option) =
  (try show (f ()) with e -> Printf.printf "E %s\n" (Printexc.to_string e));
  ignore i; flush stdout
