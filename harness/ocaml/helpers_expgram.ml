(* Trusted glue for running the extracted Pade/Legendre/doubling model
   (coq/Extract/ExtractExpGram.v): a FieldOps dictionary over Zarith rationals and
   wrappers with the same names as in coq/Run/ExpGramRun.v, so that case terms are
   the same text in both back ends. *)
module ZZ = Z
module QQ = Q
open Model_expgram

let rec nat k = if k <= 0 then O else S (nat (k - 1))
let q s = Q.of_string s

let qops : Q.t fieldOps =
  { f0 = Q.zero; f1 = Q.one; fadd = Q.add; fmul = Q.mul; fsub = Q.sub;
    fopp = Q.neg;
    fdiv = (fun a b -> if Q.equal b Q.zero then Q.zero else Q.div a b);
    finv = (fun a -> if Q.equal a Q.zero then Q.zero else Q.inv a);
    feqb = Q.equal }

let eg_run order n mb num a b = g_expgram qops order n mb num a b
let eg_double_run n phi gam = g_expgram_double qops n phi gam
let eg_variants_run n mb a b = g_expgram_variants qops n mb a b
let kahan_run k n = g_kahan qops k n
let iwp_1d_run qq = g_iwp_1d qops qq
let bottom_ou_run qq d lop = g_bottom_ou qops qq d lop
let bottom_matern_run qq d z = g_bottom_matern qops qq d z
let exp_transition_run order qq d num a base dt out2 = g_exp_transition qops order qq d num a base dt out2

let show (r : Q.t list option) =
  match r with
  | None -> print_string "0\n"
  | Some l ->
    print_string "1";
    List.iter (fun x -> print_char ' '; print_string (ZZ.to_string (Q.num x)); print_char ' ';
                        print_string (ZZ.to_string (Q.den x))) l;
    print_char '\n'

let run_case (i : int) (f : unit -> Q.t list option) =
  (try show (f ()) with e -> Printf.printf "E %s\n" (Printexc.to_string e));
  ignore i; flush stdout
