(* Trusted glue for running the extracted model: a FieldOps dictionary over
   Zarith rationals and constructor aliases with the same names as in
   coq/Run/GaussRun.v, so that case terms are the same text in both back ends. *)
module ZZ = Z
module QQ = Q
open Model

let rec nat k = if k <= 0 then O else S (nat (k - 1))
let q s = Q.of_string s

let qops : Q.t fieldOps =
  { f0 = Q.zero; f1 = Q.one; fadd = Q.add; fmul = Q.mul; fsub = Q.sub;
    fopp = Q.neg;
    fdiv = (fun a b -> if Q.equal b Q.zero then Q.zero else Q.div a b);
    finv = (fun a -> if Q.equal a Q.zero then Q.zero else Q.inv a);
    feqb = Q.equal }

let q0 = Q.zero
let mkNq m c = { n_mean = m; n_cov = c }
let mkCq a b qq tl t_o = { c_A = a; c_b = b; c_Q = qq; c_tl = tl; c_to = t_o }
let mkOdeq k f = { ode_k = k; ode_f = f }
let mkCfgq sh st cal l o b d =
  { cf_shape = sh; cf_strat = st; cf_calib = cal; cf_lin = l; cf_ode = o; cf_base2 = b; cf_damp2 = d }
let mkShape k qq d = { sh_kind = k; sh_q = qq; sh_d = d }
let mk_stateq cf t u pc o r nd ns = mk_state cf t u pc o r nd ns

let c08_run op nin nmid nout c k1 k2 rv x = g_c08 qops op nin nmid nout c k1 k2 rv x
let c09_transition kind qq d b dt o = g_c09_transition qops kind qq d b dt o
let c09_merge qq h1 h2 s2 = g_c09_merge qops qq h1 h2 s2
let c09_closed qq h s2 = g_c09_closed qops qq h s2
let fixed_grid_run cf t0 u0 dts = g_fixed_grid qops cf t0 u0 dts
let step_run cf st dt = g_step qops cf st dt
let init_run cf t0 u0 cinit = g_init qops cf t0 u0 cinit
let finalize_run cf st0 sts st1 = g_finalize qops cf st0 sts st1
let spec_smooth_run cf st0 sts dts = g_spec_smooth qops cf st0 sts dts

let error_run cf est pu prev tp dt rf atol rtol nk = g_error qops cf est pu prev tp dt rf atol rtol nk

let interp_run cf st0 st1 t = g_interp qops cf st0 st1 t
let spec_union_run cf sc2 f0 nodes sm = g_spec_union qops cf sc2 f0 nodes sm

let show (r : Q.t list option) =
  match r with
  | None -> print_string "0\n"
  | Some l ->
    print_string "1";
    List.iter (fun x -> print_char ' '; print_string (ZZ.to_string (Q.num x)); print_char ' ';
                        print_string (ZZ.to_string (Q.den x))) l;
    print_char '\n'

let run_case (i : int) (f : unit -> Q.t list option) =
  (try show (f ()) with e -> Printf.printf "E %s\n" (Printexc.to_string e));
  ignore i; flush stdout
