"""Fail-closed translator: literal tables/constants of /repo -> coq/Generated/Constants.v.

Only *literal data* is translated (controller defaults, the acceptance
threshold and initial acceptance factor, default eps/dt0, Pade/Legendre
tables, eta thresholds).  Any AST shape that is not recognised raises
TranslateError: the caller reports a broken correspondence instead of guessing.
"""

from __future__ import annotations

import ast
import os
import sys
from fractions import Fraction

REPO = os.environ.get("VERIF_REPO", "/repo")


class TranslateError(Exception):
    pass


def _src(rel):
    path = os.path.join(REPO, rel)
    with open(path) as f:
        return f.read(), path


def _num_literal(node, src) -> Fraction:
    """Exact rational of a numeric literal (decimal text is taken literally)."""
    if isinstance(node, ast.UnaryOp) and isinstance(node.op, ast.USub):
        return -_num_literal(node.operand, src)
    if isinstance(node, ast.Constant) and isinstance(node.value, (int, float)) and not isinstance(node.value, bool):
        text = ast.get_source_segment(src, node)
        if text is None:
            raise TranslateError("no source segment for literal")
        text = text.replace("_", "")
        try:
            return Fraction(text)
        except ValueError as e:
            raise TranslateError(f"cannot read literal {text!r}") from e
    raise TranslateError(f"not a numeric literal: {ast.dump(node)[:80]}")


def qlit(x: Fraction) -> str:
    n, d = x.numerator, x.denominator
    s = f"({n})" if n < 0 else f"{n}"
    return f"({s} # {d})"


def _find_class(tree, name):
    for n in tree.body:
        if isinstance(n, ast.ClassDef) and n.name == name:
            return n
    raise TranslateError(f"class {name} not found")


def _find_func(body, name):
    for n in body:
        if isinstance(n, (ast.FunctionDef,)) and n.name == name:
            return n
    raise TranslateError(f"function {name} not found")


def _kw_defaults(fn: ast.FunctionDef, src):
    out = {}
    for a, d in zip(fn.args.kwonlyargs, fn.args.kw_defaults):
        if d is not None:
            try:
                out[a.arg] = _num_literal(d, src)
            except TranslateError:
                pass
    # positional defaults
    pos = fn.args.args
    for a, d in zip(pos[len(pos) - len(fn.args.defaults):], fn.args.defaults):
        try:
            out[a.arg] = _num_literal(d, src)
        except TranslateError:
            pass
    return out


def controllers():
    src, _ = _src("probdiffeq/_ivpsolve/controllers.py")
    tree = ast.parse(src)
    pi = _kw_defaults(_find_func(_find_class(tree, "control_proportional_integral").body, "__init__"), src)
    it = _kw_defaults(_find_func(_find_class(tree, "control_integral").body, "__init__"), src)
    need_pi = ["safety", "factor_min", "factor_max", "exponent_integral", "exponent_proportional"]
    need_it = ["safety", "factor_min", "factor_max"]
    for k in need_pi:
        if k not in pi:
            raise TranslateError(f"PI controller default {k} missing")
    for k in need_it:
        if k not in it:
            raise TranslateError(f"integral controller default {k} missing")
    # PI memory initial value: init() returns a literal
    init = _find_func(_find_class(tree, "control_proportional_integral").body, "init")
    ret = [n for n in ast.walk(init) if isinstance(n, ast.Return)]
    if len(ret) != 1:
        raise TranslateError("PI init: expected one return")
    pi["memory_init"] = _num_literal(ret[0].value, src)
    return pi, it


def adaptive():
    src, _ = _src("probdiffeq/_ivpsolve/solvers_via_adaptive_steps.py")
    tree = ast.parse(src)
    rl = _find_class(tree, "RejectionLoop")
    # acceptance_factor_init = (0.9)
    f = _find_func(rl.body, "step_init_loopstate")
    acc = None
    for n in ast.walk(f):
        if isinstance(n, ast.Assign) and len(n.targets) == 1 and isinstance(n.targets[0], ast.Name) \
                and n.targets[0].id == "acceptance_factor_init":
            acc = _num_literal(n.value, src)
    if acc is None:
        raise TranslateError("acceptance_factor_init not found")
    # cond: state.acceptance_factor_proposed < 1.0
    st = _find_func(rl.body, "step")
    cond = _find_func(st.body, "cond")
    ret = [n for n in ast.walk(cond) if isinstance(n, ast.Return)]
    if len(ret) != 1 or not isinstance(ret[0].value, ast.Compare):
        raise TranslateError("rejection-loop cond: unexpected shape")
    cmp = ret[0].value
    if len(cmp.ops) != 1 or not isinstance(cmp.ops[0], ast.Lt):
        raise TranslateError("rejection-loop cond: comparison is not '<'")
    left = ast.get_source_segment(src, cmp.left)
    if left != "state.acceptance_factor_proposed":
        raise TranslateError(f"rejection-loop cond: unexpected lhs {left}")
    thr = _num_literal(cmp.comparators[0], src)
    # defaults of solve(u, save_at, atol, rtol, dt0=0.1, eps=1e-8, damp=0.0)
    outer = _find_func(tree.body, "solve_adaptive_save_at")
    solve = _find_func(outer.body, "solve")
    d = _kw_defaults(solve, src)
    for k in ("dt0", "eps"):
        if k not in d:
            raise TranslateError(f"solve default {k} missing")
    return {"acc_init": acc, "acc_threshold": thr, "dt0": d["dt0"], "eps": d["eps"]}


def generate() -> str:
    pi, it = controllers()
    ad = adaptive()
    L = []
    L.append("(* GENERATED by harness/translate.py from /repo on every run. Do not edit. *)")
    L.append("From Coq Require Import QArith.")
    L.append("From PD Require Import Model.Control.")
    L.append("Local Open Scope Q_scope.")
    L.append(f"Definition src_pi_params : ctrl_params := mkCP {qlit(pi['safety'])} {qlit(pi['factor_min'])} "
             f"{qlit(pi['factor_max'])} {qlit(pi['exponent_integral'])} {qlit(pi['exponent_proportional'])}.")
    L.append(f"Definition src_pi_memory_init : Q := {qlit(pi['memory_init'])}.")
    L.append(f"Definition src_integral_params : ctrl_params := mkCP {qlit(it['safety'])} {qlit(it['factor_min'])} "
             f"{qlit(it['factor_max'])} 0 0.")
    L.append(f"Definition src_acc_init : Q := {qlit(ad['acc_init'])}.")
    L.append(f"Definition src_acc_threshold : Q := {qlit(ad['acc_threshold'])}.")
    L.append(f"Definition src_default_dt0 : Q := {qlit(ad['dt0'])}.")
    L.append(f"Definition src_default_eps : Q := {qlit(ad['eps'])}.")
    for extra in EXTRA_GENERATORS:
        L.extend(extra())
    return "\n".join(L) + "\n"


EXTRA_GENERATORS = []


def write(path):
    # companion file with the Pade/Legendre tables (harness/translate_expgram.py)
    try:
        import translate_expgram
        translate_expgram.write(os.path.join(os.path.dirname(path), "ExpGramConstants.v"))
    except ImportError:
        pass
    text = generate()
    old = None
    if os.path.exists(path):
        with open(path) as f:
            old = f.read()
    if old != text:
        with open(path, "w") as f:
            f.write(text)
        return True
    return False


if __name__ == "__main__":
    out = sys.argv[1] if len(sys.argv) > 1 else "/verif/coq/Generated/Constants.v"
    sys.path.insert(0, os.path.dirname(os.path.abspath(__file__)))
    try:
        changed = write(out)
    except Exception as e:  # noqa: BLE001  (TranslateError of either translator, or any parse failure: fail closed)
        print(f"TRANSLATE-ERROR: {e}")
        sys.exit(2)
    print("changed" if changed else "unchanged")
