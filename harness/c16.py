"""C16 check: automatic derivatives equal the true derivatives of the computed outputs."""

from __future__ import annotations

import copy
import json
import math
import os
import sys
from fractions import Fraction as Fr

sys.path.insert(0, os.path.dirname(os.path.abspath(__file__)))
import gen  # noqa: E402
import lib  # noqa: E402

RT = 2e-5      # AD vs 4th-order central differences
RT_MODES = 1e-8  # forward vs reverse


def close(a, b, scale, rt, floor=0.0):
    return all((x == x) and abs(x - y) <= rt * (abs(y) + scale) + 1e-11 + floor for x, y in zip(a, b))


def fd_floor(primal):
    """rounding error of the 4th-order central difference with step 1e-5: ~1.5 eps |f| / h = 3e-11 |f|; 1e-10 |f| is used"""
    vals = [abs(x) for x in primal if isinstance(x, float) and math.isfinite(x)]
    return 1e-10 * max(vals + [0.0])


def main():
    ck = lib.Check("C16")
    pr = ck.run_proof()
    n = 10 if ck.tier == "quick" else 150
    cases = []
    for _ in range(n):
        c = gen.gen_solver_case(ck.rng, ck.tier, strats=("filter", "fixedinterval"), qmax=3, max_steps=3, calibs=("none", "mle", "mle_nocorr", "dyn"))
        if c["calib"] == "dyn":
            c["stopgrad"] = False   # "wherever no stop-gradient has been requested": solver_dynamic(stop_gradient_through_calibration=False)
        c["f"] = [[[Fr(cf) / 4, ex] for cf, ex in p] for p in c["f"]]
        c["param"] = ck.rng.choice(["vf", "u0", "base", "noise"])
        c["theta"] = float(Fr(ck.rng.choice([3, 5, 7, 9, 12]), 8))
        T = len(c["grid"])
        c["data"] = [[Fr(ck.rng.randint(-8, 8), 8) for _ in range(c["d"])] for _ in range(T)]
        c["noise"] = [[Fr(ck.rng.choice([1, 2, 3, 8]), 8) for _ in range(c["d"])] for _ in range(T)]
        if c["kind"] == "iso":
            c["noise"] = [[row[0]] * c["d"] for row in c["noise"]]
        # the exact-QR discriminator needs non-singular factors: inexact initial state, damped observations
        if ck.rng.random() < 0.6:
            c["init_mode"] = "inexact"
            c["std"] = [Fr(1, 8)] * (c["q"] + 1) if c["kind"] == "iso" else [[Fr(1, 8)] * c["d"] for _ in range(c["q"] + 1)]
            c["damp"] = Fr(1, 16)
        cases.append(c)
    fl = [gen.floatable(c) for c in cases]
    ires = lib.run_impl("c16_impl.py", {"cases": fl, "phase": "plain"}, timeout=3000)["results"]
    # which cases need a discriminator run?
    need_qr, need_triu, need_norm = [], [], []
    for i, c in enumerate(cases):
        r = ires[i]
        if "error" in r:
            continue
        for qn in r["jvp"]:
            jv, rv, fd = r["jvp"][qn], r["rev"][qn], r["fd"][qn]
            scale = max([abs(x) for x in fd if math.isfinite(x)] + [1e-30])
            fin = all(math.isfinite(x) for x in jv + rv)
            if qn == "loss" and not fin and c["strat"] != "filter":
                need_triu.append(i)
            if not fin:
                need_norm.append(i)
            if fin and not close(jv, fd, scale, RT, fd_floor(r["primal"][qn])):
                need_qr.append(i)
    need_qr, need_triu, need_norm = sorted(set(need_qr)), sorted(set(need_triu)), sorted(set(need_norm))
    nres = dict(zip(need_norm, lib.run_impl("c16_impl.py", {"cases": [fl[i] for i in need_norm], "phase": "safe_norm"}, timeout=3000)["results"])) if need_norm else {}
    qres = dict(zip(need_qr, lib.run_impl("c16_impl.py", {"cases": [fl[i] for i in need_qr], "phase": "exact_qr"}, timeout=3000)["results"])) if need_qr else {}
    tres = dict(zip(need_triu, lib.run_impl("c16_impl.py", {"cases": [fl[i] for i in need_triu], "phase": "loss_triu"}, timeout=3000)["results"])) if need_triu else {}
    # Exact-QR discriminator not applicable (jnp.linalg.qr's derivative is NaN at a singular factor: exactly-known initial
    # coefficients, undamped observations): re-run the comparison on the REGULARISED NEIGHBOUR of the case (zero initial standard
    # deviations -> 2^-10, zero damping -> 2^-10).  If the same quantity is wrong there too and the exact QR derivative repairs it,
    # the mismatch is attributed to the qr_r rule; otherwise it stays a violation.
    need_nb = []
    for i in need_qr:
        q_ = qres.get(i)
        if q_ is None or "error" in q_ or any(not math.isfinite(x) for qn in q_["jvp"] for x in q_["jvp"][qn]):
            need_nb.append(i)
    nb_plain, nb_qr = {}, {}
    if need_nb:
        nbc = []
        for i in need_nb:
            c2 = copy.deepcopy(cases[i])
            eps = Fr(1, 1024)
            c2["std"] = [(x if x != 0 else eps) for x in c2["std"]] if c2["kind"] == "iso" else [[(x if x != 0 else eps) for x in row] for row in c2["std"]]
            if c2["init_mode"] == "exact":
                c2["init_mode"] = "inexact"
            if c2["damp"] == 0:
                c2["damp"] = eps
            nbc.append(gen.floatable(c2))
        nb_plain = dict(zip(need_nb, lib.run_impl("c16_impl.py", {"cases": nbc, "phase": "plain"}, timeout=3000)["results"]))
        nb_qr = dict(zip(need_nb, lib.run_impl("c16_impl.py", {"cases": nbc, "phase": "exact_qr"}, timeout=3000)["results"]))

    def neighbour_explains(i, qn):
        a, b = nb_plain.get(i), nb_qr.get(i)
        if a is None or b is None or "error" in a or "error" in b:
            return False
        jv2, fd2, ex2 = a["jvp"][qn], a["fd"][qn], b["jvp"][qn]
        sc2 = max([abs(x) for x in fd2 if math.isfinite(x)] + [1e-30])
        if not all(math.isfinite(x) for x in jv2 + ex2):
            return False
        fl2 = fd_floor(a["primal"][qn])
        return (not close(jv2, fd2, sc2, RT, fl2)) and close(ex2, fd2, sc2, RT, fl2)

    nf5 = 0
    nf5_nb = 0
    for i, c in enumerate(cases):
        r = ires[i]
        jc = gen.jsonable(c)
        ck.count(json.dumps(jc, sort_keys=True), nontrivial=True,
                 sample={k: jc[k] for k in ("kind", "q", "d", "lin", "strat", "calib", "grid", "param", "theta", "init_mode")},
                 kind=c["kind"], param=c["param"], lin=c["lin"], strat=c["strat"], calib=c["calib"], init=c["init_mode"])
        if "error" in r:
            ck.report(f"C16.{c['kind']}.exception", f"differentiation raised {r['error']}", {"case": jc, "impl": r})
            continue
        cfgs = f"{c['kind']}/{c['lin']}/{c['strat']}/{c['calib']}"
        for qn in r["jvp"]:
            jv, rv, fd, pv = r["jvp"][qn], r["rev"][qn], r["fd"][qn], r["primal"][qn]
            scale = max([abs(x) for x in fd if math.isfinite(x)] + [1e-30])
            sig = f"C16.{qn}.{c['param']}"
            bad = [k for k in range(len(jv)) if not (math.isfinite(jv[k]) and math.isfinite(rv[k]))]
            badf = [k for k in range(len(jv)) if not math.isfinite(jv[k])]
            if bad:
                scale_nan = any(not math.isfinite(x) for x in r["jvp"].get("scale", []) + r["rev"].get("scale", []))
                if qn == "std" and scale_nan and i in nres and "error" not in nres[i] \
                        and all(math.isfinite(x) for x in nres[i]["jvp"][qn] + nres[i]["rev"][qn]):
                    # the standard deviation is zero because the CALIBRATED SCALE is zero (exactly-zero whitened residuals) and the NaN
                    # is the scale's: derivative of vector_norm at the zero vector (F13), not the std accessor's
                    ck.report("C16.vector_norm-at-zero.non-finite",
                              f"{cfgs}: the derivative of {qn} w.r.t. {c['param']} is NaN through the output scale; finite when backend.linalg.vector_norm "
                              "is replaced by a norm that is differentiable at 0 (exactly-zero whitened residual)",
                              {"case": jc, "quantity": qn, "jvp": jv, "rev": rv})
                    continue
                if qn == "std" and badf and all(abs(pv[k]) < 1e-300 for k in badf):
                    # forward mode: NaN exactly at the zero standard deviations; reverse mode: the same operation (norm of a zero
                    # row) poisons every entry of the gradient
                    rv = list(jv)
                    bad = badf
                    ck.report(f"C16.std.zero-variance.non-finite.{c['kind']}",
                              f"{cfgs}: the derivative of a standard deviation that is exactly zero (noise-free initial state) is NaN "
                              f"({len(bad)} entries) in the {c['kind']} model", {"case": jc, "entries": bad, "jvp": jv, "rev": rv})
                    # the remaining entries must still be right
                    keep = [k for k in range(len(jv)) if k not in bad]
                    jv, rv, fd = [jv[k] for k in keep], [rv[k] for k in keep], [fd[k] for k in keep]
                elif qn == "loss" and i in tres and "error" not in tres[i] and all(math.isfinite(x) for x in tres[i]["jvp"]["loss"] + tres[i]["rev"]["loss"]) \
                        and close(tres[i]["jvp"]["loss"], tres[i]["rev"]["loss"], scale, RT_MODES):
                    # finite and mode-consistent once the SVD-based least squares is replaced by solve_triu (whether that value is the
                    # directional derivative is decided below: the qr_r rule may still make it differ)
                    ck.report("C16.loss.lstsq_svd.non-finite-gradient",
                              f"{cfgs}: the gradient of the time-series loss w.r.t. {c['param']} is NaN; finite and correct with solve_triu instead of the "
                              "SVD-based least squares (repeated singular values of the innovation factor)", {"case": jc, "jvp": jv, "rev": rv})
                    # (the shipped code returns NaN here: there is no shipped derivative left to compare with the directional one)
                    continue
                elif i in nres and "error" not in nres[i] and all(math.isfinite(x) for x in nres[i]["jvp"][qn] + nres[i]["rev"][qn]):
                    ck.report("C16.vector_norm-at-zero.non-finite",
                              f"{cfgs}: the derivative of {qn} w.r.t. {c['param']} is NaN; finite when backend.linalg.vector_norm is replaced by a norm "
                              "that is differentiable at 0 (norm of an exactly-zero vector, e.g. an exactly-zero whitened residual)",
                              {"case": jc, "quantity": qn, "jvp": jv, "rev": rv})
                    continue
                else:
                    ck.report(sig + ".non-finite", f"{cfgs}: derivative of {qn} w.r.t. {c['param']} is not finite",
                              {"case": jc, "quantity": qn, "jvp": jv, "rev": rv, "primal": pv})
                    continue
            if not close(jv, rv, scale, RT_MODES):
                ck.report(sig + ".fwd-vs-rev", f"{cfgs}: forward and reverse derivatives of {qn} w.r.t. {c['param']} disagree",
                          {"case": jc, "quantity": qn, "jvp": jv, "rev": rv})
                continue
            floor = fd_floor(pv)
            if close(jv, fd, scale, RT, floor):
                continue
            worst = max(abs(x - y) for x, y in zip(jv, fd))
            ex = None
            if i in qres and "error" not in qres[i]:
                ex = qres[i]["jvp"][qn]
                if bad:
                    ex = [ex[k] for k in range(len(ex)) if k not in bad]
            explained = False
            if ex is not None:
                idx_f = [k for k in range(len(ex)) if math.isfinite(ex[k])]
                idx_n = [k for k in range(len(ex)) if not math.isfinite(ex[k])]
                explained = bool(idx_f) and close([ex[k] for k in idx_f], [fd[k] for k in idx_f], scale, RT, floor) \
                    and close([jv[k] for k in idx_n], [fd[k] for k in idx_n], scale, RT, floor)
            if not explained and neighbour_explains(i, qn):
                explained = True
                nf5_nb += 1
            if explained:
                nf5 += 1
                ck.report("C16.qr_r-custom-jvp",
                          f"derivative of {qn} w.r.t. {c['param']} differs from the directional derivative (max abs diff {worst:.3g}, scale {scale:.3g}); "
                          "exact with jnp.linalg.qr's derivative in place of qr_r's custom JVP", {"case": jc, "quantity": qn, "jvp": jv, "fd": fd})
            else:
                ck.report(sig + ".wrong-derivative",
                          f"{cfgs}: AD derivative of {qn} w.r.t. {c['param']} differs from the directional derivative "
                          f"(max abs diff {worst:.3g}, scale {scale:.3g}); not explained by the qr_r rule",
                          {"case": jc, "quantity": qn, "jvp": jv, "fd": fd, "jvp_exact_qr": ex})
    ck.hist["explained_by_qr_r_rule"] = {"n": nf5, "of_which_through_the_regularised_neighbour(singular factor)": nf5_nb}
    if not pr["ok"] and not ck.violations:
        ck.report("C16.proof", f"proof obligations no longer check: {pr['errors']}",
                  {"broken": pr.get("failed_at", "Props/C16.v"), "errors": pr["errors"]}, nofail=True)
    ck.finish(rule="fixed-grid solves (3 factorisations x filter/fixed-interval smoother x TS0/TS1 x none/MLE/dynamic with stop_gradient_through_calibration=False) with a scalar parameter entering the vector "
              "field, the initial value, the prior base scale or the observation noise; jax.jvp vs jax.jacrev (1e-8) vs 4th-order central differences (2e-5) "
              "for means, standard deviations, output scales and the marginal-likelihood loss; mismatches are re-evaluated with an exact QR derivative to "
              "separate the known qr_r finding (at singular factors, where that derivative is NaN, on the regularised neighbour of the case); non-trivial: all; distinct by full input")


if __name__ == "__main__":
    main()
