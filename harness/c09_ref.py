"""Independent high-precision reference for C09: exp(A) and the finite-horizon Gramian
G = int_0^1 e^{sA} W e^{sA^T} ds  (W = B B^T), by the Van Loan block identity

    exp([[A, W], [0, -A^T]]) = [[e^A, X], [0, e^{-A^T}]],    G = X e^{A^T},

evaluated with a plain Taylor series + scaling and squaring in FIXED-POINT INTEGER arithmetic
(PREC fractional bits, Python ints).  Nothing of /repo is used.  A second, structurally different
evaluation (exact rational double series  sum_{a,b} A^a W (A^T)^b / (a! b! (a+b+1)), valid for any A
but only practical for small norms) cross-checks the first one at start-up (`self_test`).
"""

from __future__ import annotations

from fractions import Fraction as Fr

PREC = 900


def fx(x: Fr) -> int:
    return (x.numerator << PREC) // x.denominator


def fx_mat(M):
    return [[fx(Fr(v)) for v in r] for r in M]


def fx_mul(X, Y):
    n, k, m = len(X), len(Y), len(Y[0])
    return [[sum(X[i][l] * Y[l][j] for l in range(k)) >> PREC for j in range(m)] for i in range(n)]


def fx_add(X, Y):
    return [[a + b for a, b in zip(r, s)] for r, s in zip(X, Y)]


def fx_eye(n):
    one = 1 << PREC
    return [[one if i == j else 0 for j in range(n)] for i in range(n)]


def fx_expm(H):
    """exp of a fixed-point matrix: scale to 1-norm <= 1/2, Taylor until the terms vanish, square back."""
    n = len(H)
    norm = max(sum(abs(H[i][j]) for i in range(n)) for j in range(n))
    s = 0
    while (norm >> s) > (1 << (PREC - 1)):
        s += 1
    Hs = [[v >> s for v in r] for r in H]
    E = fx_eye(n)
    T = fx_eye(n)
    k = 0
    while True:
        k += 1
        T = fx_mul(T, Hs)
        T = [[v // k for v in r] for r in T]
        if all(v == 0 or v == -1 for r in T for v in r):
            break
        E = fx_add(E, T)
        if k > 2000:
            raise RuntimeError("Taylor series did not terminate")
    for _ in range(s):
        E = fx_mul(E, E)
    return E


def to_float(X):
    return [[float(Fr(v, 1 << PREC)) for v in r] for r in X]


def expm_gramian(A, W):
    """A, W: n x n matrices of Fractions (exact binary floats). Returns (e^A, G) as Fractions (PREC-bit)."""
    n = len(A)
    H = [[Fr(0)] * (2 * n) for _ in range(2 * n)]
    for i in range(n):
        for j in range(n):
            H[i][j] = Fr(A[i][j])
            H[i][n + j] = Fr(W[i][j])
            H[n + i][n + j] = -Fr(A[j][i])
    E = fx_expm(fx_mat(H))
    eA = [r[:n] for r in E[:n]]
    X = [r[n:] for r in E[:n]]
    eAT = [[eA[j][i] for j in range(n)] for i in range(n)]
    G = fx_mul(X, eAT)
    den = 1 << PREC
    return [[Fr(v, den) for v in r] for r in eA], [[Fr(v, den) for v in r] for r in G]


# ---------------------------------------------------------------- exact double series (small norms)
def _mm(X, Y):
    return [[sum(X[i][l] * Y[l][j] for l in range(len(Y))) for j in range(len(Y[0]))] for i in range(len(X))]


def series_expm_gramian(A, W, terms):
    """Truncated exact series; the truncation error is below (||A||^terms / terms!) * e^{2||A||} ||W||."""
    from math import factorial
    n = len(A)
    A = [[Fr(v) for v in r] for r in A]
    W = [[Fr(v) for v in r] for r in W]
    AT = [[A[j][i] for j in range(n)] for i in range(n)]
    Id = [[Fr(int(i == j)) for j in range(n)] for i in range(n)]
    pw = [Id]
    for _ in range(terms):
        pw.append(_mm(pw[-1], A))
    pwT = [[[M[j][i] for j in range(n)] for i in range(n)] for M in pw]
    eA = [[sum(pw[k][i][j] / factorial(k) for k in range(terms + 1)) for j in range(n)] for i in range(n)]
    G = [[Fr(0)] * n for _ in range(n)]
    for a in range(terms + 1):
        Wa = _mm(pw[a], W)
        for b in range(terms + 1 - a):
            T = _mm(Wa, pwT[b])
            c = Fr(1, factorial(a) * factorial(b) * (a + b + 1))
            for i in range(n):
                for j in range(n):
                    G[i][j] += c * T[i][j]
    return eA, G


def self_test():
    """Van Loan fixed point vs exact double series on two small-norm matrices; returns worst abs difference."""
    worst = 0.0
    cases = [([[Fr(1, 4), Fr(-1, 2)], [Fr(3, 8), Fr(-1, 8)]], [[Fr(1), Fr(1, 2)], [Fr(1, 2), Fr(2)]]),
             ([[Fr(0), Fr(1, 2), Fr(0)], [Fr(0), Fr(0), Fr(1, 2)], [Fr(-1, 4), Fr(-1, 8), Fr(-3, 8)]],
              [[Fr(0), Fr(0), Fr(0)], [Fr(0), Fr(0), Fr(0)], [Fr(0), Fr(0), Fr(1)]])]
    for A, W in cases:
        e1, g1 = expm_gramian(A, W)
        e2, g2 = series_expm_gramian(A, W, 40)
        for X, Y in ((e1, e2), (g1, g2)):
            for r, s in zip(X, Y):
                for a, b in zip(r, s):
                    worst = max(worst, abs(float(a - b)))
    return worst


def norm1(M):
    n, m = len(M), len(M[0])
    return max(sum(abs(M[i][j]) for i in range(n)) for j in range(m))


def maxabs(M):
    return max(abs(v) for r in M for v in r)
