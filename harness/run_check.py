"""Launcher for ./check: runs harness/cXX.py's main() and turns an unexpected harness exception into a reported
violation (the correspondence can no longer be evaluated on this tree) instead of a bare crash."""
from __future__ import annotations

import importlib
import json
import os
import sys
import time
import traceback

HERE = os.path.dirname(os.path.abspath(__file__))
sys.path.insert(0, HERE)


def main():
    pid = sys.argv[1]
    del sys.argv[1]
    sys.argv[0] = os.path.join(HERE, pid.lower() + ".py")
    t0 = time.time()
    try:
        mod = importlib.import_module(pid.lower())
        mod.main()
    except SystemExit:
        raise
    except BaseException as e:  # noqa: BLE001
        import lib

        tb = traceback.format_exc()
        tier = lib._tier_from_argv()
        seed = int(os.environ.get("VERIF_SEED", "0") or 0)
        os.makedirs(os.path.join(lib.VERIF, "replays"), exist_ok=True)
        path = os.path.join(lib.VERIF, "replays", f"{pid}-{tier}-{seed}-harness.json")
        with open(path, "w") as f:
            json.dump({"property": pid, "signature": f"{pid}.harness-exception",
                       "broken": f"correspondence {pid} (harness/{pid.lower()}.py could not process the implementation's behaviour)",
                       "exception": f"{type(e).__name__}: {e}", "traceback": tb[-6000:], "tier": tier, "seed": seed,
                       "no_failing_input_found": True}, f, indent=1)
        last = lib.LAST_CHECK[0]
        pr = (last.proof if last is not None and last.proof else None) or {}
        ev = {"property_id": pid, "tier": tier, "seed": seed, "level": "proof",
              "coverage": {"obligations": pr.get("obligations", 0), "discharged": pr.get("discharged", 0),
                           "checker_cmd": f"cd /verif/coq && make -j16 Props/{pid}.vo",
                           "theorems": pr.get("theorems", []), "proof_errors": pr.get("errors", []),
                           "evaluations": last.evaluations if last is not None else 0,
                           "distinct_nontrivial": len(last.nontrivial) if last is not None else 0,
                           "samples": (last.samples if last is not None and last.samples else [{"note": "aborted before any case was compared"}]),
                           "rule": "check aborted by an unexpected exception in the correspondence harness (reported as a violation)",
                           "exception": f"{type(e).__name__}: {e}", "trusted_base": lib.TRUSTED_BASE},
              "assumptions": lib.TRUSTED_BASE, "wall_s": round(time.time() - t0, 2), "violations": 1}
        with open(os.path.join(lib.VERIF, "evidence", f"{pid}.json"), "w") as f:
            json.dump(ev, f, indent=1, default=str)
        print(tb[-1500:], file=sys.stderr)
        print(f"VIOLATION property={pid} replay={path} [{pid}.harness-exception] the correspondence harness raised "
              f"{type(e).__name__}: {str(e)[:200]} while processing the implementation's behaviour no-failing-input-found")
        sys.exit(1)


if __name__ == "__main__":
    main()
