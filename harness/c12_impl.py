"""C12 implementation runner: build smoothing posteriors with the real solvers (public API) and evaluate the real
marginal-likelihood losses on them.

Routes:  fixed_grid  -> ivpsolve.solve_fixed_grid (fixed-interval smoother; filter for terminal-only cases)
         save_at     -> ivpsolve.solve_adaptive_save_at with checkpoints (fixed-point smoother, real error control)
Returned per case: the posterior (terminal marginal + stacked backward conditionals, RAW form incl. to_latent /
to_observed), the terminal marginal of solution.u, and per loss configuration the data / std actually passed
(floats) and the loss value.
"""

import json
import sys
import warnings

import numpy as np

import gimpl
import solve_impl
from gimpl import arr, jax, jnp, pdq
from probdiffeq import ivpsolve

warnings.simplefilter("ignore")


def tmap(f, x):
    return jax.tree_util.tree_map(f, x)


def solve_case(case):
    kind = case["kind"]
    ssm = gimpl.ssm_of(kind)
    vf = solve_impl.make_vf(case)
    prior = solve_impl.make_prior(case, ssm)
    solver, constraint = solve_impl.make_solver(case, ssm, vf)
    spec = case["c12"]
    if spec["route"] == "fixed_grid":
        solve = ivpsolve.solve_fixed_grid(solver=solver)
        grid = arr(case["grid"])
        sol = jax.jit(lambda g: solve(prior, grid=g, damp=case["damp"]))(grid)
    else:
        a = spec["adaptive"]
        err = solve_impl.make_error(case, constraint)
        ctrl = None
        if a.get("control") == "pi":
            ctrl = ivpsolve.control_proportional_integral()
        elif a.get("control") == "i":
            ctrl = ivpsolve.control_integral()
        solve = ivpsolve.solve_adaptive_save_at(solver=solver, error=err, control=ctrl, clip_dt=a.get("clip", False), warn=False)
        sol = jax.jit(lambda s_: solve(prior, save_at=s_, atol=a["atol"], rtol=a["rtol"], dt0=a["dt0"], damp=case["damp"]))(arr(spec["save_at"]))
    return sol


def finite_tree(x):
    return all(bool(np.all(np.isfinite(np.asarray(leaf)))) for leaf in jax.tree_util.tree_leaves(x))


def make_data(sol_mean_i, cfg):
    """data = solution mean of the observed Taylor coefficient + offset ("near") or the offset itself ("far")."""
    off = np.array(cfg["offset"], dtype=np.float64)
    base = np.asarray(sol_mean_i, dtype=np.float64)
    if cfg["data_mode"] == "near":
        return base + off
    return off


def std_arg(kind, stds):
    s = np.array(stds, dtype=np.float64)
    if kind == "iso":
        return jnp.asarray(s.reshape(s.shape[:-1]))      # one scalar per time point
    return jnp.asarray(s)


def run_case(case):
    kind = case["kind"]
    spec = case["c12"]
    sol = solve_case(case)
    out = {"t": np.asarray(sol.t, dtype=np.float64).tolist(), "num_steps": np.asarray(sol.num_steps).tolist()}
    T = len(out["t"])
    out["finite"] = finite_tree(sol.u) and finite_tree(sol.solution_full)
    if not out["finite"]:
        return out
    # terminal marginal of the solution
    margT = tmap(lambda s: s[-1], sol.u)
    out["margT"] = solve_impl.raw_normal_blocks(margT, kind)
    smoother = case["strat"] != "filter"
    if smoother:
        post = sol.solution_full.posterior
        out["post_type"] = type(post).__name__
        out["post_reverse"] = bool(post.reverse)
        out["post_marginal"] = solve_impl.raw_normal_blocks(post.marginal, kind)
        N = int(post.conditional.A.shape[0])
        out["post_conds"] = [solve_impl.raw_cond_blocks(tmap(lambda s, j=j: s[j], post.conditional), kind) for j in range(N)]
    # ---- time-series losses
    out["timeseries"] = []
    for cfg in spec.get("timeseries", []):
        r = {}
        try:
            i = cfg["tcoeff"]
            data = make_data(sol.u.mean[i], cfg)
            std = std_arg(kind, cfg["std"])
            loss = pdq.loss_lml_timeseries(average_pdfs=cfg["avg"], tcoeff_index=i)
            if cfg.get("jit", True):
                val = jax.jit(lambda u, s, p: loss(u, posterior=p, std=s))(jnp.asarray(data), std, post)
            else:
                val = loss(jnp.asarray(data), posterior=post, std=std)
            r = {"value": float(val), "data": np.asarray(data, dtype=np.float64).tolist(),
                 "std": np.asarray(std, dtype=np.float64).tolist(), "shape": list(np.shape(val))}
        except Exception as e:  # noqa: BLE001
            import traceback
            r = {"error": f"{type(e).__name__}: {e}", "tb": traceback.format_exc()[-1200:]}
        out["timeseries"].append(r)
    # ---- terminal-value losses
    out["terminal"] = []
    for cfg in spec.get("terminal", []):
        try:
            i = cfg["tcoeff"]
            base = np.asarray(margT.mean[i], dtype=np.float64)
            off = np.array(cfg["offset"], dtype=np.float64)
            u = base + off if cfg["data_mode"] == "near" else off
            s = np.array(cfg["std"], dtype=np.float64)
            std = jnp.asarray(s.reshape(())) if kind == "iso" else jnp.asarray(s)
            loss = pdq.loss_lml_terminal_values(tcoeff_index=i)
            val = jax.jit(lambda u_, s_, m_: loss(u_, marginals=m_, std=s_))(jnp.asarray(u), std, margT)
            r = {"value": float(val), "data": np.asarray(u, dtype=np.float64).tolist(),
                 "std": np.asarray(std, dtype=np.float64).reshape(-1).tolist(), "shape": list(np.shape(val))}
        except Exception as e:  # noqa: BLE001
            import traceback
            r = {"error": f"{type(e).__name__}: {e}", "tb": traceback.format_exc()[-1200:]}
        out["terminal"].append(r)
    # ---- remove_filtering_distributions on a stack of marginals + documented input checks
    if smoother and spec.get("checks"):
        chk = {}
        stacked = pdq.MarkovSequence(tmap(lambda s: s[1:], sol.u), post.conditional, reverse=True)
        rem = stacked.remove_filtering_distributions()
        chk["removed_marginal"] = solve_impl.raw_normal_blocks(rem.marginal, kind)
        chk["removed_nconds"] = int(rem.conditional.A.shape[0])
        chk["stack"] = [solve_impl.raw_normal_blocks(tmap(lambda s, j=j: s[j], sol.u), kind) for j in range(1, T)]
        same = post.remove_filtering_distributions()
        chk["single_unchanged"] = bool(np.array_equal(np.asarray(same.marginal.mean_flat), np.asarray(post.marginal.mean_flat))
                                       and np.array_equal(np.asarray(same.marginal.cholesky_flat), np.asarray(post.marginal.cholesky_flat)))
        data = np.asarray(sol.u.mean[0], dtype=np.float64)
        d = data.shape[1]
        good = jnp.ones((T,)) if kind == "iso" else jnp.ones((T, d))
        loss = pdq.loss_lml_timeseries()

        def outcome(fn):
            try:
                v = fn()
                return "value:" + repr(float(v))
            except Exception as e:  # noqa: BLE001
                return type(e).__name__ + ":" + str(e)[:60]

        chk["short_std"] = outcome(lambda: loss(data, posterior=post, std=good[:-1]))
        chk["long_std"] = outcome(lambda: loss(data, posterior=post, std=jnp.concatenate([good, good[:1]])))
        chk["extra_axis_std"] = outcome(lambda: loss(data, posterior=post, std=good[..., None]))
        if kind == "iso":
            chk["per_dim_std_iso"] = outcome(lambda: loss(data, posterior=post, std=jnp.ones((T, d))))
        else:
            chk["scalar_std_per_time"] = outcome(lambda: loss(data, posterior=post, std=jnp.ones((T,))))
        chk["filter_posterior"] = outcome(lambda: loss(data, posterior=sol.u, std=good))
        chk["smoothing_solution"] = outcome(lambda: loss(data, posterior=sol.solution_full, std=good))
        chk["stacked_posterior"] = outcome(lambda: loss(data, posterior=stacked, std=good))
        lt = pdq.loss_lml_terminal_values()
        goodT = jnp.ones(()) if kind == "iso" else jnp.ones((d,))
        chk["terminal_extra_axis"] = outcome(lambda: lt(data[-1], marginals=margT, std=goodT[None]))
        if kind != "iso":
            chk["terminal_scalar_std"] = outcome(lambda: lt(data[-1], marginals=margT, std=jnp.ones(())))
        chk["terminal_ok"] = outcome(lambda: lt(data[-1], marginals=margT, std=goodT))
        out["checks"] = chk
    return out


def main():
    cases = json.load(open(sys.argv[1]))["cases"]
    res = []
    for c in cases:
        try:
            res.append(run_case(c))
        except Exception as e:  # noqa: BLE001
            import traceback

            res.append({"error": f"{type(e).__name__}: {e}", "tb": traceback.format_exc()[-1500:]})
    json.dump({"results": res}, open(sys.argv[2], "w"))


if __name__ == "__main__":
    main()
