"""C06 check: adaptive step control is safe for every accept/reject history.

1. prove Props/C06.vo (theorems over arbitrary oracles / histories);
2. correspondence: the REAL solve_adaptive_save_at + controllers driven by
   scripted solver/error objects vs the Coq machine evaluated by vm_compute on
   the same inputs; event logs, reported solutions and step counts compared;
3. the C06 invariants are also evaluated directly on the implementation's log.
"""

from __future__ import annotations

import json
import os
import sys
from fractions import Fraction as Fr

sys.path.insert(0, os.path.dirname(os.path.abspath(__file__)))
import lib  # noqa: E402

HEADER = """From Coq Require Import List ZArith QArith.
From PD Require Import Model.Control Generated.Constants Run.C06Run.
Import ListNotations.
Local Open Scope Z_scope.
"""


def gen_case(rng, exact: bool):
    c = {}
    c["ctrl"] = rng.choice([0, 0, 1])
    if exact:
        safety = rng.choice([Fr(1), Fr(1), Fr(1, 2)])
        fmin = rng.choice([Fr(1, 8), Fr(1, 4), Fr(1, 2)])
        fmax = rng.choice([Fr(1), Fr(2), Fr(4), Fr(8)])
        eI = rng.choice([0, 1, 1, 2])
        eP = rng.choice([0, 1])
        if c["ctrl"] == 1 and eI == 0:
            eI = 1  # eI = 0 makes the step ratio independent of the error: inadmissible (Zeno / endless rejection)
        mode = 0
        eps = rng.choice([Fr(1, 2 ** 20), Fr(1, 2 ** 20), Fr(0), Fr(1, 2 ** 10), Fr(1, 16)])
        lattice = 8
    else:
        safety = rng.choice([Fr(95, 100), Fr(9, 10), Fr(1), Fr(rng.randint(50, 100), 100)])
        fmin = rng.choice([Fr(2, 10), Fr(1, 10), Fr(rng.randint(5, 90), 100)])
        fmax = rng.choice([Fr(10), Fr(2), Fr(rng.randint(100, 1000), 100)])
        eI = rng.choice([1, 1, 2, 0])
        eP = rng.choice([0, 1])
        if c["ctrl"] == 1 and eI == 0:
            eI = 1
        mode = rng.choice([1, 1, 2])
        eps = rng.choice([Fr(1, 10 ** 8), Fr(1, 10 ** 4), Fr(0), Fr(1, 100)])
        lattice = rng.choice([8, 10, 7])
    c["params"] = [safety, fmin, fmax, Fr(eI), Fr(eP)]
    c["mode"] = mode
    c["eps"] = eps
    c["clip"] = rng.random() < 0.5
    t0 = Fr(rng.choice([0, 0, 1, -2]))
    c["t0"] = t0
    # checkpoints on a lattice, optionally perturbed by a multiple of eps
    ncp = rng.choice([1, 1, 2, 3, 4, 6])
    t = t0
    cps = []
    for _ in range(ncp):
        t = t + Fr(rng.choice([0, 1, 1, 2, 3, 4, 8, 13]), lattice)
        pert = rng.choice([0, 0, 0, Fr(1, 2), Fr(-1, 2), 2, -2]) * eps if exact else \
            rng.choice([0, 0, Fr(1, 2), Fr(-1, 2), 2, -2]) * eps
        cp = t + pert
        if cps and cp < cps[-1]:
            cp = cps[-1]
        if cp < t0:
            cp = t0
        cps.append(cp)
    c["cps"] = cps
    # profile
    if exact:
        hs = [Fr(1, 16), Fr(1, 8), Fr(1, 4), Fr(1, 2), Fr(1), Fr(2), Fr(3, 8), Fr(5, 16)]
        dts = [Fr(1, 16), Fr(1, 8), Fr(1, 4), Fr(1, 2), Fr(1), Fr(2), Fr(4), Fr(3, 8)]
    else:
        hs = [Fr(rng.randint(2, 200), 100) for _ in range(6)]
        dts = [Fr(rng.randint(1, 400), 100) for _ in range(6)]
    if c["ctrl"] == 1 and mode != 0:
        # exact rationals blow up exponentially under the nonlinear PI recurrence: keep such histories short
        span = max(float(cps[-1] - t0), 0.5)
        hs = [Fr(rng.randint(int(span * 25), int(span * 100) + 30), 100) for _ in range(6)]
    c["h0"] = rng.choice(hs)
    nb = rng.choice([0, 1, 2, 3])
    prof = []
    tb = t0
    for _ in range(nb):
        tb = tb + Fr(rng.choice([1, 2, 3, 5, 8]), lattice)
        prof.append([tb, rng.choice(hs)])
    c["prof"] = prof
    c["dt0"] = rng.choice(dts)
    c["exact"] = exact
    return c


def coq_term(c):
    p = c["params"]
    params = f"(mkCP {lib.qlit(p[0])} {lib.qlit(p[1])} {lib.qlit(p[2])} {lib.qlit(p[3])} {lib.qlit(p[4])})"
    prof = "[" + "; ".join(f"({lib.qlit(a)}, {lib.qlit(b)})" for a, b in c["prof"]) + "]"
    cps = lib.qlist(c["cps"])
    return (f"c06_run {lib.coq_nat(c['ctrl'])} {params} {lib.coq_bool(c['clip'])} {lib.qlit(c['eps'])} "
            f"{lib.coq_nat(c['mode'])} {lib.qlit(c['h0'])} {prof} {lib.qlit(c['t0'])} {lib.qlit(c['dt0'])} {cps}")


def to_float_case(c):
    d = dict(c)
    d["params"] = [float(x) for x in c["params"]]
    for k in ("eps", "t0", "h0", "dt0"):
        d[k] = float(c[k])
    d["cps"] = [float(x) for x in c["cps"]]
    d["prof"] = [[float(a), float(b)] for a, b in c["prof"]]
    return d


def decode_model(v):
    q = lib.decode_optQ(v)
    if q is None:
        return None
    n = int(q[0])
    sols = [(q[1 + 2 * i], int(q[2 + 2 * i])) for i in range(n)]
    k = 1 + 2 * n
    final = (q[k], int(q[k + 1]), q[k + 2])
    k += 3
    ev = []
    ar = {1: 5, 2: 1, 3: 1, 4: 3, 5: 3, 6: 3}
    while k < len(q):
        tag = int(q[k])
        ev.append((tag, q[k + 1:k + 1 + ar[tag]]))
        k += 1 + ar[tag]
    return {"sols": sols, "final": final, "events": ev}


def impl_events(log):
    """Group the call log into attempts / interpolations. Returns (events, problems)."""
    ev, prob = [], []
    i = 0
    while i < len(log):
        e = log[i]
        if e[0] == "step":
            if i + 2 >= len(log) or log[i + 1][0] != "est" or log[i + 2][0] != "ctrl":
                prob.append(f"call order broken at log[{i}]")
                break
            st, es, ct = log[i], log[i + 1], log[i + 2]
            if es[2] != st[1] or es[4] != st[2] or ct[1] != st[2] or ct[2] != es[5]:
                prob.append(f"attempt {len(ev)}: estimate/controller not applied to the attempted step")
            ev.append(("attempt", st[1], st[2], es[5], ct[3], es[1], ct[4]))
            i += 3
        elif e[0] in ("beyond", "at"):
            ev.append((e[0], e[1], e[2], e[3]))
            i += 1
        else:
            prob.append(f"unexpected log entry {e}")
            i += 1
    return ev, prob


def invariants(c, r):
    """Evaluate the C06 statement directly on the implementation's log."""
    fails = []
    ev, prob = impl_events(r["log"])
    fails += prob
    eps = float(c["eps"])
    fmin, fmax = float(c["params"][1]), float(c["params"][2])
    cps = [float(x) for x in c["cps"]]
    tol = 1e-12
    cp_idx = 0
    accepted = 0
    prev = None
    t_cur = float(c["t0"])
    n_at_report = []
    mem = 1.0
    for k, e in enumerate(ev):
        if e[0] == "attempt":
            _, tf, dt, pw, dtn, _e, _m = e
            if _m is not None:
                if pw < 1.0 and _m != mem:
                    fails.append(f"attempt {k}: rejected attempt changed the controller memory {mem} -> {_m}")
                mem = _m
            if abs(tf - t_cur) > tol * max(1, abs(t_cur)):
                fails.append(f"attempt {k} steps from t={tf} but accepted time is {t_cur}")
            if prev is not None and prev[0] == "attempt" and prev[3] < 1.0:
                if not dt < prev[2]:
                    fails.append(f"attempt {k}: dt {dt} not strictly smaller than rejected {prev[2]}")
            if not dt > 0:
                fails.append(f"attempt {k}: non-positive dt {dt}")
            if not (fmin * dt * (1 - tol) <= dtn <= fmax * dt * (1 + tol)):
                fails.append(f"attempt {k}: proposal {dtn} outside [{fmin},{fmax}]*{dt}")
            if c["clip"] and cp_idx < len(cps) and tf + dt > cps[cp_idx] + tol * max(1, abs(cps[cp_idx])):
                fails.append(f"attempt {k}: clipped step ends at {tf + dt} beyond checkpoint {cps[cp_idx]}")
            if pw >= 1.0:
                accepted += 1
                t_cur = tf + dt
        else:
            kind, t, lo, hi = e
            if cp_idx >= len(cps):
                fails.append(f"interpolation {k} after the last checkpoint")
            else:
                if abs(t - cps[cp_idx]) > tol:
                    fails.append(f"interpolation {k} at {t}, expected checkpoint {cps[cp_idx]}")
                if kind == "beyond" and not (lo <= t <= hi):
                    fails.append(f"interpolation {k}: {t} not in [{lo},{hi}]")
                if kind == "at" and not (lo <= hi and abs(hi - t) <= eps + tol):
                    fails.append(f"at-interpolation {k}: state at {hi} not within eps of {t}")
                if abs(hi - t_cur) > tol * max(1, abs(t_cur)):
                    fails.append(f"interpolation {k}: right state at {hi}, accepted time {t_cur}")
            n_at_report.append(accepted)
            cp_idx += 1
        prev = e
    sols = r["sols"]
    if len(sols) != len(cps):
        fails.append(f"{len(sols)} reports for {len(cps)} checkpoints")
    if cp_idx != len(cps):
        fails.append(f"{cp_idx} interpolations for {len(cps)} checkpoints")
    for i, (s, cp) in enumerate(zip(sols, cps)):
        if abs(s[0] - cp) > eps + tol:
            fails.append(f"report {i} at {s[0]} for checkpoint {cp}")
        if i < len(n_at_report) and s[1] != n_at_report[i]:
            fails.append(f"report {i}: num_steps {s[1]} != accepted attempts {n_at_report[i]}")
    if r["final"][1] != accepted:
        fails.append(f"final num_steps {r['final'][1]} != accepted attempts {accepted}")
    return fails


def num_eq(a: float, b: Fr, exact: bool, k: int = 0):
    """k = index of the event: in the tolerance stream the times are sums of k floating-point steps against exact rationals, and a
    clipped step t1 - t is a cancellation of such sums, so the admissible relative deviation grows linearly with k
    (observed 1.3e-6 at event 453 of a 6000-case run)."""
    fb = float(b)
    if exact and Fr(fb) == b:
        return a == fb
    return abs(a - fb) <= 1e-7 * max(1.0, k / 20.0) * max(1.0, abs(fb))


def compare(c, m, r):
    """Returns (mismatch description or None, min tie margin)."""
    ev, prob = impl_events(r["log"])
    if prob:
        return prob[0], 1.0
    mev = [e for e in m["events"] if e[0] in (1, 4, 5)]
    margin = 1.0
    eps = c["eps"]
    for tag, f in m["events"]:
        if tag == 1:
            t1, tf, dt, pw, dtn = f
            margin = min(margin, abs(float(pw - 1)), abs(float(tf + eps - t1)))
            # ... and a step that starts (numerically) on a breakpoint of the admissible-step profile
            for tk, _hk in c["prof"]:
                margin = min(margin, abs(float(tf - tk)))
        if tag in (4, 5):
            t1, lo, hi = f
            margin = min(margin, abs(float(hi - (t1 + eps))), abs(float(hi + eps - t1)))
    ex = c["exact"]
    if len(mev) != len(ev):
        return f"event count: model {len(mev)} vs implementation {len(ev)}", margin
    for k, ((tag, f), e) in enumerate(zip(mev, ev)):
        kind = {1: "attempt", 4: "beyond", 5: "at"}[tag]
        if kind != e[0]:
            return f"event {k}: model {kind} vs implementation {e[0]}", margin
        if tag == 1:
            _t1, tf, dt, pw, dtn = f
            for name, a, b in (("t_from", e[1], tf), ("dt", e[2], dt), ("error_power", e[3], pw), ("dt_proposed", e[4], dtn)):
                if not num_eq(a, b, ex, k):
                    return f"event {k} attempt.{name}: model {float(b)!r} vs implementation {a!r}", margin
        else:
            t1, lo, hi = f
            for name, a, b in (("t", e[1], t1), ("interp_from.t", e[2], lo), ("step_from.t", e[3], hi)):
                if not num_eq(a, b, ex, k):
                    return f"event {k} {kind}.{name}: model {float(b)!r} vs implementation {a!r}", margin
    if len(m["sols"]) != len(r["sols"]):
        return f"reports: model {len(m['sols'])} vs implementation {len(r['sols'])}", margin
    for i, ((t, n), s) in enumerate(zip(m["sols"], r["sols"])):
        if not num_eq(s[0], t, ex, len(mev)) or s[1] != n:
            return f"report {i}: model (t={float(t)},n={n}) vs implementation (t={s[0]},n={s[1]})", margin
    if not num_eq(r["final"][0], m["final"][0], ex, len(mev)) or r["final"][1] != m["final"][1]:
        return f"final state: model {float(m['final'][0]), m['final'][1]} vs implementation {r['final']}", margin
    return None, margin


def classify(c, fails):
    return "C06.invariant:" + (fails[0].split(":")[0].split(" ")[0] if fails else "none")


def main():
    ck = lib.Check("C06")
    pr = ck.run_proof()
    n = 300 if ck.tier == "quick" else 6000
    cases = []
    corpus_dir = os.path.join(lib.VERIF, "corpus", "C06")
    if os.path.isdir(corpus_dir):
        for fn in sorted(os.listdir(corpus_dir)):
            with open(os.path.join(corpus_dir, fn)) as f:
                d = json.load(f)
            cases.append(case_from_json(d))
    while len(cases) < n:
        cases.append(gen_case(ck.rng, exact=ck.rng.random() < 0.6))
    terms = [coq_term(c) for c in cases]
    try:
        mres = [decode_model(v) for v in lib.coq_eval("C06", HEADER, terms, shard=100 if ck.tier == "quick" else 400)]
    except RuntimeError as e:
        mres = None
        ck.notes.append(f"model evaluation failed: {str(e)[:500]}")
    ires = lib.run_impl("c06_impl.py", {"cases": [to_float_case(c) for c in cases]}, timeout=3000)["results"]

    ties = 0
    skipped_fuel = 0
    bad_corr = None
    for i, c in enumerate(cases):
        r = ires[i]
        jc = case_to_json(c)
        if "error" in r:
            ck.count(json.dumps(jc), sample=jc)
            if "too-many-attempts" in r["error"] and (mres is None or mres[i] is None):
                skipped_fuel += 1
                continue
            ck.report("C06.impl-exception", f"implementation raised {r['error']}", {"case": jc, "impl": r})
            continue
        fails = invariants(c, r)
        ev, _ = impl_events(r["log"])
        n_att = sum(1 for e in ev if e[0] == "attempt")
        n_rej = sum(1 for e in ev if e[0] == "attempt" and e[3] < 1.0)
        n_bey = sum(1 for e in ev if e[0] == "beyond")
        n_at = sum(1 for e in ev if e[0] == "at")
        ck.count(json.dumps(jc), nontrivial=(n_att >= 2 and (n_rej + n_bey + n_at) >= 2),
                 sample={"case": jc, "impl_events": ev[:12], "reports": r["sols"]},
                 ctrl=c["ctrl"], clip=c["clip"], exact=c["exact"], mode=c["mode"],
                 n_checkpoints=len(c["cps"]), rejected=min(n_rej, 5), beyond=min(n_bey, 3), at=min(n_at, 3))
        if any(x not in r.get("passed", []) for x in r.get("received", [])):   # (a run without any attempt receives no tolerances)
            ck.report("C06.acceptance-test.arguments", "the error estimator / solver of the rejection loop did not receive the caller's atol, rtol, damp: "
                      f"passed {r.get('passed')}, received {r.get('received')}", {"case": jc, "passed": r.get("passed"), "received": r.get("received")})
            continue
        if fails:
            ck.report(classify(c, fails), f"invariant violated on the implementation: {fails[0]}",
                      {"case": jc, "failed_invariants": fails, "impl": r})
            continue
        if mres is None:
            continue
        m = mres[i]
        if m is None:
            skipped_fuel += 1
            continue
        mism, margin = compare(c, m, r)
        if mism:
            if not c["exact"] and margin < 1e-6:
                ties += 1
                continue
            bad_corr = bad_corr or (jc, mism, r)
    ck.hist["tie_skipped"] = {"n": ties}
    ck.hist["fuel_skipped"] = {"n": skipped_fuel}
    if bad_corr is not None:
        jc, mism, r = bad_corr
        ck.report("C06.correspondence", f"correspondence Model/Control.v vs solvers_via_adaptive_steps.py/controllers.py broken ({mism}); "
                  "all C06 invariants still hold on the implementation's log", {"case": jc, "mismatch": mism, "impl": r,
                                                                                 "broken": "correspondence C06 (Run/C06Run.v c06_run)"}, nofail=True)
    if mres is None:
        ck.report("C06.model-eval", "model evaluation failed (Coq)", {"notes": ck.notes, "broken": "Run/C06Run.v"}, nofail=True)
    if not pr["ok"]:
        if not ck.violations:
            ck.report("C06.proof", f"proof obligations no longer check: {pr['errors']}",
                      {"broken": pr.get("failed_at", "Props/C06.v"), "errors": pr["errors"], "build_tail": pr.get("build_tail", "")[-1500:]},
                      nofail=True)
    ck.finish(rule="cases = (controller kind & parameters, clip, eps, error profile h(t), dt0, checkpoints) drawn from one PRNG; "
              "60% exact stream (dyadic data, float arithmetic exact, compared exactly), 40% tolerance stream; "
              "non-trivial = at least 2 attempts and at least 2 of {rejections, beyond-interpolations, at-interpolations}; distinct by full input")


def case_to_json(c):
    d = dict(c)
    d["params"] = [str(x) for x in c["params"]]
    for k in ("eps", "t0", "h0", "dt0"):
        d[k] = str(c[k])
    d["cps"] = [str(x) for x in c["cps"]]
    d["prof"] = [[str(a), str(b)] for a, b in c["prof"]]
    return d


def case_from_json(d):
    c = dict(d)
    c["params"] = [Fr(x) for x in d["params"]]
    for k in ("eps", "t0", "h0", "dt0"):
        c[k] = Fr(d[k])
    c["cps"] = [Fr(x) for x in d["cps"]]
    c["prof"] = [[Fr(a), Fr(b)] for a, b in d["prof"]]
    return c


if __name__ == "__main__":
    main()
