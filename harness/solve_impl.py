"""Generic implementation runner for solver-level cases (C02, C03, C04, C05, C07, C12, C13, C14...).

Every case describes a polynomial ODE, a state-space model, a solver configuration and a
routine; outputs are flattened in the layout of Run/GaussRun.v.
"""

import json
import sys
import warnings

import numpy as np

import gimpl
from gimpl import arr, jax, jnp, pdq
from probdiffeq import ivpsolve
from probdiffeq.util import test_util

warnings.simplefilter("ignore")


def make_vf(case):
    """Polynomial vector field u^(k) = f(u, ..., u^(k-1), t)."""
    k, d = case["ord"], case["d"]
    polys = case["f"]

    def f(*args, t):
        xs = jnp.concatenate([jnp.reshape(a, (-1,)) for a in args])  # index i*d + a
        env = jnp.concatenate([xs, jnp.reshape(jnp.asarray(t, dtype=jnp.float64), (1,))])
        out = []
        for a in range(d):
            acc = 0.0
            for coef, exps in polys[a]:
                term = coef
                for j, e in enumerate(exps):
                    if e:
                        term = term * env[j] ** e
                acc = acc + term
            out.append(acc)
        return jnp.stack([jnp.asarray(o, dtype=jnp.float64) for o in out])

    jac = pdq.jacobian_materialize()
    if k == 1:
        return pdq.ode(lambda u, *, t: f(u, t=t), jacobian=jac)
    if k == 2:
        return pdq.ode_order_two(lambda u, du, *, t: f(u, du, t=t), jacobian=jac)
    return pdq.ode_order_arbitrary(lambda *a, t: f(*a, t=t), num_tcoeffs_in_args=k, jacobian=jac)


def make_prior(case, ssm):
    kind, d = case["kind"], case["d"]
    tc = [arr(row) for row in case["tcoeffs"]]
    if kind == "iso":
        std = [jnp.asarray(float(s)) for s in case["std"]]
        base = None if case.get("base") is None else jnp.asarray(float(case["base"]))
    else:
        std = [arr(row) for row in case["std"]]
        base = None if case.get("base") is None else arr(case["base"])
    return ssm.prior_wiener_integrated_diffuse(tc, std, output_scale=base)


def make_solver(case, ssm, vf):
    lin = case["lin"]
    constraint = ssm.constraint_ode_ts0(vf) if lin == "ts0" else ssm.constraint_ode_ts1(vf)
    st = {"filter": pdq.strategy_filter, "fixedinterval": pdq.strategy_smoother_fixedinterval,
          "fixedpoint": pdq.strategy_smoother_fixedpoint}[case["strat"]]()
    cal = case["calib"]
    ci = {"constraint_init": constraint} if case.get("cinit") else {}
    if cal == "none":
        solver = pdq.solver(strategy=st, constraint=constraint, **ci)
    elif cal in ("mle", "mle_nocorr"):
        solver = pdq.solver_mle(strategy=st, constraint=constraint,
                                correct_asymptotic_underconfidence=(cal == "mle"), **ci)
    else:
        solver = pdq.solver_dynamic(strategy=st, constraint=constraint, **ci,
                                    re_linearize_after_calibration=(cal == "dyn_relin"),
                                    **({"stop_gradient_through_calibration": False} if case.get("stopgrad") is False else {}))
    return solver, constraint


def batched_normal_blocks(rv, kind):
    """rv with a leading time axis -> list over time of block lists."""
    T = rv.mean_flat.shape[0]
    out = []
    for i in range(T):
        r = jax.tree_util.tree_map(lambda s: s[i], rv)
        out.append(gimpl.normal_blocks(r, kind))
    return out


def run_fixed_grid(case):
    kind = case["kind"]
    ssm = gimpl.ssm_of(kind)
    vf = make_vf(case)
    prior = make_prior(case, ssm)
    solver, _ = make_solver(case, ssm, vf)
    solve = ivpsolve.solve_fixed_grid(solver=solver)
    grid = arr(case["grid"])
    if case.get("jit"):
        sol = jax.jit(lambda g: solve(prior, grid=g, damp=case["damp"]))(grid)
    else:
        sol = solve(prior, grid=grid, damp=case["damp"])
    out = []
    for blocks in batched_normal_blocks(sol.u, kind):
        out += gimpl.flat_blocks_normal(blocks)
    res = {"out": out, "output_scale": np.asarray(sol.output_scale, dtype=np.float64).reshape(len(case["grid"]) - 1 if case["calib"] in ("none", "mle", "mle_nocorr") else len(case["grid"]), -1).tolist(),
           "num_steps": np.asarray(sol.num_steps).tolist(), "t": np.asarray(sol.t).tolist()}
    add_std_accessor(res, sol)
    return res, sol, solver


def add_std_accessor(res, sol):
    """the user-facing accessor u.std: per time, per Taylor coefficient, raveled"""
    try:
        T = len(np.asarray(sol.t))
        leaves = [np.asarray(x, dtype=np.float64) for x in jax.tree_util.tree_leaves(sol.u.std)]
        res["std_acc"] = [[lv[ti].reshape(-1).tolist() for lv in leaves] for ti in range(T)]
    except Exception as e:  # noqa: BLE001
        res["std_acc_error"] = f"{type(e).__name__}: {e}"


def raw_normal_blocks(rv, kind):
    m = np.asarray(rv.mean_flat, dtype=np.float64)
    L = np.asarray(rv.cholesky_flat, dtype=np.float64)
    if kind == "dense":
        return [{"m": m.reshape(-1, 1).tolist(), "L": L.tolist()}]
    if kind == "iso":
        return [{"m": m.tolist(), "L": L.tolist()}]
    return [{"m": m[a].reshape(-1, 1).tolist(), "L": L[a].tolist()} for a in range(m.shape[0])]


def raw_cond_blocks(c, kind):
    A = np.asarray(c.A, dtype=np.float64)
    tl = np.asarray(c.to_latent, dtype=np.float64)
    to = np.asarray(c.to_observed, dtype=np.float64)
    nb = raw_normal_blocks(c.noise, kind)
    if kind == "blockdiag":
        return [{"A": A[a].tolist(), "b": nb[a]["m"], "L": nb[a]["L"], "tl": tl[a].tolist(), "to": to[a].tolist()}
                for a in range(A.shape[0])]
    return [{"A": A.tolist(), "b": nb[0]["m"], "L": nb[0]["L"], "tl": tl.tolist(), "to": to.tolist()}]


def encode_state(state, case):
    kind = case["kind"]
    cal = case["calib"]
    e = {"t": float(state.t), "u": raw_normal_blocks(state.u, kind), "nsteps": int(state.num_steps)}
    sf = state.solution_full
    if case["strat"] == "filter":
        e["cond"] = None
        e["pm"] = raw_normal_blocks(sf, kind)
    else:
        e["cond"] = raw_cond_blocks(sf.conditional, kind)
        e["pm"] = raw_normal_blocks(sf.marginal, kind)
    e["out"] = np.atleast_1d(np.asarray(state.output_scale, dtype=np.float64)).tolist()
    if cal in ("mle", "mle_nocorr"):
        _c, run, nd = state.auxiliary
        e["run"] = np.atleast_1d(np.asarray(run, dtype=np.float64)).tolist()
        e["ndata"] = int(nd)
    else:
        e["run"] = None
        e["ndata"] = 0
    return e


def run_trajectory(case):
    """Manual stepping through the public solver.init / solver.step, then the routine itself."""
    kind = case["kind"]
    ssm = gimpl.ssm_of(kind)
    vf = make_vf(case)
    prior = make_prior(case, ssm)
    solver, _ = make_solver(case, ssm, vf)
    grid = case["grid"]
    damp = case["damp"]
    state = solver.init(t=jnp.asarray(grid[0]), u=prior, damp=damp)
    states = [encode_state(state, case)]
    for i in range(len(grid) - 1):
        dt = grid[i + 1] - grid[i]
        state = solver.step(state, dt=dt, damp=damp)
        states.append(encode_state(state, case))
    res, _sol, _ = run_fixed_grid(case)
    res["states"] = states
    return res


def run_error(case):
    """Acceptance quantity of the error estimators along a manually stepped trajectory."""
    kind = case["kind"]
    ssm = gimpl.ssm_of(kind)
    vf = make_vf(case)
    prior = make_prior(case, ssm)
    solver, constraint = make_solver(case, ssm, vf)
    e = case["error"]
    norm = pdq.error_norm_scale_then_rms() if e["norm"] == 0 else pdq.error_norm_rms_then_scale()
    if e["est"] == "residual":
        est = pdq.error_residual_std(constraint=constraint, error_norm=norm, re_linearize_before_error=e["relin"],
                                     error_per_unit_step=e["per_unit"])
    else:
        est = pdq.error_state_std(constraint=constraint, error_norm=norm, re_linearize_before_error=e["relin"],
                                  derivative_idx=e["idx"], error_per_unit_step=e["per_unit"])
    grid = case["grid"]
    damp = case["damp"]
    state = solver.init(t=jnp.asarray(grid[0]), u=prior, damp=damp)
    estate = est.init_error()
    states = [encode_state(state, case)]
    powers = []
    for i in range(len(grid) - 1):
        dt = grid[i + 1] - grid[i]
        proposed = solver.step(state, dt=dt, damp=damp)
        power, estate = est.estimate_error_norm(estate, state, proposed, dt=dt, atol=e["atol"], rtol=e["rtol"], damp=damp)
        powers.append(float(power))
        state = proposed
        states.append(encode_state(state, case))
    return {"states": states, "powers": powers}


def make_error(case, constraint):
    e = case.get("error") or {"est": "residual", "norm": 0, "relin": False, "per_unit": False, "idx": 0}
    norm = pdq.error_norm_scale_then_rms() if e["norm"] == 0 else pdq.error_norm_rms_then_scale()
    if e["est"] == "residual":
        return pdq.error_residual_std(constraint=constraint, error_norm=norm, re_linearize_before_error=e["relin"],
                                      error_per_unit_step=e["per_unit"])
    return pdq.error_state_std(constraint=constraint, error_norm=norm, re_linearize_before_error=e["relin"],
                               derivative_idx=e["idx"], error_per_unit_step=e["per_unit"])


def solution_summary(sol, case, with_full=False):
    kind = case["kind"]
    out = []
    for blocks in batched_normal_blocks(sol.u, kind):
        out += gimpl.flat_blocks_normal(blocks)
    T = len(np.asarray(sol.t))
    osc = np.asarray(sol.output_scale, dtype=np.float64)
    res = {"out": out, "t": np.asarray(sol.t, dtype=np.float64).tolist(),
           "output_scale": osc.reshape(osc.shape[0], -1).tolist() if osc.ndim > 0 else [[float(osc)]],
           "num_steps": np.asarray(sol.num_steps).tolist()}
    add_std_accessor(res, sol)
    return res


def run_adaptive(case):
    """solve_adaptive_save_at / terminal values / save-every-step with the real controllers."""
    kind = case["kind"]
    ssm = gimpl.ssm_of(kind)
    vf = make_vf(case)
    prior = make_prior(case, ssm)
    solver, constraint = make_solver(case, ssm, vf)
    err = make_error(case, constraint)
    a = case["adaptive"]
    ctrl = None
    if a.get("control") == "pi":
        ctrl = ivpsolve.control_proportional_integral()
    elif a.get("control") == "i":
        ctrl = ivpsolve.control_integral()
    mode = a.get("mode", "save_at")
    kw = dict(atol=a["atol"], rtol=a["rtol"], dt0=a["dt0"], damp=case["damp"])
    if "eps" in a:
        kw["eps"] = a["eps"]
    if mode == "save_at":
        solve = ivpsolve.solve_adaptive_save_at(solver=solver, error=err, control=ctrl, clip_dt=a.get("clip", False), warn=False)
        fn = lambda: solve(prior, save_at=arr(a["save_at"]), **kw)  # noqa: E731
        sol = jax.jit(fn)() if a.get("jit", True) else fn()
        return solution_summary(sol, case)
    if mode == "terminal":
        solve = ivpsolve.solve_adaptive_terminal_values(solver=solver, error=err, control=ctrl, clip_dt=a.get("clip", True))
        sol = jax.jit(lambda: solve(prior, t0=a["save_at"][0], t1=a["save_at"][-1], **kw))()
        sol = jax.tree_util.tree_map(lambda s_: s_[None, ...], sol)
        return solution_summary(sol, case)
    if mode == "every_step":
        solve = test_util.solve_adaptive_save_every_step(solver=solver, error=err, control=ctrl, clip_dt=a.get("clip", False))
        sol = solve(prior, t0=a["save_at"][0], t1=a["save_at"][-1], **kw)
        res = solution_summary(sol, case)
        if a.get("offgrid"):
            ts = arr(a["offgrid"])
            og = jax.vmap(lambda t: solver.offgrid_marginals(t, solution=sol))(ts)
            o = []
            for blocks in batched_normal_blocks(og, kind):
                o += gimpl.flat_blocks_normal(blocks)
            res["offgrid"] = o
        return res
    raise ValueError(mode)


def encode_post(sf, case):
    kind = case["kind"]
    if case["strat"] == "filter":
        return {"pm": raw_normal_blocks(sf, kind), "cond": None}
    return {"pm": raw_normal_blocks(sf.marginal, kind), "cond": raw_cond_blocks(sf.conditional, kind)}


def run_interp(case):
    """solver.interpolate_fwd / interpolate_fwd_at_t1 between manually stepped states."""
    kind = case["kind"]
    ssm = gimpl.ssm_of(kind)
    vf = make_vf(case)
    prior = make_prior(case, ssm)
    solver, _ = make_solver(case, ssm, vf)
    grid = case["grid"]
    damp = case["damp"]
    state = solver.init(t=jnp.asarray(grid[0]), u=prior, damp=damp)
    raw = [state]
    for i in range(len(grid) - 1):
        state = solver.step(state, dt=grid[i + 1] - grid[i], damp=damp)
        raw.append(state)
    out = {"states": [encode_state(s_, case) for s_ in raw], "interps": []}
    for k, t in case["interp_at"]:
        ip, res = solver.interpolate_fwd(t=jnp.asarray(t), interp_from=raw[k], interp_to=raw[k + 1])
        out["interps"].append({"k": k, "t": t, "interpolated": encode_post(ip.solution_full, case),
                               "u": raw_normal_blocks(ip.u, kind),
                               "step_from": encode_post(res.step_from.solution_full, case),
                               "interp_from": encode_post(res.interp_from.solution_full, case),
                               "times": [float(ip.t), float(res.step_from.t), float(res.interp_from.t)],
                               "book": [{"out": np.atleast_1d(np.asarray(x.output_scale, dtype=np.float64)).tolist(), "nsteps": int(x.num_steps)}
                                        for x in (ip, res.step_from, res.interp_from)]})
    return out


class ScriptedControl:
    def __init__(self, dts):
        self.dts = arr(dts)

    def init(self, dt):
        return jnp.asarray(0)

    def apply(self, dt, state, *, error_power):
        idx = state + 1
        return self.dts[jnp.minimum(idx, self.dts.shape[0] - 1)], idx


class AcceptAll:
    def init_error(self):
        return ()

    def estimate_error_norm(self, state, previous, proposed, *, dt, atol, rtol, damp):
        return jnp.ones(()), state


def run_scripted(case):
    """The real solve_adaptive_save_at (or save-every-step + offgrid marginals) forced onto a prescribed
    step sequence by a scripted controller / accept-all error estimate."""
    kind = case["kind"]
    ssm = gimpl.ssm_of(kind)
    vf = make_vf(case)
    prior = make_prior(case, ssm)
    solver, _ = make_solver(case, ssm, vf)
    sc = case["scripted"]
    dts = sc["dts"]
    damp = case["damp"]
    ctrl = ScriptedControl(dts)
    if sc["mode"] == "save_at":
        solve = ivpsolve.solve_adaptive_save_at(solver=solver, error=AcceptAll(), control=ctrl, clip_dt=False, warn=False)
        sol = jax.jit(lambda: solve(prior, save_at=arr(sc["save_at"]), atol=1.0, rtol=1.0, dt0=dts[0], damp=damp, eps=sc.get("eps", 1e-8)))()
        res = solution_summary(sol, case)
    else:
        solve = test_util.solve_adaptive_save_every_step(solver=solver, error=AcceptAll(), control=ctrl, clip_dt=False)
        sol = solve(prior, t0=sc["save_at"][0], t1=sc["save_at"][-1], atol=1.0, rtol=1.0, dt0=dts[0], damp=damp, eps=sc.get("eps", 1e-8))
        res = solution_summary(sol, case)
        ts = arr(sc["offgrid"])
        og = jax.vmap(lambda t: solver.offgrid_marginals(t, solution=sol))(ts)
        o = []
        for blocks in batched_normal_blocks(og, kind):
            o += gimpl.flat_blocks_normal(blocks)
        res["offgrid"] = o
    # filtering states at the step ends, by manual stepping with a FILTER solver of the same configuration
    fcase = dict(case)
    fcase["strat"] = "filter"
    fsolver, _ = make_solver(fcase, ssm, vf)
    state = fsolver.init(t=jnp.asarray(sc["save_at"][0]), u=prior, damp=damp)
    states = [encode_state(state, fcase)]
    for dt in sc["steps_taken"]:
        state = fsolver.step(state, dt=dt, damp=damp)
        states.append(encode_state(state, fcase))
    res["states"] = states
    return res


ROUTINES = {"fixed_grid": lambda c: run_fixed_grid(c)[0], "trajectory": run_trajectory, "error": run_error,
            "adaptive": run_adaptive, "interp": run_interp, "scripted": run_scripted}


def main():
    cases = json.load(open(sys.argv[1]))["cases"]
    res = []
    for k_, c in enumerate(cases):
        if k_ % 20 == 19:
            jax.clear_caches()
        try:
            res.append(ROUTINES[c.get("routine", "fixed_grid")](c))
        except Exception as e:  # noqa: BLE001
            import traceback

            res.append({"error": f"{type(e).__name__}: {e}", "tb": traceback.format_exc()[-1500:]})
    json.dump({"results": res}, open(sys.argv[2], "w"))


if __name__ == "__main__":
    main()
