"""C15 implementation runner: pytree states, permutations, jit and vmap (real implementation, float64).

Case types
  "pytree": the same polynomial ODE is solved with a pytree-structured state and with the flattened state.
            The tree is described by a JSON spec; flattening/unflattening between the caller's tree and the
            flat vector is done by THIS file's own recursion (dict keys sorted, tuple/namedtuple fields in
            order, leaves in C order) -- not by jax.flatten_util -- so that a leaf-order mix-up inside the
            library's TreeFlatten classes is visible.
  "solve":  a solve_impl.py case (optionally under jax.disable_jit()), converted to the dense layout.
  "vmap":   a batch of problems (initial values, stiffness parameter) solved with jax.vmap(solve) and one at a time.
Cases are distributed over worker processes.
"""

import collections
import json
import os
import subprocess
import sys
import warnings

import numpy as np

warnings.simplefilter("ignore")


# ------------------------------------------------------------------ trees from specs
_NT = {}


def _nt(name, fields):
    key = (name, tuple(fields))
    if key not in _NT:
        _NT[key] = collections.namedtuple(name, fields)
    return _NT[key]


def spec_size(spec):
    if "leaf" in spec:
        return int(np.prod(spec["leaf"])) if spec["leaf"] else 1
    if "dict" in spec:
        return sum(spec_size(v) for _k, v in sorted(spec["dict"].items()))
    if "tuple" in spec:
        return sum(spec_size(v) for v in spec["tuple"])
    if "list" in spec:
        return sum(spec_size(v) for v in spec["list"])
    if "namedtuple" in spec:
        return sum(spec_size(v) for _k, v in spec["namedtuple"]["fields"])
    raise ValueError(spec)


def unflatten(spec, vec, pos=0):
    """vec: (..., d) -> tree with leaves (..., *shape). Returns (tree, new_pos)."""
    if "leaf" in spec:
        n = spec_size(spec)
        lead = vec.shape[:-1]
        return vec[..., pos:pos + n].reshape(lead + tuple(spec["leaf"])), pos + n
    if "dict" in spec:
        out = {}
        for k, v in sorted(spec["dict"].items()):
            out[k], pos = unflatten(v, vec, pos)
        # insertion order deliberately NOT sorted: the caller's dict may be in any order
        return {k: out[k] for k in spec["dict"]}, pos
    if "tuple" in spec or "list" in spec:
        items = []
        for v in spec.get("tuple", spec.get("list")):
            t, pos = unflatten(v, vec, pos)
            items.append(t)
        return (tuple(items) if "tuple" in spec else items), pos
    if "namedtuple" in spec:
        nt = spec["namedtuple"]
        items = []
        for _k, v in nt["fields"]:
            t, pos = unflatten(v, vec, pos)
            items.append(t)
        return _nt(nt["name"], [k for k, _v in nt["fields"]])(*items), pos
    raise ValueError(spec)


def flatten(spec, tree, nlead, xp):
    """tree with leaves (lead..., *shape) -> (lead..., d); also verifies node types and leaf shapes."""
    if "leaf" in spec:
        a = xp.asarray(tree)
        shape = tuple(a.shape)
        if shape[nlead:] != tuple(spec["leaf"]):
            raise StructureError(f"leaf has shape {shape}, expected (lead,)*{nlead} + {tuple(spec['leaf'])}")
        return a.reshape(shape[:nlead] + (-1,))
    if "dict" in spec:
        if not isinstance(tree, dict) or sorted(tree) != sorted(spec["dict"]):
            raise StructureError(f"expected dict with keys {sorted(spec['dict'])}, got {type(tree).__name__}")
        parts = [flatten(v, tree[k], nlead, xp) for k, v in sorted(spec["dict"].items())]
    elif "tuple" in spec or "list" in spec:
        want = tuple if "tuple" in spec else list
        sub = spec.get("tuple", spec.get("list"))
        if type(tree) is not want or len(tree) != len(sub):
            raise StructureError(f"expected {want.__name__} of length {len(sub)}, got {type(tree).__name__}")
        parts = [flatten(v, t, nlead, xp) for v, t in zip(sub, tree)]
    elif "namedtuple" in spec:
        nt = spec["namedtuple"]
        cls = _nt(nt["name"], [k for k, _v in nt["fields"]])
        if type(tree) is not cls:
            raise StructureError(f"expected namedtuple {nt['name']}, got {type(tree).__name__}")
        parts = [flatten(v, getattr(tree, k), nlead, xp) for k, v in nt["fields"]]
    else:
        raise ValueError(spec)
    return xp.concatenate(parts, axis=-1)


class StructureError(Exception):
    pass


def container_of(kind, items, q):
    if kind == "list":
        return list(items)
    if kind == "tuple":
        return tuple(items)
    return _nt("Taylor", [f"c{i}" for i in range(q + 1)])(*items)


def container_ok(kind, obj, q):
    if kind == "list":
        return type(obj) is list and len(obj) == q + 1
    if kind == "tuple":
        return type(obj) is tuple and len(obj) == q + 1
    return type(obj) is _nt("Taylor", [f"c{i}" for i in range(q + 1)])


# ------------------------------------------------------------------ polynomial fields
def poly_field(polys, d):
    import jax.numpy as jnp

    def f(args, t):
        xs = jnp.concatenate([jnp.reshape(a, (-1,)) for a in args])
        env = jnp.concatenate([xs, jnp.reshape(jnp.asarray(t, dtype=jnp.float64), (1,))])
        out = []
        for a in range(d):
            acc = jnp.zeros(())
            for coef, exps in polys[a]:
                term = coef
                for j, e in enumerate(exps):
                    if e:
                        term = term * env[j] ** e
                acc = acc + term
            out.append(acc)
        return jnp.stack(out)

    return f


def make_ode(pdq, fun, k):
    jac = pdq.jacobian_materialize()
    if k == 1:
        return pdq.ode(lambda u, *, t: fun((u,), t), jacobian=jac)
    return pdq.ode_order_two(lambda u, du, *, t: fun((u, du), t), jacobian=jac)


def run_pytree(case):
    import solve_impl
    from gimpl import arr, jax, jnp, pdq, ssm_of
    from probdiffeq import ivpsolve

    kind, q, d, k = case["kind"], case["q"], case["d"], case["ord"]
    spec = case["spec"]
    assert spec_size(spec) == d
    fflat = poly_field(case["f"], d)

    def f_tree(args, t):
        xs = [flatten(spec, a, 0, jnp) for a in args]
        return unflatten(spec, fflat(xs, t))[0]

    out = {}
    for which in ("tree", "flat"):
        if case.get("only") not in (None, which):
            continue
        ssm = ssm_of(kind)
        vf = make_ode(pdq, f_tree if which == "tree" else fflat, k)
        rows = [arr(r) for r in case["tcoeffs"]]
        if which == "tree":
            tc = container_of(case["container"], [unflatten(spec, r)[0] for r in rows], q)
        else:
            tc = container_of("list", rows, q)
        if kind == "iso":
            std_items = [jnp.asarray(float(s)) for s in case["std"]]
            std = container_of(case["container"] if which == "tree" else "list", std_items, q)
        else:
            srows = [arr(r) for r in case["std"]]
            if which == "tree":
                std = container_of(case["container"], [unflatten(spec, r)[0] for r in srows], q)
            else:
                std = container_of("list", srows, q)
        prior = ssm.prior_wiener_integrated_diffuse(tc, std)
        solver, constraint = solve_impl.make_solver(case, ssm, vf)
        if case["routine"] == "fixed_grid":
            solve = ivpsolve.solve_fixed_grid(solver=solver)
            sol = jax.jit(lambda g: solve(prior, grid=g, damp=case["damp"]))(arr(case["grid"]))  # noqa: B023
            T = len(case["grid"])
        else:
            a = case["adaptive"]
            err = pdq.error_residual_std(constraint=constraint)
            solve = ivpsolve.solve_adaptive_save_at(solver=solver, error=err, clip_dt=a.get("clip", False), warn=False)
            sol = jax.jit(lambda s: solve(prior, save_at=s, atol=a["atol"], rtol=a["rtol"], dt0=a["dt0"], damp=case["damp"]))(arr(a["save_at"]))  # noqa: B023
            T = len(a["save_at"])
        mean, std_out = sol.u.mean, sol.u.std
        r = {"T": T, "num_steps": np.asarray(sol.num_steps).tolist(), "t": np.asarray(sol.t).tolist(),
             "output_scale": np.asarray(sol.output_scale, dtype=np.float64).reshape(np.asarray(sol.output_scale).shape[0], -1).tolist()}
        problems = []
        cont = case["container"] if which == "tree" else "list"
        sp = spec if which == "tree" else {"leaf": [d]}
        if not container_ok(cont, mean, q):
            problems.append(f"u.mean is a {type(mean).__name__} of length {len(mean)}, the caller passed a {cont} of {q + 1} coefficients")
        if not container_ok(cont, std_out, q):
            problems.append(f"u.std is a {type(std_out).__name__}, the caller passed a {cont}")
        try:
            m = np.stack([np.asarray(flatten(sp, c, 1, np)) for c in mean])      # (q+1, T, d)
            if m.shape != (q + 1, T, d):
                problems.append(f"u.mean leaves have leading axis {m.shape[1]}, requested {T}")
            r["mean"] = m.tolist()
        except StructureError as e:
            problems.append(f"u.mean: {e}")
        try:
            if kind == "iso":
                s = np.stack([np.asarray(c) for c in std_out])                  # (q+1, T): one scalar per coefficient
                if s.shape != (q + 1, T):
                    problems.append(f"isotropic u.std leaves have shape {s.shape[1:]}, expected ({T},)")
            else:
                s = np.stack([np.asarray(flatten(sp, c, 1, np)) for c in std_out])
                if s.shape != (q + 1, T, d):
                    problems.append(f"u.std leaves have leading axis {s.shape[1]}, requested {T}")
            r["std"] = s.tolist()
        except StructureError as e:
            problems.append(f"u.std: {e}")
        r["structure_problems"] = problems
        out[which] = r
    return out


# ------------------------------------------------------------------ plain solves in the dense layout
def to_dense_layout(res, case):
    kind, q, d = case["kind"], case["q"], case["d"]
    n = q + 1
    N = n * d if kind == "dense" else n
    c = d if kind == "iso" else 1
    nb = d if kind == "blockdiag" else 1
    flat = np.asarray(res["out"], dtype=np.float64)
    T = len(res["t"])
    per = N * c + N * N
    flat = flat.reshape(T, nb, per)
    mean = np.zeros((T, n * d))
    cov = np.zeros((T, n * d, n * d))
    for k in range(T):
        for b in range(nb):
            m = flat[k, b, :N * c].reshape(N, c)
            P = flat[k, b, N * c:].reshape(N, N)
            if kind == "dense":
                mean[k] = m[:, 0]
                cov[k] = P
            elif kind == "iso":
                mean[k] = m.reshape(-1)
                for a in range(d):
                    cov[k][a::d, a::d] = P
            else:
                mean[k][b::d] = m[:, 0]
                cov[k][b::d, b::d] = P
    return mean, cov


def run_solve(case):
    import solve_impl
    from gimpl import jax

    c = dict(case)
    routine = c.get("routine", "fixed_grid")
    if c.get("nojit"):
        if routine == "adaptive":
            c["adaptive"] = dict(c["adaptive"], jit=False)
        else:
            c["jit"] = False
        with jax.disable_jit():
            r = solve_impl.ROUTINES[routine](c)
    else:
        if routine == "fixed_grid":
            c["jit"] = True
        r = solve_impl.ROUTINES[routine](c)
    mean, cov = to_dense_layout(r, c)
    return {"mean": mean.tolist(), "cov": cov.tolist(), "t": r["t"], "output_scale": r["output_scale"], "num_steps": r["num_steps"]}


# ------------------------------------------------------------------ vmap
def run_vmap(case):
    import solve_impl
    from gimpl import arr, jax, jnp, pdq, ssm_of
    from probdiffeq import ivpsolve

    kind, q, d = case["kind"], case["q"], case["d"]
    polys = case["f"]               # autonomous coupling terms over d variables (+ unused t slot)
    g = poly_field(polys, d)
    u0s = arr(case["u0s"])          # (B, d)
    lams = arr(case["lams"])        # (B,)
    t0 = float(case["t0"])
    a = case.get("adaptive")
    iso_std = case.get("eps", 0.0)

    def solve_one(u0, lam):
        ssm = ssm_of(kind)

        def rhs(u, *, t):
            return -lam * u + g((u,), t)

        vf = pdq.ode(rhs, jacobian=pdq.jacobian_materialize())
        tcs, _ = pdq.jetexpand_ode_padded_scan(num=q)(vf, [u0], t=t0)
        prior = ssm.prior_wiener_integrated(list(tcs), is_exact=(iso_std == 0.0), inexact_eps=iso_std if iso_std else 1e-6)
        solver, constraint = solve_impl.make_solver(case, ssm, vf)
        if a is None:
            solve = ivpsolve.solve_fixed_grid(solver=solver)
            return solve(prior, grid=arr(case["grid"]), damp=case["damp"])
        err = pdq.error_residual_std(constraint=constraint)
        solve = ivpsolve.solve_adaptive_save_at(solver=solver, error=err, clip_dt=a.get("clip", False), warn=False)
        return solve(prior, save_at=arr(a["save_at"]), atol=a["atol"], rtol=a["rtol"], dt0=a["dt0"], damp=case["damp"])

    def summary(sol):
        mean = np.stack([np.asarray(c) for c in sol.u.mean], axis=-2)   # (..., T, q+1, d)
        std = np.stack([np.asarray(c) for c in sol.u.std], axis=-1 if kind == "iso" else -2)
        osc = np.asarray(sol.output_scale, dtype=np.float64)
        return {"mean": mean.tolist(), "std": std.tolist(), "num_steps": np.asarray(sol.num_steps).tolist(),
                "output_scale": osc.tolist(), "t": np.asarray(sol.t).tolist()}

    one = jax.jit(solve_one)
    singles = [summary(one(u0s[i], lams[i])) for i in range(u0s.shape[0])]
    if case.get("singles_only"):
        return {"singles": singles}
    batched = jax.jit(jax.vmap(solve_one))(u0s, lams)
    return {"batched": summary(batched), "singles": singles}


TYPES = {"pytree": run_pytree, "solve": run_solve, "vmap": run_vmap}


def run_cases(cases):
    import time

    out = []
    for c in cases:
        t0 = time.time()
        try:
            out.append(TYPES[c["type"]](c))
        except Exception as e:  # noqa: BLE001
            import traceback

            out.append({"error": f"{type(e).__name__}: {e}", "tb": traceback.format_exc()[-2500:]})
        out[-1]["_wall"] = round(time.time() - t0, 1)
        print(c["type"], c.get("kind"), c.get("routine"), "nojit" if c.get("nojit") else "", out[-1]["_wall"], flush=True)
    return out


def main():
    import time

    payload = json.load(open(sys.argv[1]))
    cases = payload["cases"]
    workers = int(payload.get("workers", 1))
    budget = float(payload.get("budget_s", 420))
    if "--worker" in sys.argv:
        # one JSON line per finished case, so that a hanging case (an adaptive solve that never terminates) loses only itself
        with open(sys.argv[2], "w") as f:
            for c in cases:
                f.write(json.dumps(run_cases([c])[0]) + "\n")
                f.flush()
        return
    if workers <= 1 or len(cases) <= 1:
        json.dump({"results": run_cases(cases)}, open(sys.argv[2], "w"))
        return
    workers = min(workers, len(cases))
    # round-robin (every run compiles its own functions anyway)
    # cases with a "pool" tag (runs under jax.disable_jit(): every primitive is compiled on first use, which dominates)
    # share dedicated workers so that later cases of the pool reuse the primitives compiled by earlier ones
    pools = sorted({c["pool"] for c in cases if c.get("pool")})
    free = max(1, workers - len(pools))
    chunks = [[] for _ in range(free + len(pools))]
    k = 0
    for i, c in enumerate(cases):
        if c.get("pool"):
            chunks[free + pools.index(c["pool"])].append(i)
        else:
            chunks[k % free].append(i)
            k += 1
    procs = []
    t0 = time.time()
    for w, idxs in enumerate(chunks):
        if not idxs:
            continue
        fin, fout = f"{sys.argv[1]}.w{w}.in", f"{sys.argv[1]}.w{w}.out"
        json.dump({"cases": [cases[i] for i in idxs]}, open(fin, "w"))
        logf = open(fin + ".log", "w")
        p = subprocess.Popen([sys.executable, os.path.abspath(__file__), fin, fout, "--worker"], stdout=logf, stderr=subprocess.STDOUT)
        procs.append((p, idxs, fin, fout))
    results = [None] * len(cases)
    for p, idxs, fin, fout in procs:
        timed_out = False
        try:
            p.wait(timeout=max(1.0, budget - (time.time() - t0)))
        except subprocess.TimeoutExpired:
            p.kill()
            p.wait()
            timed_out = True
        log = open(fin + ".log").read() if os.path.exists(fin + ".log") else ""
        done = []
        if os.path.exists(fout):
            for ln in open(fout):
                try:
                    done.append(json.loads(ln))
                except ValueError:
                    break
        for k, i in enumerate(idxs):
            if k < len(done):
                results[i] = done[k]
            elif timed_out:
                results[i] = {"error": "TIMEOUT: the worker was killed after the time budget" + (" (this run did not terminate)" if k == len(done) else " (not started)"),
                              "timeout": True}
            else:
                results[i] = {"error": f"worker crashed (rc={p.returncode})", "tb": (log or "")[-1500:]}
        for f in (fin, fout, fin + ".log"):
            if os.path.exists(f):
                os.remove(f)
    json.dump({"results": results}, open(sys.argv[2], "w"))


if __name__ == "__main__":
    main()
