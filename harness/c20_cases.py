"""C20 case matrix: valid argument sets per entry point and factorisation, and every
single-field corruption of them.  Pure Python (no JAX); shared by harness/c20.py.

Abstract values are nested lists (see c20_impl.py):
  ["arr", shape, "f"|"b"|"i"], ["pyb"], ["pyf"], ["pyi"], ["list", xs], ["tuple", xs],
  ["dict", [[k, v], ...]], ["fun"], ["none"], ["jetode", k], ["jetauto", k], ["jetres", k],
  ["markov"], ["normal"].
"""

from __future__ import annotations

import copy

FACTS = ["dense", "isotropic", "blockdiag"]


def arr(shape, dt="f"):
    return ["arr", list(shape), dt]


def lst(xs):
    return ["list", list(xs)]


def tup(xs):
    return ["tuple", list(xs)]


def dct(kvs):
    return ["dict", [[k, v] for k, v in kvs]]


NONE = ["none"]
FUN = ["fun"]
PYB, PYF, PYI = ["pyb"], ["pyf"], ["pyi"]


def is_leaf(v):
    return v[0] in ("arr", "pyb", "pyf", "pyi", "fun", "jetode", "jetauto", "jetres", "markov", "normal")


def children(v):
    if v[0] in ("list", "tuple"):
        return list(v[1])
    if v[0] == "dict":
        return [x for _k, x in v[1]]
    return []


def leaf_paths(v, prefix=()):
    """Paths (tuples of child indices) to all leaves (None is an empty node, not a leaf)."""
    if is_leaf(v):
        return [prefix]
    out = []
    for i, c in enumerate(children(v)):
        out += leaf_paths(c, prefix + (i,))
    return out


def get_at(v, path):
    for i in path:
        v = children(v)[i]
    return v


def set_at(v, path, new):
    if not path:
        return copy.deepcopy(new)
    v = copy.deepcopy(v)
    cur = v
    for depth, i in enumerate(path):
        last = depth == len(path) - 1
        if cur[0] in ("list", "tuple"):
            if last:
                cur[1][i] = copy.deepcopy(new)
            else:
                cur = cur[1][i]
        else:
            if last:
                cur[1][i][1] = copy.deepcopy(new)
            else:
                cur = cur[1][i][1]
    return v


def map_leaves(v, f):
    if is_leaf(v):
        return f(v)
    if v[0] in ("list", "tuple"):
        return [v[0], [map_leaves(x, f) for x in v[1]]]
    if v[0] == "dict":
        return ["dict", [[k, map_leaves(x, f)] for k, x in v[1]]]
    return copy.deepcopy(v)


# ------------------------------------------------------------ base configurations
def base_configs(thorough=False):
    """Valid Taylor-coefficient containers: (name, tcoeffs)."""
    out = [
        ("vec3x2", lst([arr([3]), arr([3])])),
        ("scal x3", lst([arr([]), arr([]), arr([])])),
        ("dict x2", lst([dct([(0, arr([2])), (1, arr([1, 2]))]), dct([(0, arr([2])), (1, arr([1, 2]))])])),
    ]
    if thorough:
        out += [
            ("tuple vec2x3", tup([arr([2]), arr([2]), arr([2])])),
            ("mat2x2 x2", lst([arr([2, 2]), arr([2, 2])])),
            ("vec1x4", lst([arr([1]), arr([1]), arr([1]), arr([1])])),
            ("nested x2", lst([lst([arr([2]), tup([arr([]), arr([3])])]), lst([arr([2]), tup([arr([]), arr([3])])])])),
        ]
    return out


def coeff_like(tcoeffs, f):
    """One coefficient's tree with every leaf replaced by f(leaf)."""
    return map_leaves(children(tcoeffs)[0], f)


def valid_is_exact(fact, tcoeffs):
    """Valid exactness-flag arguments (documented: `C | bool`)."""
    n = len(children(tcoeffs))
    out = [("pybool", PYB)]
    if fact == "isotropic":
        out.append(("flags", lst([arr([], "b") for _ in range(n)])))
        out.append(("pyflags", lst([PYB for _ in range(n)])))
    else:
        out.append(("flags", map_leaves(tcoeffs, lambda l: arr(l[1], "b"))))
        out.append(("pyflags", lst([PYB for _ in range(n)])) if all(is_leaf(c) for c in children(tcoeffs)) else
                   ("scalarflags", map_leaves(tcoeffs, lambda l: arr([], "b"))))
    return out


def valid_std(fact, tcoeffs):
    if fact == "isotropic":
        return lst([arr([]) for _ in children(tcoeffs)])
    return map_leaves(tcoeffs, lambda l: arr(l[1]))


def valid_base_scale(fact, tcoeffs):
    """A valid non-default base output scale."""
    if fact == "isotropic":
        return arr([])
    return coeff_like(tcoeffs, lambda l: arr(l[1]))


def valid_cal_scale(fact, tcoeffs):
    """A valid calibrated output scale for transition()."""
    if fact == "blockdiag":
        d = 0
        for p in leaf_paths(children(tcoeffs)[0]):
            sz = 1
            for s in get_at(children(tcoeffs)[0], p)[1]:
                sz *= s
            d += sz
        return arr([d])
    return arr([])


def valid_loss_std_terminal(fact, tcoeffs):
    if fact == "isotropic":
        return arr([])
    return coeff_like(tcoeffs, lambda l: arr(l[1]))


def valid_loss_std_timeseries(fact, tcoeffs, N=3):
    if fact == "isotropic":
        return arr([N])
    return coeff_like(tcoeffs, lambda l: arr([N] + l[1]))


# ------------------------------------------------------------------ corruptions
def _leaf_corruptions(leaf):
    out = []
    if leaf[0] == "arr":
        s, dt = leaf[1], leaf[2]
        out.append(("rank_plus", arr([1] + s, dt)))
        out.append(("rank_plus_end", arr(s + [1], dt)))
        if s:
            out.append(("rank_minus", arr(s[1:], dt)))
            out.append(("leaf_len", arr(s[:-1] + [s[-1] + 1], dt)))
            out.append(("leaf_scalar", arr([], dt)))
            if any(x != 1 for x in s):
                out.append(("leaf_bcast", arr([1 for _ in s], dt)))
        else:
            out.append(("leaf_len", arr([2], dt)))
        for d2 in ("f", "i", "b"):
            if d2 != dt:
                out.append((f"dtype_{d2}", arr(s, d2)))
    for nm, pv in (("py_float", PYF), ("py_int", PYI), ("py_bool", PYB)):
        if pv != leaf:
            out.append((nm, pv))
    out.append(("leaf_fun", FUN))
    out.append(("leaf_none", NONE))
    out.append(("leaf_to_list", lst([leaf])))
    out.append(("leaf_empty_tuple", tup([])))
    return out


def corruptions(v, none_is_valid=False):
    """All single-field corruptions of the abstract value v: list of (name, new value)."""
    out = []
    out.append(("obj_fun", FUN))
    if not none_is_valid and v != NONE:
        out.append(("obj_none", NONE))
    if v[0] in ("list", "tuple", "dict"):
        xs = children(v)
        out.append(("obj_pyfloat", PYF))
        if xs and all(c[0] == "arr" and c[1] == xs[0][1] for c in xs):
            out.append(("obj_array", arr([len(xs)] + xs[0][1], xs[0][2])))
        if v[0] == "list":
            out.append(("tree_list2tuple", tup(xs)))
        if v[0] == "tuple":
            out.append(("tree_tuple2list", lst(xs)))
        if v[0] != "dict":
            out.append(("tree_seq2dict", dct(list(enumerate(xs)))))
        else:
            out.append(("tree_dict2list", lst(xs)))
            out.append(("tree_key_rename", dct([(k + 7 if i == 0 else k, x) for i, (k, x) in enumerate(v[1])])))
        out.append(("tree_wrap", lst([v])))
        if xs:
            out.append(("tree_unwrap", xs[0]))
            if v[0] != "dict":
                out.append(("len_minus", [v[0], xs[:-1]]))
                out.append(("len_plus", [v[0], xs + [xs[-1]]]))
                out.append(("len_zero", [v[0], []]))
            else:
                out.append(("len_minus", dct(v[1][:-1])))
                out.append(("len_plus", dct(v[1] + [[v[1][-1][0] + 5, v[1][-1][1]]])))
        # inner containers (a coefficient that is itself a tree)
        for i, c in enumerate(xs):
            if i not in (0, len(xs) - 1):
                continue
            if c[0] in ("list", "tuple", "dict"):
                for nm, nv in corruptions(c, none_is_valid=False):
                    if nm.startswith(("tree_", "len_")):
                        out.append((f"inner{i}.{nm}", set_at(v, (i,), nv)))
    paths = leaf_paths(v)
    chosen = []
    if paths:
        chosen.append(("first", paths[0]))
        if len(paths) > 1:
            chosen.append(("last", paths[-1]))
    for pos, p in chosen:
        for nm, nv in _leaf_corruptions(get_at(v, p)):
            if not p and nm in ("leaf_fun", "leaf_none"):
                continue  # same as obj_fun / obj_none
            out.append((f"{pos}.{nm}", set_at(v, p, nv)))
    if len(paths) > 1:
        # the same corruption applied to EVERY leaf
        for nm in ("rank_plus", "leaf_scalar", "leaf_len", "dtype_f", "dtype_i", "dtype_b", "py_float", "py_bool", "leaf_bcast"):
            def f(leaf, nm=nm):
                for n2, nv in _leaf_corruptions(leaf):
                    if n2 == nm:
                        return nv
                return leaf
            nv = map_leaves(v, f)
            if nv != v:
                out.append((f"all.{nm}", nv))
    # de-duplicate by value
    seen, res = set(), []
    for nm, nv in out:
        key = repr(nv)
        if key in seen or nv == v:
            continue
        seen.add(key)
        res.append((nm, nv))
    return res


# ------------------------------------------------------------------ the matrix
def case(ep, fact, args, base, field, corr, **extra):
    c = {"ep": ep, "fact": fact, "args": args, "base": base, "field": field, "corr": corr}
    c.update(extra)
    return c


def matrix(thorough=False):
    cases = []
    bases = base_configs(thorough)

    # ---- verify_taylor_coefficient_pytree (shared by the three factorisations)
    for bname, tc in bases:
        cases.append(case("verify", "-", {"x": tc}, bname, "-", "valid"))
        for nm, nv in corruptions(tc):
            cases.append(case("verify", "-", {"x": nv}, bname, "x", nm))

    # ---- prior_wiener_integrated
    for fact in FACTS:
        for bname, tc in bases:
            for ie_name, ie in valid_is_exact(fact, tc):
                for sc_name, sc in (("none", NONE), ("custom", valid_base_scale(fact, tc))):
                    cases.append(case("prior_iwp", fact, {"tcoeffs": tc, "is_exact": ie, "scale": sc},
                                      bname, "-", f"valid[{ie_name},{sc_name}]"))
            ie0 = valid_is_exact(fact, tc)[0][1]
            sc0 = valid_base_scale(fact, tc)
            for nm, nv in corruptions(tc):
                cases.append(case("prior_iwp", fact, {"tcoeffs": nv, "is_exact": ie0, "scale": NONE}, bname, "tcoeffs", nm))
            for ie_name, ie in valid_is_exact(fact, tc):
                for nm, nv in corruptions(ie):
                    cases.append(case("prior_iwp", fact, {"tcoeffs": tc, "is_exact": nv, "scale": NONE},
                                      bname, f"is_exact[{ie_name}]", nm))
            for nm, nv in corruptions(sc0, none_is_valid=True):
                cases.append(case("prior_iwp", fact, {"tcoeffs": tc, "is_exact": ie0, "scale": nv}, bname, "scale", nm))

    # ---- prior_wiener_integrated_diffuse
    for fact in FACTS:
        for bname, tc in bases:
            sd = valid_std(fact, tc)
            sc0 = valid_base_scale(fact, tc)
            cases.append(case("prior_iwp_diffuse", fact, {"mean": tc, "std": sd, "scale": NONE}, bname, "-", "valid[none]"))
            cases.append(case("prior_iwp_diffuse", fact, {"mean": tc, "std": sd, "scale": sc0}, bname, "-", "valid[custom]"))
            for nm, nv in corruptions(tc):
                cases.append(case("prior_iwp_diffuse", fact, {"mean": nv, "std": sd, "scale": NONE}, bname, "mean", nm))
            for nm, nv in corruptions(sd):
                cases.append(case("prior_iwp_diffuse", fact, {"mean": tc, "std": nv, "scale": NONE}, bname, "std", nm))
            for nm, nv in corruptions(sc0, none_is_valid=True):
                cases.append(case("prior_iwp_diffuse", fact, {"mean": tc, "std": sd, "scale": nv}, bname, "scale", nm))

    # ---- exponential priors (implemented for the dense factorisation only)
    for fact in FACTS:
        for bname, tc in bases:
            n = len(children(tc))
            ie0 = PYB
            ok_ode = ["jetauto", n]
            cases.append(case("prior_exp", fact, {"ode": ok_ode, "tcoeffs": tc, "is_exact": ie0, "scale": NONE},
                              bname, "-", "valid"))
            for nm, o in (("order_minus", ["jetauto", n - 1]), ("order_plus", ["jetauto", n + 1]),
                          ("obj_fun", FUN), ("obj_none", NONE), ("obj_jetode", ["jetode", n]),
                          ("obj_jetres", ["jetres", min(n, 3)])):
                if o[0] == "jetauto" and o[1] < 1:
                    continue
                cases.append(case("prior_exp", fact, {"ode": o, "tcoeffs": tc, "is_exact": ie0, "scale": NONE},
                                  bname, "ode", nm))
            if fact != "dense":
                continue
            sc0 = valid_base_scale(fact, tc)
            cases.append(case("prior_exp", fact, {"ode": ok_ode, "tcoeffs": tc, "is_exact": ie0, "scale": sc0},
                              bname, "-", "valid[custom]"))
            for nm, nv in corruptions(tc):
                cases.append(case("prior_exp", fact, {"ode": ok_ode, "tcoeffs": nv, "is_exact": ie0, "scale": NONE},
                                  bname, "tcoeffs", nm))
            for ie_name, ie in valid_is_exact(fact, tc)[1:2]:
                for nm, nv in corruptions(ie):
                    cases.append(case("prior_exp", fact, {"ode": ok_ode, "tcoeffs": tc, "is_exact": nv, "scale": NONE},
                                      bname, f"is_exact[{ie_name}]", nm))
            for nm, nv in corruptions(sc0, none_is_valid=True):
                cases.append(case("prior_exp", fact, {"ode": ok_ode, "tcoeffs": tc, "is_exact": ie0, "scale": nv},
                                  bname, "scale", nm))
            for ep in ("prior_ioup", "prior_matern"):
                if ep == "prior_matern" and not all(is_leaf(c) for c in children(tc)):
                    continue  # the Matern drift does arithmetic on the coefficients: arrays only
                cases.append(case(ep, fact, {"tcoeffs": tc, "is_exact": ie0, "scale": NONE}, bname, "-", "valid"))
                for nm, nv in corruptions(tc):
                    cases.append(case(ep, fact, {"tcoeffs": nv, "is_exact": ie0, "scale": NONE}, bname, "tcoeffs", nm))
                for nm, nv in corruptions(sc0, none_is_valid=True):
                    cases.append(case(ep, fact, {"tcoeffs": tc, "is_exact": ie0, "scale": nv}, bname, "scale", nm))

    # ---- transition(dt, output_scale): calibrated scale
    for fact in FACTS:
        for bname, tc in bases:
            for prior in (("iwp", "exp") if fact == "dense" else ("iwp",)):
                cal = valid_cal_scale(fact, tc)
                cases.append(case("transition", fact, {"tcoeffs": tc, "cal": cal, "prior": prior}, bname, "-", f"valid[{prior}]"))
                if cal[1] == []:
                    cases.append(case("transition", fact, {"tcoeffs": tc, "cal": PYF, "prior": prior}, bname, "-",
                                      f"valid[{prior},pyfloat]"))
                for nm, nv in corruptions(cal):
                    cases.append(case("transition", fact, {"tcoeffs": tc, "cal": nv, "prior": prior}, bname,
                                      f"cal[{prior}]", nm))

    # ---- constraints: object-type gates
    objs = [("jetode1", ["jetode", 1]), ("jetode2", ["jetode", 2]), ("jetres1", ["jetres", 1]),
            ("jetres2", ["jetres", 2]), ("jetauto1", ["jetauto", 1]), ("fun", FUN), ("none", NONE),
            ("array", arr([2])), ("pyfloat", PYF)]
    for fact in FACTS + ["matfree"]:
        for ep in ("constraint_ts0", "constraint_ts1", "constraint_residual"):
            for nm, o in objs:
                cases.append(case(ep, fact, {"obj": o}, "-", "obj", nm))

    # ---- jet expansion: vector-field type gate
    for alg in ("padded_scan", "unroll", "via_jvp", "doubling_unroll"):
        for nm, o in objs:
            cases.append(case("jetexpand", "-", {"alg": alg, "vf": o}, "-", "vf", f"{alg}.{nm}"))

    # ---- jet lifts: lift_by admissible range  (0 <= lift_by <= n - k)
    for fact in FACTS:
        for k in (1, 2, 3):
            for n in ((3, 4, 5) if thorough else (3, 5)):
                if n < k:
                    continue
                for lb in [-2, -1] + list(range(0, n - k + 3)) + [100, "float", "none", "str"]:
                    cases.append(case("lift_residual", fact, {"k": k, "n": n, "lift_by": lb}, f"k{k}n{n}", "lift_by", str(lb)))
        for k in (1, 2):
            for n in (3, 4):
                for lb in [-1] + list(range(0, n - k + 2)) + ["float"]:
                    cases.append(case("lift_ode", fact, {"k": k, "n": n, "lift_by": lb}, f"k{k}n{n}", "lift_by", str(lb)))

    # ---- losses
    for fact in FACTS:
        for bname, tc in bases:
            sd = valid_loss_std_terminal(fact, tc)
            cases.append(case("loss_terminal", fact, {"tcoeffs": tc, "std": sd}, bname, "-", "valid"))
            for nm, nv in corruptions(sd):
                cases.append(case("loss_terminal", fact, {"tcoeffs": tc, "std": nv}, bname, "std", nm))
            sd = valid_loss_std_timeseries(fact, tc)
            cases.append(case("loss_timeseries", fact, {"tcoeffs": tc, "std": sd, "posterior": ["markov"]}, bname, "-", "valid"))
            for nm, o in (("normal", ["normal"]), ("fun", FUN), ("none", NONE), ("array", arr([3]))):
                cases.append(case("loss_timeseries", fact, {"tcoeffs": tc, "std": sd, "posterior": o}, bname, "posterior", nm))
            for nm, nv in corruptions(sd):
                cases.append(case("loss_timeseries", fact, {"tcoeffs": tc, "std": nv, "posterior": ["markov"]}, bname, "std", nm))

    # ---- residual-based error estimate: constraint rows vs state entries
    for fact in FACTS:
        for d in (1, 2, 3):
            for m in ["same", 0, 1, 2, 3, 4]:
                cases.append(case("error_residual", fact, {"d": d, "m": m}, f"d{d}", "constraint_shape", str(m)))

    # ---- matrix-free ensembles: S >= n required
    for n in ((2, 3, 4) if thorough else (2, 3)):
        for S in ((1, 2, 3, 4, 5, 8) if thorough else (1, 2, 3, 4)):
            cases.append(case("matfree_ens", "matfree", {"S": S, "n": n}, f"n{n}", "num_ensembles", str(S)))

    # ---- suitability warnings
    for fact in FACTS:
        for strategy in ("filter", "smoother_fixedinterval", "smoother_fixedpoint"):
            for routine in ("save_at", "save_at_nowarn", "terminal_values", "fixed_grid", "save_every_step"):
                for solver in ("solver", "solver_mle", "solver_dynamic"):
                    cases.append(case("warn", fact, {"strategy": strategy, "routine": routine, "solver": solver},
                                      "-", "pairing", f"{strategy}.{routine}.{solver}"))
    return cases
