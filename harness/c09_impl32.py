"""C09 implementation runner, float32: the same exp_gram_cholesky / exponential-prior observations as
c09_impl.py but in a process with jax_enable_x64 DISABLED (with x64 enabled, _exp_gram_cholesky_init
silently promotes float32 inputs to float64 through np.log2((n - 1) / q)), so that eta_fp32 and the
float32 default order (pade_and_legendre_5) of prior_exponential are exercised as a float32 user sees them."""

import json
import os
import sys

import jax

jax.config.update("jax_enable_x64", False)
import jax.numpy as jnp  # noqa: E402
import numpy as np  # noqa: E402

import probdiffeq  # noqa: E402
from probdiffeq import probdiffeq as pdq  # noqa: E402
from probdiffeq._probdiffeq import jacobians, problems  # noqa: E402
from probdiffeq.backend import linalg  # noqa: E402
from probdiffeq.util import gram_util  # noqa: E402

assert probdiffeq.__file__.startswith(os.environ.get("VERIF_REPO", "/repo") + "/"), probdiffeq.__file__

PL = {3: gram_util.pade_and_legendre_3, 5: gram_util.pade_and_legendre_5, 7: gram_util.pade_and_legendre_7,
      9: gram_util.pade_and_legendre_9, 13: gram_util.pade_and_legendre_13}


def arr(x):
    return jnp.asarray(np.array(x, dtype=np.float32))


_EG = {}


def t_expgram(t):
    A, B = arr(t["A"]), arr(t["B"])
    assert str(A.dtype) == "float32", A.dtype
    key = t["order"]
    if key not in _EG:
        _EG[key] = gram_util.exp_gram_cholesky(pade_legendre=PL[key](), solve=linalg.solve_lu)
    eA, U = _EG[key](A, B)
    _e, _s, num = gram_util._exp_gram_cholesky_init(A, B, pade_legendre=PL[key](), solve=linalg.solve_lu)
    U64 = np.asarray(U, dtype=np.float64)
    return {"eA": np.asarray(eA, dtype=np.float64).tolist(), "G": (U64 @ U64.T).tolist(), "num": float(num),
            "lower": bool(np.all(np.triu(U64, 1) == 0.0)), "diag_nonneg": bool(np.all(np.diag(U64) >= 0.0)),
            "dtype": [str(eA.dtype), str(U.dtype)]}


def t_expprior(t):
    ssm = pdq.state_space_model_dense()
    q, d = t["q"], t["d"]
    tc = [jnp.zeros((d,), dtype=jnp.float32) for _ in range(q + 1)]
    base = None if t["base"] is None else arr(t["base"])
    which = t["prior"]
    if which == "ou":
        Lop = arr(t["Lop"])
        prior = ssm.prior_ornstein_uhlenbeck_integrated(lambda x: Lop @ x, tc, output_scale=base)
    elif which == "matern":
        prior = ssm.prior_matern(t["length_scale"], tc, output_scale=base)
    else:
        W = [arr(w) for w in t["W"]]

        def autonomous(*, jet_coords):
            return [sum(Wi @ x for Wi, x in zip(W, jet_coords))]

        ode = problems.JetOdeAutonomous(autonomous, jacobian=jacobians.jacobian_monte_carlo_fwd(),
                                        num_tcoeffs_in_args=q + 1, tcoeff_indices_output=[q + 2])
        prior = ssm.prior_exponential(ode, tc, output_scale=base)
    h = t["h"]
    c = prior.transition(dt=h, output_scale=jnp.asarray(float(t["out"]), dtype=jnp.float32))
    p = c.preconditioner_apply()
    A = np.asarray(p.A, dtype=np.float64)
    L = np.asarray(p.noise.cholesky_flat, dtype=np.float64)
    m = np.asarray(p.noise.mean_flat, dtype=np.float64).reshape(-1)
    order = 9 if str(prior.B.dtype) == "float64" else 5
    return {"F": np.asarray(prior.A, dtype=np.float64).tolist(), "B": np.asarray(prior.B, dtype=np.float64).tolist(),
            "out": A.reshape(-1).tolist() + m.tolist() + (L @ L.T).reshape(-1).tolist(), "num": -1.0,
            "order": order, "dtype": [str(c.A.dtype), str(prior.B.dtype)]}


TASKS = {"expgram": t_expgram, "expprior": t_expprior}


def main():
    tasks = json.load(open(sys.argv[1]))["tasks"]
    res = []
    for t in tasks:
        try:
            res.append(TASKS[t["t"]](t))
        except Exception as e:  # noqa: BLE001
            res.append({"error": f"{type(e).__name__}: {e}"})
    json.dump({"results": res}, open(sys.argv[2], "w"))


if __name__ == "__main__":
    main()
