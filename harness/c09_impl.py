"""C09 implementation runner: prior transitions, merges, Hilbert/Pascal factors, exp_gram_cholesky and
the exponential priors of /repo, called through their public entry points (plus the two private
helpers _exp_gram_cholesky_init / _exp_gram_cholesky_double to observe the doubling count and one
doubling step)."""

import json
import sys

import numpy as np

import gimpl
from gimpl import arr, jnp
from probdiffeq._probdiffeq import utilities
from probdiffeq.backend import linalg
from probdiffeq.util import cholesky_util, gram_util

PL = {3: gram_util.pade_and_legendre_3, 5: gram_util.pade_and_legendre_5, 7: gram_util.pade_and_legendre_7,
      9: gram_util.pade_and_legendre_9, 13: gram_util.pade_and_legendre_13}


def iwp_prior(kind, q, d, base):
    ssm = gimpl.ssm_of(kind)
    tc = [jnp.zeros((d,)) for _ in range(q + 1)]
    if base is None:
        b = None
    elif kind == "iso":
        b = jnp.asarray(float(base))
    else:
        b = arr(base)
    return ssm.prior_wiener_integrated(tc, output_scale=b)


def out_scale(kind, out):
    return arr(out) if kind == "blockdiag" else jnp.asarray(float(out))


def flat_cond(c, kind):
    return gimpl.flat_blocks_cond(gimpl.cond_blocks(c, kind))


def t_iwp(t):
    prior = iwp_prior(t["kind"], t["q"], t["d"], t["base"])
    c = prior.transition(dt=t["h"], output_scale=out_scale(t["kind"], t["out"]))
    return {"out": flat_cond(c, t["kind"])}


def t_merge(t):
    kind = t["kind"]
    prior = iwp_prior(kind, t["q"], t["d"], t["base"])
    o = out_scale(kind, t["out"])
    t1 = prior.transition(dt=t["h1"], output_scale=o)
    t2 = prior.transition(dt=t["h2"], output_scale=o)
    t12 = prior.transition(dt=t["h1"] + t["h2"], output_scale=o)
    return {"merged": flat_cond(t2.merge(t1), kind), "direct": flat_cond(t12, kind)}


def t_lin(t):
    kind = t["kind"]
    c = t["c"]
    o = out_scale(kind, t["out"])
    prior = iwp_prior(kind, t["q"], t["d"], t["base"])
    if kind == "iso":
        base_c = float(t["base"]) * c
    else:
        base_c = [float(b) * c for b in t["base"]]
    prior_c = iwp_prior(kind, t["q"], t["d"], base_c)
    return {"ref": flat_cond(prior.transition(dt=t["h"], output_scale=o), kind),
            "out_scaled": flat_cond(prior.transition(dt=t["h"], output_scale=o * c), kind),
            "base_scaled": flat_cond(prior_c.transition(dt=t["h"], output_scale=o), kind)}


def t_hilbert(t):
    L = np.asarray(cholesky_util.cholesky_hilbert(t["n"], t.get("K", 0)), dtype=np.float64)
    return {"L": L.tolist()}


def t_iwp1d(t):
    A, Q = utilities.system_matrices_1d_iwp(t["q"])
    return {"A": np.asarray(A, dtype=np.float64).tolist(), "Q": np.asarray(Q, dtype=np.float64).tolist()}


_EG = {}


def t_expgram(t):
    dt = np.float64 if t["dtype"] == "float64" else np.float32
    A = jnp.asarray(np.array(t["A"], dtype=dt))
    B = jnp.asarray(np.array(t["B"], dtype=dt))
    assert str(A.dtype) == t["dtype"], A.dtype
    key = t["order"]
    if key not in _EG:
        _EG[key] = gram_util.exp_gram_cholesky(pade_legendre=PL[t["order"]](), solve=linalg.solve_lu)
    eA, U = _EG[key](A, B)
    _e, _s, num = gram_util._exp_gram_cholesky_init(A, B, pade_legendre=PL[t["order"]](), solve=linalg.solve_lu)
    U64 = np.asarray(U, dtype=np.float64)
    diag = np.diag(U64)
    return {"eA": np.asarray(eA, dtype=np.float64).tolist(), "G": (U64 @ U64.T).tolist(), "num": float(num),
            "lower": bool(np.all(np.triu(U64, 1) == 0.0)), "diag_nonneg": bool(np.all(diag >= 0.0)),
            "dtype": [str(eA.dtype), str(U.dtype)]}


def t_double(t):
    eA = arr(t["eA"])
    U = arr(t["U"])
    i, (eA2, U2) = gram_util._exp_gram_cholesky_double((0, (eA, U)))
    U2 = np.asarray(U2, dtype=np.float64)
    return {"eA": np.asarray(eA2, dtype=np.float64).tolist(), "G": (U2 @ U2.T).tolist(), "i": int(i)}


def t_expprior(t):
    ssm = gimpl.ssm_of("dense")
    q, d = t["q"], t["d"]
    tc = [jnp.zeros((d,)) for _ in range(q + 1)]
    base = None if t["base"] is None else arr(t["base"])
    which = t["prior"]
    if which == "ou":
        Lop = arr(t["Lop"])
        prior = ssm.prior_ornstein_uhlenbeck_integrated(lambda x: Lop @ x, tc, output_scale=base)
    elif which == "matern":
        prior = ssm.prior_matern(t["length_scale"], tc, output_scale=base)
    elif which == "exp":
        W = [arr(w) for w in t["W"]]   # autonomous(coords) = sum_i W_i coords[i]
        from probdiffeq import probdiffeq as pdq
        from probdiffeq._probdiffeq import jacobians, problems

        def autonomous(*, jet_coords):
            return [sum(Wi @ x for Wi, x in zip(W, jet_coords))]

        ode = problems.JetOdeAutonomous(autonomous, jacobian=jacobians.jacobian_monte_carlo_fwd(),
                                        num_tcoeffs_in_args=q + 1, tcoeff_indices_output=[q + 2])
        prior = ssm.prior_exponential(ode, tc, output_scale=base)
    else:
        raise ValueError(which)
    h = t["h"]
    c = prior.transition(dt=h, output_scale=jnp.asarray(float(t["out"])))
    p, p_inv = prior.precon_fun(h)
    p = np.repeat(np.asarray(p), d)
    p_inv = np.repeat(np.asarray(p_inv), d)
    A_p = h * p_inv[:, None] * np.asarray(prior.A) * p[None, :]
    B_p = np.sqrt(abs(h)) * np.abs(p_inv[:, None]) * np.asarray(prior.B)
    order = 9 if str(prior.B.dtype) == "float64" else 5
    _e, _s, num = gram_util._exp_gram_cholesky_init(jnp.asarray(A_p), jnp.asarray(B_p), pade_legendre=PL[order](),
                                                    solve=linalg.solve_lu)
    return {"F": np.asarray(prior.A, dtype=np.float64).tolist(), "B": np.asarray(prior.B, dtype=np.float64).tolist(),
            "out": flat_cond(c, "dense"), "num": float(num), "normAp": float(np.abs(A_p).sum(axis=0).max()),
            "order": order}


TASKS = {"iwp": t_iwp, "merge": t_merge, "lin": t_lin, "hilbert": t_hilbert, "iwp1d": t_iwp1d,
         "expgram": t_expgram, "double": t_double, "expprior": t_expprior}


def main():
    tasks = json.load(open(sys.argv[1]))["tasks"]
    res = []
    for t in tasks:
        try:
            res.append(TASKS[t["t"]](t))
        except Exception as e:  # noqa: BLE001
            res.append({"error": f"{type(e).__name__}: {e}"})
    json.dump({"results": res}, open(sys.argv[2], "w"))


if __name__ == "__main__":
    main()
