"""Generators and Coq emitters for solver-level cases (shared by C02, C03, C04, C05, C07, C12-C16)."""

from __future__ import annotations

import math
from fractions import Fraction as Fr

import lib

KIND_COQ = {"dense": "Dense", "iso": "Iso", "blockdiag": "BlockDiag"}
STRAT_COQ = {"filter": "Filter", "fixedinterval": "FixedInterval", "fixedpoint": "FixedPoint"}
CAL_COQ = {"none": "CalNone", "mle": "(CalMLE true)", "mle_nocorr": "(CalMLE false)", "dyn": "(CalDynamic false)",
           "dyn_relin": "(CalDynamic true)"}
LIN_COQ = {"ts0": "TS0", "ts1": "TS1"}

HEADER = """From Coq Require Import List ZArith QArith Qcanon.
From PD Require Import Base.Field Base.Matrix Model.Gauss Model.Poly Model.Prior Model.Solver Run.GaussRun.
Import ListNotations.
Local Open Scope Z_scope.
"""


def natlist(xs):
    return "[" + "; ".join(lib.coq_nat(x) for x in xs) + "]"


def shape_dims(kind, q, d):
    N = (q + 1) * d if kind == "dense" else q + 1
    c = d if kind == "iso" else 1
    nb = d if kind == "blockdiag" else 1
    return N, c, nb


def gen_poly(rng, nvars, deg, nterms, tdep):
    """list of (coef, exps) over nvars state variables + time."""
    terms = []
    for _ in range(nterms):
        total = rng.randint(0, deg)
        exps = [0] * (nvars + 1)
        for _ in range(total):
            j = rng.randrange(nvars + (1 if tdep else 0))
            exps[j] += 1
        coef = Fr(rng.choice([-3, -2, -1, 1, 2, 3]), rng.choice([1, 2, 4]))
        terms.append([coef, exps])
    return terms


def gen_solver_case(rng, tier, kinds=("dense", "iso", "blockdiag"), strats=("filter",), qmax=None, max_steps=None,
                    lins=("ts0", "ts1"), calibs=("none", "mle", "mle_nocorr", "dyn", "dyn_relin")):
    kind = rng.choice(kinds)
    quick = tier == "quick"
    d = rng.choice([1, 2, 2, 3]) if not quick else rng.choice([1, 2, 2])
    ordk = rng.choice([1, 1, 1, 2])
    qmax = qmax or (4 if quick else 6)
    q = rng.randint(max(ordk, 1), qmax)
    if kind == "dense" and (q + 1) * d > 12:
        d = max(1, 12 // (q + 1))
    deg = rng.choice([1, 1, 1, 2, 2, 3])
    max_steps = max_steps or (4 if quick else 7)
    nsteps = rng.randint(1, max_steps if deg <= 2 else 2)
    tdep = rng.random() < 0.4
    f = [gen_poly(rng, ordk * d, deg, rng.randint(1, 3), tdep) for _ in range(d)]
    c = {"kind": kind, "q": q, "d": d, "ord": ordk, "f": f,
         "lin": rng.choice(lins), "strat": rng.choice(strats), "calib": rng.choice(calibs)}
    c["tcoeffs"] = [[Fr(rng.randint(-8, 8), 4) for _ in range(d)] for _ in range(q + 1)]
    mode = rng.choice(["exact", "inexact", "mixed", "diffuse"])
    if kind == "iso":
        if mode == "exact":
            std = [Fr(0)] * (q + 1)
        elif mode == "inexact":
            std = [Fr(1, 1024)] * (q + 1)
        elif mode == "mixed":
            std = [Fr(rng.choice([0, 1, 2, 8]), 8) for _ in range(q + 1)]
        else:
            std = [Fr(0) if i < ordk else Fr(1) for i in range(q + 1)]
    else:
        if mode == "exact":
            std = [[Fr(0)] * d for _ in range(q + 1)]
        elif mode == "inexact":
            std = [[Fr(1, 1024)] * d for _ in range(q + 1)]
        elif mode == "mixed":
            std = [[Fr(rng.choice([0, 1, 2, 8]), 8) for _ in range(d)] for _ in range(q + 1)]
        else:
            std = [[Fr(0) if i < ordk else Fr(1)] * d for i in range(q + 1)]
    c["std"] = std
    c["init_mode"] = mode
    if rng.random() < 0.5:
        c["base"] = None
    elif kind == "iso":
        c["base"] = Fr(rng.choice([1, 2, 3, 8, 32]), rng.choice([1, 4, 16]))
    else:
        c["base"] = [Fr(rng.choice([1, 2, 3, 8, 32]), rng.choice([1, 4, 16])) for _ in range(d)]
    c["damp"] = rng.choice([Fr(0), Fr(0), Fr(1, 64), Fr(1, 4)])
    t0 = Fr(rng.choice([0, 0, 1, -1]), 1)
    grid = [t0]
    style = rng.choice(["uniform", "geometric", "random"])
    h = Fr(1, rng.choice([2, 4, 8, 16] if q <= 4 else [2, 4, 8]))
    for i in range(nsteps):
        if style == "uniform":
            dt = h
        elif style == "geometric":
            dt = h * Fr(1, 2 ** (i % 3))
        else:
            dt = Fr(rng.choice([1, 2, 3, 5, 8]), rng.choice([8, 16, 32]))
        grid.append(grid[-1] + dt)
    c["grid"] = grid
    c["routine"] = "fixed_grid"
    return c


# ------------------------------------------------------------------ Coq emit
def coq_poly(p):
    return "[" + "; ".join(f"({lib.qclit(cf)}, {natlist(ex)})" for cf, ex in p) + "]"


def coq_config(c):
    kind, q, d = c["kind"], c["q"], c["d"]
    if c["base"] is None:
        base2 = [Fr(1)] * (1 if kind == "iso" else d)
    elif kind == "iso":
        base2 = [Fr(c["base"]) ** 2]
    else:
        base2 = [Fr(b) ** 2 for b in c["base"]]
    ode = f"(mkOdeq {lib.coq_nat(c['ord'])} [" + "; ".join(coq_poly(p) for p in c["f"]) + "])"
    return (f"(mkCfgq (mkShape {KIND_COQ[kind]} {lib.coq_nat(q)} {lib.coq_nat(d)}) {STRAT_COQ[c['strat']]} {CAL_COQ[c['calib']]} "
            f"{LIN_COQ[c['lin']]} {ode} {lib.qclist(base2)} {lib.qclit(Fr(c['damp']) ** 2)})")


def diagm(vals):
    n = len(vals)
    return [[vals[i] if i == j else Fr(0) for j in range(n)] for i in range(n)]


def coq_u0(c):
    kind, q, d = c["kind"], c["q"], c["d"]
    tc, std = c["tcoeffs"], c["std"]
    if kind == "dense":
        mean = [[tc[i][a]] for i in range(q + 1) for a in range(d)]
        var = [Fr(std[i][a]) ** 2 for i in range(q + 1) for a in range(d)]
        return f"[mkNq {lib.qcmat(mean)} {lib.qcmat(diagm(var))}]"
    if kind == "iso":
        mean = [[tc[i][a] for a in range(d)] for i in range(q + 1)]
        var = [Fr(std[i]) ** 2 for i in range(q + 1)]
        return f"[mkNq {lib.qcmat(mean)} {lib.qcmat(diagm(var))}]"
    blocks = []
    for a in range(d):
        mean = [[tc[i][a]] for i in range(q + 1)]
        var = [Fr(std[i][a]) ** 2 for i in range(q + 1)]
        blocks.append(f"mkNq {lib.qcmat(mean)} {lib.qcmat(diagm(var))}")
    return "[" + "; ".join(blocks) + "]"


def coq_fixed_grid(c):
    grid = c["grid"]
    dts = [grid[i + 1] - grid[i] for i in range(len(grid) - 1)]
    return f"fixed_grid_run {coq_config(c)} {lib.qclit(grid[0])} {coq_u0(c)} {lib.qclist(dts)}"


# ------------------------------------------------------------------ compare
def split_normals(flat, N, c, count):
    """flat list -> list of (mean NxC, cov NxN)"""
    out = []
    k = 0
    for _ in range(count):
        mean = [flat[k + i * c:k + (i + 1) * c] for i in range(N)]
        k += N * c
        cov = [flat[k + i * N:k + (i + 1) * N] for i in range(N)]
        k += N * N
        out.append((mean, cov))
    return out, k


def compare_normal(impl, model, rtol, where=""):
    """impl: floats, model: Fractions; (mean, cov) pairs. Returns (mismatch or None, worst)."""
    (mi, ci), (mm, cm) = impl, model
    N = len(mm)
    sd = [math.sqrt(max(float(cm[i][i]), 0.0)) for i in range(N)]
    smax = max(sd + [0.0])
    # coordinates with (near-)zero variance are determined by rounding noise of size eps*smax*sd_j
    sd = [max(x, 1e-7 * smax) for x in sd]
    mag = max([abs(float(x)) for r in mm for x in r] + [1.0])
    worst = 0.0
    for i in range(N):
        for a in range(len(mm[i])):
            b = float(mm[i][a])
            tol = rtol * (abs(b) + sd[i]) + 1e-11 * mag
            err = abs(mi[i][a] - b)
            if not err <= tol:
                return f"{where} mean[{i}][{a}]: implementation {mi[i][a]!r} vs model {b!r}", None
            worst = max(worst, err / tol * rtol)
    for i in range(N):
        for j in range(N):
            b = float(cm[i][j])
            tol = rtol * (sd[i] * sd[j] + abs(b)) + 1e-22 * mag * mag
            err = abs(ci[i][j] - b)
            if not err <= tol:
                return f"{where} cov[{i}][{j}]: implementation {ci[i][j]!r} vs model {b!r} (sd {sd[i]:.3g},{sd[j]:.3g})", None
            worst = max(worst, err / tol * rtol)
    return None, worst


def jsonable(o):
    if isinstance(o, Fr):
        return str(o)
    if isinstance(o, dict):
        return {k: jsonable(v) for k, v in o.items()}
    if isinstance(o, (list, tuple)):
        return [jsonable(v) for v in o]
    return o


def floatable(o):
    if isinstance(o, Fr):
        return float(o)
    if isinstance(o, dict):
        return {k: floatable(v) for k, v in o.items()}
    if isinstance(o, (list, tuple)):
        return [floatable(v) for v in o]
    return o


def unjson(o):
    """inverse of jsonable for case dicts (strings that look like fractions become Fractions)."""
    if isinstance(o, str):
        try:
            return Fr(o)
        except (ValueError, ZeroDivisionError):
            return o
    if isinstance(o, dict):
        return {k: (v if k in ("kind", "lin", "strat", "calib", "routine", "init_mode") else unjson(v)) for k, v in o.items()}
    if isinstance(o, list):
        return [unjson(v) for v in o]
    return o


# --------------------------------------------------- per-step refinement terms
def _gram_fr(L):
    Lf = [[Fr(x) for x in r] for r in L]
    n = len(Lf)
    m = len(Lf[0]) if n else 0
    return [[sum(Lf[i][k] * Lf[j][k] for k in range(m)) for j in range(n)] for i in range(n)]


def coq_raw_normal(b):
    return f"mkNq {lib.qcmat(b['m'])} {lib.qcmat(_gram_fr(b['L']))}"


def coq_raw_cond(b):
    return (f"mkCq {lib.qcmat(b['A'])} {lib.qcmat(b['b'])} {lib.qcmat(_gram_fr(b['L']))} "
            f"{lib.qclist(b['tl'])} {lib.qclist(b['to'])}")


def coq_state(c, e):
    kind, d = c["kind"], c["d"]
    nb = d if kind == "blockdiag" else 1
    u = "[" + "; ".join(coq_raw_normal(b) for b in e["u"]) + "]"
    pc = "[]" if e["cond"] is None else "[" + "; ".join(coq_raw_cond(b) for b in e["cond"]) + "]"
    out2 = [Fr(x) ** 2 for x in e["out"]]
    if len(out2) < nb:
        out2 = out2 * nb
    run2 = [Fr(x) ** 2 for x in e["run"]] if e["run"] is not None else [Fr(0)] * nb
    if len(run2) < nb:
        run2 = run2 * nb
    return (f"(mk_stateq {coq_config(c)} {lib.qclit(e['t'])} {u} {pc} {lib.qclist(out2)} {lib.qclist(run2)} "
            f"{lib.coq_nat(e['ndata'])} {lib.coq_nat(e['nsteps'])})")


def bound_field(c, horizon):
    """Scale the polynomial field by one common power of two such that the solution provably stays in |u^(i)| <= R on the horizon
    (initial coefficients are at most 2 in modulus): no finite-time blow-up, hence no adaptive solve that never terminates."""
    R = Fr(4 if c["ord"] == 1 else 6)
    S = max(sum(abs(Fr(cf)) * R ** sum(ex) for cf, ex in p) for p in c["f"])
    fac = min(Fr(1), Fr(2) / (Fr(horizon) * S)) if S > 0 else Fr(1)
    e = 0
    while Fr(1, 2 ** e) > fac:
        e += 1
    c["f"] = [[[Fr(cf) / 2 ** e, ex] for cf, ex in p] for p in c["f"]]
    return c


def all_finite(o):
    if isinstance(o, dict):
        return all(all_finite(v) for v in o.values())
    if isinstance(o, (list, tuple)):
        return all(all_finite(v) for v in o)
    if isinstance(o, float):
        return math.isfinite(o)
    return True


def coq_init(c):
    return f"init_run {coq_config(c)} {lib.qclit(c['grid'][0])} {coq_u0(c)} {lib.coq_bool(bool(c.get('cinit')))}"


def coq_step(c, e, dt):
    return f"step_run {coq_config(c)} {coq_state(c, e)} {lib.qclit(dt)}"


def coq_finalize(c, states):
    sts = "[" + "; ".join(coq_state(c, e) for e in states[1:]) + "]"
    return f"finalize_run {coq_config(c)} {coq_state(c, states[0])} {sts} {coq_state(c, states[-1])}"


def compare_cond_plain(impl, model, rtol, where="", marg=None):
    """(A, b, Q) plain form.  marg = (mean, cov) of the marginal the conditional maps INTO (its output space): the offset b
    and the noise Q are differences of quantities of the size of that marginal's mean / covariance, so rounding noise is
    measured against those."""
    out_w = 0.0
    A_i, b_i, Q_i = impl
    A_m, b_m, Q_m = model
    n = len(A_m)
    if marg is not None:
        mm, cm = marg
        msc = [max([abs(float(x)) for x in row] + [0.0]) for row in mm]
        sdm = [math.sqrt(max(float(cm[i][i]), 0.0)) for i in range(len(cm))]
    else:
        msc, sdm = [0.0] * n, [0.0] * n
    sdq = [math.sqrt(max(float(Q_m[i][i]), 0.0)) for i in range(n)]
    smax = max(sdm + sdq + [0.0])
    mx = max([abs(float(x)) for r in A_m for x in r] + [1e-300])
    for i, (ri, rm) in enumerate(zip(A_i, A_m)):
        for j, (a, b) in enumerate(zip(ri, rm)):
            fb = float(b)
            tol = rtol * (abs(fb) + mx) + 1e-300      # normwise: an entry may be off by rtol x the largest entry of the matrix
            if not abs(a - fb) <= tol:
                return f"{where} cond.A[{i}][{j}]: implementation {a!r} vs model {fb!r} (scale {mx:.3g})", None
            out_w = max(out_w, abs(a - fb) / tol * rtol)
    mall = max(msc + [0.0])
    for i, (ri, rm) in enumerate(zip(b_i, b_m)):
        for j, (a, b) in enumerate(zip(ri, rm)):
            fb = float(b)
            # the offset is  m - G m'  : an error of relative size rtol in the gain row shows up as rtol * sum_j |G_ij| |m'_j|
            cancel = sum(abs(float(A_m[i][jj])) * (msc[jj] if jj < len(msc) else 0.0) for jj in range(len(A_m[i]))) if marg is not None else 0.0
            tol = rtol * (abs(fb) + max(sdq[i], sdm[i] if i < len(sdm) else 0.0, 1e-7 * smax)) + 1e-9 * rtol / 1e-7 * (msc[i] if i < len(msc) else 0.0) \
                + rtol * cancel + 1e-13 * mall + 1e-300
            if not abs(a - fb) <= tol:
                return f"{where} cond.b[{i}][{j}]: implementation {a!r} vs model {fb!r}", None
    for i in range(n):
        for j in range(n):
            a, fb = Q_i[i][j], float(Q_m[i][j])
            si = max(sdq[i], 1e-7 * smax)
            sj = max(sdq[j], 1e-7 * smax)
            pi = sdm[i] if i < len(sdm) else 0.0
            pj = sdm[j] if j < len(sdm) else 0.0
            tol = rtol * (si * sj + abs(fb)) + 1e-12 * max(pi, 1e-7 * smax) * max(pj, 1e-7 * smax) + 1e-300
            if not abs(a - fb) <= tol:
                return f"{where} cond.Q[{i}][{j}]: implementation {a!r} vs model {fb!r} (sd {si:.3g},{sj:.3g})", None
    return None, out_w


def coq_spec_smooth(c, states):
    grid = c["grid"]
    dts = [grid[i + 1] - grid[i] for i in range(len(grid) - 1)]
    sts = "[" + "; ".join(coq_state(c, e) for e in states[1:]) + "]"
    return f"spec_smooth_run {coq_config(c)} {coq_state(c, states[0])} {sts} {lib.qclist(dts)}"
