"""C11 check: jet-lifting and constraint constructors differentiate constraints exactly.

1. prove Props/C11.vo (lift = total time derivatives; range-check reflection; residual_from_ode;
   stacks; linearisation value / Jacobian structure for the three factorisations);
2. correspondence (harness/c11_impl.py through the public API vs Model/JetLift.v and the
   `linearize` of Model/Solver.v, evaluated at Qc by vm_compute, Run/JetRun.v):
     lift      : polynomial ODE right-hand sides (pdq.ode / ode_order_two / ode_order_arbitrary) and
                 residuals (residual_position / velocity / acceleration), k = 1..3 jet coordinates
                 (differential order 0..2), explicit t, lifted by jet_lift(lift_by) or jet_lift_max,
                 lift_by in -2..6 and 0..k+6 supplied coefficients: ValueError iff the model rejects;
                 outputs, num_tcoeffs_in_args and tcoeff_indices_output vs model; ALSO vs the
                 specification (Spec/ODESeries.v lift_spec, evaluated in Coq) and vs an independent
                 evaluation here (fractions) of the iterated total-derivative operator
                 D_t g = dg/dt + sum_j dg/dx_j . x_{j+1};
     fromode   : residual_from_ode(ode) value = x_k - f; residual_from_ode(ode).jet_lift(m) and
                 residual_from_ode(ode.jet_lift(m)) vs model and vs (x_{k+l} - lifted f_l);
     stack     : residual_from_stack of lifted residuals with different orders: each part on its
                 own prefix of the coefficients, num_tcoeffs_in_args = max;
     linearize : constraint_ode_ts0 / constraint_ode_ts1 (jacobian_materialize) for dense /
                 isotropic / block-diagonal models: (A, b, Q) per block vs Model/Solver.v.
   Inputs are dyadic rationals; tolerance 1e-9 * max(1, |vector|_inf).
"""

from __future__ import annotations

import json
import os
import sys
import threading
from fractions import Fraction as Fr

sys.path.insert(0, os.path.dirname(os.path.abspath(__file__)))
import lib  # noqa: E402

HEADER = """From Coq Require Import List ZArith QArith Qcanon.
From PD Require Import Base.Field Base.Matrix Model.Poly Base.Series Spec.ODESeries Model.Jet Model.JetLift Run.JetRun.
Import ListNotations.
Local Open Scope Z_scope.
"""

TOL = 1e-9
NZ = [k for k in range(-6, 7) if k != 0]


# ------------------------------------------------------------------ polynomials (fractions)
def pnorm(monos):
    acc = {}
    for c, e in monos:
        e = tuple(e)
        acc[e] = acc.get(e, Fr(0)) + c
    return [[c, list(e)] for e, c in sorted(acc.items()) if c != 0]


def pmul(p, q):
    return pnorm([[c1 * c2, [a + b for a, b in zip(e1, e2)]] for c1, e1 in p for c2, e2 in q])


def pdiff(p, j):
    out = []
    for c, e in p:
        if e[j] > 0:
            e2 = list(e)
            e2[j] -= 1
            out.append([c * e[j], e2])
    return pnorm(out)


def peval(p, env):
    tot = Fr(0)
    for c, e in p:
        v = c
        for x, k in zip(env, e):
            if k:
                v *= x ** k
        tot += v
    return tot


def gen_poly(rng, nstate, timedep, maxdeg):
    monos = []
    for _ in range(rng.choice([1, 2, 2, 3, 3, 4])):
        deg = rng.randint(0, maxdeg)
        exps = [0] * (nstate + 1)
        for _k in range(deg):
            if timedep and rng.random() < 0.3:
                exps[nstate] += 1
            else:
                exps[rng.randrange(nstate)] += 1
        monos.append([Fr(rng.choice(NZ), 4), exps])
    return pnorm(monos)


def gen_polys(rng, k, d, nout, timedep, maxdeg):
    while True:
        ps = [gen_poly(rng, k * d, timedep, maxdeg) for _ in range(nout)]
        if all(ps) and (not timedep or any(e[k * d] > 0 for p in ps for _c, e in p)) \
                and any(e[(k - 1) * d + b] > 0 for p in ps for _c, e in p for b in range(d)):
            return ps


def qpt(rng, lo=-6, hi=6):
    return Fr(rng.randint(lo, hi), 4)


def total_derivatives(polys, k, d, m, coords, t):
    """Independent specification: values of D_t^l g, l = 0..m, at (coords, t) with
    D_t g = dg/dt + sum_{j,b} dg/dx_{j,b} * x_{j+1,b} over K = k + m jet coordinates."""
    K = k + m
    nv = K * d

    def embed(p):
        return pnorm([[c, e[: k * d] + [0] * ((K - k) * d) + [e[k * d]]] for c, e in p])

    env = [x for v in coords[:K] for x in v] + [t]
    out = []
    cur = [embed(p) for p in polys]
    for l in range(m + 1):
        out.append([peval(p, env) for p in cur])
        if l == m:
            break
        nxt = []
        for p in cur:
            acc = pdiff(p, nv)
            for j in range(K - 1):
                for b in range(d):
                    var = [[Fr(1), [1 if i == (j + 1) * d + b else 0 for i in range(nv + 1)]]]
                    dp = pdiff(p, j * d + b)
                    if dp:
                        acc = pnorm(acc + pmul(dp, var))
            # x_{K-1} never occurs in D_t^l g for l < m
            assert not any(e[(K - 1) * d + b] for _c, e in p for b in range(d)) or l >= m
            nxt.append(acc)
        cur = nxt
    return out


# ------------------------------------------------------------------------------ coq terms
def coq_poly(p):
    return "[" + "; ".join(f"({lib.qclit(c)}, [" + "; ".join(lib.coq_nat(e) for e in es) + "])" for c, es in p) + "]"


def coq_polys(polys):
    return "[" + "; ".join(coq_poly(p) for p in polys) + "]"


def zlit(z):
    return f"({z})%Z"


# ------------------------------------------------------------------------------- cases
def gen_lift_case(rng, role, admissible, via_max=False):
    k = rng.choice([1, 2, 3])
    d = rng.choice([1, 2, 3])
    nout = d if role == "ode" else rng.choice([1, 2, 3])
    timedep = rng.random() < 0.75
    maxdeg = rng.choice([2, 3, 3])
    polys = gen_polys(rng, k, d, nout, timedep, maxdeg)
    if admissible:
        m = rng.choice([0, 1, 1, 2, 2, 3, 3, 4, 5])
        n = k + m + rng.choice([0, 0, 0, 1, 2])
    else:
        mode = rng.choice(["neg", "one-too-many", "too-few-coords", "far"])
        if mode == "neg":
            m = rng.choice([-1, -1, -2])
            n = k + rng.randint(0, 3)
        elif mode == "one-too-many":
            n = k + rng.randint(0, 4)
            m = n - k + 1
        elif mode == "too-few-coords":
            n = rng.randint(0, k - 1)
            m = rng.choice([0, 0, 1])
        else:
            n = k + rng.randint(0, 2)
            m = n - k + rng.randint(2, 4)
    c = {"kind": "lift", "role": role, "k": k, "d": d, "nout": nout, "timedep": timedep, "polys": polys, "lift_by": m,
         "coords": [[qpt(rng) for _ in range(d)] for _ in range(n)], "t": qpt(rng, -4, 4), "via_max": None, "admissible": admissible}
    if via_max:
        # jet_lift_max(num_tcoeffs=N): ode: lift_by = N - idx - 1 (idx = k); residual: lift_by = N - k
        c["via_max"] = (m + k + 1) if role == "ode" else (m + k)
    return c


def gen_fromode_case(rng):
    k = rng.choice([1, 2])
    d = rng.choice([1, 2, 3])
    timedep = rng.random() < 0.75
    polys = gen_polys(rng, k, d, d, timedep, rng.choice([2, 3]))
    m = rng.choice([0, 1, 2, 3, 4])
    n = k + 1 + m
    return {"kind": "fromode", "k": k, "d": d, "timedep": timedep, "polys": polys, "lift_by": m,
            "coords": [[qpt(rng) for _ in range(d)] for _ in range(n)], "t": qpt(rng, -4, 4)}


def gen_stack_case(rng):
    d = rng.choice([1, 2, 3])
    nparts = rng.choice([2, 2, 3])
    parts = []
    for _ in range(nparts):
        k = rng.choice([1, 2, 3])
        timedep = rng.random() < 0.7
        parts.append({"k": k, "polys": gen_polys(rng, k, d, rng.choice([1, 2]), timedep, rng.choice([2, 3])),
                      "lift_by": rng.choice([None, 0, 1, 2, 3])})      # None: the residual itself, not lifted
    if rng.random() < 0.6:
        # an unlifted low-order part next to a lifted higher-order one: the stack must hand it ONLY its own prefix
        parts[0]["lift_by"] = None
        parts[1]["lift_by"] = rng.choice([1, 2, 3])
        if parts[1]["k"] + parts[1]["lift_by"] <= parts[0]["k"]:
            parts[1]["lift_by"] += parts[0]["k"]
    K = max(p["k"] + (p["lift_by"] or 0) for p in parts)
    n = K + rng.choice([0, 0, 1])
    return {"kind": "stack", "d": d, "parts": parts, "coords": [[qpt(rng) for _ in range(d)] for _ in range(n)], "t": qpt(rng, -4, 4)}


def gen_lin_case(rng, kind, lin):
    k = rng.choice([1, 1, 2])
    d = rng.choice([1, 2, 3])
    q = k + rng.choice([0, 1, 2])
    timedep = rng.random() < 0.7
    polys = gen_polys(rng, k, d, d, timedep, rng.choice([2, 3]))
    return {"kind": "linearize", "ssm": kind, "lin": lin, "k": k, "d": d, "q": q, "timedep": timedep, "polys": polys,
            "damp": Fr(rng.choice([0, 0, 1, 2, 3]), 4), "mean": [[qpt(rng) for _ in range(d)] for _ in range(q + 1)], "t": qpt(rng, -4, 4)}


def coq_terms(c):
    """list of (tag, term)"""
    if c["kind"] == "lift":
        k, d = c["k"], c["d"]
        ts = [("lift", f"c11_lift {lib.coq_nat(k)} {lib.coq_nat(d)} {coq_polys(c['polys'])} {zlit(c['lift_by'])} "
                       f"{lib.qcmat(c['coords'])} {lib.qclit(c['t'])}")]
        if 0 <= c["lift_by"] <= len(c["coords"]) - k:
            ts.append(("spec", f"c11_lift_spec {lib.coq_nat(k)} {lib.coq_nat(d)} {coq_polys(c['polys'])} {lib.coq_nat(c['lift_by'])} "
                               f"{lib.qcmat(c['coords'])} {lib.qclit(c['t'])}"))
        if c["role"] == "ode":
            ts.append(("sig", f"c11_ode_signature {lib.coq_nat(k)} {lib.coq_nat(k)} {zlit(c['lift_by'])}"))
            if c["via_max"] is not None:
                ts.append(("maxby", f"c11_ode_lift_max_by {lib.coq_nat(k)} {zlit(c['via_max'])}"))
        elif c["via_max"] is not None:
            ts.append(("maxby", f"c11_res_lift_max_by {lib.coq_nat(k)} {zlit(c['via_max'])}"))
        return ts
    if c["kind"] == "fromode":
        k, d = c["k"], c["d"]
        common = f"{lib.coq_nat(k)} {lib.coq_nat(d)} {coq_polys(c['polys'])}"
        tail = f"{lib.qcmat(c['coords'])} {lib.qclit(c['t'])}"
        return [("plain", f"c11_res_from_ode {common} {zlit(0)} {lib.qcmat(c['coords'][: k + 1])} {lib.qclit(c['t'])}"),
                ("lifted_residual", f"c11_res_from_ode {common} {zlit(c['lift_by'])} {tail}"),
                ("residual_of_lifted", f"c11_res_from_lifted {common} {zlit(c['lift_by'])} {tail}"),
                ("lift_f", f"c11_lift {common} {zlit(c['lift_by'])} {lib.qcmat(c['coords'][: k + c['lift_by']])} {lib.qclit(c['t'])}")]
    if c["kind"] == "stack":
        parts = "[" + "; ".join(f"({lib.coq_nat(p['k'])}, {coq_polys(p['polys'])}, "
                                + ("None" if p["lift_by"] is None else f"Some {zlit(p['lift_by'])}") + ")" for p in c["parts"]) + "]"
        return [("stack", f"c11_stack {lib.coq_nat(c['d'])} {parts} {lib.qcmat(c['coords'])} {lib.qclit(c['t'])}")]
    kind = {"dense": 0, "iso": 1, "blockdiag": 2}[c["ssm"]]
    lin = {"ts0": 0, "ts1": 1}[c["lin"]]
    return [("lin", f"c11_linearize {lib.coq_nat(kind)} {lib.coq_nat(lin)} {lib.coq_nat(c['q'])} {lib.coq_nat(c['d'])} {lib.coq_nat(c['k'])} "
                    f"{coq_polys(c['polys'])} {lib.qclit(c['damp'] ** 2)} {lib.qcmat(c['mean'])} {lib.qclit(c['t'])}")]


def jsonable(o):
    if isinstance(o, Fr):
        return str(o)
    if isinstance(o, dict):
        return {k: jsonable(v) for k, v in o.items()}
    if isinstance(o, (list, tuple)):
        return [jsonable(v) for v in o]
    return o


def floatable(o):
    if isinstance(o, Fr):
        return float(o)
    if isinstance(o, dict):
        return {k: floatable(v) for k, v in o.items()}
    if isinstance(o, (list, tuple)):
        return [floatable(v) for v in o]
    return o


def unflat(q, n):
    return [q[i:i + n] for i in range(0, len(q), n)] if n else []


def compare(out, expect, what="output"):
    if len(out) != len(expect):
        return f"{len(out)} {what}s returned, expected {len(expect)}"
    for n, (a, b) in enumerate(zip(out, expect)):
        if len(a) != len(b):
            return f"{what} {n}: {len(a)} entries, expected {len(b)}"
        scale = max([1.0] + [abs(float(x)) for x in b])
        for i, (x, y) in enumerate(zip(a, b)):
            if x != x or abs(x - float(y)) > TOL * scale:
                return f"{what} {n}, entry {i}: implementation {x!r} vs expected {float(y)!r}"
    return None


def main():
    ck = lib.Check("C11")
    pr = ck.run_proof()
    rng = ck.rng
    quick = ck.tier == "quick"

    cases = []
    for _ in range(28 if quick else 250):
        for role in ("ode", "res"):
            cases.append(gen_lift_case(rng, role, True))
    for _ in range(14 if quick else 120):
        for role in ("ode", "res"):
            cases.append(gen_lift_case(rng, role, False))
    for _ in range(9 if quick else 60):
        for role in ("ode", "res"):
            cases.append(gen_lift_case(rng, role, rng.random() < 0.7, via_max=True))
    for _ in range(14 if quick else 120):
        cases.append(gen_fromode_case(rng))
    for _ in range(12 if quick else 100):
        cases.append(gen_stack_case(rng))
    for _ in range(4 if quick else 30):
        for kind in ("dense", "iso", "blockdiag"):
            for lin in ("ts0", "ts1"):
                cases.append(gen_lin_case(rng, kind, lin))

    terms, where = [], []
    for ci, c in enumerate(cases):
        for tag, t in coq_terms(c):
            terms.append(t)
            where.append((ci, tag))

    impl_box = {}

    def run_impl():
        try:
            impl_box["res"] = lib.run_impl("c11_impl.py", {"cases": [floatable(c) for c in cases]}, timeout=3000)["results"]
        except Exception as e:  # noqa: BLE001
            impl_box["err"] = str(e)[-2000:]

    th = threading.Thread(target=run_impl)
    th.start()
    try:
        mvals = lib.coq_eval("C11", HEADER, terms, shard=8 if quick else 25, timeout=900, case_timeout=300, jobs=10)
    except RuntimeError as e:
        mvals = None
        ck.notes.append(f"model evaluation failed: {str(e)[:1500]}")
    th.join()
    if "res" not in impl_box:
        ck.report("C11.harness", f"implementation runner failed: {impl_box.get('err')}", {"error": impl_box.get("err")}, nofail=True)
        ck.finish(rule="runner failed")
    ires = impl_box["res"]
    mv = dict(zip(where, mvals)) if mvals is not None else {}

    n_evalfail = 0
    model_bug = None

    def model(ci, tag):
        nonlocal n_evalfail
        v = mv.get((ci, tag))
        if isinstance(v, str):
            n_evalfail += 1
            return None
        return v

    for ci, c in enumerate(cases):
        jc = jsonable(c)
        r = ires[ci]
        if "error" in r:
            ck.report("C11.harness", f"runner crashed on a case: {r['error']}", {"case": jc, "impl": r}, nofail=True)
            continue
        replay = {"case": jc, "impl": r}
        key = json.dumps(jc)

        # ------------------------------------------------------------------ lift
        if c["kind"] == "lift":
            k, d, m, n, nout = c["k"], c["d"], c["lift_by"], len(c["coords"]), c["nout"]
            accept_spec = 0 <= m <= n - k
            ck.count(key, nontrivial=(accept_spec and m >= 1) or not accept_spec, kind="lift", role=c["role"], k=k, d=d, lift_by=m,
                     ncoords_minus_k=n - k, accepted=accept_spec, via_max=c["via_max"] is not None, timedep=c["timedep"],
                     sample={"case": jc, "impl": {kk: vv for kk, vv in r.items()}} if ci % 29 == 0 else None)
            ml = model(ci, "lift")
            sig = f"C11.lift.{c['role']}"
            if "construct" in r:
                ck.report(sig + ".construct", f"jet_lift{'_max' if c['via_max'] is not None else ''} raised {r['construct']['raised']} at construction "
                          f"(lift_by={m}, k={k}): {r['construct'].get('msg')!r}", replay)
                continue
            # advertised signature
            if c["role"] == "ode":
                ms = model(ci, "sig")
                want_sig = [k + m, [k + l for l in range(m + 1)]]
                if ms is not None and [ms[0], ms[1:]] != want_sig and model_bug is None:
                    model_bug = (replay, f"ode_lift_signature {ms} vs independent {want_sig}")
                if r["sig"] != want_sig:
                    ck.report(sig + ".signature", f"ode.jet_lift(lift_by={m}) advertises (num_tcoeffs_in_args, tcoeff_indices_output) = {r['sig']}, "
                              f"model {want_sig} (k={k})", replay)
                if r["base_sig"] != [k, [k]]:
                    ck.report(sig + ".signature", f"unlifted ode advertises {r['base_sig']}, expected {[k, [k]]}", replay)
            else:
                if r["sig"][0] != k + m:
                    ck.report(sig + ".signature", f"residual.jet_lift(lift_by={m}).num_tcoeffs_in_args = {r['sig'][0]}, model {k + m}", replay)
            if c["via_max"] is not None:
                mb = model(ci, "maxby")
                if mb is not None and mb[0] != m and model_bug is None:
                    model_bug = (replay, f"lift_max_by model {mb} vs intended lift_by {m}")
            call = r["call"]
            if ml is None:
                continue
            model_accepts = ml[0] != 0
            if model_accepts != accept_spec and model_bug is None:
                model_bug = (replay, f"lift_accepts model {model_accepts} vs 0 <= {m} <= {n} - {k}")
            if "raised" in call:
                if model_accepts or call["raised"] != "ValueError":
                    ck.report(sig + (".accepts" if model_accepts else ".exception-class"),
                              f"lifted function raised {call['raised']} ({call.get('msg')!r}) for lift_by={m}, {n} coefficients, k={k}; "
                              f"model: {'accepts' if model_accepts else 'ValueError'}", replay)
                continue
            if not model_accepts:
                ck.report(sig + ".rejects", f"lifted function returned a value for lift_by={m} with {n} coefficients and k={k} "
                          f"(admissible range 0..{n - k}); model: ValueError", replay)
                continue
            mq = unflat(lib.decode_optQ(ml), nout)
            spec = total_derivatives(c["polys"], k, d, m, c["coords"], c["t"])
            if mq != spec and model_bug is None:
                model_bug = (replay, "lift model vs independent evaluation of the iterated total-derivative operator")
            cs = model(ci, "spec")
            if cs is not None and unflat(lib.decode_optQ(cs), nout) != mq and model_bug is None:
                model_bug = (replay, "lift model vs the Coq specification lift_spec (contradicts T11.1)")
            mism_s = compare(call["out"], spec, "derivative")
            mism_m = compare(call["out"], mq, "derivative")
            if mism_s and mism_m:
                ck.report(sig + ".value", f"{c['role']} lifted by {m} (k={k}, d={d}, {n} coefficients, explicit t: {c['timedep']}): {mism_s}",
                          dict(replay, expected=[[str(x) for x in v] for v in spec]))
            continue

        # --------------------------------------------------------------- fromode
        if c["kind"] == "fromode":
            k, d, m = c["k"], c["d"], c["lift_by"]
            ck.count(key, nontrivial=m >= 1, kind="fromode", k=k, d=d, lift_by=m, timedep=c["timedep"],
                     sample={"case": jc, "impl": r} if ci % 29 == 0 else None)
            if r["k_res"] != k + 1:
                ck.report("C11.fromode.signature", f"residual_from_ode(ode).num_tcoeffs_in_args = {r['k_res']}, expected {k + 1}", replay)
            env = [x for v in c["coords"][:k] for x in v] + [c["t"]]
            plain_spec = [[c["coords"][k][a] - peval(c["polys"][a], env) for a in range(d)]]
            lf = total_derivatives(c["polys"], k, d, m, c["coords"], c["t"])
            lifted_spec = [[c["coords"][k + l][a] - lf[l][a] for a in range(d)] for l in range(m + 1)]
            for tag, spec in (("plain", plain_spec), ("plain_call", plain_spec), ("lifted_residual", lifted_spec),
                              ("residual_of_lifted", lifted_spec)):
                rec = r[tag]
                mtag = "plain" if tag == "plain_call" else tag
                mraw = model(ci, mtag)
                mq = unflat(lib.decode_optQ(mraw), d) if mraw is not None and mraw[0] != 0 else None
                if mraw is not None and mq != spec and model_bug is None:
                    model_bug = (replay, f"residual_from_ode model ({mtag}) vs independent x_k - f / lifted parts")
                if "raised" in rec:
                    ck.report(f"C11.fromode.{tag}.exception", f"residual_from_ode ({tag}, lift_by={m}, k={k}) raised {rec['raised']}: "
                              f"{rec.get('msg')!r}", replay)
                    continue
                out = rec["out"]
                if tag in ("lifted_residual", "residual_of_lifted"):
                    kk, out = out
                    if kk != k + 1 + m:
                        ck.report(f"C11.fromode.{tag}.signature", f"{tag}: num_tcoeffs_in_args = {kk}, expected {k + 1 + m}", replay)
                mism = compare(out, spec, "derivative")
                if mism and (mq is None or compare(out, mq, "derivative")):
                    ck.report(f"C11.fromode.{tag}.value", f"residual_from_ode ({tag}, lift_by={m}, k={k}, d={d}): {mism}; expected "
                              f"x_(k+l) - D_t^l f", dict(replay, expected=[[str(x) for x in v] for v in spec]))
            mlf = model(ci, "lift_f")
            if mlf is not None and unflat(lib.decode_optQ(mlf) or [], d) != lf and model_bug is None:
                model_bug = (replay, "lift of f vs independent total derivatives")
            continue

        # ----------------------------------------------------------------- stack
        if c["kind"] == "stack":
            d = c["d"]
            K = max(p["k"] + (p["lift_by"] or 0) for p in c["parts"])
            ck.count(key, nontrivial=len({p["k"] + (p["lift_by"] or 0) for p in c["parts"]}) > 1, kind="stack", d=d, parts=len(c["parts"]), K=K,
                     unlifted_parts=sum(p["lift_by"] is None for p in c["parts"]),
                     sample={"case": jc, "impl": r} if ci % 29 == 0 else None)
            spec_parts = []
            for p in c["parts"]:
                mm = p["lift_by"] or 0
                td = total_derivatives(p["polys"], p["k"], d, mm, c["coords"][: p["k"] + mm], c["t"])
                spec_parts.append([x for v in td for x in v])
            ms = model(ci, "stack")
            if ms is not None:
                mflat = lib.decode_optQ(ms[1:])
                if (ms[0] != K or mflat != [x for part in spec_parts for x in part]) and model_bug is None:
                    model_bug = (replay, "stack model vs independent evaluation of each part on its own prefix")
            if r["k_stack"] != K:
                ck.report("C11.stack.signature", f"residual_from_stack(...).num_tcoeffs_in_args = {r['k_stack']}, expected max = {K}", replay)
            if "raised" in r["call"]:
                ck.report("C11.stack.exception", f"stacked residual raised {r['call']['raised']}: {r['call'].get('msg')!r}", replay)
                continue
            out, lens = r["call"]["out"]
            want_lens = [(p["lift_by"] or 0) + 1 for p in c["parts"]]
            if lens != want_lens:
                ck.report("C11.stack.shape", f"stacked residual returns parts of lengths {lens}, expected {want_lens}", replay)
            mism = compare(out, spec_parts, "part")
            if mism:
                ck.report("C11.stack.value", f"stacked residual ((k, lift_by) = {[(p['k'], p['lift_by']) for p in c['parts']]}, {len(c['coords'])} "
                          f"coefficients): {mism}", dict(replay, expected=[[str(x) for x in v] for v in spec_parts]))
            continue

        # -------------------------------------------------------------- linearize
        k, d, q = c["k"], c["d"], c["q"]
        ck.count(key, nontrivial=True, kind="linearize", ssm=c["ssm"], lin=c["lin"], k=k, d=d, q=q, damp=str(c["damp"]), timedep=c["timedep"],
                 sample={"case": jc, "impl": r} if ci % 5 == 0 else None)
        sig = f"C11.linearize.{c['ssm']}.{c['lin']}"
        if [[float(x) for x in v] for v in c["mean"]] != r["mean_back"]:
            ck.report("C11.harness", f"rv.mean is not the supplied mean: {r['mean_back']}", replay, nofail=True)
            continue
        ml = model(ci, "lin")
        if ml is None:
            continue
        mq = lib.decode_optQ(ml)
        # independent statement of the property (value and Jacobian structure), fractions
        env = [x for v in c["mean"][:k] for x in v] + [c["t"]]
        fval = [peval(c["polys"][a], env) for a in range(d)]
        dfdx = [[[peval(pdiff(c["polys"][a], i * d + b), env) if i < k else Fr(0) for b in range(d)] for i in range(q + 1)] for a in range(d)]
        g = [c["mean"][k][a] - fval[a] for a in range(d)]
        dg = [[[(Fr(1) if (i == k and a == b) else Fr(0)) - dfdx[a][i][b] for b in range(d)] for i in range(q + 1)] for a in range(d)]
        dmp2 = c["damp"] ** 2
        spec = []
        if c["ssm"] == "dense":
            N = (q + 1) * d
            if c["lin"] == "ts0":
                A = [[Fr(1) if col == k * d + a else Fr(0) for col in range(N)] for a in range(d)]
                b = [-fval[a] for a in range(d)]
            else:
                A = [[dg[a][col // d][col % d] for col in range(N)] for a in range(d)]
                b = [g[a] - sum(A[a][col] * c["mean"][col // d][col % d] for col in range(N)) for a in range(d)]
            spec = [x for row in A for x in row] + b + [dmp2 if i == j else Fr(0) for i in range(d) for j in range(d)]
        elif c["ssm"] == "iso":
            if c["lin"] == "ts0":
                A = [Fr(1) if i == k else Fr(0) for i in range(q + 1)]
                b = [-fval[a] for a in range(d)]
            else:
                A = [sum(dg[a][i][a] for a in range(d)) / d for i in range(q + 1)]
                b = [g[a] - sum(A[i] * c["mean"][i][a] for i in range(q + 1)) for a in range(d)]
            spec = A + b + [dmp2]
        else:
            for a in range(d):
                if c["lin"] == "ts0":
                    A = [Fr(1) if i == k else Fr(0) for i in range(q + 1)]
                    b = -fval[a]
                else:
                    A = [dg[a][i][a] for i in range(q + 1)]
                    b = g[a] - sum(A[i] * c["mean"][i][a] for i in range(q + 1))
                spec += A + [b] + [dmp2]
        if mq != spec and model_bug is None:
            model_bug = (replay, f"linearize model ({c['ssm']}, {c['lin']}) vs independent value/Jacobian-structure evaluation")
        mism_s = compare([r["out"]], [spec], "conditional")
        mism_m = compare([r["out"]], [mq], "conditional") if mq is not None else mism_s
        if mism_s and mism_m:
            ck.report(sig, f"{c['ssm']} {c['lin']} linearisation (k={k}, d={d}, q={q}, damp={c['damp']}): (A, b, Q) differs: {mism_s}; block shapes "
                      f"{r['shapes']}", dict(replay, expected=[str(x) for x in spec]))

    ck.hist["model_eval_failed"] = {"n": n_evalfail}
    if n_evalfail:
        ck.notes.append(f"{n_evalfail} model evaluations timed out and were compared against the independent specification only")
    if model_bug is not None:
        replay, txt = model_bug
        ck.report("C11.correspondence", f"correspondence Run/JetRun.v vs independent evaluation broken ({txt}); the implementation was judged "
                  "against the independent evaluation", dict(replay, broken="correspondence C11 (Run/JetRun.v)"), nofail=True)
    if mvals is None:
        ck.report("C11.model-eval", "model evaluation failed (Coq)", {"notes": ck.notes, "broken": "Run/JetRun.v"}, nofail=True)
    if not pr["ok"] and not ck.violations:
        ck.report("C11.proof", f"proof obligations no longer check: {pr['errors']}",
                  {"broken": pr.get("failed_at", "Props/C11.v"), "errors": pr["errors"], "build_tail": pr.get("build_tail", "")[-1500:]},
                  nofail=True)
    ck.finish(rule="cases drawn from one PRNG: polynomial right-hand sides / residuals with k = 1..3 jet coordinates (differential order 0..2), d and "
              "number of outputs in 1..3, degree <= 3, coefficients j/4, explicit t in ~75%; lift: lift_by 0..5 admissible (coefficients k+m..k+m+2) "
              "and inadmissible (negative, one too many, far too many, fewer than k coefficients), through jet_lift and jet_lift_max; fromode: "
              "k in {1,2}, lift 0..4; stack: 2..3 lifted parts of different orders; linearize: 3 factorisations x TS0/TS1, k in {1,2}, q = k..k+2, "
              f"damp in {{0, 1/4, 1/2, 3/4}}, jacobian_materialize.  tolerance {TOL} * max(1,|vector|).  non-trivial = lift order >= 1 or a rejection "
              "(lift), lift >= 1 (fromode), parts of different total order (stack), every linearisation; distinct by full input")


if __name__ == "__main__":
    main()
