"""C15 check: results are invariant under pytree structure, permutation, jit and vmap.

(i)   pytree vs flat: the same polynomial ODE with a dict / tuple / namedtuple / nested state (leaves of rank 0..3)
      and with the flattened state (own flattening convention = sorted dict keys, field order, C order);
      same numbers, caller's structure, leading time axis.
(ii)  permutation of the state components (and of the vector field): the solution is permuted.
(iii) jit vs jax.disable_jit().
(iv)  jax.vmap(solve)(batch) vs one at a time, incl. adaptive solves with very different step counts.
The Coq part (Props/C15.v) proves the ravel/unravel round trip, the relation between the three ravel orders and
permutation equivariance of the ravel; jit and vmap are runtime properties of JAX outside any Gallina model: C15 is
claimed PARTIAL on the proof side, (iii) and (iv) are covered by this harness only.
"""

from __future__ import annotations

import copy
import json
import os
import sys
from fractions import Fraction as Fr

import numpy as np

sys.path.insert(0, os.path.dirname(os.path.abspath(__file__)))
import gen  # noqa: E402
import lib  # noqa: E402

STRATS = ("filter", "fixedinterval", "fixedpoint")
CALIBS = ("none", "mle", "dyn")
KINDS = ("dense", "iso", "blockdiag")
WORST = {}


def track(label, w):
    WORST[label] = max(WORST.get(label, 0.0), float(w))


def rel_diff(a, b):
    """max |a-b| / (|a| + scale) with scale = max |a| (at least tiny)"""
    a, b = np.asarray(a, dtype=float), np.asarray(b, dtype=float)
    if a.shape != b.shape:
        return float("inf")
    if a.size == 0:
        return 0.0
    if not (np.all(np.isfinite(a)) and np.all(np.isfinite(b))):
        return float("inf")
    scale = max(float(np.max(np.abs(a))), 1e-300)
    return float(np.max(np.abs(a - b) / (np.abs(a) + scale)))


def sfloor(*xs):
    """output scales that are pure rounding noise (a dimension solved exactly) are compared absolutely"""
    return 1e-11 * max([float(np.max(np.abs(x))) for x in xs if np.size(x)] + [0.0]) + 1e-13


# ------------------------------------------------------------------ generators
LEAVES = {0: [[]], 1: [[1], [2], [3]], 2: [[1, 2], [2, 1], [1, 1]], 3: [[1, 1, 2], [1, 2, 1], [2, 1, 1], [1, 1, 1]]}
NAMES = ["z", "a", "m", "pos", "vel", "k", "B", "aa", "x1", "x0"]


def gen_leaf(rng):
    r = rng.randint(0, 3)
    return {"leaf": rng.choice(LEAVES[r])}


def gen_node(rng, kind, depth):
    n = rng.randint(2, 3)
    if depth <= 0:
        subs = [gen_leaf(rng) for _ in range(n)]
    else:
        subs = [gen_node(rng, rng.choice(["dict", "tuple", "namedtuple", "list"]), depth - 1) if rng.random() < 0.5 else gen_leaf(rng)
                for _ in range(n)]
    names = rng.sample(NAMES, n)      # random (unsorted) insertion / field order
    if kind == "dict":
        return {"dict": {k: s for k, s in zip(names, subs)}}
    if kind == "tuple":
        return {"tuple": subs}
    if kind == "list":
        return {"list": subs}
    return {"namedtuple": {"name": "S" + "".join(names)[:6], "fields": [[k, s] for k, s in zip(names, subs)]}}


def spec_size(spec):
    if "leaf" in spec:
        return int(np.prod(spec["leaf"])) if spec["leaf"] else 1
    if "dict" in spec:
        return sum(spec_size(v) for v in spec["dict"].values())
    if "tuple" in spec or "list" in spec:
        return sum(spec_size(v) for v in spec.get("tuple", spec.get("list")))
    return sum(spec_size(v) for _k, v in spec["namedtuple"]["fields"])


def leaf_ranks(spec, acc):
    if "leaf" in spec:
        acc.append(len(spec["leaf"]))
    elif "dict" in spec:
        for v in spec["dict"].values():
            leaf_ranks(v, acc)
    elif "tuple" in spec or "list" in spec:
        for v in spec.get("tuple", spec.get("list")):
            leaf_ranks(v, acc)
    else:
        for _k, v in spec["namedtuple"]["fields"]:
            leaf_ranks(v, acc)
    return acc


def children(spec):
    if "leaf" in spec:
        return []
    if "dict" in spec:
        return list(spec["dict"].values())
    if "tuple" in spec or "list" in spec:
        return spec.get("tuple", spec.get("list"))
    return [v for _k, v in spec["namedtuple"]["fields"]]


def depth(spec):
    return 0 if "leaf" in spec else 1 + max(depth(c) for c in children(spec))


def gen_spec(rng, tree_kind, dmax):
    for _ in range(200):
        if tree_kind == "nested":
            spec = gen_node(rng, rng.choice(["dict", "tuple", "namedtuple"]), rng.randint(1, 2))
            if depth(spec) < 2:
                continue
        elif tree_kind == "leaf":
            spec = gen_leaf(rng)
        else:
            spec = gen_node(rng, tree_kind, 0)
        if 2 <= spec_size(spec) <= dmax:
            return spec
    return {"tuple": [{"leaf": []}, {"leaf": [1, 2]}]}


def gen_problem(rng, kind, d, q, ordk, strats=STRATS, lins=("ts0", "ts1"), calibs=CALIBS, max_steps=3, deg=None):
    deg = deg or rng.choice([1, 2, 2, 3])
    tdep = rng.random() < 0.4
    c = {"kind": kind, "q": q, "d": d, "ord": ordk, "lin": rng.choice(lins), "strat": rng.choice(strats), "calib": rng.choice(calibs),
         "f": [gen.gen_poly(rng, ordk * d, deg, rng.randint(1, 3), tdep) for _ in range(d)],
         "tcoeffs": [[Fr(rng.randint(-8, 8), 4) for _ in range(d)] for _ in range(q + 1)]}
    mode = rng.choice(["exact", "inexact", "mixed"])
    if kind == "iso":
        c["std"] = {"exact": [Fr(0)] * (q + 1), "inexact": [Fr(1, 1024)] * (q + 1),
                    "mixed": [Fr(rng.choice([0, 1, 2, 8]), 8) for _ in range(q + 1)]}[mode]
    else:
        c["std"] = {"exact": [[Fr(0)] * d for _ in range(q + 1)], "inexact": [[Fr(1, 1024)] * d for _ in range(q + 1)],
                    "mixed": [[Fr(rng.choice([0, 1, 2, 8]), 8) for _ in range(d)] for _ in range(q + 1)]}[mode]
    c["init_mode"] = mode
    c["base"] = None
    c["damp"] = rng.choice([Fr(0), Fr(0), Fr(1, 64)])
    t0 = Fr(rng.choice([0, 0, 1, -1]))
    nsteps = rng.randint(1, max_steps if deg <= 2 else 2)
    grid = [t0]
    for _ in range(nsteps):
        grid.append(grid[-1] + Fr(rng.choice([1, 2, 3]), rng.choice([8, 16])))
    c["grid"] = grid
    c["routine"] = "fixed_grid"
    return c


def bound_field(c, horizon):
    """Scale the polynomial field by one common factor such that the solution provably stays in |u^(i)| <= R on the
    horizon (no finite-time blow-up, hence no adaptive solve that never terminates)."""
    R = Fr(4 if c["ord"] == 1 else 6)
    S = max(sum(abs(Fr(cf)) * R ** sum(ex) for cf, ex in p) for p in c["f"])
    fac = min(Fr(1), Fr(2) / (Fr(horizon) * S)) if S > 0 else Fr(1)
    # a power of two keeps the coefficients exactly representable
    e = 0
    while Fr(1, 2 ** e) > fac:
        e += 1
    c["f"] = [[[Fr(cf) / 2 ** e, ex] for cf, ex in p] for p in c["f"]]
    return c


def make_adaptive(rng, c, strats=("filter", "fixedpoint")):
    bound_field(c, Fr(3, 4))
    # well-conditioned initial conditions only (see harness/c14.py): exact, or a small uniform std
    if c["init_mode"] == "mixed" or rng.random() < 0.4:
        c["init_mode"] = rng.choice(["exact", "exact", "inexact"])
        v = Fr(0) if c["init_mode"] == "exact" else Fr(1, 1024)
        c["std"] = [v] * (c["q"] + 1) if c["kind"] == "iso" else [[v] * c["d"] for _ in range(c["q"] + 1)]
    if c["strat"] not in strats:
        c["strat"] = rng.choice(strats)
    c["damp"] = Fr(0)
    c["routine"] = "adaptive"
    t0 = c["grid"][0]
    tol = 10.0 ** -rng.randint(2, 4)
    c["adaptive"] = {"mode": "save_at", "save_at": [t0, t0 + Fr(1, 8), t0 + Fr(1, 2), t0 + Fr(3, 4)], "atol": 0.1 * tol, "rtol": tol,
                     "dt0": float(Fr(1, rng.choice([8, 32]))), "clip": rng.random() < 0.5}
    return c


def run(cases, budget):
    payload = {"cases": [gen.floatable(c) for c in cases], "workers": 14, "budget_s": budget}
    return lib.run_impl("c15_impl.py", payload, timeout=3000)["results"]


def describe(c):
    return f"{c['kind']} q={c['q']} d={c['d']} ord={c['ord']} {c['strat']}/{c['calib']}/{c['lin']} {c['routine']}"


# ------------------------------------------------------------------ conditioning of adaptive runs
# Two mathematically identical adaptive solves (pytree/flat, permuted, jit/no jit, vmap/single) execute different
# floating-point programs.  Their rounding differences are amplified by cancellation in the residual (error estimate,
# dynamic calibration) and by smoothing back to diffuse initial conditions, so a fixed 1e-10 does not separate
# "same result" from "different result".  Every adaptive comparison A-vs-B therefore also runs a TWIN A' of A whose
# inputs are perturbed by rounding-size amounts (relative 2^-48 .. 2^-46, random signs); B must agree with A up to
# ATOL_ADAPTIVE relative + KTWIN * |A - A'| in the same metric.  Fixed-grid comparisons use the plain tight tolerance.
KTWIN = 50.0
# exact initial conditions keep the controller away from the tiny-step regime in which the error estimate (a residual
# u' - f(u)) is dominated by cancellation; with a non-zero initial covariance only 1e-4 is meaningful
RTOL_ADAPTIVE = {True: 1e-7, False: 1e-4}


def twin_of(rng, c):
    t = copy.deepcopy(c)

    def wiggle(x):
        return x * (1 + Fr(rng.choice([-4, -3, -2, -1, 1, 2, 3, 4]), 2 ** 48)) + Fr(rng.choice([-1, 1]), 2 ** 50)

    if "tcoeffs" in t:
        t["tcoeffs"] = [[wiggle(x) for x in row] for row in t["tcoeffs"]]
    if "u0s" in t:
        t["u0s"] = [[wiggle(x) for x in row] for row in t["u0s"]]
    if t.get("adaptive"):
        t["adaptive"] = dict(t["adaptive"], dt0=float(t["adaptive"]["dt0"]) * (1 + 2.0 ** -48))
    return t


def deriv_floor(c, coeff_mag):
    """Intrinsic rounding noise of the i-th Taylor coefficient estimated from data at spacing h: eps * |u^(j)| (2/h)^(i-j)
    (a k-th difference quotient has weights summing to 2^k / h^k).
    coeff_mag: max |u^(j)| per coefficient j (length q+1). Returns one floor per coefficient (fixed grids only)."""
    if c.get("routine", "fixed_grid") != "fixed_grid":
        return np.zeros(len(coeff_mag))
    g = [float(x) for x in c["grid"]]
    h = min(b - a for a, b in zip(g[:-1], g[1:]))
    out = []
    for i in range(len(coeff_mag)):
        out.append(200 * 2.3e-16 * max(max(coeff_mag[j], 1.0) * (2.0 / h) ** (i - j) for j in range(i + 1)))
    return np.array(out)


def base_of(q, b):
    """tight tolerance b up to q = 3; conditioning grows by more than an order of magnitude per derivative"""
    return b * {4: 1e1, 5: 1e3, 6: 1e5}.get(q, 1.0 if q <= 3 else 1e5)   # ~ condition number of the (q+1) Hilbert matrix


def dev_mean(a, b, sd, floor=0.0):
    """max (|a-b| - floor)_+ / (|a| + sd + 1e-3 max|a|)"""
    a, b = np.asarray(a, dtype=float), np.asarray(b, dtype=float)
    if a.shape != b.shape or not (np.all(np.isfinite(a)) and np.all(np.isfinite(b))):
        return float("inf")
    return float(np.max(np.maximum(np.abs(a - b) - floor, 0.0) / (np.abs(a) + sd + 1e-3 * max(1.0, float(np.abs(a).max())))))


def dev_cov(Pa, Pb, sd):
    """max |Pa-Pb| / (sd_i sd_j + |Pa| + noise floor)"""
    Pa, Pb = np.asarray(Pa, dtype=float), np.asarray(Pb, dtype=float)
    if Pa.shape != Pb.shape or not (np.all(np.isfinite(Pa)) and np.all(np.isfinite(Pb))):
        return float("inf")
    den = sd[:, :, None] * sd[:, None, :] + np.abs(Pa)
    # entries involving an exactly determined coordinate (zero variance) carry rounding noise eps * smax * sd_j
    noise = 1e-14 * sd.max(axis=1)[:, None, None] * np.maximum(sd[:, :, None], sd[:, None, :])
    return float(np.max(np.maximum(np.abs(Pa - Pb) - noise, 0.0) / (den + 1e-300)))


def dev_scale(sa, sb):
    sa, sb = np.asarray(sa, dtype=float), np.asarray(sb, dtype=float)
    if sa.shape != sb.shape or not (np.all(np.isfinite(sa)) and np.all(np.isfinite(sb))):
        return float("inf")
    if sa.size == 0:
        return 0.0
    return float(np.max(np.abs(sa - sb) / (np.abs(sa) + 1e3 * sfloor(sa, sb))))


def sd_from_cov(P):
    sd = np.sqrt(np.maximum(np.einsum("tii->ti", np.asarray(P, dtype=float)), 0.0))
    return np.maximum(sd, 1e-7 * max(float(sd.max()) if sd.size else 0.0, 1e-300))


def allowance(c, base, noise):
    """tolerance for a deviation in one of the metrics above"""
    if c["routine"] == "fixed_grid":
        return base
    return RTOL_ADAPTIVE[c.get("init_mode", "exact") == "exact"] + KTWIN * noise


def steps_differ_on_boundary(ck, c, steps_a, twin_steps):
    """A and B report different num_steps.  If the rounding-size twin of A ALSO takes a different number of steps, the
    run sits on a step-acceptance boundary (thousands of steps, an error norm within rounding of 1): not a defect."""
    if c["routine"] == "adaptive" and twin_steps is not None and twin_steps != steps_a:
        ck.hist.setdefault("adaptive_runs_on_an_acceptance_boundary(skipped)", {"n": 0})["n"] += 1
        return True
    return False


def note_noise(ck, what, noise):
    key = "<1e-12" if noise < 1e-12 else "<1e-9" if noise < 1e-9 else "<1e-6" if noise < 1e-6 else ">=1e-6"
    d = ck.hist.setdefault(f"adaptive_twin_noise:{what}", {})
    d[key] = d.get(key, 0) + 1


# ------------------------------------------------------------------ (i) pytree vs flat
def pytree_check(ck, n):
    quick = ck.tier == "quick"
    cases, twins, runs = [], {}, []
    tree_kinds = ["dict", "tuple", "namedtuple", "nested", "list"]
    for g in range(n):
        tk = tree_kinds[g % len(tree_kinds)] if g < 2 * len(tree_kinds) else ck.rng.choice(tree_kinds)
        spec = gen_spec(ck.rng, tk, 5 if quick else 7)
        d = spec_size(spec)
        kind = KINDS[g % 3] if g < 9 else ck.rng.choice(KINDS)
        ordk = ck.rng.choice([1, 1, 2])
        q = ck.rng.randint(ordk, 3 if quick else 5)
        c = gen_problem(ck.rng, kind, d, q, ordk)
        if ck.rng.random() < 0.3:
            make_adaptive(ck.rng, c)
        c.update({"type": "pytree", "spec": spec, "tree_kind": tk, "container": ck.rng.choice(["list", "tuple", "namedtuple"])})
        cases.append(c)
        runs.append(c)
        if c["routine"] == "adaptive":
            twins[g] = len(runs)
            runs.append(dict(twin_of(ck.rng, c), only="flat"))
    res = yield runs
    k = 0
    for g, c in enumerate(cases):
        r = res[k]
        k += 1
        rt = None
        if g in twins:
            rt = res[twins[g]]
            k += 1
        jc = gen.jsonable(c)
        ranks = sorted(set(leaf_ranks(c["spec"], [])))
        ck.count("pytree:" + json.dumps(jc, sort_keys=True), nontrivial=True,
                 sample={"pytree": {k_: jc[k_] for k_ in ("spec", "container", "kind", "q", "ord", "strat", "calib", "lin", "routine")}},
                 py_tree=c["tree_kind"], py_container=c["container"], py_kind=c["kind"], py_routine=c["routine"], py_strat=c["strat"],
                 py_calib=c["calib"], py_lin=c["lin"], py_d=c["d"], py_leaf_ranks=",".join(map(str, ranks)))
        sig = f"C15.pytree.{c['tree_kind']}"
        rep = {"case": jc}
        if r.get("timeout"):
            ck.hist.setdefault("runs_killed_by_time_budget", {"n": 0})["n"] += 1
            continue
        if "error" in r:
            ck.report(sig, f"{describe(c)}: implementation raised {r['error']}", dict(rep, tb=r.get("tb")))
            continue
        tr, fl = r["tree"], r["flat"]
        probs = tr["structure_problems"]
        if probs:
            ck.report(sig, f"{describe(c)} [{c['container']} of {c['tree_kind']}]: output structure: {probs[0]}", dict(rep, problems=probs))
            continue
        if fl["structure_problems"]:
            ck.report("C15.pytree.flat", f"{describe(c)}: flat problem: {fl['structure_problems'][0]}", rep)
            continue
        if tr["num_steps"] != fl["num_steps"]:
            if not steps_differ_on_boundary(ck, c, fl["num_steps"], None if (rt is None or "error" in rt) else rt["flat"]["num_steps"]):
                ck.report(sig, f"{describe(c)}: num_steps {tr['num_steps']} (pytree) vs {fl['num_steps']} (flat)", rep)
            continue
        # absolute anchor (the pytree/flat relation alone is blind to a mix-up made identically in both runs): the
        # filter's first output, and any strategy's first output under an exact initial condition, IS the caller's input
        if c["strat"] == "filter" or c["init_mode"] == "exact":
            want0 = np.array([[float(x) for x in row] for row in c["tcoeffs"]])
            for which, rr in (("pytree", tr), ("flat", fl)):
                got0 = np.asarray(rr["mean"], dtype=float)[:, 0, :]
                if got0.shape != want0.shape or not np.all(np.abs(got0 - want0) <= 1e-10 * (1 + np.abs(want0))):
                    ck.report(sig, f"{describe(c)} [{c['container']} of {c['tree_kind']}]: u.mean at the initial time is not the caller's initial "
                              f"Taylor coefficients ({which} run): got {got0.tolist()}, passed {want0.tolist()}", rep)
                    break
        sdev = np.asarray(fl["std"], dtype=float)
        if c["kind"] == "iso":
            sdev = sdev[:, :, None]
        if not np.all(np.isfinite(sdev)):
            if np.all(np.isfinite(np.asarray(tr["std"], dtype=float))):
                ck.report(sig, f"{describe(c)}: non-finite u.std in the flat problem only", rep)
            continue
        twin_ok = rt is not None and "error" not in rt and rt["flat"]["num_steps"] == fl["num_steps"]
        fl_mean = np.asarray(fl["mean"], dtype=float)
        floor = deriv_floor(c, np.abs(fl_mean).max(axis=(1, 2)))[:, None, None] if np.all(np.isfinite(fl_mean)) else 0.0
        for what in ("mean", "std", "output_scale", "t"):
            a, b = fl[what], tr[what]
            metric = (lambda x, y: dev_mean(x, y, sdev, floor)) if what == "mean" else dev_scale if what == "output_scale" else rel_diff  # noqa: E731
            w = metric(a, b)
            noise = 0.0
            if c["routine"] == "adaptive":
                noise = metric(a, rt["flat"][what]) if twin_ok else float("inf")
                if what == "mean":
                    note_noise(ck, "pytree", noise)
            track(f"pytree {c['routine']} {what}", w)
            if not w <= allowance(c, base_of(c["q"], 1e-12 if what != "std" else 1e-10), noise):
                where = ""
                a_, b_ = np.asarray(a, dtype=float), np.asarray(b, dtype=float)
                if a_.shape == b_.shape:
                    idx = np.unravel_index(np.nanargmax(np.abs(a_ - b_)), a_.shape)
                    where = f" at index {tuple(int(i) for i in idx)} (coefficient, time, flat component): flat {a_[idx]!r} vs pytree {b_[idx]!r}"
                ck.report(sig, f"{describe(c)} [{c['container']} of {c['tree_kind']}]: u.{what} differs between the pytree and the flattened problem "
                          f"(relative {w:.3g}; twin noise {noise:.3g}){where}", rep)
                break


# ------------------------------------------------------------------ (ii) permutation
def permute_case(c, p):
    d, k = c["d"], c["ord"]
    c2 = copy.deepcopy(c)
    f2 = []
    for i in range(d):
        poly = []
        for cf, ex in c["f"][p[i]]:
            ex2 = list(ex)
            for m in range(k):
                for i2 in range(d):
                    ex2[m * d + i2] = ex[m * d + p[i2]]
            poly.append([cf, ex2])
        f2.append(poly)
    c2["f"] = f2
    c2["tcoeffs"] = [[row[p[i]] for i in range(d)] for row in c["tcoeffs"]]
    if c["kind"] != "iso":
        c2["std"] = [[row[p[i]] for i in range(d)] for row in c["std"]]
        if c["base"] is not None:
            c2["base"] = [c["base"][p[i]] for i in range(d)]
    return c2


def compare_dense_layout(ck, c, sig, rep, ra, rb, rt, what_a, what_b, base_m, base_P, label, idx=None, scale_perm=None):
    """A (reference) vs B in the dense layout; rt = twin of A (adaptive only). idx: B is expected to be A[idx]."""
    for r in (ra, rb):
        if r.get("timeout"):
            ck.hist.setdefault("runs_killed_by_time_budget", {"n": 0})["n"] += 1
            return
    for r, who in ((ra, what_a), (rb, what_b)):
        if "error" in r:
            ck.report(sig, f"{describe(c)}: implementation raised {r['error']} ({who})", dict(rep, tb=r.get("tb")))
            return
    if ra["num_steps"] != rb["num_steps"]:
        if not steps_differ_on_boundary(ck, c, ra["num_steps"], None if (rt is None or "error" in rt) else rt["num_steps"]):
            ck.report(sig, f"{describe(c)}: num_steps {ra['num_steps']} ({what_a}) vs {rb['num_steps']} ({what_b})", rep)
        return
    ma, Pa, mb, Pb = (np.asarray(x, dtype=float) for x in (ra["mean"], ra["cov"], rb["mean"], rb["cov"]))
    fa = bool(np.all(np.isfinite(ma)) and np.all(np.isfinite(Pa)))
    fb = bool(np.all(np.isfinite(mb)) and np.all(np.isfinite(Pb)))
    if not (fa and fb):
        if fa != fb:
            ck.report(sig, f"{describe(c)}: non-finite values only in the {what_b if fa else what_a} run", rep)
        return
    sd = sd_from_cov(Pa)
    sa, sb = np.asarray(ra["output_scale"], dtype=float), np.asarray(rb["output_scale"], dtype=float)
    if idx is not None:
        ma, Pa, sd = ma[:, idx], Pa[:, idx][:, :, idx], sd[:, idx]
        if scale_perm is not None and sa.ndim == 2 and sa.shape[1] == len(scale_perm):
            sa = sa[:, scale_perm]
    d_ = c["d"]
    floor = np.repeat(deriv_floor(c, np.abs(ma).reshape(ma.shape[0], c["q"] + 1, d_).max(axis=(0, 2))), d_)[None, :]
    nm = nP = ns = 0.0
    if c["routine"] == "adaptive":
        ok = rt is not None and "error" not in rt and rt["num_steps"] == ra["num_steps"]
        if ok:
            mt, Pt, st = np.asarray(rt["mean"], dtype=float), np.asarray(rt["cov"], dtype=float), np.asarray(rt["output_scale"], dtype=float)
            if idx is not None:
                mt, Pt = mt[:, idx], Pt[:, idx][:, :, idx]
                if scale_perm is not None and st.ndim == 2 and st.shape[1] == len(scale_perm):
                    st = st[:, scale_perm]
            nm, nP, ns = dev_mean(ma, mt, sd), dev_cov(Pa, Pt, sd), dev_scale(sa, st)
        else:
            nm = nP = ns = float("inf")      # the twin takes other steps: the run sits on an acceptance boundary
        note_noise(ck, label, max(nm, nP))
    wm, wP, ws = dev_mean(ma, mb, sd, floor), dev_cov(Pa, Pb, sd), dev_scale(sa, sb)
    track(f"{label} {c['routine']} mean", wm)
    track(f"{label} {c['routine']} cov", wP)
    track(f"{label} {c['routine']} scale", ws)
    base_m, base_P = base_of(c["q"], base_m), base_of(c["q"], base_P)
    if not wm <= allowance(c, base_m, nm):
        t, i = np.unravel_index(np.argmax(np.abs(ma - mb) / (np.abs(ma) + sd)), ma.shape)
        ck.report(sig, f"{describe(c)}: mean at t[{t}] entry {i}: {ma[t, i]!r} ({what_a}) vs {mb[t, i]!r} ({what_b}); relative {wm:.3g}, twin noise {nm:.3g}", rep)
    elif not wP <= allowance(c, base_P, nP):
        t, i, j = np.unravel_index(np.argmax(np.abs(Pa - Pb) / (sd[:, :, None] * sd[:, None, :] + np.abs(Pa))), Pa.shape)
        ck.report(sig, f"{describe(c)}: cov at t[{t}] ({i},{j}): {Pa[t, i, j]!r} ({what_a}) vs {Pb[t, i, j]!r} ({what_b}); relative {wP:.3g}, twin noise {nP:.3g}", rep)
    elif not ws <= allowance(c, 1e-6 if c["calib"] == "dyn" else 1e-8, ns):
        ck.report(sig, f"{describe(c)}: output scales {sa.tolist()} ({what_a}) vs {sb.tolist()} ({what_b})", rep)


def permutation_check(ck, n):
    quick = ck.tier == "quick"
    runs, meta = [], []
    for g in range(n):
        kind = KINDS[g % 3]
        d = ck.rng.choice([2, 3, 3, 4, 4])
        ordk = ck.rng.choice([1, 1, 2])
        q = ck.rng.randint(ordk, 2 if (quick or d == 4) else 4)
        c = gen_problem(ck.rng, kind, d, q, ordk)
        if kind != "iso" and ck.rng.random() < 0.5:
            c["base"] = [Fr(ck.rng.choice([1, 2, 3, 8]), ck.rng.choice([1, 4])) for _ in range(d)]
        if ck.rng.random() < 0.3:
            make_adaptive(ck.rng, c)
        p = list(range(d))
        while p == list(range(d)):
            ck.rng.shuffle(p)
        c["type"] = "solve"
        start = len(runs)
        runs += [c, permute_case(c, p)]
        if c["routine"] == "adaptive":
            runs.append(twin_of(ck.rng, c))
        meta.append((c, p, start))
    res = yield runs
    for c, p, start in meta:
        ra, rb = res[start], res[start + 1]
        rt = res[start + 2] if c["routine"] == "adaptive" else None
        jc = gen.jsonable(c)
        ck.count("perm:" + json.dumps(jc, sort_keys=True) + str(p), nontrivial=True,
                 sample={"permutation": p, "case": {k: jc[k] for k in ("kind", "q", "d", "ord", "strat", "calib", "lin", "routine", "f")}},
                 pm_kind=c["kind"], pm_d=c["d"], pm_lin=c["lin"], pm_calib=c["calib"], pm_strat=c["strat"], pm_routine=c["routine"])
        d, n1 = c["d"], c["q"] + 1
        idx = np.array([m * d + p[i] for m in range(n1) for i in range(d)])
        cc = dict(c)
        compare_dense_layout(ck, cc, f"C15.permutation.{c['kind']}", {"case": jc, "permutation": p}, ra, rb, rt,
                             f"solution permuted by {p}", "permuted problem", 1e-10, 1e-10,
                             "permutation", idx=idx,
                             scale_perm=(p if c["kind"] == "blockdiag" else None))


# ------------------------------------------------------------------ (iii) jit
def jit_check(ck, n):
    runs, meta = [], []
    for g in range(n):
        kind = KINDS[g % 3]
        # one shape per factorisation: under disable_jit every primitive/shape is compiled on first use (about a minute);
        # the runs of one factorisation share a worker and reuse those kernels
        d, q = 2, 2
        ordk = ck.rng.choice([1, 1, 2])
        c = gen_problem(ck.rng, kind, d, q, ordk, max_steps=3)
        if g // 3 % 2 == 1:
            make_adaptive(ck.rng, c)
            t0 = c["grid"][0]
            c["adaptive"]["save_at"] = [t0, t0 + Fr(1, 8), t0 + Fr(1, 4)]
            c["adaptive"]["rtol"], c["adaptive"]["atol"] = 1e-2, 1e-3
        c["type"] = "solve"
        start = len(runs)
        runs += [c, dict(copy.deepcopy(c), nojit=True, pool="nojit-" + kind)]
        if c["routine"] == "adaptive":
            runs.append(twin_of(ck.rng, c))
        meta.append((c, start))
    res = yield runs
    for c, start in meta:
        ra, rb = res[start], res[start + 1]
        rt = res[start + 2] if c["routine"] == "adaptive" else None
        jc = gen.jsonable(c)
        ck.count("jit:" + json.dumps(jc, sort_keys=True), nontrivial=True,
                 sample={"jit": {k: jc[k] for k in ("kind", "q", "d", "ord", "strat", "calib", "lin", "routine")}},
                 jit_kind=c["kind"], jit_routine=c["routine"], jit_strat=c["strat"], jit_calib=c["calib"], jit_lin=c["lin"])
        # compiled (fused, FMA-contracted) vs op-by-op execution: 1e-12 relative to |mean|+sd, 1e-9 relative to sd_i sd_j
        compare_dense_layout(ck, c, f"C15.jit.{c['kind']}", {"case": jc}, ra, rb, rt, "jit", "jax.disable_jit()", 1e-12, 1e-9, "jit")


# ------------------------------------------------------------------ (iv) vmap
def vmap_check(ck, n):
    cases, runs, twins = [], [], {}
    for g in range(n):
        kind = KINDS[g % 3]
        d = ck.rng.choice([1, 2, 2, 3])
        q = ck.rng.randint(1, 3)
        adaptive = g % 4 != 3
        c = {"type": "vmap", "kind": kind, "q": q, "d": d, "ord": 1,
             "lin": ck.rng.choice(["ts0", "ts1"]), "strat": ck.rng.choice(["filter", "fixedpoint"] if adaptive else list(STRATS)),
             "calib": ck.rng.choice(CALIBS), "damp": Fr(0), "t0": Fr(0),
             "f": [[[Fr(cf) / 32, ex] for cf, ex in gen.gen_poly(ck.rng, d, 2, ck.rng.randint(1, 2), False)] for _ in range(d)]}
        B = ck.rng.randint(3, 4)
        lam_hi = ck.rng.choice([60, 100, 150])
        lams = [Fr(1, 2)] + [Fr(ck.rng.randint(2, lam_hi // 2)) for _ in range(B - 2)] + [Fr(lam_hi)]
        ck.rng.shuffle(lams)
        c["lams"] = lams
        c["u0s"] = [[Fr(ck.rng.randint(-8, 8), 4) for _ in range(d)] for _ in range(B)]
        if adaptive:
            tol = 10.0 ** -ck.rng.randint(2, 4)
            c["routine"] = "adaptive"
            c["lin"] = "ts0" if g % 2 == 0 else c["lin"]
            c["adaptive"] = {"save_at": [Fr(0), Fr(1, 4), Fr(1, 2), Fr(1)], "atol": 0.1 * tol, "rtol": tol, "dt0": 0.01, "clip": ck.rng.random() < 0.5}
        else:
            c["routine"] = "fixed_grid"
            c["grid"] = [Fr(i, 64) for i in range(0, 6)]
        cases.append(c)
        runs.append(c)
        # batched linear algebra (QR, triangular solves) runs other kernels than the unbatched one: a twin for every case
        twins[g] = len(runs)
        runs.append(dict(twin_of(ck.rng, c), singles_only=True))
    res = yield runs
    ratios = []
    k = 0
    for g, c in enumerate(cases):
        r = res[k]
        k += 1
        rt = None
        if g in twins:
            rt = res[twins[g]]
            k += 1
        jc = gen.jsonable(c)
        sig = f"C15.vmap.{c['kind']}"
        rep = {"case": jc}
        ratio = None
        if "error" not in r and c["routine"] == "adaptive":
            tot = [int(np.sum(s["num_steps"])) for s in r["singles"]]
            ratio = max(tot) / max(1, min(tot))
            ratios.append(ratio)
            rep["total_steps_per_member"] = tot
        ck.count("vmap:" + json.dumps(jc, sort_keys=True), nontrivial=(ratio is None or ratio >= 5),
                 sample={"vmap": {k_: jc[k_] for k_ in ("kind", "q", "d", "strat", "calib", "lin", "routine", "lams")}, "step_ratio": ratio},
                 vm_kind=c["kind"], vm_routine=c["routine"], vm_strat=c["strat"], vm_calib=c["calib"], vm_lin=c["lin"],
                 vm_step_ratio=("n/a" if ratio is None else "<5" if ratio < 5 else "5..10" if ratio < 10 else ">=10"))
        if r.get("timeout"):
            ck.hist.setdefault("runs_killed_by_time_budget", {"n": 0})["n"] += 1
            continue
        if "error" in r:
            ck.report(sig, f"{describe(c)}: implementation raised {r['error']}", dict(rep, tb=r.get("tb")))
            continue
        bt = r["batched"]
        for i, s in enumerate(r["singles"]):
            bad = None
            tw = None
            if rt is not None and "error" not in rt and rt["singles"][i]["num_steps"] == s["num_steps"]:
                tw = rt["singles"][i]
            if np.asarray(bt["num_steps"])[i].tolist() != s["num_steps"]:
                if steps_differ_on_boundary(ck, c, s["num_steps"], None if (rt is None or "error" in rt) else rt["singles"][i]["num_steps"]):
                    continue
                bad = f"num_steps {np.asarray(bt['num_steps'])[i].tolist()} (vmap) vs {s['num_steps']} (single)"
            sdev = np.asarray(s["std"], dtype=float)
            if c["kind"] == "iso":
                sdev = sdev[..., None]
            s_mean = np.asarray(s["mean"], dtype=float)
            floor = deriv_floor(c, np.abs(s_mean).max(axis=(0, 2)))[None, :, None] if np.all(np.isfinite(s_mean)) else 0.0
            for what in ("mean", "std", "output_scale"):
                if bad:
                    break
                a, b = np.asarray(s[what], dtype=float), np.asarray(bt[what], dtype=float)[i]
                if not np.all(np.isfinite(b)):
                    if np.all(np.isfinite(a)):
                        bad = f"u.{what} contains NaN/inf under vmap only"
                    continue
                if not np.all(np.isfinite(a)):
                    bad = f"u.{what} contains NaN/inf in the single solve only"
                    continue
                metric = (lambda x, y: dev_mean(x, y, sdev, floor)) if what == "mean" else dev_scale if what == "output_scale" else rel_diff  # noqa: E731
                w = metric(a, b)
                noise = metric(a, np.asarray(tw[what], dtype=float)) if tw is not None else float("inf")
                if what == "mean":
                    note_noise(ck, "vmap", noise)
                track(f"vmap {c['routine']} {what}", w)
                # the dynamic scale is a whitened RESIDUAL (cancellation): its rounding noise is 1e-7, not 1e-9
                base = base_of(c["q"], 1e-10 if what == "mean" else 1e-6 if c["calib"] == "dyn" else 1e-8)
                if not w <= (base + KTWIN * noise if c["routine"] == "fixed_grid" else allowance(c, base, noise)):
                    idx = np.unravel_index(np.nanargmax(np.abs(a - b)), a.shape)
                    bad = f"u.{what} differs (relative {w:.3g}, twin noise {noise:.3g}) at {tuple(int(x) for x in idx)}: single {a[idx]!r} vs vmap {b[idx]!r}"
            if bad:
                ck.report(sig, f"{describe(c)} batch member {i} (lambda={float(c['lams'][i]):g}): {bad}", rep)
                break
    if ratios:
        ck.hist["vmap_step_count_ratio_within_batch"] = {"min": round(min(ratios), 2), "max": round(max(ratios), 2),
                                                         "cases_with_ratio>=5": sum(1 for x in ratios if x >= 5), "adaptive_cases": len(ratios)}
        if not any(x >= 5 for x in ratios):
            ck.notes.append("no adaptive vmap batch reached a 5x step-count spread in this run")


def main():
    ck = lib.Check("C15")
    pr = ck.run_proof()
    quick = ck.tier == "quick"
    phases = [pytree_check(ck, 30 if quick else 200), permutation_check(ck, 21 if quick else 150),
              jit_check(ck, 9 if quick else 36), vmap_check(ck, 12 if quick else 60)]
    batches = [next(ph) for ph in phases]            # every phase first yields its runs ...
    allruns = [r for b in batches for r in b]
    res = run(allruns, 330 if quick else 6000)     # ... all runs are dispatched together ...
    walls = sorted(((r.get("_wall", 0.0), f"{c['type']}/{c.get('kind')}/{c.get('routine')}{'/nojit' if c.get('nojit') else ''}") for c, r in zip(allruns, res)), reverse=True)
    ck.hist["slowest_runs_s"] = {w[1] + f"#{i}": w[0] for i, w in enumerate(walls[:5])}
    ck.hist["runs"] = {"n": len(allruns), "sum_s": round(sum(w[0] for w in walls), 1)}
    agg = {}
    for w, name in walls:
        a = agg.setdefault(name, [0, 0.0])
        a[0] += 1
        a[1] += w
    ck.hist["run_seconds_by_category(n,total)"] = {k_: f"{v[0]} runs, {v[1]:.0f}s" for k_, v in sorted(agg.items())}
    k = 0
    for ph, b in zip(phases, batches):               # ... and every phase then evaluates its slice
        try:
            ph.send(res[k:k + len(b)])
        except StopIteration:
            pass
        k += len(b)
    ck.hist["worst_relative_difference"] = {k_: f"{v:.2e}" for k_, v in WORST.items()}
    if not pr["ok"] and not ck.violations:
        ck.report("C15.proof", f"proof obligations no longer check: {pr['errors']}",
                  {"broken": pr.get("failed_at", "Props/C15.v"), "errors": pr["errors"]}, nofail=True)
    ck.finish(rule="implementation vs implementation, float64. (i) pytree vs flat: random dict/tuple/list/namedtuple/nested states (leaf ranks 0..3, "
              "unsorted dict insertion order) inside list/tuple/namedtuple coefficient containers, flat polynomial field pulled back by an independent "
              "flatten/unflatten; fixed grid and adaptive, three factorisations, TS0/TS1, three strategies, three calibrations: u.mean/u.std/"
              "output_scale/num_steps equal, u.mean at t0 = the caller's coefficients (filter or exact initial condition), (1e-12 on fixed grids), structure = caller's (isotropic u.std: one scalar per coefficient, as documented), "
              "leading axis = len(grid)/len(save_at); (ii) permutation of 2..4 components incl. per-dimension base scales: solution, covariance and "
              "per-dimension scales permuted (1e-10); (iii) jit vs jax.disable_jit() (1e-12 of |mean|+sd, 1e-9 of sd_i sd_j; identical num_steps); "
              "(iv) jax.vmap over initial values and a stiffness parameter vs one at a time (means 1e-10 of |mean|+sd, std/scales 1e-8, each + 50x the deviation of a rounding-size-perturbed twin; NaN check, identical num_steps); adaptive batches "
              "whose step counts differ by >= 5x are the non-trivial ones. All tight tolerances are for q <= 3 (x10, x1e3, x1e5 for q = 4, 5, 6) and carry the rounding floor eps |u^(j)| (2/h)^(i-j) of the i-th Taylor coefficient on a grid of spacing h. Adaptive comparisons: identical num_steps, values within 1e-7 (exact initial condition; 1e-4 otherwise) + 50x the "
              "deviation of a rounding-size-perturbed twin run (conditioning of the adaptive solve); non-trivial: all others; distinct by full input",
              assumptions=lib.TRUSTED_BASE + ["C15 proof part is PARTIAL: jit and vmap equivalence are runtime properties of JAX/XLA that no Gallina model exhibits; "
                                               "they are covered by the correspondence harness only"])


if __name__ == "__main__":
    main()
