#!/bin/bash
# For every kept seeded change: apply it to /repo, run the quick checks named in seeded/detected.json (its own property first),
# record their VIOLATION / summary lines in seeded/<name>/detection.log, and undo it.  /repo must be clean and otherwise unused.
cd "$(dirname "$0")/.."
only="$@"
for d in seeded/*/; do
  name=$(basename $d)
  [ -f $d/patch.diff ] || continue
  # resume: skip seeds whose detection.log is complete unless FORCE=1
  if [ -z "$FORCE" ] && grep -q "exit=" $d/detection.log 2>/dev/null; then continue; fi
  if [ -n "$only" ] && ! echo " $only " | grep -q " $name "; then continue; fi
  checks=$(python3 - "$name" <<'PY'
import json,sys,re
name=sys.argv[1]
d=json.load(open('/verif/seeded/detected.json')).get(name,{})
out=[name[:3]]
for c in d.get("caught_by",[]):
    m=re.match(r"(C\d\d)", c["check"])
    if m and m.group(1) not in out: out.append(m.group(1))
    for m2 in re.findall(r"C\d\d", c["check"]):
        if m2 not in out: out.append(m2)
print(" ".join(out[:3]))
PY
)
  git -C /repo status --short | grep -v '^??' | grep -q . && { echo "repo not clean"; exit 2; }
  git -C /repo apply "$PWD/$d/patch.diff" || { echo "$name: patch does not apply" | tee $d/detection.log; continue; }
  { echo "# $(date -u +%FT%TZ) seed=$name checks=$checks (quick tier, VERIF_SEED=1)"; 
    for pid in $checks; do
      VERIF_SEED=1 timeout 2400 ./check $pid --tier quick 2>&1 | grep -E "^VIOLATION|^C[0-9]+:" | cut -c1-260 | head -8
      echo "   [$pid exit=${PIPESTATUS[0]}]"
    done; } > $d/detection.log 2>&1
  git -C /repo checkout -- .
  echo "$name: $(grep -c '^VIOLATION' $d/detection.log) violation lines; $(grep 'exit=' $d/detection.log | tr '\n' ' ')"
done
