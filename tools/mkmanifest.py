#!/venv/bin/python
"""Regenerate /verif/MANIFEST.json from the table below."""
import json

TB = ("Trusted: Coq 8.16.1 kernel + vm_compute; no axioms declared (Print Assumptions recorded per theorem in the evidence); "
      "fail-closed translator for source constants; correspondence harness (implementation run through its public API, float64) "
      "with the model evaluated inside Coq (vm_compute, Qc) and, for volume, by the extracted OCaml model (ExtrOcamlBasic only) over "
      "Zarith rationals, cross-checked against the in-Coq evaluation on every run. ")

CLAIMED = {
 "C01": dict(text="PARTIAL: the convergence theorem (global error <= K tol; global order q+1) is numerical analysis beyond reach; proved is the algebraic core of the local order condition (prediction = Taylor shift of the carried coefficients for every q; a zero innovation leaves the mean unchanged whatever gain/scale), and accuracy can otherwise only change if the exact-EKF (C02/C03), step-control (C06) or error-estimate (C07) correspondences break. The check measures exactness on polynomial solutions, observed order under grid halving and tolerance compliance of adaptive solves on a closed-form IVP family incl. tiny final remainders.",
             note=TB + "Accuracy claims are measured (search), not proved; K = 60 is calibrated on the unchanged tree (worst ratio recorded in the evidence).",
             tech="machine-checked proof in Coq (local order condition, partial) + accuracy search on closed-form IVPs"),
 "C02": dict(text="Refinement: the solver step functions (3 solvers x TS0/TS1 x 3 factorisations) are modelled in Coq at covariance level; theorems relate the preconditioned model step to the textbook EKF step; the model is tied to /repo by ONE-STEP REFINEMENT along implementation trajectories: every implementation state is converted exactly to rationals, advanced by the model, and compared with the implementation's next state (full mean/covariance/scales), then userfriendly_output.",
             note=TB + "QR-based square-root arithmetic is an oracle with contract R^T R = M^T M; float rounding is not modelled (tolerance 2e-7 relative to the marginal std).",
             tech="machine-checked proof in Coq (refinement to a textbook EKF) + one-step model-vs-implementation correspondence in exact rational arithmetic"),
 "C03": dict(text="Refinement: smoother strategies (predict = revert, fixed-point merge, finalize) modelled in Coq; textbook RTS recursion as executable specification (Spec/RTS.v); theorems relate backward kernels to RTS; correspondence by one-step refinement plus comparison of the returned marginals with the RTS specification evaluated on the exact filtering states.",
             note=TB + "Inverse of predicted covariances is a certified oracle (checked in the model).",
             tech="machine-checked proof in Coq (refinement to RTS) + one-step correspondence + executable RTS specification"),
 "C06": dict(text="Coq theorems (Props/C06.v) over a transcription of RejectionLoop/advance/scan and both controllers: invariants hold for every accept/reject history, any oracle solver/error estimator, any admissible controller parameters, any sorted checkpoints and eps>=0, conditional on fuel; shipped defaults (re-read from source each run) proved admissible. Tied to /repo by driving the real solve_adaptive_save_at and controllers with scripted solver/error objects and comparing event logs with the model evaluated by vm_compute (exact stream: exact equality).",
             note=TB + "Oracles: solver.step adds dt to time, interpolation returns the stated times, x**e maps [0,1) into [0,1]. Termination is assumed (fuel).",
             tech="machine-checked proof in Coq (invariant by induction over the step/accept/reject/interpolate machine) + model-vs-implementation correspondence by vm_compute"),
 "C08": dict(text="Algebraic laws of the conditional algebra proved over an arbitrary field for all shapes; the Coq model (Model/Gauss.v) of apply/marginalise/merge/revert/preconditioner_apply is compared with the three implementations on random rational conditionals with power-of-two scalings (exact model values).",
             note=TB + "Square roots are represented by Gram matrices; QR is an oracle (Gram identity).",
             tech="machine-checked proof in Coq (algebraic laws over an abstract field) + model-vs-implementation correspondence in exact rational arithmetic"),
 "C04": dict(text="Calibration formulas (running RMS of whitened residuals, dynamic per-step scale, MLE finalisation with the 1/sqrt(N) correction, per-dimension scales) are part of the Coq solver model and are compared step by step with the implementation in exact arithmetic; the running-RMS invariant is proved by induction over the number of steps; scale-equivariance is checked metamorphically (implementation vs implementation, fixed and adaptive runs).",
             note=TB + "Equivariance under base-scale changes is established by correspondence/metamorphic runs, the general theorem is partial.",
             tech="machine-checked proof in Coq (induction over steps) + one-step correspondence in exact rational arithmetic + metamorphic scaling runs"),
 "C07": dict(text="The error estimators (residual / state standard deviation, both norms, per-unit-step, derivative index) are modelled in Coq on squared quantities; for every step of implementation trajectories the implementation's error_power is compared through power^(-2(q+1)) with the model's rational norm^2.",
             note=TB + "The real power x^(-1/(q+1)) is not modelled: squares / (q+1)-th powers are compared.",
             tech="machine-checked proof in Coq + model-vs-implementation correspondence in exact rational arithmetic"),
 "C18": dict(text="Both step-size helpers modelled over Q; positivity proved for all inputs (dt0_adaptive: unconditional; dt0: positive denominator), refinement to the Hairer-Norsett-Wanner II.4 algorithm proved, differences from the book variant proved; correspondence on logged norm/where/min-max calls incl. zero, tiny, huge and badly scaled inputs, then an adaptive solve from the proposal.",
             note=TB + "Float overflow/underflow is outside the rational model and covered by the harness only (known findings F8-F11).",
             tech="machine-checked proof in Coq (order reasoning over Q, refinement to the HNW spec) + model-vs-implementation correspondence"),
 "C05": dict(text="Interpolation functions of the three strategies are part of the Coq solver model (one-step refinement against solver.interpolate_fwd); theorems identify filter interpolation with Kalman prediction through the closed-form transition and smoother interpolation with RTS conditioning; the real adaptive driver, forced onto prescribed step sequences, is compared with exact Gaussian filtering/smoothing on the union of step ends and output times (Spec/RTS.v); checkpoint-set independence and terminal values metamorphically.",
             note=TB + "Independence of the checkpoint set is established by correspondence (C06 machine + interpolation refinement) and metamorphic runs, not by a Coq simulation theorem.",
             tech="machine-checked proof in Coq (interpolation = prediction / RTS conditioning) + one-step correspondence + executable exact-interpolation specification"),
 "C09": dict(text="Closed form of the preconditioned integrated-Wiener transition proved for every q (A(h)_ij = h^(j-i)/(j-i)!, Hilbert-type Q(h)), linearity of the noise in the squared scale, composition of transitions as composition of conditionals; for the exponential priors: Pade order (exactly 2p) and Legendre-Gram order conditions proved for the five SOURCE tables (re-translated every run) by exact series arithmetic, doubling exactness, Kahan-Hilbert Gram (n<=11), OU/Matern bottom blocks; correspondence of all transitions, merges, exp_gram_cholesky for the five orders (vs the exact rational model of the same algorithm and vs an independent high-precision reference), float64 and float32.",
             note=TB + "'Equals the matrix exponential to working precision' is transcendental: proved are the orders of the rational approximants and the exactness of doubling; the residual gap is measured against a 900-bit reference. Bounds (five orders, n<=11, q<=10) are stated in the theorems proved by vm_compute.",
             tech="machine-checked proof in Coq (closed forms for all q; reflective exact-series identities for the source tables) + model-vs-implementation correspondence + independent high-precision reference"),
 "C10": dict(text="Formal power-series semantics (Base/Series.v: commutative ring, Leibniz rule, chain rule for polynomial composition) and the formal series solution of u^(k) = f (existence, uniqueness); the padded-scan and unroll routines and the (repaired) recursive-JVP routine are proved to return the solution derivatives for EVERY polynomial field of any order, time-dependent or not, every num; Newton doubling proved for autonomous first-order fields and refuted for time-dependent ones (known finding); correspondence of all five routines incl. pytree states against the Coq models and the spec.",
             note=TB + "jax.experimental.jet is an oracle (truncated series semantics, measured by the correspondence); jetexpand_residual is compared with the specification only.",
             tech="machine-checked proof in Coq (refinement to the formal power-series solution) + model-vs-implementation correspondence"),
 "C11": dict(text="Lift = total time derivatives D_t^l f along the supplied coefficients incl. explicit time (all polynomial f, all orders, all lift orders); lift_by range check reflected; residual_from_ode / residual_from_stack bookkeeping; the three factorisations' linearisations reproduce value and (full / per-dimension / trace-averaged) Jacobian; correspondence of lifts, range errors, stacks and linearize() for the three factorisations.",
             note=TB + "jet is an oracle; polynomial vector fields in executions, arbitrary polynomial data in theorems.",
             tech="machine-checked proof in Coq (series composition; boolean reflection of the range check) + model-vs-implementation correspondence"),
 "C12": dict(text="PARTIAL (N-point chain rule not proved in general): the loss recursion (to_derivative observation models, bayes_rule_and_logpdf, evaluate_lml with running mean/sum, terminal loss) is modelled with every density term as the exact pair (quadratic form via the certified inverse, determinant by Laplace expansion); accumulator theorem for all N, one step = predict-then-condition, chain rule for two time points; on every case the implementation's loss is compared with the model on the exact posterior AND with an independent exact evaluation of the joint density assembled from the Markov factorisation plus noise, and model vs joint agree as exact rationals.",
             note=TB + "logarithms are evaluated by the harness from exact rationals; std > 0 only (no certified pseudo-inverse).",
             tech="machine-checked proof in Coq (accumulator invariant, 2-point chain rule) + exact joint-density oracle"),
 "C13": dict(text="Sampling model (Model/Sample.v: draws are n x c matrices, reverse-order ancestral sampling through the backward conditionals). Proved for every length, shape and factor: zero draws return the posterior means pushed through the conditionals; samples are affine in the base draws with the composed-conditional linear map; unit draws recover the columns of that map, whose Gram matrix is the joint covariance of the Markov sequence; isotropic columns are independent (Gram = Cov (x) I_d, the repaired behaviour); the former shared-draw variant is refuted. Correspondence: zero draws, unit draws column by column, affinity and the Gram matrix of the implementation's sample map against the model for the three factorisations; requested draw shapes; key handling.",
             note=TB + "The pseudo-random generator is outside the model: base draws are supplied (unit vectors / zeros) through the public `sample` entry point's shape contract; distributional statements are proved as statements about the linear map.",
             tech="machine-checked proof in Coq (affine-map / Gram-matrix theorems by induction over the sequence) + model-vs-implementation correspondence"),
 "C14": dict(text="PARTIAL (multi-step, smoother, TS1 and adaptive agreement are measured, not proved). Proved over any field, all sizes: the Kronecker embedding A -> A (x) I_d is a homomorphism for product, transpose, sum, scaling, identity and sandwich; the dense IWP transition with equal base scales and the TS0 selector ARE embeddings of the 1-d ones; embedding commutes with marginalisation, application, merging, the certified inverse, reversal and correction; one full uncalibrated dense TS0 filter step is the embedding of the isotropic step (any polynomial field); dense whitened RMS^2 = mean of the per-block RMS^2 for block-diagonal covariances. Correspondence: dense vs isotropic vs block-diagonal on the same problem and grid (3 calibrations x 3 strategies), TS1 on decoupled problems, isotropic = dense when the Jacobian is c(t) I, adaptive step counts.",
             note=TB + "Adaptive comparisons use a rounding-size-perturbed twin of the reference to set the tolerance (adaptive runs are ill-conditioned w.r.t. rounding).",
             tech="machine-checked proof in Coq (Kronecker-embedding homomorphism, one-step refinement dense = embedded isotropic) + cross-factorisation correspondence"),
 "C15": dict(text="PARTIAL (jit and vmap are properties of the JAX runtime: measured only). Proved for a model of pytrees (mutual tree/forest types with shaped leaves): unravel(ravel x) = x and ravel(unravel v) = v in the dense, isotropic and block-diagonal orders; the three orders agree (iso[i][a] = dense[i d + a] = blockdiag[a][i]); ravel shapes; the ravel of a re-indexed (permuted) structure is the re-indexed ravel for every index map. Correspondence: pytree-vs-flat solves (dict/tuple/list/namedtuple/nested states, leaf ranks 0..3, unsorted keys) with an anchor at t0, permutations of components incl. per-dimension base scales, jit vs disable_jit, vmap vs one-at-a-time (step counts must match).",
             note=TB + "jit/vmap/tree utilities are modelled, not verified; equal-program comparisons of adaptive runs use a perturbed twin to set the tolerance.",
             tech="machine-checked proof in Coq (ravel/unravel round trips and permutation equivariance over a pytree model, partial) + metamorphic correspondence"),
 "C16": dict(text="PARTIAL: the one hand-written derivative rule (custom JVP of qr_r) is analysed in Coq: it preserves the Gram derivative for all shapes (theorem) and is refuted as derivative of the triangular factor (exact rational witness); the JAX transformation machinery itself cannot be modelled. The check compares jax.jvp, jax.jacrev and 4th-order finite differences of means, stds, scales and losses w.r.t. vector-field, initial-value, base-scale and noise parameters, with discriminator re-runs (exact QR rule, safe norm, triangular solve) that attribute mismatches to the listed known findings.",
             note=TB + "Forward/reverse agreement and finiteness are observed, not proved (JAX runtime).",
             tech="machine-checked proof in Coq (matrix identity + refutation witness) + AD-vs-finite-difference comparison with discriminators"),
 "C17": dict(text="Combinatorial identity over all sign vectors proved for every N; estimators averaged over all probes equal the exact blocks for any Jacobian tensor and any sizes; validator reflection; correspondence with rademacher patched to enumerate all probes.",
             note=TB + "jvp/vjp modelled as the exact linear maps of the Jacobian (JAX AD trusted, checked by correspondence).",
             tech="machine-checked proof in Coq (induction over sign vectors) + model-vs-implementation correspondence under full probe enumeration"), "C19": dict(text="Gauss-Newton MAP routine (Model/LstSq.v: certified pseudo-inverse checked against the four Penrose equations; body, the three strict exit conditions, fuelled loop with fuel = maxiter). Proved: for affine constraints one iteration reaches the closed form m - C A^T (A C A^T)^-1 (A m + c) with residual exactly 0 and stays there, and this is the Gaussian conditional mean; for any constraint the displacement lies in range(C J^T), each step solves the linearised constraint, a stationary state is feasible; the returned iterate is the first at which a condition fails (iff), statistics are truthful, iters <= maxiter, the loop never runs out of fuel; linearising an affine constraint at any point gives it back, so the bayes_rule update is exact. Correspondence: cond_fun on every recorded state (exact), body_fun transitions, exits and statistics, thresholds probed within 2^-10, singular covariances, rank-deficient Jacobians, the dense constraint_residual(taylor_point=MAP) path.",
             note=TB + "Order comparisons enter through a boolean oracle (Qc order); the bulk of model evaluations uses a bigQ instance of the same polymorphic model (Bignums; correspondence only), cross-checked against the Qc instance.",
             tech="machine-checked proof in Coq (closed form, loop invariant and exit characterisation) + model-vs-implementation correspondence"),
 "C20": dict(text="PARTIAL (exception mechanics are runtime behaviour): every validator (Taylor-coefficient containers, base/output scales, exactness flags, lift_by range, isinstance gates, loss std containers, posterior type, error/reference shapes, ensemble count, suitability warnings) is transcribed as a decision function on an abstract value universe and proved to reflect an independently written declarative well-formedness spec (iff for all inputs where possible, bounded-exhaustive where stated, refuted with witnesses where the code accepts malformed input); the full single-field corruption matrix (4496 cases, exhaustive) is run against the real API and the model verdicts.",
             note=TB + "Which exception class/message and 'never produces numbers' are observed by the harness; Coq decides the accept/reject logic only. Three accepted-malformed-input defects are known findings F15-F17.",
             tech="machine-checked proof in Coq (boolean reflection of validators against a declarative spec) + exhaustive corruption matrix against the real API"),
}

REASON_PENDING = "check under construction in this round: not yet claimed (see DESIGN.md); will be claimed once its Coq theorems and correspondence exist"


def main():
    props = [json.loads(l) for l in open('/verif/properties.jsonl')]
    checks = []
    for p in props:
        pid = p['id']
        if pid not in CLAIMED:
            continue
        c = CLAIMED[pid]
        checks.append({
            "property_id": pid,
            "quick_cmd": f"./check {pid} --tier quick",
            "thorough_cmd": f"./check {pid} --tier thorough",
            "evidence_file": f"/verif/evidence/{pid}.json",
            "replay_cmd_template": "cat {path}",
            "engine": "coq-model+correspondence",
            "level_claimed": {"category": "proof", "text": c["text"], "design_ref": f"DESIGN.md §4 {pid}"},
            "level_note": c["note"],
            "technique": c["tech"],
        })
    na = [{"property_id": p['id'], "reason": REASON_PENDING} for p in props if p['id'] not in CLAIMED]
    m = {"version": 1, "setup_cmd": "./setup.sh",
         "hooks": {"guard": "PNKRAEMER_PROBDIFFEQ_VERIF",
                   "enable": "no source hooks are needed; checks run /repo through its public API with PYTHONPATH=/repo (the guard variable is exported but unused)",
                   "baseline_off_cmd": "cd /repo && /venv/bin/python -m pytest -ra -q -p no:cacheprovider --timeout=900",
                   "source_commits": [], "add_only": True},
         "engines": [{"name": "coq-model+correspondence", "path": "/verif/coq", "serves_properties": sorted(CLAIMED),
                      "kind_free_text": "Coq 8.16 development (Base/Model/Spec/Proofs/Props) + Python correspondence harness (harness/*.py) evaluating the model by vm_compute and by the extracted OCaml model"}],
         "checks": checks, "notes": "see DESIGN.md", "not_applicable": na}
    json.dump(m, open('/verif/MANIFEST.json', 'w'), indent=1)
    print("claimed:", sorted(CLAIMED))


if __name__ == "__main__":
    main()
