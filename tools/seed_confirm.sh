#!/bin/bash
# usage: seed_confirm.sh <seed-name> <worktree> -- confirm demo both ways and the full suite with the change; copy into /verif/seeded/<name>/
name=$1; wt=$2
out=/verif/seeded/$name; mkdir -p $out
cd $wt || exit 2
git diff -- probdiffeq > $out/patch.diff
cp demo_seeded.py $out/demo_seeded.py 2>/dev/null
cp seeded_meta.json $out/agent_meta.json 2>/dev/null
PYTHONPATH=$wt timeout 900 /venv/bin/python demo_seeded.py > $out/demo_with_change.log 2>&1; e1=$?
git stash -q -- probdiffeq
PYTHONPATH=$wt timeout 900 /venv/bin/python demo_seeded.py > $out/demo_without_change.log 2>&1; e0=$?
git stash pop -q
echo "demo_exit_with_change=$e1 demo_exit_without_change=$e0" | tee $out/confirm.txt
( flock 9; PYTHONPATH=$wt timeout 5000 /venv/bin/python -m pytest -q -p no:cacheprovider --timeout=900 2>&1 | tail -1 >> $out/confirm.txt ) 9>/tmp/seed_suite.lock &
