#!/bin/bash
# usage: mk_mut.sh <Cxx> [tag]  -- scratch worktree /tmp/mut_<Cxx><tag> at /repo HEAD + prompt /tmp/mut_prompt_<Cxx><tag>.txt
# The prompt contains ONLY the property text (nothing from /verif).
pid=$1; tag=$2; wt=/tmp/mut_${pid}${tag}
git -C /repo worktree add --detach -q $wt HEAD || exit 2
python3 - "$pid" "$wt" "$3" <<'PY' > /tmp/mut_prompt_${pid}${tag}.txt
import json, sys
pid, wt, hint = sys.argv[1], sys.argv[2], sys.argv[3] if len(sys.argv) > 3 else ""
for l in open('/verif/properties.jsonl'):
    o = json.loads(l)
    if o['id'] == pid: break
tmpl = open('/verif/tools/mut_prompt_template.txt').read()
print(tmpl.replace('@WT@', wt).replace('@PID@', pid).replace('@TITLE@', o['title']).replace('@STATEMENT@', o['statement'])
      .replace('@QUANT@', o['quantifier']['text']).replace('@WHY@', o['why_tests_cant'])
      .replace('@ANCHORS@', json.dumps(o['anchors'], indent=1)).replace('@HINT@', hint))
PY
echo $wt
