#!/usr/bin/env python3
"""Write seeded/<name>/meta.json from agent_meta.json + confirm.txt + DETECTED (what I ran, what caught it)."""
import json, os, sys
ROOT = os.path.dirname(os.path.dirname(os.path.abspath(__file__)))
DETECTED = json.load(open(os.path.join(ROOT, "seeded", "detected.json")))
for name in sorted(os.listdir(os.path.join(ROOT, "seeded"))):
    d = os.path.join(ROOT, "seeded", name)
    if not os.path.isdir(d): continue
    am = json.load(open(os.path.join(d, "agent_meta.json"))) if os.path.exists(os.path.join(d, "agent_meta.json")) else {}
    conf = open(os.path.join(d, "confirm.txt")).read().split("\n") if os.path.exists(os.path.join(d, "confirm.txt")) else []
    suite = [l for l in conf if "passed" in l or "failed" in l]
    det = DETECTED.get(name, {})
    meta = {
        "property": am.get("property_id", name[:3]),
        "summary": am.get("summary"),
        "what_it_needs_to_manifest": am.get("what_it_needs_to_manifest"),
        "files_changed": am.get("files_changed"),
        "how_to_apply": f"git -C /repo apply /verif/seeded/{name}/patch.diff ; <run checks> ; git -C /repo checkout -- .",
        "demonstration": f"PYTHONPATH=/repo /venv/bin/python /verif/seeded/{name}/demo_seeded.py  (exit 1 with the change, 0 without)",
        "confirmed_by_me": {
            "demo_exit_codes": conf[0] if conf else None,
            "full_suite_with_change": suite[0].strip() if suite else "pending (queued)",
            "suite_reported_by_author": am.get("full_suite_result"),
        },
        "what_i_ran": det.get("ran"),
        "caught_by": det.get("caught_by"),
        "missed_by": det.get("missed_by", []),
        "strengthening": det.get("strengthening"),
    }
    json.dump(meta, open(os.path.join(d, "meta.json"), "w"), indent=1)
    print(name, meta["confirmed_by_me"]["full_suite_with_change"], "| caught:", bool(meta["caught_by"]))
