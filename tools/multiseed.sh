#!/bin/bash
# run the given checks for several seeds; print only summary / violation lines (+ wall time)
cd "$(dirname "$0")/.."
./setup.sh > /dev/null 2>&1
for seed in ${SEEDS:-2 3 4}; do
  for pid in "$@"; do
    t0=$(date +%s)
    out=$(VERIF_SEED=$seed timeout ${TMO:-1500} /venv/bin/python harness/$(echo $pid | tr 'A-Z' 'a-z').py --tier ${TIER:-quick} 2>&1 | grep -E "^VIOLATION|^KNOWN|^C[0-9]+:" | cut -c1-400)
    echo "seed=$seed t=$(( $(date +%s) - t0 ))s $out"
  done
done
