#!/bin/bash
# usage: goals.sh File.v LINE [full] -- show proof state just before LINE (1-based)
f=$1; n=$2
tmp=$(dirname $f)/_Scratch_$$.v
head -n $((n-1)) $f > $tmp
echo "Show. " >> $tmp
if [ "$3" = "full" ]; then
(cd /verif/coq && timeout 120 coqc -Q . PD ${tmp#/verif/coq/} 2>&1 | head -150)
else
(cd /verif/coq && timeout 120 coqc -Q . PD ${tmp#/verif/coq/} 2>&1 | awk '/^[0-9]+ goals?/{print} /====/{p=1} /^goal [0-9]+ is/{p=1} /^Error/{p=1} p{print}' | head -80)
fi
rm -f $tmp ${tmp%.v}.vo ${tmp%.v}.glob ${tmp%.v}.vok ${tmp%.v}.vos $(dirname $tmp)/.$(basename ${tmp%.v}).aux
