#!/bin/bash
# usage: seed_try.sh <patch.diff> <Cxx> [more checks...]  -- apply a seeded change to /repo, run the quick checks, undo
set -u
patch=$1; shift
cd /repo && git status --short | grep -v '^??' | head -1 | grep -q . && { echo "repo not clean"; exit 2; }
git -C /repo apply "$patch" || { echo "patch does not apply"; exit 2; }
for pid in "$@"; do
  (cd /verif && VERIF_SEED=${VERIF_SEED:-1} timeout 2400 ./check $pid --tier quick 2>&1 | grep -E "^VIOLATION|^KNOWN|^C[0-9]+:" | cut -c1-330)
done
git -C /repo checkout -- .
git -C /repo status --short | grep -v '^??' | head -2
