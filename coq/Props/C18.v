(* C18 -- Initial step-size proposals are positive, finite and follow the
   heuristics.

   Statements only; every theorem is closed by [exact <lemma>] and followed by
   Print Assumptions.  Model/Stepsize.v transcribes
   probdiffeq/_ivpsolve/stepsize_initialisers.py (dt0, dt0_adaptive) over exact
   rationals; Spec/HNW.v transcribes Hairer-Norsett-Wanner I, Sec. II.4
   "Starting Step Size", steps (a)-(f), from the book.

   Oracles (arbitrary functions, constrained only by the hypotheses written in
   each statement):  f = the user's vector field on the ravelled state,
   nrm = linalg.vector_norm (a square root),  root x k = x ** (1/k).

   What is NOT covered by these theorems: float rounding, overflow of squares
   (|u0| >= 1e155) and underflow (|u0| <= 1e-162) inside linalg.vector_norm.
   Those are exercised on the real code by harness/c18.py. *)
From Coq Require Import List QArith Qabs Qminmax Bool.
From PD Require Import Model.Stepsize Spec.HNW Proofs.StepsizeProofs.
Import ListNotations.
Local Open Scope Q_scope.

(* T18.1  dt0_adaptive: for every vector field (dimension preserving), every
   norm oracle (no contract needed), every root oracle that maps positive
   numbers to positive numbers, every initial value, time, rate, and all
   tolerances with atol > 0 and rtol >= 0, the model has a value and the first
   guess dt0, the second guess dt1 and the returned proposal are strictly
   positive. *)
Theorem C18_dt0_adaptive_total_and_positive :
  forall (f : Q -> list Q -> list Q) (nrm : list Q -> Q) (root : Q -> nat -> Q)
         (t0 : Q) (y0 : list Q) (rate : nat) (rtol atol : Q),
    (forall t y, length (f t y) = length y) ->
    (forall x k, 0 < x -> 0 < root x k) ->
    0 < atol -> 0 <= rtol ->
    exists r, dt0_adaptive f nrm root t0 y0 rate rtol atol = Some r /\
              0 < at_h0 r /\ 0 < at_h1 r /\ 0 < at_h r.
Proof. exact dt0_adaptive_total_and_positive. Qed.

(* T18.1'  Positivity itself needs no hypothesis on the tolerances or the
   norms (not even d0, d1, d2 >= 0): whenever the model has a value, it is
   positive.  The guards (d0 < 1e-5) | (d1 < 1e-5) and
   (d1 <= 1e-15) & (d2 <= 1e-15) are exactly what makes the two quotients
   safe. *)
Theorem C18_dt0_adaptive_positive_whenever_defined :
  forall (f : Q -> list Q -> list Q) (nrm : list Q -> Q) (root : Q -> nat -> Q)
         (t0 : Q) (y0 : list Q) (rate : nat) (rtol atol : Q) (r : adaptive_trace),
    (forall x k, 0 < x -> 0 < root x k) ->
    dt0_adaptive f nrm root t0 y0 rate rtol atol = Some r ->
    0 < at_h0 r /\ 0 < at_h1 r /\ 0 < at_h r.
Proof. exact dt0_adaptive_positive. Qed.

(* T18.1''  atol > 0 is the true hypothesis for definedness: with atol = 0 and
   a zero component of y0 the code divides by scale_i = 0. *)
Theorem C18_dt0_adaptive_undefined_for_zero_scale :
  exists (f : Q -> list Q -> list Q) (nrm : list Q -> Q) (root : Q -> nat -> Q)
         (t0 : Q) (y0 : list Q) (rate : nat) (rtol atol : Q),
    (forall t y, length (f t y) = length y) /\ atol == 0 /\ 0 <= rtol /\
    dt0_adaptive f nrm root t0 y0 rate rtol atol = None.
Proof. exact dt0_adaptive_undefined_for_zero_scale. Qed.

(* T18.2  For ALL inputs the model of dt0_adaptive and the textbook algorithm
   (steps a-f), run with the norms the implementation uses (plain Euclidean
   norm in step (a), scaled Euclidean norm without the 1/n of (4.11) in step
   (d)) and p = error_contraction_rate, take the same branches and compute the
   same values; one fails iff the other does.  The oracles are only required
   to be functions of the values of their rational arguments. *)
Theorem C18_dt0_adaptive_is_hnw :
  forall (f : Q -> list Q -> list Q) (nrm : list Q -> Q) (root : Q -> nat -> Q),
    (forall t t' y y', t == t' -> Forall2 Qeq y y' -> Forall2 Qeq (f t y) (f t' y')) ->
    (forall t y, length (f t y) = length y) ->
    (forall v v', Forall2 Qeq v v' -> nrm v == nrm v') ->
    (forall x x' k, x == x' -> root x k == root x' k) ->
    forall (t0 : Q) (y0 : list Q) (rate : nat) (rtol atol : Q),
    match dt0_adaptive f nrm root t0 y0 rate rtol atol,
          hnw_start f (plain_of nrm) (scaled_of nrm) rate atol rtol root t0 y0 with
    | Some m, Some s =>
        at_d0 m == hs_d0 s /\ at_d1 m == hs_d1 s /\
        at_b1 m = hs_fallback s /\ at_h0 m == hs_h0 s /\
        Forall2 Qeq (at_y1 m) (hs_y1 s) /\ at_t1 m == hs_x1 s /\
        at_d2 m == hs_d2 s /\ at_b2 m = hs_guard s /\
        at_h1 m == hs_h1 s /\ at_h m == hs_h s
    | None, None => True
    | _, _ => False
    end.
Proof. exact dt0_adaptive_is_hnw. Qed.

(* T18.2a  The functional form [hnw_start] of the textbook algorithm satisfies
   the book's own (relational) formulation [hnw_rel] -- step (e) is the
   RELATION  h1^(p+1) * max(d1,d2) = 0.01 -- as soon as the root oracle is a
   correct positive (p+1)-th root at the one radicand that occurs. *)
Theorem C18_hnw_function_satisfies_book_relation :
  forall (f : Q -> list Q -> list Q) (na nd : list Q -> list Q -> option Q)
         (p : nat) (Atol Rtol : Q) (root : Q -> nat -> Q) (x0 : Q) (y0 : list Q)
         (r : hnw_trace),
    hnw_start f na nd p Atol Rtol root x0 y0 = Some r ->
    (let x := (1 # 100) / Qmax (hs_d1 r) (hs_d2 r) in
     0 < x -> 0 < root x (p + 1)%nat /\ pow_nat (root x (p + 1)%nat) (p + 1) == x) ->
    hnw_rel f na nd p Atol Rtol x0 y0 r.
Proof. exact hnw_start_sound. Qed.

(* T18.2b  The book's relation determines branches and proposal uniquely. *)
Theorem C18_book_relation_determines_the_proposal :
  forall (f : Q -> list Q -> list Q) (na nd : list Q -> list Q -> option Q)
         (p : nat) (Atol Rtol x0 : Q) (y0 : list Q) (r r' : hnw_trace),
    hnw_rel f na nd p Atol Rtol x0 y0 r -> hnw_rel f na nd p Atol Rtol x0 y0 r' ->
    hs_fallback r = hs_fallback r' /\ hs_h0 r = hs_h0 r' /\ hs_d2 r = hs_d2 r' /\
    hs_guard r = hs_guard r' /\ hs_h1 r == hs_h1 r' /\ hs_h r == hs_h r'.
Proof. exact hnw_rel_unique. Qed.

(* T18.2c  Where the documented variant differs from the book (not hidden):
   the norm used for d2 is sqrt(n) times the book's norm (4.11); the norm used
   for d0, d1 ignores the scale sc altogether.  For a scalar state with
   sc = 1 all three norms coincide; in general the proposals differ (explicit
   scalar instance with exact oracles: book 1/5, implementation 1/10). *)
Theorem C18_scaled_norm_is_sqrt_n_times_book_norm :
  forall (sc v : list Q) (d d' : Q),
    book_norm sc v d -> variant_scaled sc v d' ->
    d' * d' == inject_Z (Z.of_nat (length v)) * (d * d).
Proof. exact variant_scaled_vs_book. Qed.

Theorem C18_norm_variants_coincide_for_scalar_unit_scale :
  forall a d : Q,
    (book_norm [1] [a] d <-> variant_plain [a] d) /\
    (variant_scaled [1] [a] d <-> variant_plain [a] d).
Proof. exact variants_coincide_scalar_unit_scale. Qed.

Theorem C18_implemented_variant_differs_from_book :
  exists (f : Q -> list Q -> list Q) (nb : list Q -> list Q -> option Q)
         (nrm : list Q -> Q) (p : nat) (Atol Rtol x0 : Q) (y0 : list Q)
         (rb rc : hnw_trace),
    (forall sc v d, nb sc v = Some d -> book_norm sc v d) /\
    (forall a, is_norm (nrm [a]) [a]) /\
    hnw_rel f nb nb p Atol Rtol x0 y0 rb /\
    hnw_rel f (plain_of nrm) (scaled_of nrm) p Atol Rtol x0 y0 rc /\
    hs_h rb == 1 # 5 /\ hs_h rc == 1 # 10.
Proof. exact implemented_variant_differs_from_book. Qed.

(* T18.3  dt0 (repaired, f2a7222):
     norm_y0 < 1e-5 -> 1e-6, else scale * |u0| / (|f(u0)| + nugget).
   For every vector field, every initial value, every norm oracle (no contract
   on |u0| at all): if scale > 0 and the denominator |f(u0)| + nugget is
   positive, the model has a value and it is strictly positive. *)
Theorem C18_dt0_positive :
  forall (f : Q -> list Q -> list Q) (nrm : list Q -> Q) (scale nugget t : Q)
         (u0 : list Q),
    0 < scale -> 0 < nrm (f t u0) + nugget ->
    exists h, dt0_simple f nrm scale nugget t u0 = Some h /\ 0 < h.
Proof. exact dt0_positive. Qed.

(* ... in the usual reading: nugget > 0 and a non-negative norm of f(u0). *)
Theorem C18_dt0_positive_for_positive_nugget :
  forall (f : Q -> list Q -> list Q) (nrm : list Q -> Q) (scale nugget t : Q)
         (u0 : list Q),
    0 < scale -> 0 < nugget -> 0 <= nrm (f t u0) ->
    exists h, dt0_simple f nrm scale nugget t u0 = Some h /\ 0 < h.
Proof. exact dt0_positive_nugget. Qed.

(* T18.3a  What the guard does: below the threshold 1e-5 the proposal is the
   constant 1e-6; at or above it, it is the pre-fix quotient [dt0_unguarded]. *)
Theorem C18_dt0_guard_value :
  forall (f : Q -> list Q -> list Q) (nrm : list Q -> Q) (scale nugget t : Q)
         (u0 : list Q),
    (nrm u0 < 1 # 100000 ->
       dt0_simple_branch nrm u0 = true /\
       dt0_simple f nrm scale nugget t u0 = Some (1 # 1000000)) /\
    (1 # 100000 <= nrm u0 -> ~ nrm (f t u0) + nugget == 0 ->
       dt0_simple_branch nrm u0 = false /\
       dt0_simple f nrm scale nugget t u0 = Some (dt0_unguarded f nrm scale nugget t u0)).
Proof. exact dt0_guard_value. Qed.

(* T18.3b  In particular the proposal at u0 = 0 is 1e-6, whatever the field. *)
Theorem C18_dt0_at_zero_u0 :
  forall (f : Q -> list Q -> list Q) (nrm : list Q -> Q) (scale nugget t : Q)
         (u0 : list Q),
    is_norm (nrm u0) u0 -> Forall (fun x => x == 0) u0 ->
    dt0_simple f nrm scale nugget t u0 = Some (1 # 1000000).
Proof. exact dt0_at_zero_u0. Qed.

(* T18.3c  The hypothesis on the denominator cannot be dropped: nugget = 0 and
   f(u0) = 0 with |u0| >= 1e-5 divides by zero (the float code returns inf). *)
Theorem C18_dt0_undefined_for_zero_denominator :
  exists (f : Q -> list Q -> list Q) (nrm : list Q -> Q) (scale nugget t : Q)
         (u0 : list Q),
    is_norm (nrm u0) u0 /\ is_norm (nrm (f t u0)) (f t u0) /\
    0 < scale /\ nugget == 0 /\
    dt0_simple f nrm scale nugget t u0 = None.
Proof. exact dt0_undefined_for_zero_denominator. Qed.

(* T18.3d  Documentation of the repaired defect (finding F6): the formula
   BEFORE the repair, [dt0_unguarded] = scale * |u0| / (|f(u0)| + nugget), is
   positive iff u0 is not the zero vector, hence "positive for every initial
   value" was refuted (witness u0 = (0,0), f = (3,4), default scale and
   nugget); on the same witness the repaired dt0 returns 1e-6. *)
Theorem C18_dt0_unguarded_positive_iff :
  forall (f : Q -> list Q -> list Q) (nrm : list Q -> Q) (scale nugget t : Q)
         (u0 : list Q),
    0 < scale -> 0 < nugget ->
    is_norm (nrm u0) u0 -> is_norm (nrm (f t u0)) (f t u0) ->
    (0 < dt0_unguarded f nrm scale nugget t u0 <-> ~ Forall (fun x => x == 0) u0).
Proof. exact dt0_unguarded_positive_iff. Qed.

Theorem C18_dt0_unguarded_positive_refuted :
  exists (f : Q -> list Q -> list Q) (nrm : list Q -> Q) (t : Q) (u0 : list Q),
    is_norm (nrm u0) u0 /\ is_norm (nrm (f t u0)) (f t u0) /\
    ~ Forall (fun x => x == 0) (f t u0) /\
    dt0_unguarded f nrm dt0_default_scale dt0_default_nugget t u0 == 0 /\
    dt0_simple f nrm dt0_default_scale dt0_default_nugget t u0 = Some (1 # 1000000).
Proof. exact dt0_unguarded_positive_refuted. Qed.

Print Assumptions C18_dt0_adaptive_total_and_positive.
Print Assumptions C18_dt0_adaptive_positive_whenever_defined.
Print Assumptions C18_dt0_adaptive_undefined_for_zero_scale.
Print Assumptions C18_dt0_adaptive_is_hnw.
Print Assumptions C18_hnw_function_satisfies_book_relation.
Print Assumptions C18_book_relation_determines_the_proposal.
Print Assumptions C18_scaled_norm_is_sqrt_n_times_book_norm.
Print Assumptions C18_norm_variants_coincide_for_scalar_unit_scale.
Print Assumptions C18_implemented_variant_differs_from_book.
Print Assumptions C18_dt0_positive.
Print Assumptions C18_dt0_positive_for_positive_nugget.
Print Assumptions C18_dt0_guard_value.
Print Assumptions C18_dt0_at_zero_u0.
Print Assumptions C18_dt0_undefined_for_zero_denominator.
Print Assumptions C18_dt0_unguarded_positive_iff.
Print Assumptions C18_dt0_unguarded_positive_refuted.
