(* C05 -- checkpoint values interpolate exactly.  (The independence of the
   checkpoint set is established by correspondence / metamorphic runs; the
   theorems identify what an interpolation computes.) *)
From Coq Require Import List Arith.
From Coq Require Import QArith.
From PD Require Import Base.Field Base.Matrix Base.Solve Model.Gauss Model.Prior Spec.RTS
  Proofs.GaussProofs Proofs.FilterProofs Proofs.PriorProofs Model.Control Proofs.ControlSim.
Import ListNotations.
Local Close Scope Q_scope.

Section C05.
  Context {F : Type} `{FL : FieldLaws F}.

  (* filter: a checkpoint value is the Kalman prediction from the preceding
     state through the closed-form transition over t - t0 *)
  Theorem C05_filter_interpolation_is_prediction :
    forall q c (dt s2 : F) (rv : @normal F), dt <> f0 ->
      c_marg (S q) (S q) c (iwp_transition_1d q c dt s2) rv
      = kf_predict (S q) c (iwp_A_closed q dt)
          (c_b (c_plain (S q) (S q) c (iwp_transition_1d q c dt s2)))
          (iwp_Q_closed q dt s2) rv.
  Proof.
    intros q c dt s2 rv Hdt. rewrite c_marg_is_kalman_prediction. cbv zeta.
    rewrite (iwp_plain_A_closed_form q c dt s2 Hdt).
    rewrite (iwp_plain_Q_closed_form q c dt s2). reflexivity.
  Qed.

  (* smoothers: the backward model attached to the interpolated state, pushed
     through any later marginal, is the RTS update (arbitrary scalings) *)
  Theorem C05_smoother_interpolation_is_rts_conditioning :
    forall n c (K : @cond F) (filt obs : @normal F) bw,
      (forall i, i < n -> vget (c_tl K) i <> f0) ->
      (forall i, i < n -> vget (c_to K) i <> f0) ->
      c_revert minv n n c K filt = Some (obs, bw) ->
      forall sm,
        c_marg n n c bw sm = rts_with_gain n c (c_A (c_plain n n c bw)) filt obs sm.
  Proof. exact backward_kernel_is_rts. Qed.

  (* fixed-point smoother: after interpolating at t the new step_from carries
     the backward model t1 -> t and the interpolated state the model t -> t_prev;
     their merge acts as the composition (so later checkpoints see the same law) *)
  Theorem C05_rewired_backward_models_compose :
    forall n c (bw_t bw_t1 : @cond F) (rv : @normal F),
      c_marg n n c (c_merge n n n c bw_t bw_t1) rv
      = c_marg n n c bw_t (c_marg n n c bw_t1 rv).
  Proof. intros. apply c_merge_is_composition. Qed.

  (* interpolate_fwd_at_t1: the identity backward model reproduces the marginal *)
  Theorem C05_at_checkpoint_identity_model :
    forall n c (rv : @normal F),
      c_marg n n c (identity_conditional n c) rv
      = mkN (canon n c (n_mean rv)) (canon n n (n_cov rv)).
  Proof. exact c_marg_identity. Qed.
End C05.

(* The accepted step sequence does not depend on the requested checkpoints
   (no clipping): for ANY solver whose step and error estimate read only a
   "forward part" of the state (which includes the time) and whose two
   interpolation functions leave the forward part of the state to continue from
   unchanged -- true of the filter (posterior_t1 returned as is) and of both
   smoothers (only backward models are rewired) -- advancing to an inserted
   earlier checkpoint t' <= t and then to t reaches the same step size proposal,
   forward state, controller memory and error state as advancing to t directly.
   Hence step counts, per-step output scales and all later steps coincide.
   (Conditional on the fuel sufficing; any three fuels.) *)
Section C05_machine.
  Local Open Scope Q_scope.
  Variable S E X : Type.
  Variable time : S -> Q.
  Variable nsteps : S -> nat.
  Variable sstep : S -> Q -> S.
  Variable est : E -> S -> S -> Q -> Q * E.
  Variable interp interp_at : Q -> S -> S -> S * (S * S).
  Variable capply : Q -> Q -> Q -> Q * Q.
  Variable eps acc_init : Q.
  Variable fwd : S -> X.
  Variable ftime : X -> Q.
  Variable fstep : X -> Q -> X.
  Variable fest : E -> X -> X -> Q -> Q * E.
  Hypothesis Hf_time : forall s, time s = ftime (fwd s).
  Hypothesis Hf_step : forall s dt, fwd (sstep s dt) = fstep (fwd s) dt.
  Hypothesis Hf_est : forall e a b dt, est e a b dt = fest e (fwd a) (fwd b) dt.
  Hypothesis Hf_interp : forall t a b, fwd (fst (snd (interp t a b))) = fwd b.
  Hypothesis Hf_interp_at : forall t a b, fwd (fst (snd (interp_at t a b))) = fwd b.

  Theorem C05_steps_independent_of_inserted_checkpoint :
    forall fr t' t, t' <= t ->
    forall fuel1 fuel2 fuel3 (s sb s1 s2 s3 : TS S E) so1 so2 so3,
      absT S E X fwd s = absT S E X fwd sb ->
      advance S E time nsteps sstep est interp interp_at capply false eps acc_init fuel1 fr t' s = Some (so1, s1) ->
      advance S E time nsteps sstep est interp interp_at capply false eps acc_init fuel2 fr t s1 = Some (so2, s2) ->
      advance S E time nsteps sstep est interp interp_at capply false eps acc_init fuel3 fr t sb = Some (so3, s3) ->
      absT S E X fwd s2 = absT S E X fwd s3.
  Proof.
    intros fr t' t Hle fuel1 fuel2 fuel3 s sb s1 s2 s3 so1 so2 so3 Habs H1 H2 H3.
    exact (checkpoint_insertion S E X time nsteps sstep est interp interp_at capply eps acc_init
             fwd ftime fstep fest Hf_time Hf_step Hf_est Hf_interp Hf_interp_at fr t' t Hle
             fuel1 fuel2 fuel3 s sb s1 s2 s3 so1 so2 so3 Habs H1 H2 H3).
  Qed.
End C05_machine.

Print Assumptions C05_filter_interpolation_is_prediction.
Print Assumptions C05_steps_independent_of_inserted_checkpoint.
Print Assumptions C05_smoother_interpolation_is_rts_conditioning.
Print Assumptions C05_rewired_backward_models_compose.
Print Assumptions C05_at_checkpoint_identity_model.
