(* C05 -- checkpoint values interpolate exactly.  (The independence of the
   checkpoint set is established by correspondence / metamorphic runs; the
   theorems identify what an interpolation computes.) *)
From Coq Require Import List Arith.
From PD Require Import Base.Field Base.Matrix Base.Solve Model.Gauss Model.Prior Spec.RTS
  Proofs.GaussProofs Proofs.FilterProofs Proofs.PriorProofs.
Import ListNotations.

Section C05.
  Context {F : Type} `{FL : FieldLaws F}.

  (* filter: a checkpoint value is the Kalman prediction from the preceding
     state through the closed-form transition over t - t0 *)
  Theorem C05_filter_interpolation_is_prediction :
    forall q c (dt s2 : F) (rv : @normal F), dt <> f0 ->
      c_marg (S q) (S q) c (iwp_transition_1d q c dt s2) rv
      = kf_predict (S q) c (iwp_A_closed q dt)
          (c_b (c_plain (S q) (S q) c (iwp_transition_1d q c dt s2)))
          (iwp_Q_closed q dt s2) rv.
  Proof.
    intros q c dt s2 rv Hdt. rewrite c_marg_is_kalman_prediction. cbv zeta.
    rewrite (iwp_plain_A_closed_form q c dt s2 Hdt).
    rewrite (iwp_plain_Q_closed_form q c dt s2). reflexivity.
  Qed.

  (* smoothers: the backward model attached to the interpolated state, pushed
     through any later marginal, is the RTS update (arbitrary scalings) *)
  Theorem C05_smoother_interpolation_is_rts_conditioning :
    forall n c (K : @cond F) (filt obs : @normal F) bw,
      (forall i, i < n -> vget (c_tl K) i <> f0) ->
      (forall i, i < n -> vget (c_to K) i <> f0) ->
      c_revert minv n n c K filt = Some (obs, bw) ->
      forall sm,
        c_marg n n c bw sm = rts_with_gain n c (c_A (c_plain n n c bw)) filt obs sm.
  Proof. exact backward_kernel_is_rts. Qed.

  (* fixed-point smoother: after interpolating at t the new step_from carries
     the backward model t1 -> t and the interpolated state the model t -> t_prev;
     their merge acts as the composition (so later checkpoints see the same law) *)
  Theorem C05_rewired_backward_models_compose :
    forall n c (bw_t bw_t1 : @cond F) (rv : @normal F),
      c_marg n n c (c_merge n n n c bw_t bw_t1) rv
      = c_marg n n c bw_t (c_marg n n c bw_t1 rv).
  Proof. intros. apply c_merge_is_composition. Qed.

  (* interpolate_fwd_at_t1: the identity backward model reproduces the marginal *)
  Theorem C05_at_checkpoint_identity_model :
    forall n c (rv : @normal F),
      c_marg n n c (identity_conditional n c) rv
      = mkN (canon n c (n_mean rv)) (canon n n (n_cov rv)).
  Proof. exact c_marg_identity. Qed.
End C05.

Print Assumptions C05_filter_interpolation_is_prediction.
Print Assumptions C05_smoother_interpolation_is_rts_conditioning.
Print Assumptions C05_rewired_backward_models_compose.
Print Assumptions C05_at_checkpoint_identity_model.
