(* C05 placeholder during construction *)
From PD Require Import Base.Field Base.Matrix.
Theorem C05_mmul_add_r :
  forall (F : Type) (H : FieldOps F) (FL : FieldLaws F) n k m (A B C : @mat F),
    mmul n k m A (madd k m B C) = madd n m (mmul n k m A B) (mmul n k m A C).
Proof. intros. apply mmul_add_r. Qed.
Print Assumptions C05_mmul_add_r.
