(* C19 -- Constrained least-squares points are feasible, optimal, exact if affine.

   Statements only; every theorem is closed by [exact <lemma>] (Proofs/LstSqProofs.v)
   and followed by Print Assumptions.  The model is Model/LstSq.v: a transcription
   of lstsq_constrained_gauss_newton (body_fun, cond_fun, init, statistics),
   taylor_point_maximum_a_posteriori and DenseResidual.linearize at covariance
   level C = L L^T.  Vectors are n x 1 matrices; [mget v i 0] is the i-th entry.

   Quantification: ANY field with decidable equality (FieldLaws; the executable
   instance is Qc), ANY sizes D (variables) and K (constraint rows), ANY
   constraint function f with ANY "Jacobian" function jac (theorems on the loop
   need no relation between them), ANY mean m, ANY covariance C (singular ones
   included), ANY tolerance^2 tol2, ANY budget maxiter, ANY strict-comparison
   oracle gtb and, where stated, ANY pseudo-inverse oracle pinv.
   Norm tests of the code (norm > tol sqrt(size)) are modelled on squares
   (norm^2 > tol^2 size). *)
From Coq Require Import List Arith Bool.
From PD Require Import Base.Field Base.Matrix Base.Solve Model.Gauss Model.Poly
  Model.LstSq Proofs.LstSqProofs.
Import ListNotations.

Section C19.
  Context {F : Type} `{FL : FieldLaws F}.
  Local Notation mat := (@mat F).

  (* T19.0  The model's solver is a CERTIFIED Moore-Penrose pseudo-inverse:
     whatever mpinv returns satisfies the four Penrose equations. *)
  Theorem C19_pseudo_inverse_is_certified :
    forall n (A X : mat), mpinv n A = Some X ->
      X = canon n n X /\
      mmul n n n (mmul n n n A X) A = canon n n A /\
      mmul n n n (mmul n n n X A) X = canon n n X /\
      mtr n n (mmul n n n A X) = mmul n n n A X /\
      mtr n n (mmul n n n X A) = mmul n n n X A.
  Proof. exact mpinv_spec. Qed.

  (* T19.1  Affine constraint f(x) = A x + c, any consistent state (any current
     point), any covariance with S = A C A^T invertible (certified: minv = Some Si):
     ONE pass through body_fun returns  m - C A^T S^-1 (A m + c), this point is
     feasible, and a SECOND pass does not move (increment exactly 0). *)
  Theorem C19_affine_one_iteration_feasible_then_stationary :
    forall D K (A c m C : mat) (st : gn_state) (Si : mat),
      minv K (mmul K D K A (mmul D D K C (mtr K D A))) = Some Si ->
      s_fx st = madd K 1 (mmul K D 1 A (s_x st)) c ->
      exists st1,
        gn_body mpinv D K (affine_f D K A c) (fun _ => A) m C st = Some st1 /\
        s_x st1 = msub D 1 m (mmul D K 1 (mmul D D K C (mtr K D A))
                                (mmul K K 1 Si (madd K 1 (mmul K D 1 A m) c))) /\
        s_fx st1 = mzero K 1 /\
        s_i st1 = S (s_i st) /\
        exists st2,
          gn_body mpinv D K (affine_f D K A c) (fun _ => A) m C st1 = Some st2 /\
          s_x st2 = s_x st1 /\ s_dx st2 = mzero D 1.
  Proof. exact affine_one_iteration. Qed.

  (* T19.1  ... hence the whole routine, from ANY start x0 and with any budget
     >= 1, returns after 0 iterations (start accepted by cond_fun) or after
     exactly 1 iteration at the feasible closed form, reporting iters = 1,
     final_constraint = 0 and final_increment = x1 - x0.
     [gtb 0 (tol2 * K) = false] reads "0 > tol^2 K is false". *)
  Theorem C19_affine_routine_returns_closed_form :
    forall (gtb : F -> F -> bool) D K (A c m C : mat) maxiter tol2 (x0 Si : mat),
      1 <= maxiter ->
      minv K (mmul K D K A (mmul D D K C (mtr K D A))) = Some Si ->
      gtb f0 (fmul tol2 (fnat K)) = false ->
      exists st,
        gn_run mpinv gtb D K (affine_f D K A c) (fun _ => A) m C maxiter tol2 x0 = Done st /\
        ((st = gn_init D (affine_f D K A c) x0 /\ gn_cond gtb D K maxiter tol2 st = false) \/
         (s_i st = 1 /\
          s_x st = msub D 1 m (mmul D K 1 (mmul D D K C (mtr K D A))
                                 (mmul K K 1 Si (madd K 1 (mmul K D 1 A m) c))) /\
          s_fx st = mzero K 1 /\
          s_dx st = msub D 1 (msub D 1 m (mmul D K 1 (mmul D D K C (mtr K D A))
                                 (mmul K K 1 Si (madd K 1 (mmul K D 1 A m) c)))) x0)).
  Proof. exact affine_run. Qed.

  (* T19.1  The closed form IS the Gaussian conditional mean of N(m, C) given
     A x + c = 0 as computed by bayes_rule of Model/Gauss.v (the model validated
     against the implementation by C08), for symmetric C and any inverse oracle
     that inverts A C A^T. *)
  Theorem C19_closed_form_is_gaussian_conditional_mean :
    forall D K (A c m C : mat),
      (forall i j, i < D -> j < D -> mget C i j = mget C j i) ->
      forall (inv : nat -> mat -> option mat) (Si : mat) (obs post : @normal F),
        inv K (mmul K D K A (mmul D D K C (mtr K D A))) = Some Si ->
        bayes_rule inv D K 1 (from_linop_and_noise D K A (mkN c (mzero K K)))
                   (mzero K 1) (mkN m C) = Some (obs, post) ->
        n_mean post = msub D 1 m (mmul D K 1 (mmul D D K C (mtr K D A))
                                    (mmul K K 1 Si (madd K 1 (mmul K D 1 A m) c))).
  Proof. exact cond_mean_is_bayes. Qed.

  (* T19.2  ANY constraint: after every iteration the displacement of the new
     point from the mean lies in the range of C J^T, where J is the Jacobian at
     the point the iteration STARTED from (the one the code linearised at). *)
  Theorem C19_displacement_in_range_of_covariance_times_jacobian_transpose :
    forall (pinv : nat -> mat -> option mat) D K (f jac : mat -> mat) (m C : mat)
           (st st' : gn_state),
      gn_body pinv D K f jac m C st = Some st' ->
      exists w, msub D 1 (s_x st') m
                = mmul D K 1 (mmul D D K C (mtr K D (jac (s_x st)))) w.
  Proof. exact gn_body_range. Qed.

  (* T19.2  ANY constraint: when the certified pseudo-inverse is a right inverse
     of J C J^T, the iteration solves the linearised constraint exactly,
     f(x) + J(x) (x' - x) = 0 (x' - x is the reported increment).  With the range
     statement above this is the KKT system of the linearised problem; in
     particular a state whose next increment is 0 is feasible. *)
  Theorem C19_step_solves_linearised_constraint :
    forall (pinv : nat -> mat -> option mat) D K (f jac : mat -> mat) (m C : mat)
           (st st' : gn_state),
      (forall Sp,
          pinv K (mmul K D K (jac (s_x st)) (mmul D D K C (mtr K D (jac (s_x st))))) = Some Sp ->
          mmul K K K (mmul K D K (jac (s_x st)) (mmul D D K C (mtr K D (jac (s_x st))))) Sp
          = mid K) ->
      gn_body pinv D K f jac m C st = Some st' ->
      madd K 1 (s_fx st) (mmul K D 1 (jac (s_x st)) (s_dx st')) = mzero K 1.
  Proof. exact gn_body_newton. Qed.

  Theorem C19_stationary_state_is_feasible :
    forall (pinv : nat -> mat -> option mat) D K (f jac : mat -> mat) (m C : mat)
           (st st' : gn_state),
      (forall Sp,
          pinv K (mmul K D K (jac (s_x st)) (mmul D D K C (mtr K D (jac (s_x st))))) = Some Sp ->
          mmul K K K (mmul K D K (jac (s_x st)) (mmul D D K C (mtr K D (jac (s_x st))))) Sp
          = mid K) ->
      gn_body pinv D K f jac m C st = Some st' -> s_dx st' = mzero D 1 ->
      canon K 1 (s_fx st) = mzero K 1.
  Proof. exact gn_fixed_point_feasible. Qed.

  (* T19.3  Loop exit and statistics, ANY constraint.  If the routine returns
     the state st then:
       - st is the (s_i st)-th iterate of body_fun from the initial state and
         s_i st <= maxiter                       (iteration count is truthful);
       - at every earlier iterate all three conditions held;
       - at st one of them fails: residual^2 <= tol^2 K, or the budget is
         exhausted AND the reported count equals maxiter, or increment^2 <= tol^2 D;
       - the reported residual is f at the returned point;
       - the reported increment is ones (no iteration) or the last step. *)
  Theorem C19_loop_exit_and_statistics_are_truthful :
    forall (pinv : nat -> mat -> option mat) (gtb : F -> F -> bool) D K
           (f jac : mat -> mat) (m C : mat) maxiter tol2 (x0 : mat) (st : gn_state),
      gn_run pinv gtb D K f jac m C maxiter tol2 x0 = Done st ->
      gn_iter pinv D K f jac m C (s_i st) (gn_init D f x0) = Some st /\
      s_i st <= maxiter /\
      (forall j, j < s_i st ->
         exists sj, gn_iter pinv D K f jac m C j (gn_init D f x0) = Some sj /\ s_i sj = j /\
           cond1 gtb K tol2 sj = true /\ cond2 maxiter sj = true /\ cond3 gtb D tol2 sj = true) /\
      (cond1 gtb K tol2 st = false \/ s_i st = maxiter \/ cond3 gtb D tol2 st = false) /\
      s_fx st = f (s_x st) /\
      (s_i st = 0 -> st = gn_init D f x0) /\
      (forall j sj, S j = s_i st -> gn_iter pinv D K f jac m C j (gn_init D f x0) = Some sj ->
         s_dx st = msub D 1 (s_x st) (s_x sj)).
  Proof. exact gn_run_exit. Qed.

  (* T19.3  The loop stops IFF cond_fun fails: the result is exactly the first
     iterate at which (cond1 && cond2) && cond3 is false. *)
  Theorem C19_loop_stops_iff_a_condition_fails :
    forall (pinv : nat -> mat -> option mat) (gtb : F -> F -> bool) D K
           (f jac : mat -> mat) (m C : mat) maxiter tol2 (x0 : mat) (st : gn_state),
      gn_run pinv gtb D K f jac m C maxiter tol2 x0 = Done st <->
      exists n, n <= maxiter /\
        gn_iter pinv D K f jac m C n (gn_init D f x0) = Some st /\
        (forall j, j < n -> exists sj,
            gn_iter pinv D K f jac m C j (gn_init D f x0) = Some sj /\
            gn_cond gtb D K maxiter tol2 sj = true) /\
        gn_cond gtb D K maxiter tol2 st = false.
  Proof. exact gn_run_iff. Qed.

  (* T19.3  fuel = maxiter always suffices; the only other outcome is an
     uncertified pseudo-inverse at a reachable, still-continuing state. *)
  Theorem C19_budget_is_enough_fuel :
    forall (pinv : nat -> mat -> option mat) (gtb : F -> F -> bool) D K
           (f jac : mat -> mat) (m C : mat) maxiter tol2 (x0 : mat) (st : gn_state),
      gn_run pinv gtb D K f jac m C maxiter tol2 x0 <> OutOfFuel st.
  Proof. exact gn_run_never_out_of_fuel. Qed.

  Theorem C19_failure_only_from_uncertified_solve :
    forall (pinv : nat -> mat -> option mat) (gtb : F -> F -> bool) D K
           (f jac : mat -> mat) (m C : mat) maxiter tol2 fuel (st st' : gn_state),
      gn_loop pinv gtb D K f jac m C maxiter tol2 fuel st = SolveFailed st' ->
      exists n, gn_iter pinv D K f jac m C n st = Some st' /\
                gn_cond gtb D K maxiter tol2 st' = true /\
                gn_body pinv D K f jac m C st' = None.
  Proof. exact gn_loop_failed. Qed.

  (* T19.4  DenseResidual.linearize of an affine constraint at ANY point xi
     (in particular the MAP point) is the constraint itself: linop = A, bias = c;
     so the filter update through it equals the update through the exact
     affine observation model. *)
  Theorem C19_affine_linearisation_is_the_constraint :
    forall D K (A c : mat) (xi : mat),
      lin_at D K (affine_f D K A c) (fun _ => A) xi
      = from_linop_and_noise D K A (mkN (canon K 1 c) (mzero K K)).
  Proof. exact lin_at_affine. Qed.

  Theorem C19_update_through_affine_linearisation_is_exact :
    forall D K (A c : mat) (inv : nat -> mat -> option mat) (xi data : mat) (rv : @normal F),
      bayes_rule inv D K 1 (lin_at D K (affine_f D K A c) (fun _ => A) xi) data rv
      = bayes_rule inv D K 1 (from_linop_and_noise D K A (mkN c (mzero K K))) data rv.
  Proof. exact bayes_lin_at_affine. Qed.

  (* T19.4  MAP linearisation makes ONE filter update exact for affine
     constraints: the posterior mean of the update linearised at the point
     returned by the routine is the Gaussian conditional mean, it satisfies the
     constraint exactly, and (if the routine iterated at all) it is the
     returned point itself. *)
  Theorem C19_map_linearisation_makes_update_exact_for_affine :
    forall (gtb : F -> F -> bool) D K (A c m C : mat) maxiter tol2
           (x0 Si : mat) (st : gn_state) (obs post : @normal F),
      (forall i j, i < D -> j < D -> mget C i j = mget C j i) ->
      minv K (mmul K D K A (mmul D D K C (mtr K D A))) = Some Si ->
      gn_run mpinv gtb D K (affine_f D K A c) (fun _ => A) m C maxiter tol2 x0 = Done st ->
      bayes_rule mpinv D K 1 (lin_at D K (affine_f D K A c) (fun _ => A) (s_x st))
                 (mzero K 1) (mkN m C) = Some (obs, post) ->
      n_mean post = msub D 1 m (mmul D K 1 (mmul D D K C (mtr K D A))
                                  (mmul K K 1 Si (madd K 1 (mmul K D 1 A m) c))) /\
      madd K 1 (mmul K D 1 A (n_mean post)) c = mzero K 1 /\
      (1 <= s_i st -> s_x st = n_mean post).
  Proof. exact affine_map_update_exact. Qed.
End C19.

Print Assumptions C19_pseudo_inverse_is_certified.
Print Assumptions C19_affine_one_iteration_feasible_then_stationary.
Print Assumptions C19_affine_routine_returns_closed_form.
Print Assumptions C19_closed_form_is_gaussian_conditional_mean.
Print Assumptions C19_displacement_in_range_of_covariance_times_jacobian_transpose.
Print Assumptions C19_step_solves_linearised_constraint.
Print Assumptions C19_stationary_state_is_feasible.
Print Assumptions C19_loop_exit_and_statistics_are_truthful.
Print Assumptions C19_loop_stops_iff_a_condition_fails.
Print Assumptions C19_budget_is_enough_fuel.
Print Assumptions C19_failure_only_from_uncertified_solve.
Print Assumptions C19_affine_linearisation_is_the_constraint.
Print Assumptions C19_update_through_affine_linearisation_is_exact.
Print Assumptions C19_map_linearisation_makes_update_exact_for_affine.
