(* C10 -- Taylor-coefficient initialisation returns the exact solution derivatives.

   Statements only; every theorem is closed by [exact <lemma>] (lemmas in
   Proofs/JetProofs.v) and followed by Print Assumptions.

   Objects.  A vector field (Spec/ODESeries.v, [vfield]) is an order k, a
   dimension d and one polynomial per dimension (Model/Poly.v: lists of
   (coefficient, exponent vector)) over the variables x_{j,b} (index j*d+b,
   j < k: component b of u^(j)) and t (index k*d).  F is any field of
   characteristic 0 (FieldLaws); nothing is bounded (degree, d, k >= 1, num).

   Specification (Spec/ODESeries.v).  [is_formal_solution v t0 a]: the formal power
   series U_b(tau) = sum_n a n b tau^n satisfies U^(k) = f(U, .., U^(k-1), t0 + tau)
   coefficient by coefficient, where composition of a polynomial with series
   ([fs_compose]) is evaluation in the ring of formal power series (Cauchy
   product; Base/Series.v) and [curve_fs a j b] is the j-th formal derivative
   of U_b.  [spec_derivs v t0 inits num] computes (u, u', .., u^(k-1+num))(t0)
   = (n! a_n)_n by the obvious recursion from the k initial derivative vectors.

   Model (Model/Jet.v): transcription of jet_expansion_algorithms.py and of
   args_autonomous_and_jet_compatible; jax.experimental.jet on a polynomial
   program is composition of truncated power series (an oracle: its conformance
   is measured by the correspondence check harness/c10.py).
   jetexpand_ode_via_jvp is modelled as coded after the repair of finding F4
   ([via_jvp_fixed_model]); the pre-repair recursion ([via_jvp_model], t closed
   over) is kept as documentation of the defect.  jetexpand_ode_doubling_unroll
   still closes over t (known finding).  *)
From Coq Require Import List Arith Bool QArith Qcanon.
From PD Require Import Base.Field Base.Matrix Model.Poly Base.Series Spec.ODESeries Model.Jet
  Proofs.JetProofs.
Import ListNotations.
Local Close Scope Qc_scope.
Local Close Scope Q_scope.
Local Open Scope nat_scope.

(* T10.1  Uniqueness: two formal solutions of the same field with the same
   initial coefficients a_0 .. a_{k-1} have the same coefficients, for all n. *)
Theorem C10_formal_solution_is_unique :
  forall (F : Type) (H : FieldOps F) (FL : FieldLaws F)
         (v : @vfield F) (t0 : F) (a a' : nat -> nat -> F),
    is_formal_solution v t0 a -> is_formal_solution v t0 a' ->
    (forall j b, j < vf_k v -> b < vf_d v -> a j b = a' j b) ->
    forall n b, b < vf_d v -> a n b = a' n b.
Proof. exact @formal_solution_unique. Qed.

(* T10.1'  Existence: the recursion of the specification, started from any k
   coefficient vectors A0, produces a formal solution (so [spec_derivs] really
   is "the derivatives of the true (formal) solution"). *)
Theorem C10_recursion_computes_a_formal_solution :
  forall (F : Type) (H : FieldOps F) (FL : FieldLaws F)
         (v : @vfield F) (t0 : F) (A0 : list (list F)),
    length A0 = vf_k v ->
    is_formal_solution v t0
      (fun n b => vget (nth n (spec_coeffs v t0 A0 (S n - length A0)) []) b).
Proof. exact @spec_is_formal_solution. Qed.

(* T10.2a  jetexpand_ode_unroll: for EVERY polynomial vector field of order
   k >= 1 (time-dependent or not), every num and every well-formed input (d
   polynomials, k initial vectors of d entries), the model returns exactly
   (u, u', ..., u^(k-1+num))(t0) of the formal solution. *)
Theorem C10_unroll_returns_the_solution_derivatives :
  forall (F : Type) (H : FieldOps F) (FL : FieldLaws F)
         (v : @vfield F) (t0 : F) (inits : list (list F)) (num : nat),
    1 <= vf_k v ->
    (length (vf_f v) = vf_d v /\ length inits = vf_k v /\
     forall j, j < vf_k v -> length (nth j inits []) = vf_d v) ->
    unroll_model v inits t0 num = Some (spec_derivs v t0 inits num).
Proof. exact @unroll_correct. Qed.

(* T10.2b  jetexpand_ode_padded_scan (zero padding to k+num entries, increment,
   drop the last entry, num-1 times): same statement. *)
Theorem C10_padded_scan_returns_the_solution_derivatives :
  forall (F : Type) (H : FieldOps F) (FL : FieldLaws F)
         (v : @vfield F) (t0 : F) (inits : list (list F)) (num : nat),
    1 <= vf_k v ->
    (length (vf_f v) = vf_d v /\ length inits = vf_k v /\
     forall j, j < vf_k v -> length (nth j inits []) = vf_d v) ->
    padded_scan_model v inits t0 num = Some (spec_derivs v t0 inits num).
Proof. exact @padded_scan_correct. Qed.

(* T10.3  jetexpand_ode_via_jvp AS CODED NOW (repo commit 46ebe36; Model/Jet.v
   [via_jvp_fixed_model]): F_0 = f,
       F_{n+1} = <grad_x F_n, (x_1, .., x_{k-1}, f)> + dF_n/dt,
   t being handed to every jvp as one more primal with tangent one.  Correct for
   EVERY polynomial field of order k >= 1, time-dependent or not, every num. *)
Theorem C10_via_jvp_with_time_tangent_is_correct :
  forall (F : Type) (H : FieldOps F) (FL : FieldLaws F)
         (v : @vfield F) (t0 : F) (inits : list (list F)) (num : nat),
    1 <= vf_k v ->
    (length (vf_f v) = vf_d v /\ length inits = vf_k v /\
     forall j, j < vf_k v -> length (nth j inits []) = vf_d v) ->
    via_jvp_fixed_model v inits t0 num = Some (spec_derivs v t0 inits num).
Proof. exact @via_jvp_fixed_correct. Qed.

(* Documentation of the repaired defect F4.  Before the repair the routine closed
   over t (Model/Jet.v [via_jvp_model]: F_{n+1} = <grad_x F_n, (x_1,..,f)> only).
   That recursion is correct for AUTONOMOUS fields (no monomial of f has a
   non-zero exponent at the time variable, index k*d) ... *)
Theorem C10_via_jvp_closed_over_time_correct_for_autonomous_fields :
  forall (F : Type) (H : FieldOps F) (FL : FieldLaws F)
         (v : @vfield F) (t0 : F) (inits : list (list F)) (num : nat),
    1 <= vf_k v ->
    (length (vf_f v) = vf_d v /\ length inits = vf_k v /\
     forall j, j < vf_k v -> length (nth j inits []) = vf_d v) ->
    (forall p, In p (vf_f v) ->
       forall m, In m p -> nth (vf_k v * vf_d v) (snd m) 0 = 0) ->
    via_jvp_model v inits t0 num = Some (spec_derivs v t0 inits num).
Proof. exact @via_jvp_correct_autonomous. Qed.

(* ... and WRONG for time-dependent fields: for u' = t u + t^2, u(1/2) = 1 the
   derivatives are (1, 3/4, 19/8, 75/16) while it returns (1, 3/4, 3/8, 3/16). *)
Theorem C10_via_jvp_closed_over_time_refuted :
  exists (v : @vfield Qc) (inits : list (list Qc)) (t0 : Qc) (num : nat),
    1 <= vf_k v /\
    (length (vf_f v) = vf_d v /\ length inits = vf_k v /\
     forall j, j < vf_k v -> length (nth j inits []) = vf_d v) /\
    via_jvp_model v inits t0 num <> Some (spec_derivs v t0 inits num).
Proof. exact P_via_jvp_closed_over_time_refuted. Qed.

Theorem C10_via_jvp_closed_over_time_witness_values :
  map (map (fun x : Qc => this x)) (spec_derivs witness_field witness_t0 witness_inits 3)
    = [[1 # 1]; [3 # 4]; [19 # 8]; [75 # 16]]%Q /\
  match via_jvp_model witness_field witness_inits witness_t0 3 with
  | Some l => map (map (fun x : Qc => this x)) l = [[1 # 1]; [3 # 4]; [3 # 8]; [3 # 16]]%Q
  | None => False
  end.
Proof. exact P_via_jvp_closed_over_time_witness_values. Qed.

(* T10.4  jetexpand_ode_doubling_unroll (Newton doubling on normalised coefficients:
   jet of the zero-padded coefficients, jvp of that jet, division by the order,
   factorial rescaling at the end; first order only): correct for AUTONOMOUS
   first-order fields, for every number of doublings nd (2^(nd+1) - 1 derivative
   vectors are returned). *)
Theorem C10_doubling_correct_for_autonomous_first_order_fields :
  forall (F : Type) (H : FieldOps F) (FL : FieldLaws F)
         (v : @vfield F) (t0 : F) (inits : list (list F)) (nd : nat),
    vf_k v = 1 ->
    (length (vf_f v) = vf_d v /\ length inits = vf_k v /\
     forall j, j < vf_k v -> length (nth j inits []) = vf_d v) ->
    (forall p, In p (vf_f v) ->
       forall m, In m p -> nth (vf_k v * vf_d v) (snd m) 0 = 0) ->
    doubling_model v inits t0 nd = Some (spec_derivs v t0 inits (2 ^ (S nd) - 2)).
Proof. exact @doubling_correct_autonomous. Qed.

(* T10.4_refuted  jetexpand_ode_doubling_unroll also closes over t: same witness,
   one doubling returns (1, 3/4, 3/8) instead of (1, 3/4, 19/8). *)
Theorem C10_doubling_time_dependent_refuted :
  exists (v : @vfield Qc) (inits : list (list Qc)) (t0 : Qc) (nd : nat),
    vf_k v = 1 /\
    (length (vf_f v) = vf_d v /\ length inits = vf_k v /\
     forall j, j < vf_k v -> length (nth j inits []) = vf_d v) /\
    doubling_model v inits t0 nd <> Some (spec_derivs v t0 inits (2 ^ (S nd) - 2)).
Proof. exact P_doubling_time_dependent_refuted. Qed.

(* T10.5  The routines agree: padded scan, unroll and via_jvp (as coded now) on
   EVERY field; doubling on autonomous first-order fields. *)
Theorem C10_routines_agree :
  forall (F : Type) (H : FieldOps F) (FL : FieldLaws F)
         (v : @vfield F) (t0 : F) (inits : list (list F)) (num : nat),
    1 <= vf_k v ->
    (length (vf_f v) = vf_d v /\ length inits = vf_k v /\
     forall j, j < vf_k v -> length (nth j inits []) = vf_d v) ->
    padded_scan_model v inits t0 num = unroll_model v inits t0 num /\
    via_jvp_fixed_model v inits t0 num = unroll_model v inits t0 num.
Proof. exact @routines_agree_all_fields. Qed.

Theorem C10_doubling_agrees_with_unroll_on_autonomous_first_order_fields :
  forall (F : Type) (H : FieldOps F) (FL : FieldLaws F)
         (v : @vfield F) (t0 : F) (inits : list (list F)) (nd : nat),
    vf_k v = 1 ->
    (length (vf_f v) = vf_d v /\ length inits = vf_k v /\
     forall j, j < vf_k v -> length (nth j inits []) = vf_d v) ->
    (forall p, In p (vf_f v) ->
       forall m, In m p -> nth (vf_k v * vf_d v) (snd m) 0 = 0) ->
    doubling_model v inits t0 nd = unroll_model v inits t0 (2 ^ (S nd) - 2).
Proof. exact @doubling_agrees_with_unroll. Qed.

(* T10.6  The pytree wrapper's bookkeeping (model of the flattening order only:
   ravel = natural coordinates re-ordered by [perm], Model/Jet.v): unravel after
   ravel is the identity whenever [perm] lists every coordinate 0..d-1. *)
Theorem C10_pytree_unravel_inverts_ravel :
  forall (F : Type) (H : FieldOps F) (perm : list nat) (x : list F),
    length x = length perm -> (forall i, i < length perm -> In i perm) ->
    unpermute_vec perm (permute_vec perm x) = x.
Proof. exact @unpermute_permute. Qed.

Print Assumptions C10_formal_solution_is_unique.
Print Assumptions C10_recursion_computes_a_formal_solution.
Print Assumptions C10_unroll_returns_the_solution_derivatives.
Print Assumptions C10_padded_scan_returns_the_solution_derivatives.
Print Assumptions C10_via_jvp_with_time_tangent_is_correct.
Print Assumptions C10_via_jvp_closed_over_time_correct_for_autonomous_fields.
Print Assumptions C10_via_jvp_closed_over_time_refuted.
Print Assumptions C10_via_jvp_closed_over_time_witness_values.
Print Assumptions C10_doubling_correct_for_autonomous_first_order_fields.
Print Assumptions C10_doubling_time_dependent_refuted.
Print Assumptions C10_routines_agree.
Print Assumptions C10_doubling_agrees_with_unroll_on_autonomous_first_order_fields.
Print Assumptions C10_pytree_unravel_inverts_ravel.
