(* C10 -- stub, completed below in the final version *)
From Coq Require Import List Arith Bool QArith Qcanon.
From PD Require Import Base.Field Base.Matrix Model.Poly Base.Series Spec.ODESeries Model.Jet Proofs.JetProofs.
Import ListNotations.

Theorem C10_via_jvp_time_dependent_refuted :
  exists (v : @vfield Qc) (inits : list (list Qc)) (t0 : Qc) (num : nat),
    vf_k v = 1%nat /\ length inits = 1%nat /\
    via_jvp_model v inits t0 num <> Some (spec_derivs v t0 inits num).
Proof. exact P_via_jvp_time_dependent_refuted. Qed.

Print Assumptions C10_via_jvp_time_dependent_refuted.
