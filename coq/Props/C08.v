(* C08 -- Gaussian conditional algebra is exact in every factorisation.
   Model/Gauss.v: conditionals  y | x ~ N( to*(A (tl*x) + b), to Q to )  with
   diagonal input/output scalings tl, to, at covariance (Gram) level; one generic
   block covers dense (N x 1 means), isotropic (N x d means, shared covariance)
   and each block of the block-diagonal model.  All statements hold over an
   arbitrary field, for all shapes, all matrices (any lists), all scalings. *)
From Coq Require Import List Arith.
From PD Require Import Base.Field Base.Matrix Base.Solve Model.Gauss Spec.RTS
  Proofs.GaussProofs Proofs.FilterProofs.
Import ListNotations.

Section C08.
  Context {F : Type} `{FL : FieldLaws F}.

  (* application to a point = application of the plain (preconditioner_apply) conditional *)
  Theorem C08_apply_equals_plain_formula :
    forall nin nout c (K : @cond F) (x : @mat F),
      c_apply nin nout c K x = c_apply nin nout c (c_plain nin nout c K) x.
  Proof. exact c_apply_plain. Qed.

  (* marginalisation = marginalisation through the plain conditional ... *)
  Theorem C08_marginalise_equals_plain_formula :
    forall nin nout c (K : @cond F) (rv : @normal F),
      c_marg nin nout c K rv = c_marg nin nout c (c_plain nin nout c K) rv.
  Proof. exact c_marg_plain. Qed.

  (* ... which is the dense formula  (A m + b,  A P A^T + Q) *)
  Theorem C08_marginalise_is_dense_formula :
    forall n c (K : @cond F) (rv : @normal F),
      c_marg n n c K rv
      = let P := c_plain n n c K in kf_predict n c (c_A P) (c_b P) (c_Q P) rv.
  Proof. exact c_marg_is_kalman_prediction. Qed.

  (* composition: marginalising through merge(K1,K2) = through K2 then K1 *)
  Theorem C08_merge_is_composition :
    forall nin nmid nout c (K1 K2 : @cond F) (rv : @normal F),
      c_marg nin nout c (c_merge nin nmid nout c K1 K2) rv
      = c_marg nmid nout c K1 (c_marg nin nmid c K2 rv).
  Proof. exact c_merge_is_composition. Qed.

  (* reversal: marginal of y ... *)
  Theorem C08_revert_observed_is_marginal :
    forall inv nin nout c (K : @cond F) (rv obs : @normal F) bw,
      c_revert inv nin nout c K rv = Some (obs, bw) -> obs = c_marg nin nout c K rv.
  Proof. exact c_revert_observed_is_marginal. Qed.

  (* ... together with x | y reproduces the law of x (any, also singular,
     covariances; any inverse oracle) ... *)
  Theorem C08_revert_reproduces_prior :
    forall inv nin nout c (K : @cond F) (rv obs : @normal F) bw,
      (forall i, i < nin -> vget (c_tl K) i <> f0) ->
      (forall i, i < nout -> vget (c_to K) i <> f0) ->
      c_revert inv nin nout c K rv = Some (obs, bw) ->
      c_marg nout nin c bw obs
      = mkN (canon nin c (n_mean rv)) (canon nin nin (n_cov rv)).
  Proof. exact c_revert_reproduces_prior. Qed.

  (* ... and the gain satisfies  G S = P A^T  (cross-covariance), with the
     certified inverse *)
  Theorem C08_revert_gain_equation :
    forall nin nout c (K : @cond F) (rv obs : @normal F) bw,
      c_revert minv nin nout c K rv = Some (obs, bw) ->
      let P' := dsand nin (c_tl K) (n_cov rv) in
      let S := madd nout nout (sandwich nout nin (c_A K) P') (c_Q K) in
      mmul nin nout nout (c_A bw) S
      = mtr nout nin (mmul nout nin nin (c_A K) P').
  Proof. exact c_revert_gain_equation. Qed.

  (* the certified inverse returns a two-sided inverse or nothing *)
  Theorem C08_certified_inverse :
    forall n (A X : @mat F),
      minv n A = Some X ->
      X = canon n n X /\ mmul n n n A X = mid n /\ mmul n n n X A = mid n.
  Proof. exact minv_spec. Qed.
End C08.

Print Assumptions C08_apply_equals_plain_formula.
Print Assumptions C08_marginalise_equals_plain_formula.
Print Assumptions C08_marginalise_is_dense_formula.
Print Assumptions C08_merge_is_composition.
Print Assumptions C08_revert_observed_is_marginal.
Print Assumptions C08_revert_reproduces_prior.
Print Assumptions C08_revert_gain_equation.
Print Assumptions C08_certified_inverse.
