(* C08 placeholder during construction: theorems are added in Proofs/GaussProofs.v *)
From PD Require Import Base.Field Base.Matrix.
Theorem C08_mmul_assoc :
  forall (F : Type) (H : FieldOps F) (FL : FieldLaws F) n k l m (A B C : @mat F),
    mmul n l m (mmul n k l A B) C = mmul n k m A (mmul k l m B C).
Proof. intros. apply mmul_assoc. Qed.
Print Assumptions C08_mmul_assoc.
