(* C09, matrix-exponential / Gramian part -- property theorems (statement + exact lemma),
   to be merged into Props/C09.v.  Tables are the ones translated from the source
   (probdiffeq/util/gram_util.py) by harness/translate_expgram.py. *)
From Coq Require Import List Arith QArith Qcanon.
From PD Require Import Base.Field Base.Matrix Base.Solve Model.Gauss Model.Prior Model.ExpGram
  Generated.ExpGramConstants Proofs.ExpGramProofs.
Import ListNotations.
Local Close Scope Qc_scope.
Local Close Scope Q_scope.
Local Open Scope nat_scope.

(* T09.5: for each offered order p, with D = V - U and N = V + U the polynomials that the
   model's pade_D / pade_N compute from the SOURCE table (at the 1 x 1 matrix [[x]]):
   D(x) exp(x) = N(x) in every coefficient of degree <= 2p, and not in degree 2p+1
   (the rational approximant N/D of exp has order exactly 2p). *)
Theorem C09_pade_order :
  (forall p b, In (p, b) [(3, src_pade_3); (5, src_pade_5); (7, src_pade_7); (9, src_pade_9);
                          (13, src_pade_13)] ->
     let N := 2 * p + 2 in
     (forall k, k <= 2 * p ->
        pget (pmul N (pade_D_poly N p b) (exp_series N)) k = pget (pade_N_poly N p b) k)
     /\ pget (pmul N (pade_D_poly N p b) (exp_series N)) (2 * p + 1)
        <> pget (pade_N_poly N p b) (2 * p + 1)).
Proof. exact pade_order_all. Qed.

(* T09.6: with l_k(x) the k-th Legendre right-hand side that the model's loops build from
   the SOURCE table (at A = [[x]], B = [[1]]) and D = V - U:
     sum_k l_k(x) l_k(y) / norm_k = D(x) D(y) sum_{a,b} x^a y^b / (a! b! (a+b+1))
   in every coefficient x^a y^b of total degree a + b <= 2p - 1, and not in the coefficient
   y^(2p): the initial Gramian D^-1 (sum_k L_k L_k^T / norm_k) D^-T has order exactly 2p. *)
Theorem C09_legendre_gram_order :
  (forall p bP C norms,
     In (p, bP, C, norms)
        [(3, src_pade_3, src_legendre_3, src_legendre_norms_3);
         (5, src_pade_5, src_legendre_5, src_legendre_norms_5);
         (7, src_pade_7, src_legendre_7, src_legendre_norms_7);
         (9, src_pade_9, src_legendre_9, src_legendre_norms_9);
         (13, src_pade_13, src_legendre_13, src_legendre_norms_13)] ->
     let Ls := leg_polys (fun _ => true) (S p) p C in
     let D := pade_D_poly (S p) p bP in
     (forall a b, a + b <= 2 * p - 1 -> leg_lhs_of Ls norms p a b = leg_rhs_of D a b)
     /\ leg_lhs_of Ls norms p 0 (2 * p) <> leg_rhs_of D 0 (2 * p)).
Proof. exact legendre_gram_order_all. Qed.

(* ... and the order-5 loop without its `P = A2 @ P` (source before the repair of finding F2)
   violates the identity already in the coefficient y^2 *)
Theorem C09_legendre_order5_loop_without_advance_refuted :
  let Ls := leg_polys (fun _ => false) 6 5 src_legendre_5 in
  let D := pade_D_poly 6 5 src_pade_5 in
  leg_lhs_of Ls src_legendre_norms_5 5 0 2 <> leg_rhs_of D 0 2.
Proof. exact legendre_gram_order_5_without_advance_refuted. Qed.

(* the source's Legendre loops: each runs over k = 2 .. (p+1)/2 - 1 and advances P first *)
Theorem C09_source_legendre_loops :
  (src_legendre_advance_3 = true /\ src_legendre_loop_3 = seq 2 (half 3 - 2))
  /\ (src_legendre_advance_5 = true /\ src_legendre_loop_5 = seq 2 (half 5 - 2))
  /\ (src_legendre_advance_7 = true /\ src_legendre_loop_7 = seq 2 (half 7 - 2))
  /\ (src_legendre_advance_9 = true /\ src_legendre_loop_9 = seq 2 (half 9 - 2))
  /\ (src_legendre_advance_13 = true /\ src_legendre_loop_13 = seq 2 (half 13 - 2)).
Proof. exact source_legendre_loops. Qed.

(* T09.4: the Gram matrix of the factor returned by Kahan's recurrence
   (sum_i U[i][j] U[i][j'] odds[i] / (f[j] f[j'])) is the shifted Hilbert matrix
   1/(i+j+K+1), for K <= 3 and n <= 11 *)
Theorem C09_kahan_hilbert_gram :
  forall K n, K <= 3 -> n <= 11 ->
  forall i j, i < n -> j < n ->
    mget (@kahan_gram Qc _ K n) i j = mget (@hilbert Qc _ K n) i j.
Proof. exact kahan_hilbert_gram. Qed.

(* ... and after the row flip of system_matrices_1d_iwp it is the flipped Hilbert matrix
   used by the integrated Wiener transition (Model/Prior.v), for q <= 10 *)
Theorem C09_kahan_flip_is_hilbert_flip :
  forall q, q <= 10 ->
  forall i j, i < S q -> j < S q ->
    mget (@kahan_gram_flip Qc _ q) i j = mget (@hilbert_flip Qc _ q) i j.
Proof. exact kahan_flip_is_hilbert_flip. Qed.

Section C09b.
  Context {F : Type} `{FL : FieldLaws F}.

  (* T09.7: num doubling steps map the exact pair (Phi, G) at step 2^k h to the exact pair
     at step 2^(num+k) h, for any family obeying the semigroup laws
     Phi(2t) = Phi(t) Phi(t),  G(2t) = G(t) + Phi(t) G(t) Phi(t)^T *)
  Theorem C09_doubling_exact :
    forall n (Ph Gm : nat -> @mat F),
      (forall k, Ph (S k) = mmul n n n (Ph k) (Ph k)) ->
      (forall k, Gm (S k) = madd n n (Gm k) (sandwich n n (Ph k) (Gm k))) ->
      forall num k, iter num (eg_double n) (Ph k, Gm k) = (Ph (num + k), Gm (num + k)).
  Proof. exact doubling_exact. Qed.

  (* the square-root form of one doubling: stacking (U, Phi U) and re-triangularising by any
     R with R^T R = stack stack^T (the QR contract) gives a factor whose Gram matrix is
     Gamma + Phi Gamma Phi^T, Gamma = U U^T -- the second component of the model's step *)
  Theorem C09_doubling_sqrt_form :
    forall n r (Phi U R : @mat F),
      mmul n r n (mtr r n R) R
        = mmul n (n + n) n (dbl_stack n Phi U) (mtr n (n + n) (dbl_stack n Phi U)) ->
      mmul n r n (mtr r n R) (mtr n r (mtr r n R))
        = snd (eg_double n (Phi, mmul n n n U (mtr n n U))).
  Proof. exact doubling_sqrt_form. Qed.

  (* T09.8: the bottom blocks that prior_exponential_diffuse obtains by jacfwd from the OU and
     Matern `autonomous` maps are the documented ones, for every q and d *)
  Theorem C09_ou_bottom_block :
    forall q d (Lop : @mat F),
      jac_of q d (ou_autonomous d Lop)
      = mk d (S q * d) (fun r c => if Nat.eqb (c / d) q then mget Lop r (c mod d) else f0).
  Proof. exact ou_bottom_block. Qed.

  Theorem C09_matern_bottom_block :
    forall q d (z : F),
      jac_of q d (matern_autonomous d z)
      = mk d (S q * d) (fun r c =>
          if Nat.eqb (c mod d) r
          then fopp (fmul (fcomb (S q) (c / d)) (fpow z (S q - c / d))) else f0).
  Proof. exact matern_bottom_block. Qed.
  (* the model applies the factor 1/2^num to the initial Gramian where the code divides B by
     sqrt(2^num) before the initialiser: for any s with s^2 = 1/2^num the two coincide
     (the Legendre right-hand sides are linear in B), so no square root enters the model *)
  Theorem C09_exp_gram_scaling_of_B :
    forall n mB (T : @pl_table F) num (A B : @mat F) (s : F),
      fmul s s = finv (fpow (fadd f1 f1) num) ->
      exp_gram n mB T num A B
      = match pl_init n mB T (mscale n n (finv (fpow (fadd f1 f1) num)) A) (mscale n mB s B) with
        | None => None
        | Some PG => Some (iter num (eg_double n) PG)
        end.
  Proof. exact exp_gram_scaling_of_B. Qed.

  (* the order-3 function's hand-written blocks are the generic loop's blocks when C[1,3] = 0,
     and the order-13 function's grouped Pade polynomials are the generic ones *)
  Theorem C09_order3_blocks_are_generic :
    forall n mB (C A B : @mat F),
      mget C 1 3 = f0 -> leg_blocks n mB 3 C A B = leg_blocks3 n mB C A B.
  Proof. exact leg_blocks3_is_generic. Qed.

  Theorem C09_order13_pade_is_generic :
    forall n (b : list F) (A : @mat F),
      pade13_V n b A = pade_V n 13 b A /\ pade13_U n b A = pade_U n 13 b A.
  Proof. exact pade13_is_generic. Qed.
End C09b.

Print Assumptions C09_pade_order.
Print Assumptions C09_legendre_gram_order.
Print Assumptions C09_legendre_order5_loop_without_advance_refuted.
Print Assumptions C09_source_legendre_loops.
Print Assumptions C09_kahan_hilbert_gram.
Print Assumptions C09_kahan_flip_is_hilbert_flip.
Print Assumptions C09_doubling_exact.
Print Assumptions C09_doubling_sqrt_form.
Print Assumptions C09_ou_bottom_block.
Print Assumptions C09_matern_bottom_block.
Print Assumptions C09_exp_gram_scaling_of_B.
Print Assumptions C09_order3_blocks_are_generic.
Print Assumptions C09_order13_pade_is_generic.
