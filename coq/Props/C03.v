(* C03 -- the smoothing posterior equals the exact Rauch-Tung-Striebel posterior.
   Smoothers store, per step, the backward conditional produced by
   transition.revert (Model/Gauss.c_revert); marginals are obtained by pushing
   the terminal marginal backwards through these conditionals; the fixed-point
   smoother merges consecutive backward conditionals. *)
From Coq Require Import List Arith.
From PD Require Import Base.Field Base.Matrix Base.Solve Model.Gauss Spec.RTS
  Proofs.GaussProofs Proofs.FilterProofs Proofs.SmootherSpec.
Import ListNotations.

Section C03.
  Context {F : Type} `{FL : FieldLaws F}.

  (* the plain-form gain of the stored backward conditional satisfies the RTS
     gain equation  G Cov(prediction) = (A_plain Cov(filter))^T, for arbitrary
     non-zero preconditioner scalings *)
  Theorem C03_backward_kernel_gain_equation :
    forall n c (K : @cond F) (filt obs : @normal F) bw,
      (forall i, i < n -> vget (c_tl K) i <> f0) ->
      (forall i, i < n -> vget (c_to K) i <> f0) ->
      c_revert minv n n c K filt = Some (obs, bw) ->
      forall i j, i < n -> j < n ->
      mget (mmul n n n (c_A (c_plain n n c bw)) (n_cov obs)) i j
      = mget (mtr n n (mmul n n n (c_A (c_plain n n c K)) (n_cov filt))) i j.
  Proof. exact backward_kernel_gain_equation. Qed.

  (* marginalising the stored backward conditional through ANY next marginal is
     the RTS update  m + G (m_s - m_pred),  P + G (P_s - P_pred) G^T *)
  Theorem C03_backward_kernel_is_rts :
    forall n c (K : @cond F) (filt obs : @normal F) bw,
      (forall i, i < n -> vget (c_tl K) i <> f0) ->
      (forall i, i < n -> vget (c_to K) i <> f0) ->
      c_revert minv n n c K filt = Some (obs, bw) ->
      forall sm,
        c_marg n n c bw sm = rts_with_gain n c (c_A (c_plain n n c bw)) filt obs sm.
  Proof. exact backward_kernel_is_rts. Qed.

  (* fixed-point smoothing: the merged backward conditional acts as the
     composition of the individual backward steps, so fixed-point marginals at
     checkpoints coincide with iterated fixed-interval backward marginalisation *)
  Theorem C03_fixedpoint_merge_is_composition :
    forall n c (bw0 bw1 : @cond F) (rv : @normal F),
      c_marg n n c (c_merge n n n c bw0 bw1) rv
      = c_marg n n c bw0 (c_marg n n c bw1 rv).
  Proof. intros. apply c_merge_is_composition. Qed.

  (* when the last step ends exactly at the final time the backward model is the
     identity and the final marginal IS the filtering marginal *)
  Theorem C03_terminal_marginal_is_filtering :
    forall n c (rv : @normal F),
      c_marg n n c (identity_conditional n c) rv
      = mkN (canon n c (n_mean rv)) (canon n n (n_cov rv)).
  Proof. exact c_marg_identity. Qed.

  (* the same marginalisation IS the Rauch-Tung-Striebel step of the independent
     specification (Spec/RTS.v: gain P_f A^T (A P_f A^T + Q)^-1 through the
     certified inverse), for any symmetric filtering covariance *)
  Theorem C03_backward_kernel_is_spec_rts_step :
    forall n c (K : @cond F) (filt obs : @normal F) bw Pi,
      (forall i, i < n -> vget (c_tl K) i <> f0) ->
      (forall i, i < n -> vget (c_to K) i <> f0) ->
      symmetric n (n_cov filt) ->
      c_revert minv n n c K filt = Some (obs, bw) ->
      minv n (n_cov obs) = Some Pi ->
      forall sm,
        let P := c_plain n n c K in
        rts_step minv n c (c_A P) (c_b P) (c_Q P) filt sm = Some (c_marg n n c bw sm).
  Proof. exact backward_kernel_is_spec_rts_step. Qed.

  (* ... and therefore THE WHOLE BACKWARD PASS: for any number of steps, if bw_k
     is the reversal of transition K_k with respect to the filtering marginal
     f_(k-1) (what the smoother's predict stores), then marginalising the stored
     conditionals from the terminal marginal down to t0 yields exactly
     Spec.rts_pass on the filtering marginals and the plain transitions *)
  Theorem C03_backward_pass_is_spec_rts_pass :
    forall n c (filts : list (@normal F)) (Ks bws : list (@cond F)),
      smoother_run n c filts Ks bws ->
      rts_pass minv n c filts (map (c_plain n n c) Ks)
      = Some (bw_chain n c bws (last filts (mkN [] []))).
  Proof. exact backward_pass_is_spec_rts_pass. Qed.
End C03.

Print Assumptions C03_backward_kernel_gain_equation.
Print Assumptions C03_backward_kernel_is_rts.
Print Assumptions C03_fixedpoint_merge_is_composition.
Print Assumptions C03_terminal_marginal_is_filtering.
Print Assumptions C03_backward_kernel_is_spec_rts_step.
Print Assumptions C03_backward_pass_is_spec_rts_pass.
