(* C03 placeholder during construction *)
From PD Require Import Base.Field Base.Matrix.
Theorem C03_mmul_id_l :
  forall (F : Type) (H : FieldOps F) (FL : FieldLaws F) n m (A : @mat F),
    mmul n n m (mid n) A = canon n m A.
Proof. intros. apply mmul_id_l. Qed.
Print Assumptions C03_mmul_id_l.
