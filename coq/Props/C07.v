(* C07 placeholder during construction *)
From PD Require Import Base.Field Base.Matrix.
Theorem C07_mmul_id_r :
  forall (F : Type) (H : FieldOps F) (FL : FieldLaws F) n m (A : @mat F),
    mmul n m m A (mid m) = canon n m A.
Proof. intros. apply mmul_id_r. Qed.
Print Assumptions C07_mmul_id_r.
