(* C07 -- the acceptance quantity equals the documented local error estimate. *)
From Coq Require Import List Arith Reals.
From PD Require Import Base.Field Base.Matrix Base.Solve Model.Gauss Model.Poly Model.Prior Model.Solver Model.Error
  Proofs.ErrorProofs Proofs.CalibProofs.
Import ListNotations.

(* The number compared with one is norm ** (-1/rate) = (norm^2) ** (-1/(2 rate)):
   accepting (>= 1) is exactly norm^2 <= 1.  (Real numbers: depends on the
   standard-library real-number axioms.) *)
Theorem C07_accept_iff_norm_le_one :
  forall x rate : R, (0 < x)%R -> (0 < rate)%R ->
    ((1 <= Rpower x (- 1 / (2 * rate)))%R <-> (x <= 1)%R).
Proof. exact accept_iff_norm_le_1. Qed.

Section C07.
  Context {F : Type} `{FL : FieldLaws F}.

  (* the estimate is computed from the previous MEAN only (any two previous
     states with equal means give the same estimate, whatever their covariances) *)
  Theorem C07_estimate_uses_previous_mean_only :
    forall inv (cf : @config F) est (u1 u2 : list (@normal F)) t dt,
      map n_mean u1 = map n_mean u2 ->
      error_sq_components inv cf est u1 t dt = error_sq_components inv cf est u2 t dt.
  Proof. exact error_estimate_uses_previous_mean_only. Qed.

  (* base-scale invariance, the two facts it rests on: the local calibration
     (whitened rms^2) divides by c when all covariances are multiplied by c ... *)
  Theorem C07_local_calibration_divides_by_scale :
    forall n cc c (rv : @normal F) (u : @mat F) x x',
      c <> f0 ->
      whitened_rms2 minv n cc rv u = Some x ->
      whitened_rms2 minv n cc (mkN (n_mean rv) (mscale n n c (n_cov rv))) u = Some x' ->
      x' = fdiv x c.
  Proof. exact whitened_rms2_scale. Qed.
End C07.

Print Assumptions C07_accept_iff_norm_le_one.
Print Assumptions C07_estimate_uses_previous_mean_only.
Print Assumptions C07_local_calibration_divides_by_scale.
