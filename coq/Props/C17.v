(* C17 -- Jacobian handlers return exact or exactly-unbiased Jacobian blocks.

   Statements only; every theorem is closed by [exact <lemma>] (lemmas in
   Proofs/JacobiansProofs.v) and followed by Print Assumptions.  The model is
   Model/Jacobians.v, a transcription of probdiffeq/_probdiffeq/jacobians.py
   over an arbitrary field F of characteristic 0 (FieldLaws).  jvp / vjp are
   the exact linear maps of the Jacobian tensor (JAX AD is trusted), the PRNG
   (split, rademacher) is an arbitrary oracle.  No size is bounded. *)
From Coq Require Import List Arith Bool Permutation.
From PD Require Import Base.Field Base.Matrix Model.Jacobians Proofs.JacobiansProofs.
Import ListNotations.
Local Open Scope F_scope.

(* T17.0  [signs N] (defined by recursion on N) is exactly the set {+1,-1}^N:
   it has 2^N elements, no repetitions, and contains precisely the vectors of
   length N with entries +1 or -1.  Any N. *)
Theorem C17_sign_vectors_enumerate_the_cube :
  forall (F : Type) (H : FieldOps F) (FL : FieldLaws F) (N : nat),
    length (@signs F H N) = (2 ^ N)%nat /\ NoDup (@signs F H N) /\
    (forall s : list F, In s (signs N) <->
       length s = N /\
       forall i, (i < N)%nat -> vget s i = 1 \/ vget s i = - (1)).
Proof. exact P_sign_vectors_enumerate_the_cube. Qed.

(* T17.1  For all N and all i, k < N:
       sum over all v in {+1,-1}^N of v_i * v_k  =  2^N * delta_ik,
   and (characteristic 0, so 2^N <> 0) the average is delta_ik. *)
Theorem C17_sign_vectors_are_orthogonal :
  forall (F : Type) (H : FieldOps F) (FL : FieldLaws F) (N i k : nat),
    (i < N)%nat -> (k < N)%nat ->
    lsum (map (fun s : list F => vget s i * vget s k) (signs N))
      = fnat (2 ^ N) * (if Nat.eqb i k then 1 else 0) /\
    mean_list (map (fun s : list F => vget s i * vget s k) (signs N))
      = (if Nat.eqb i k then 1 else 0).
Proof. exact P_sign_vectors_are_orthogonal. Qed.

(* T17.4  The materialising handler.  J o a i b = d f[o][a] / d x[i][b] is ANY
   tensor.  The three calls return the function value fx unchanged, the state
   unchanged, and
     dense    : the (n_out, d, n_in, d) array with entries J o a i b,
     trace    : the (n_out, n_in) array  sum_c J o c i c,
     diagonal : the (d, n_out, n_in) array J o a i a,
   and the trace block is the sum over dimensions of the diagonal blocks. *)
Theorem C17_materialising_handler_returns_exact_blocks :
  forall (F : Type) (H : FieldOps F) (FL : FieldLaws F) (K : Type)
         (n_in n_out d : nat) (fx : @mat F) (J : @jac F) (state : K),
    materialize_call K n_in n_out d fx J state
      = (fx, materialize_dense n_in n_out d J, state) /\
    mat_trace_call K n_in n_out d fx J state = (fx, mat_trace n_in n_out d J, state) /\
    mat_diagonal_call K n_in n_out d fx J state = (fx, mat_diagonal n_in n_out d J, state) /\
    forall o a i b, (o < n_out)%nat -> (a < d)%nat -> (i < n_in)%nat -> (b < d)%nat ->
      t4get (materialize_dense n_in n_out d J) o a i b = J o a i b /\
      mget (mat_trace n_in n_out d J) o i = vsum d (fun c => J o c i c) /\
      t3get (mat_diagonal n_in n_out d J) a o i = J o a i a /\
      mget (mat_trace n_in n_out d J) o i
        = vsum d (fun c => t3get (mat_diagonal n_in n_out d J) c o i).
Proof. exact P_materialising_handler_returns_exact_blocks. Qed.

(* T17.2  Forward mode (probes of shape (n_in, d); estimator contracts v with
   jvp(v)).  For ANY Jacobian tensor and ANY n_in, n_out, d the average of the
   single-probe estimators over ALL 2^(n_in*d) sign tensors equals the blocks of
   the materialising handler exactly (same layouts (n_out,n_in), (d,n_out,n_in)).
   [all_probes n d] = all sign vectors of length n*d read row-major as (n,d). *)
Theorem C17_forward_estimators_average_to_exact_blocks :
  forall (F : Type) (H : FieldOps F) (FL : FieldLaws F)
         (n_in n_out d : nat) (J : @jac F),
    mc_fwd_trace n_in n_out d J (all_probes n_in d) = mat_trace n_in n_out d J /\
    mc_fwd_diag n_in n_out d J (all_probes n_in d) = mat_diagonal n_in n_out d J.
Proof. exact P_forward_estimators_average_to_exact_blocks. Qed.

(* T17.3  Reverse mode (probes of shape (n_out, d); estimator contracts vjp(w)
   with w): same statement, enumeration over the 2^(n_out*d) sign tensors. *)
Theorem C17_reverse_estimators_average_to_exact_blocks :
  forall (F : Type) (H : FieldOps F) (FL : FieldLaws F)
         (n_in n_out d : nat) (J : @jac F),
    mc_rev_trace n_in n_out d J (all_probes n_out d) = mat_trace n_in n_out d J /\
    mc_rev_diag n_in n_out d J (all_probes n_out d) = mat_diagonal n_in n_out d J.
Proof. exact P_reverse_estimators_average_to_exact_blocks. Qed.

(* T17.2/3 at the level of the handler calls, for any key type, any [split] and
   any probe generator: if the generator returns every sign tensor of the
   requested shape exactly once, IN ANY ORDER, the call returns
   (fx, exact block, first half of split(key)). *)
Theorem C17_stochastic_handlers_exact_under_full_enumeration :
  forall (F : Type) (H : FieldOps F) (FL : FieldLaws F) (K : Type)
         (split : K -> K * K) (rademacher : K -> nat -> nat -> nat -> list (@mat F))
         (num n_in n_out d : nat) (fx : @mat F) (J : @jac F) (key : K),
    (Permutation (rademacher (snd (split key)) num n_in d) (all_probes n_in d) ->
       mc_fwd_trace_call K split rademacher num n_in n_out d fx J key
         = (fx, mat_trace n_in n_out d J, fst (split key)) /\
       mc_fwd_diag_call K split rademacher num n_in n_out d fx J key
         = (fx, mat_diagonal n_in n_out d J, fst (split key))) /\
    (Permutation (rademacher (snd (split key)) num n_out d) (all_probes n_out d) ->
       mc_rev_trace_call K split rademacher num n_in n_out d fx J key
         = (fx, mat_trace n_in n_out d J, fst (split key)) /\
       mc_rev_diag_call K split rademacher num n_in n_out d fx J key
         = (fx, mat_diagonal n_in n_out d J, fst (split key))).
Proof. exact P_stochastic_handlers_exact_under_full_enumeration. Qed.

(* T17.6  For ANY probes: the function value is passed through untouched, the
   returned state is the first half of split(key), and hence differs from the
   incoming key whenever split never returns its argument. *)
Theorem C17_stochastic_handlers_pass_value_and_advance_key :
  forall (F : Type) (H : FieldOps F) (FL : FieldLaws F) (K : Type)
         (split : K -> K * K) (rademacher : K -> nat -> nat -> nat -> list (@mat F))
         (num n_in n_out d : nat) (fx : @mat F) (J : @jac F) (key : K),
    let r1 := mc_fwd_trace_call K split rademacher num n_in n_out d fx J key in
    let r2 := mc_fwd_diag_call K split rademacher num n_in n_out d fx J key in
    let r3 := mc_rev_trace_call K split rademacher num n_in n_out d fx J key in
    let r4 := mc_rev_diag_call K split rademacher num n_in n_out d fx J key in
    (fst (fst r1) = fx /\ fst (fst r2) = fx /\ fst (fst r3) = fx /\ fst (fst r4) = fx) /\
    (snd r1 = fst (split key) /\ snd r2 = fst (split key) /\
     snd r3 = fst (split key) /\ snd r4 = fst (split key)) /\
    ((forall k, fst (split k) <> k) ->
     snd r1 <> key /\ snd r2 <> key /\ snd r3 <> key /\ snd r4 <> key).
Proof. exact P_stochastic_handlers_pass_value_and_advance_key. Qed.

(* T17.5  _verify_fun_and_x accepts (returning n_in, n_out, d) iff x and f(x) are
   both arrays of rank 2 with shapes (n_in, d) and (n_out, d). *)
Theorem C17_validator_accepts_iff_two_2d_arrays_with_equal_trailing_dim :
  forall (x fx : arg_view) (n_in n_out d : nat),
    verify_fun_and_x x fx = Accept n_in n_out d <->
    av_is_array x = true /\ av_is_array fx = true /\
    av_shape x = [n_in; d] /\ av_shape fx = [n_out; d].
Proof. exact P_validator_accepts_iff_two_2d_arrays_with_equal_trailing_dim. Qed.

(* T17.5'  otherwise it raises: TypeError iff one of them is not an array;
   ValueError iff both are arrays and a rank is not 2 or the trailing
   dimensions differ. *)
Theorem C17_validator_rejects_everything_else :
  forall (x fx : arg_view),
    (verify_fun_and_x x fx = RejectType <->
       av_is_array x = false \/ av_is_array fx = false) /\
    (verify_fun_and_x x fx = RejectValue <->
       av_is_array x = true /\ av_is_array fx = true /\
       (length (av_shape x) <> 2 \/ length (av_shape fx) <> 2 \/
        nth 1 (av_shape x) 0 <> nth 1 (av_shape fx) 0))%nat.
Proof. exact P_validator_rejects_everything_else. Qed.

Print Assumptions C17_sign_vectors_enumerate_the_cube.
Print Assumptions C17_sign_vectors_are_orthogonal.
Print Assumptions C17_materialising_handler_returns_exact_blocks.
Print Assumptions C17_forward_estimators_average_to_exact_blocks.
Print Assumptions C17_reverse_estimators_average_to_exact_blocks.
Print Assumptions C17_stochastic_handlers_exact_under_full_enumeration.
Print Assumptions C17_stochastic_handlers_pass_value_and_advance_key.
Print Assumptions C17_validator_accepts_iff_two_2d_arrays_with_equal_trailing_dim.
Print Assumptions C17_validator_rejects_everything_else.
