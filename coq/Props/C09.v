(* C09 -- prior transitions are the exact discretisation of their SDE and compose. *)
From Coq Require Import List Arith.
From PD Require Import Base.Field Base.Matrix Base.Solve Model.Gauss Model.Prior
  Proofs.GaussProofs Proofs.PriorProofs.
Import ListNotations.

Section C09.
  Context {F : Type} `{FL : FieldLaws F}.

  (* for every number of derivatives q and every step dt <> 0, removing the
     Taylor preconditioner from (flipped Pascal, dt * flipped Hilbert) yields
     A(h)_ij = h^(j-i)/(j-i)!  (upper triangular) *)
  Theorem C09_iwp_transition_matrix_closed_form :
    forall q c (dt s2 : F), dt <> f0 ->
      c_A (c_plain (S q) (S q) c (iwp_transition_1d q c dt s2)) = iwp_A_closed q dt.
  Proof. exact iwp_plain_A_closed_form. Qed.

  (* ... and Q(h)_ij = s2 h^(2q+1-i-j) / ((2q+1-i-j)(q-i)!(q-j)!) *)
  Theorem C09_iwp_process_noise_closed_form :
    forall q c (dt s2 : F),
      c_Q (c_plain (S q) (S q) c (iwp_transition_1d q c dt s2)) = iwp_Q_closed q dt s2.
  Proof. exact iwp_plain_Q_closed_form. Qed.

  Theorem C09_iwp_offset_is_zero :
    forall q c (dt s2 : F) i a, i < S q -> a < c ->
      mget (c_b (c_plain (S q) (S q) c (iwp_transition_1d q c dt s2))) i a = f0.
  Proof. exact iwp_plain_offset_zero. Qed.

  (* process noise scales linearly with the squared (calibrated x base) scale *)
  Theorem C09_process_noise_linear_in_scale :
    forall q (h a s2 : F),
      iwp_Q_closed q h (fmul a s2) = mscale (S q) (S q) a (iwp_Q_closed q h s2).
  Proof. exact iwp_Q_linear_in_scale. Qed.

  (* transitions compose as conditionals compose (Chapman-Kolmogorov structure):
     marginalising through merge(T2, T1) = through T1 then T2 *)
  Theorem C09_transitions_compose_as_conditionals :
    forall q c (h1 h2 s2 : F) (rv : @normal F),
      c_marg (S q) (S q) c
        (c_merge (S q) (S q) (S q) c (iwp_transition_1d q c h2 s2) (iwp_transition_1d q c h1 s2)) rv
      = c_marg (S q) (S q) c (iwp_transition_1d q c h2 s2)
          (c_marg (S q) (S q) c (iwp_transition_1d q c h1 s2) rv).
  Proof. intros. apply c_merge_is_composition. Qed.

  (* the closed-form transition matrices form a semigroup, for EVERY q and all
     h1, h2 (binomial theorem in divided-power form): stepping h1 then h2 moves the
     mean exactly like stepping h1 + h2 *)
  Theorem C09_transition_matrix_semigroup :
    forall q (h1 h2 : F),
      mmul (S q) (S q) (S q) (iwp_A_closed q h2) (iwp_A_closed q h1) = iwp_A_closed q (fadd h1 h2).
  Proof. exact iwp_A_semigroup. Qed.
End C09.

Print Assumptions C09_iwp_transition_matrix_closed_form.
Print Assumptions C09_iwp_process_noise_closed_form.
Print Assumptions C09_iwp_offset_is_zero.
Print Assumptions C09_process_noise_linear_in_scale.
Print Assumptions C09_transitions_compose_as_conditionals.
Print Assumptions C09_transition_matrix_semigroup.
