(* C14 -- State-space factorisations agree wherever theory says they must.

   The dense model stores a state with n = q+1 Taylor coefficients of a
   d-dimensional problem as a vector of length n*d in coefficient-major order
   (index i*d + a); the isotropic model stores the n x d matrix of means and ONE
   n x n covariance shared by all dimensions; the block-diagonal model stores d
   blocks.  The theorems below say that the dense model is the Kronecker
   embedding  A |-> A (x) I_d  (Base/Matrix.v: kronI) of the isotropic one:
     means       : ravel   (n x d matrix  |->  column of length n*d)
     covariances : kronI
     conditionals: embed_cond (A, Q: kronI; offset: ravel; preconditioners repeated)
   and that every operation of Model/Gauss.v used by prediction commutes with
   the embedding.  All statements hold over an arbitrary field, for all sizes
   n, k, m, d (d = 0 included: everything is empty) and all matrices.

   C14_dense_ts0_filter_step_is_embedded_isotropic_step assembles them into one
   complete solver step (prediction, TS0 linearisation of an ARBITRARY
   polynomial vector field, correction) of the uncalibrated filter.

   Not proved here (covered by the correspondence harness harness/c14.py on
   the real implementation only): the multi-step statement for the smoothers,
   the MLE / dynamic calibration of dense vs isotropic, the TS1 cases
   (decoupled problems, scalar Jacobians) and adaptive step selection.  The
   building blocks for the smoothers (reversal and merge commute with the
   embedding) and for the block-diagonal MLE scale (T14.d) are proved. *)
From Coq Require Import List Arith.
From PD Require Import Base.Field Base.Matrix Base.Solve Model.Gauss Model.Poly Model.Prior Model.Solver
  Proofs.GaussProofs Proofs.EmbedProofs.
Import ListNotations.

Section C14.
  Context {F : Type} `{FL : FieldLaws F}.

  (* ---- T14.a: the Kronecker embedding is a homomorphism ---- *)
  Theorem C14_kronecker_embedding_of_products :
    forall n k m d (A B : @mat F),
      mmul (n * d) (k * d) (m * d) (kronI n k d A) (kronI k m d B)
      = kronI n m d (mmul n k m A B).
  Proof. exact kronI_mmul. Qed.

  Theorem C14_kronecker_embedding_of_transposes :
    forall n m d (A : @mat F),
      mtr (n * d) (m * d) (kronI n m d A) = kronI m n d (mtr n m A).
  Proof. exact kronI_mtr. Qed.

  Theorem C14_kronecker_embedding_of_sums :
    forall n m d (A B : @mat F),
      madd (n * d) (m * d) (kronI n m d A) (kronI n m d B) = kronI n m d (madd n m A B).
  Proof. exact kronI_madd. Qed.

  Theorem C14_kronecker_embedding_of_differences :
    forall n m d (A B : @mat F),
      msub (n * d) (m * d) (kronI n m d A) (kronI n m d B) = kronI n m d (msub n m A B).
  Proof. exact kronI_msub. Qed.

  Theorem C14_kronecker_embedding_of_scalings :
    forall n m d (c : F) (A : @mat F),
      mscale (n * d) (m * d) c (kronI n m d A) = kronI n m d (mscale n m c A).
  Proof. exact kronI_mscale. Qed.

  Theorem C14_kronecker_embedding_of_identity :
    forall n d, kronI n n d (@mid F _ n) = mid (n * d).
  Proof. exact kronI_mid. Qed.

  Theorem C14_kronecker_embedding_of_sandwich :
    forall n m d (A P : @mat F),
      sandwich (n * d) (m * d) (kronI n m d A) (kronI m m d P)
      = kronI n n d (sandwich n m A P).
  Proof. exact kronI_sandwich. Qed.

  (* ---- T14.b: the dense IWP transition is the embedded 1-d transition when
     all base scales are equal (the isotropic prior uses base^2 * output^2) ---- *)
  Theorem C14_dense_transition_is_embedded_isotropic_transition :
    forall q d (base2 : @vec F) (s dt out2 : F),
      (forall a, a < d -> vget base2 a = s) ->
      iwp_transition_dense q d base2 dt out2
      = embed_cond (S q) (S q) d (iwp_transition_1d q d dt (fmul s out2)).
  Proof. exact iwp_transition_dense_is_embedding. Qed.

  (* the dense TS0 observation matrix selects derivative k of every dimension:
     it is the embedding of the 1 x (q+1) selector of the isotropic model *)
  Theorem C14_dense_ts0_observation_is_embedded_selector :
    forall q d k,
      mk (1 * d) (S q * d) (fun r col => (delta (k * d + r) col : F))
      = kronI 1 (S q) d (mk 1 (S q) (fun _ col => delta k col)).
  Proof. exact ts0_selector_is_embedding. Qed.

  (* ---- T14.c: the embedding commutes with marginalisation (prediction),
     application to a point, and merging of conditionals ---- *)
  Theorem C14_embedding_commutes_with_marginalisation :
    forall nin nout d (K : @cond F) (rv : @normal F),
      c_marg (nin * d) (nout * d) 1 (embed_cond nin nout d K) (embed_normal nin d rv)
      = embed_normal nout d (c_marg nin nout d K rv).
  Proof. exact c_marg_embed. Qed.

  Theorem C14_embedding_commutes_with_application :
    forall nin nout d (K : @cond F) (x : @mat F),
      c_apply (nin * d) (nout * d) 1 (embed_cond nin nout d K) (ravel nin d x)
      = embed_normal nout d (c_apply nin nout d K x).
  Proof. exact c_apply_embed. Qed.

  Theorem C14_embedding_commutes_with_merge :
    forall nin nmid nout d (K1 K2 : @cond F),
      c_merge (nin * d) (nmid * d) (nout * d) 1
              (embed_cond nmid nout d K1) (embed_cond nin nmid d K2)
      = embed_cond nin nout d (c_merge nin nmid nout d K1 K2).
  Proof. exact c_merge_embed. Qed.

  (* the certified inverse of an embedded matrix is the embedded inverse ... *)
  Theorem C14_inverse_of_embedding :
    forall n d (Sm Si X : @mat F),
      minv n Sm = Some Si ->
      minv (n * d) (kronI n n d Sm) = Some X ->
      X = kronI n n d Si.
  Proof. exact minv_kronI. Qed.

  (* ... hence reversal (the correction step / the smoother's backward
     kernel) of an embedded conditional is the embedded reversal, whenever both
     certified inverses exist *)
  Theorem C14_revert_embeds :
    forall nin nout d (K : @cond F) (rv obs : @normal F) (bw : @cond F)
           (obsD : @normal F) (bwD : @cond F),
      c_revert minv nin nout d K rv = Some (obs, bw) ->
      c_revert minv (nin * d) (nout * d) 1 (embed_cond nin nout d K) (embed_normal nin d rv)
      = Some (obsD, bwD) ->
      obsD = embed_normal nout d obs /\ bwD = embed_cond nout nin d bw.
  Proof. exact c_revert_embed. Qed.

  (* the correction step: observed marginal and corrected state embed *)
  Theorem C14_correction_embeds :
    forall nin nout d (K : @cond F) (data : @mat F) (rv obs upd obsD updD : @normal F),
      bayes_rule minv nin nout d K data rv = Some (obs, upd) ->
      bayes_rule minv (nin * d) (nout * d) 1 (embed_cond nin nout d K) (ravel nout d data)
                 (embed_normal nin d rv) = Some (obsD, updD) ->
      obsD = embed_normal nout d obs /\ updD = embed_normal nin d upd.
  Proof. exact bayes_rule_embed. Qed.

  (* ---- T14.e: a whole step.  TS0 linearisation of an arbitrary polynomial
     vector field of order k <= q+1 at an embedded state is the embedded
     isotropic linearisation ... ---- *)
  Theorem C14_dense_ts0_linearisation_is_embedded_isotropic_linearisation :
    forall q d (o : @odeP F) (damp2 : F) (rv : @normal F) (t : F),
      ode_k o <= S q ->
      linearize (mkShape Dense q d) o TS0 damp2 [embed_normal (S q) d rv] t
      = map (embed_cond (S q) 1 d) (linearize (mkShape Iso q d) o TS0 damp2 [rv] t).
  Proof. exact linearize_ts0_embed. Qed.

  (* ... the solver step of the uncalibrated filter with TS0 is prediction,
     linearisation at the predicted mean, correction ... *)
  Theorem C14_solver_step_is_ts0_filter_step :
    forall (cf : @config F) (st : @sstate F) (dt : F),
      cf_calib cf = CalNone -> cf_strat cf = Filter -> cf_lin cf = TS0 ->
      option_map (fun s' => st_u s') (solver_step minv cf st dt)
      = option_map snd (ts0_filter_step (cf_shape cf) (cf_ode cf) (cf_damp2 cf) (cf_base2 cf) dt
                                        (fadd (st_t st) dt) (p_marg (st_post st))).
  Proof. exact solver_step_is_ts0_filter_step. Qed.

  (* ... and the dense step from an embedded state returns the embedding of the
     isotropic step (observed marginal and new state), for every nonlinear
     polynomial field, every q, d, dt, damping and common base scale, whenever
     both steps exist *)
  Theorem C14_dense_ts0_filter_step_is_embedded_isotropic_step :
    forall q d (o : @odeP F) (damp2 : F) (base2D base2I : @vec F) (dt t' : F) (rv : @normal F)
           (obs upd obsD updD : @fnormal F),
      ode_k o <= S q ->
      (forall a, a < d -> vget base2D a = vget base2I 0) ->
      ts0_filter_step (mkShape Iso q d) o damp2 base2I dt t' [rv] = Some (obs, upd) ->
      ts0_filter_step (mkShape Dense q d) o damp2 base2D dt t' [embed_normal (S q) d rv]
      = Some (obsD, updD) ->
      obsD = map (embed_normal 1 d) obs /\ updD = map (embed_normal (S q) d) upd.
  Proof. exact dense_ts0_filter_step_is_embedded_isotropic_step. Qed.

  (* ---- T14.d: the block-diagonal MLE scale is the per-dimension split of the
     same residual energy: if the dense innovation covariance is diagonal with
     the blocks' variances on the diagonal and the residuals coincide, then the
     dense squared whitened RMS is the mean of the blocks' squared whitened RMS
     (dense_scale^2 = mean_a blockdiag_scale_a^2) ---- *)
  Theorem C14_blockdiag_mle_scale_is_split_of_dense_residual_energy :
    forall d (rvD : @normal F) (uD : @mat F)
           (rvB : nat -> @normal F) (uB : nat -> @mat F) (rho : F) (rhob : nat -> F),
      d <> 0 ->
      (forall a b, a < d -> b < d ->
         mget (n_cov rvD) a b = if Nat.eqb a b then mget (n_cov (rvB a)) 0 0 else f0) ->
      (forall a, a < d ->
         fsub (mget uD a 0) (mget (n_mean rvD) a 0)
         = fsub (mget (uB a) 0 0) (mget (n_mean (rvB a)) 0 0)) ->
      whitened_rms2 minv d 1 rvD uD = Some rho ->
      (forall a, a < d -> whitened_rms2 minv 1 1 (rvB a) (uB a) = Some (rhob a)) ->
      rho = fdiv (vsum d rhob) (fnat d).
  Proof. exact mle_scale_split. Qed.

  (* arithmetic core for blocks with k data each:
     (1/(k d)) sum_a r_a = (1/d) sum_a (r_a / k) *)
  Theorem C14_mean_of_block_means :
    forall k d (r : nat -> F),
      k <> 0 -> d <> 0 ->
      fdiv (vsum d r) (fmul (fnat k) (fnat d))
      = fdiv (vsum d (fun a => fdiv (r a) (fnat k))) (fnat d).
  Proof. exact mean_of_block_means. Qed.
End C14.

Print Assumptions C14_kronecker_embedding_of_products.
Print Assumptions C14_kronecker_embedding_of_transposes.
Print Assumptions C14_kronecker_embedding_of_sums.
Print Assumptions C14_kronecker_embedding_of_differences.
Print Assumptions C14_kronecker_embedding_of_scalings.
Print Assumptions C14_kronecker_embedding_of_identity.
Print Assumptions C14_kronecker_embedding_of_sandwich.
Print Assumptions C14_dense_transition_is_embedded_isotropic_transition.
Print Assumptions C14_dense_ts0_observation_is_embedded_selector.
Print Assumptions C14_embedding_commutes_with_marginalisation.
Print Assumptions C14_embedding_commutes_with_application.
Print Assumptions C14_embedding_commutes_with_merge.
Print Assumptions C14_inverse_of_embedding.
Print Assumptions C14_revert_embeds.
Print Assumptions C14_correction_embeds.
Print Assumptions C14_dense_ts0_linearisation_is_embedded_isotropic_linearisation.
Print Assumptions C14_solver_step_is_ts0_filter_step.
Print Assumptions C14_dense_ts0_filter_step_is_embedded_isotropic_step.
Print Assumptions C14_blockdiag_mle_scale_is_split_of_dense_residual_energy.
Print Assumptions C14_mean_of_block_means.
