(* C11 -- stub, completed in the final version *)
From Coq Require Import List Arith Bool ZArith.
From PD Require Import Base.Field Base.Matrix Model.Poly Base.Series Spec.ODESeries Model.Jet Model.JetLift Proofs.JetLiftProofs.

Theorem C11_lift_accepts_iff_range :
  forall (k ncoords : nat) (lift_by : Z),
    lift_accepts k ncoords lift_by = true <->
    (0 <= lift_by /\ lift_by <= Z.of_nat ncoords - Z.of_nat k)%Z.
Proof. exact P_lift_accepts_iff. Qed.

Print Assumptions C11_lift_accepts_iff_range.
