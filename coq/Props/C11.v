(* C11 -- Jet-lifting and constraint constructors differentiate constraints exactly.

   Statements only; every theorem is closed by [exact <lemma>] (lemmas in
   Proofs/JetLiftProofs.v) and followed by Print Assumptions.

   Model (Model/JetLift.v): JetAbstract.lift (range check, tcoeffs = coords[:k+m],
   args_autonomous_and_jet_compatible incl. the (t,1,0,..) time series, direct
   call when there are no series, else jax.experimental.jet with DERIVATIVES in
   and out), jet_lift / jet_lift_max bookkeeping, residual_from_ode,
   residual_from_stack.  A jet function is a program run in a ring of truncated
   power series ([jf_body N env]); polynomial programs ([jf_of_polys k d ps]:
   len(ps) outputs over the variables x_{j,b}, index j*d+b, j < k, and t, index
   k*d) run by series composition (Base/Series.v).  The linearisations are the
   [linearize] of Model/Solver.v.  F is any field of characteristic 0; nothing is
   bounded (degree, d, k >= 1, lift order m). *)
From Coq Require Import List Arith Bool ZArith.
From PD Require Import Base.Field Base.Matrix Base.Solve Model.Poly Base.Series Spec.ODESeries
  Model.Jet Model.JetLift Model.Gauss Model.Prior Model.Solver Proofs.JetProofs Proofs.JetLiftProofs.
Import ListNotations.
Local Open Scope nat_scope.

(* T11.1  The lift of a polynomial function of k jet coordinates by m returns,
   for l = 0..m, the values of the iterated TOTAL TIME DERIVATIVE D_t^l f at the
   supplied Taylor coefficients x_0 .. x_{k+m-1} and t, where (Spec/ODESeries.v)
       D_t g = dg/dt + sum_{j,b} dg/dx_{j,b} * x_{j+1,b}
   ([total_deriv], computed on polynomial data over K = k+m coordinates, f being
   embedded by [embed_poly]) -- the derivatives of tau |-> f(u(tau), .., t + tau)
   along ANY curve with these Taylor coefficients, explicit t included.
   Hypotheses: at least k+m coefficient vectors of d entries, exponent vectors
   of length k*d + 1. *)
Theorem C11_lift_returns_the_total_time_derivatives :
  forall (F : Type) (H : FieldOps F) (FL : FieldLaws F)
         (k d : nat) (ps : list (@poly F)) (m : nat) (coords : list (list F)) (t : F),
    1 <= k -> k + m <= length coords ->
    (forall j, j < k + m -> length (nth j coords []) = d) ->
    (forall p, In p ps -> forall mo, In mo p -> length (snd mo) = S (k * d)) ->
    lift (jf_of_polys k d ps) (Z.of_nat m) coords t = Some (lift_spec k d ps m coords t).
Proof. exact @lift_is_total_derivative. Qed.

(* T11.2  The range check is exactly 0 <= lift_by <= len(coords) - k ... *)
Theorem C11_lift_accepts_iff_range :
  forall (k ncoords : nat) (lift_by : Z),
    lift_accepts k ncoords lift_by = true <->
    (0 <= lift_by /\ lift_by <= Z.of_nat ncoords - Z.of_nat k)%Z.
Proof. exact P_lift_accepts_iff. Qed.

(* ... and the lifted function (of ANY jet function with k >= 1 inputs) returns a
   value iff lift_by is in that range; otherwise it raises (None). *)
Theorem C11_lift_raises_exactly_outside_the_range :
  forall (F : Type) (H : FieldOps F)
         (jf : @jetfun F) (lift_by : Z) (coords : list (list F)) (t : F),
    1 <= jf_k jf ->
    (lift jf lift_by coords t <> None <->
     (0 <= lift_by /\ lift_by <= Z.of_nat (length coords) - Z.of_nat (jf_k jf))%Z).
Proof. exact @lift_some_iff. Qed.

(* T11.3  residual_from_ode(ode), evaluated on k+1 coordinates, is
   x_k - f(x_0, .., x_{k-1}, t) (component-wise on the first d entries), for ANY
   jet function f. *)
Theorem C11_residual_from_ode_is_top_coordinate_minus_f :
  forall (F : Type) (H : FieldOps F)
         (o : @jetfun F) (coords : list (list F)) (t : F),
    length coords = S (jf_k o) ->
    jf_eval (residual_from_ode_jf o) coords t
    = Some (zipw (fun x y => fsub x y)
                 (map (fun b => vget (nth (jf_k o) coords []) b) (seq 0 (jf_d o)))
                 (run_plain o (firstn (jf_k o) coords) t)).
Proof. exact @residual_from_ode_value. Qed.

(* T11.3 (lift)  Lifting residual_from_ode(ode) by m equals lifting both parts: output l
   is x_{k+l} - (l-th output of the lifted right-hand side), for ANY jet function f. *)
Theorem C11_residual_from_ode_lift_is_the_lift_of_both_parts :
  forall (F : Type) (H : FieldOps F) (FL : FieldLaws F)
         (o : @jetfun F) (m : nat) (coords : list (list F)) (t : F) (outs : list (list F)),
    1 <= jf_k o -> jf_k o + 1 + m <= length coords ->
    lift o (Z.of_nat m) coords t = Some outs ->
    lift (residual_from_ode_jf o) (Z.of_nat m) coords t
    = Some (zipw (zipw (fun x y => fsub x y))
                 (map (fun l => map (fun b => vget (nth (jf_k o + l) coords []) b) (seq 0 (jf_d o)))
                      (seq 0 (S m)))
                 outs).
Proof. exact @residual_lift_is_lift_of_parts. Qed.

(* T11.4  A stacked residual evaluates each part on its own prefix of the
   coefficients (and on nothing else), and advertises the maximal order. *)
Theorem C11_stack_evaluates_each_part_on_its_own_prefix :
  forall (F : Type)
         (parts : list (@resfun F)) (coords : list (list F)) (t : F)
         (vals : list (list (list F))),
    stack_eval parts coords t = Some vals <->
    Forall2 (fun r x => rf_eval r (firstn (rf_k r) coords) t = Some x) parts vals.
Proof. exact @stack_evaluates_each_part_on_its_prefix. Qed.

Theorem C11_stack_order_is_the_maximum :
  forall (F : Type) (parts : list (@resfun F)),
    (forall r, In r parts -> rf_k r <= rf_k (residual_from_stack parts)) /\
    (parts <> [] -> exists r, In r parts /\ rf_k r = rf_k (residual_from_stack parts)).
Proof. exact (fun F parts => conj (@stack_k_upper F parts) (@stack_k_attained F parts)). Qed.

(* T11.5  Linearisation (Model/Solver.v [linearize]; g_a = x_{k,a} - f_a, [g_eval];
   dg_a/dx_{i,b} = [dg_eval] = delta - (d f_a / d x_{i,b}) evaluated by [diff_poly];
   xi = the mean of the Gaussian, [coeff]).

   dense: one conditional; A is the FULL Jacobian of g at xi; the conditional
   mean A xi + b (the model's own [c_apply]) is g(xi); Q = damp^2 I. *)
Theorem C11_linearize_dense_ts1 :
  forall (F : Type) (H : FieldOps F) (FL : FieldLaws F)
         (q d : nat) (o : @odeP F) (damp2 : F) (m : list (@normal F)) (t : F),
    let s := mkShape Dense q d in
    let K := nth 0 (linearize s o TS1 damp2 m t) dflt_cond in
    length (linearize s o TS1 damp2 m t) = 1 /\
    (forall r col, r < d -> col < sh_N s ->
       mget (c_A K) r col = dg_eval s o m t r (col / d) (col mod d)) /\
    (forall r, r < d ->
       mget (n_mean (c_apply (sh_N s) d 1 K (n_mean (nth_normal m 0)))) r 0 = g_eval s o m t r) /\
    c_Q K = noise_cov d damp2.
Proof. exact @linearize_dense_ts1. Qed.

(* TS0: A selects the rows of the k-th derivative, b = - f(xi). *)
Theorem C11_linearize_dense_ts0 :
  forall (F : Type) (H : FieldOps F)
         (q d : nat) (o : @odeP F) (damp2 : F) (m : list (@normal F)) (t : F),
    let s := mkShape Dense q d in
    let K := nth 0 (linearize s o TS0 damp2 m t) dflt_cond in
    length (linearize s o TS0 damp2 m t) = 1 /\
    (forall r col, r < d -> col < sh_N s -> mget (c_A K) r col = delta (ode_k o * d + r) col) /\
    (forall r, r < d -> mget (c_b K) r 0 = fopp (f_eval s o m t r)) /\
    c_Q K = noise_cov d damp2.
Proof. exact @linearize_dense_ts0. Qed.

(* isotropic: one (1 x (q+1)) row shared by all dimensions: the TRACE AVERAGE
   (1/d) sum_a dg_a/dx_{i,a}; the conditional mean is g(xi) in every dimension. *)
Theorem C11_linearize_isotropic_ts1 :
  forall (F : Type) (H : FieldOps F) (FL : FieldLaws F)
         (q d : nat) (o : @odeP F) (damp2 : F) (m : list (@normal F)) (t : F),
    let s := mkShape Iso q d in
    let K := nth 0 (linearize s o TS1 damp2 m t) dflt_cond in
    length (linearize s o TS1 damp2 m t) = 1 /\
    (forall i, i < S q ->
       mget (c_A K) 0 i = fdiv (vsum d (fun a => dg_eval s o m t a i a)) (fnat d)) /\
    (forall a, a < d ->
       mget (n_mean (c_apply (S q) 1 d K (n_mean (nth_normal m 0)))) 0 a = g_eval s o m t a) /\
    c_Q K = noise_cov 1 damp2.
Proof. exact @linearize_iso_ts1. Qed.

Theorem C11_linearize_isotropic_ts0 :
  forall (F : Type) (H : FieldOps F)
         (q d : nat) (o : @odeP F) (damp2 : F) (m : list (@normal F)) (t : F),
    let s := mkShape Iso q d in
    let K := nth 0 (linearize s o TS0 damp2 m t) dflt_cond in
    length (linearize s o TS0 damp2 m t) = 1 /\
    (forall i, i < S q -> mget (c_A K) 0 i = delta (ode_k o) i) /\
    (forall a, a < d -> mget (c_b K) 0 a = fopp (f_eval s o m t a)) /\
    c_Q K = noise_cov 1 damp2.
Proof. exact @linearize_iso_ts0. Qed.

(* block-diagonal: d conditionals; block a carries the PER-DIMENSION DIAGONAL
   entries dg_a/dx_{i,a}; its conditional mean is g_a(xi). *)
Theorem C11_linearize_blockdiag_ts1 :
  forall (F : Type) (H : FieldOps F) (FL : FieldLaws F)
         (q d : nat) (o : @odeP F) (damp2 : F) (m : list (@normal F)) (t : F) (a : nat),
    let s := mkShape BlockDiag q d in
    let K := nth a (linearize s o TS1 damp2 m t) dflt_cond in
    a < d ->
    length (linearize s o TS1 damp2 m t) = d /\
    (forall i, i < S q -> mget (c_A K) 0 i = dg_eval s o m t a i a) /\
    mget (n_mean (c_apply (S q) 1 1 K (n_mean (nth_normal m a)))) 0 0 = g_eval s o m t a /\
    c_Q K = noise_cov 1 damp2.
Proof. exact @linearize_blockdiag_ts1. Qed.

Theorem C11_linearize_blockdiag_ts0 :
  forall (F : Type) (H : FieldOps F)
         (q d : nat) (o : @odeP F) (damp2 : F) (m : list (@normal F)) (t : F) (a : nat),
    let s := mkShape BlockDiag q d in
    let K := nth a (linearize s o TS0 damp2 m t) dflt_cond in
    a < d ->
    length (linearize s o TS0 damp2 m t) = d /\
    (forall i, i < S q -> mget (c_A K) 0 i = delta (ode_k o) i) /\
    mget (c_b K) 0 0 = fopp (f_eval s o m t a) /\
    c_Q K = noise_cov 1 damp2.
Proof. exact @linearize_blockdiag_ts0. Qed.

(* the Jacobian entries used above are derivatives: for every polynomial p, point x
   and direction h, the tau-coefficient of p(x + tau h) (composition in the ring
   of formal power series) is sum_v (d p/d x_v)(x) h_v with d p/d x_v = [diff_poly v p] *)
Theorem C11_diff_poly_is_the_directional_derivative :
  forall (F : Type) (H : FieldOps F) (FL : FieldLaws F)
         (p : @poly F) (xs hs : list F),
    fs_compose (map (fun v => fun n => match n with
                                       | 0 => nth v xs f0 | 1 => nth v hs f0 | _ => f0
                                       end)
                    (seq 0 (length xs))) p 1
    = fold_right (fun v acc => fadd (fmul (eval_poly xs (diff_poly v p)) (nth v hs f0)) acc) f0
                 (seq 0 (length xs)).
Proof. exact @diff_poly_is_directional_derivative. Qed.

Print Assumptions C11_lift_returns_the_total_time_derivatives.
Print Assumptions C11_lift_accepts_iff_range.
Print Assumptions C11_lift_raises_exactly_outside_the_range.
Print Assumptions C11_residual_from_ode_is_top_coordinate_minus_f.
Print Assumptions C11_residual_from_ode_lift_is_the_lift_of_both_parts.
Print Assumptions C11_stack_evaluates_each_part_on_its_own_prefix.
Print Assumptions C11_stack_order_is_the_maximum.
Print Assumptions C11_linearize_dense_ts1.
Print Assumptions C11_linearize_dense_ts0.
Print Assumptions C11_linearize_isotropic_ts1.
Print Assumptions C11_linearize_isotropic_ts0.
Print Assumptions C11_linearize_blockdiag_ts1.
Print Assumptions C11_linearize_blockdiag_ts0.
Print Assumptions C11_diff_poly_is_the_directional_derivative.
