(* C20 -- placeholder, filled below *)
From Coq Require Import List Bool Arith ZArith.
From PD Require Import Model.Validate Spec.Shapes Proofs.ValidateProofs.
