(* C20 -- Malformed inputs are rejected loudly instead of being broadcast silently.

   Statements only; every theorem is closed by [exact <lemma>] and followed by
   Print Assumptions.

   Model/Validate.v transcribes the accept/reject DECISION LOGIC of every
   validator of probdiffeq on abstract inputs ([aval]: shapes, dtypes, tree
   structure, object kinds) in the order of the code; a [verdict] is Accept,
   TypeErr / ValueErr (an explicit raise of that class) or OtherErr (the first
   primitive operation chokes on the argument).  Spec/Shapes.v states
   declaratively what a well-formed argument is.  A theorem
   [validator = Accept <-> wellformed] says: exactly the well-formed arguments
   get through, i.e. every malformed one raises.  Where the validator of the
   unchanged tree accepts malformed arguments the gap is proved as
   [..._refuted] with a concrete witness (replayed on the implementation by
   harness/c20.py); the [_partial] theorems state what still holds.

   Which exception class / message is raised at run time and the guarantee
   "never produces numbers" are observed by the correspondence harness. *)
From Coq Require Import List Bool Arith ZArith.
From PD Require Import Model.Validate Spec.Shapes Proofs.ValidateProofs
  Proofs.ValidatePriorProofs Proofs.ValidateBounded Proofs.ValidateBoundedCube.
Import ListNotations.

(* ------------------------------------------------------------------------
   T20.1  verify_taylor_coefficient_pytree.  On data values (numeric leaves, no
   None, no empty containers) that are not dictionaries the validator accepts
   exactly the non-empty lists / tuples of coefficient trees that all have the
   same tree of shapes. *)
Theorem C20_taylor_coefficient_validator_reflects_wellformedness :
  forall x, Regular x -> all_numeric x = true -> (forall kvs, x <> ADict kvs) ->
    (verify x = Accept <-> WfTcoeffs x).
Proof. exact verify_reflects. Qed.

(* Outside that domain the validator alone has three gaps (each is caught later by
   the constructors except where T20.6 says otherwise):
   a dictionary is iterated over its KEYS, *)
Theorem C20_taylor_coefficient_validator_accepts_dict_container_refuted :
  exists x, verify x = Accept /\ ~ WfTcoeffs x.
Proof. exact verify_accepts_dict_container_refuted. Qed.

(* Python's == identifies the shape () of a scalar with an empty tuple node, *)
Theorem C20_taylor_coefficient_validator_confuses_empty_tuple_with_scalar_refuted :
  exists x, verify x = Accept /\ ~ WfTcoeffs x.
Proof. exact verify_confuses_empty_tuple_with_scalar_refuted. Qed.

(* and np.shape of an arbitrary object (a function) is (). *)
Theorem C20_taylor_coefficient_validator_accepts_function_leaves_refuted :
  exists x, verify x = Accept /\ ~ WfTcoeffs x.
Proof. exact verify_accepts_function_leaves_refuted. Qed.

(* ------------------------------------------------------------------------
   T20.2  prior_wiener_integrated(tcoeffs, is_exact, output_scale), the three
   factorisations, ALL inputs (coefficient values without None / empty containers,
   see T20.4): whatever the constructor accepts is well-formed in EVERY field, i.e.
   every malformed argument set raises -- coefficients of different shapes or tree
   structure, an array / dict / function instead of a sequence, flags of a wrong or
   merely broadcastable shape, of the wrong tree structure, of a non-boolean dtype,
   a base scale of the wrong tree structure or leaf shape (isotropic: non-scalar). *)
Theorem C20_prior_accepts_only_wellformed_arguments :
  forall f tc ie sc, Regular tc -> prior_iwp f tc ie sc = Accept -> WfPriorIwp f tc ie sc.
Proof. exact prior_iwp_accepts_only_wellformed. Qed.

(* With a well-formed coefficient container the base-scale checks accept EXACTLY the
   well-formed base scales (all inputs). *)
Theorem C20_base_scale_check_reflects_wellformedness :
  forall f mean sc, WfTcoeffs mean -> (base_scale f mean sc = Accept <-> WfBaseScale f mean sc).
Proof. exact base_scale_reflects. Qed.

(* Conversely (well-formed => accepted, so the specification is not vacuous), and the
   equivalence as a whole, bounded-exhaustively: for every valid base argument set of
   [bases f] and every abstract value of [universe] (3840 trees of depth <= 2,
   width <= 2 over 18 kinds of leaves) substituted for ONE argument -- the
   quantifier of the property -- the constructor accepts iff the argument set is
   well-formed (for the coefficient field: on values without None / empty
   containers, see T20.4). *)
Theorem C20_prior_single_field_corruptions_rejected_bounded_partial :
  forall f b x, In b (bases f) -> In x universe ->
    (Regular x -> (prior_iwp f x (b_ie b) (b_sc b) = Accept <-> WfPriorIwp f x (b_ie b) (b_sc b))) /\
    (prior_iwp f (b_tc b) x (b_sc b) = Accept <-> WfPriorIwp f (b_tc b) x (b_sc b)) /\
    (prior_iwp f (b_tc b) (b_ie b) x = Accept <-> WfPriorIwp f (b_tc b) (b_ie b) x).
Proof. exact prior_iwp_single_field_reflection_bounded. Qed.

(* ... and for ALL triples (multi-field corruptions) of the 119-element [cube]. *)
Theorem C20_prior_all_argument_triples_bounded_partial :
  forall f tc ie sc, In tc cube -> In ie cube -> In sc cube -> Regular tc ->
    (prior_iwp f tc ie sc = Accept <-> WfPriorIwp f tc ie sc).
Proof. exact prior_iwp_reflection_bounded_cube. Qed.

(* T20.3  Scalar flags per leaf are DOCUMENTED behaviour (`is_exact: C | bool`, shape ()
   promoted per leaf): well-formed and accepted; a broadcastable-but-wrong flag shape
   (1,) against a leaf of shape (3,) (isotropic: anything but a scalar) is rejected with
   the ValueError of the shape check. *)
Theorem C20_scalar_flags_per_leaf_are_wellformed_and_accepted :
  WfPriorIwp Dense ex_mean (AList [AArr [] DBool; AArr [3] DBool]) ANone /\
  prior_iwp Dense ex_mean (AList [AArr [] DBool; AArr [3] DBool]) ANone = Accept.
Proof. exact scalar_flags_are_wellformed_and_accepted. Qed.

Theorem C20_broadcastable_flag_shapes_are_rejected :
  prior_iwp Dense ex_mean (AList [AArr [1] DBool; AArr [3] DBool]) ANone = ValueErr /\
  prior_iwp BlockDiag ex_mean (AList [AArr [1] DBool; AArr [3] DBool]) ANone = ValueErr /\
  prior_iwp Isotropic ex_mean (AList [AArr [1] DBool; AArr [] DBool]) ANone = ValueErr.
Proof. exact broadcastable_flags_are_rejected. Qed.

(* T20.4  The corner excluded above: the dense constructor accepts a scalar coefficient
   next to an empty tuple (the object fails at first use; observed by the harness). *)
Theorem C20_prior_dense_accepts_empty_tuple_coefficient_refuted :
  exists tc, prior_iwp Dense tc APyBool ANone = Accept /\ ~ WfPriorIwp Dense tc APyBool ANone.
Proof. exact prior_iwp_dense_empty_tuple_refuted. Qed.

(* ------------------------------------------------------------------------
   T20.5  prior_exponential (dense): ALL inputs -- an accepted argument set has an
   autonomous ODE description whose order equals the number of coefficients
   (TypeError otherwise), and is well-formed as in T20.2. *)
Theorem C20_exponential_prior_accepts_only_wellformed_arguments :
  forall f ode tc ie sc, Regular tc -> prior_exp f ode tc ie sc = Accept ->
    f = Dense /\ (exists k, ode = AJetOdeAuto k /\ py_len tc = Some k) /\ WfPriorIwp Dense tc ie sc.
Proof. exact prior_exp_accepts_only_wellformed. Qed.

(* The equivalence, same bounded quantifier as T20.2, ODE objects from [odes]. *)
Theorem C20_exponential_prior_single_field_corruptions_rejected_bounded_partial :
  forall o b x, In o odes -> In b (bases Dense) -> In x universe ->
    (Regular x -> (prior_exp Dense o x (b_ie b) (b_sc b) = Accept <-> WfPriorExp Dense o x (b_ie b) (b_sc b))) /\
    (prior_exp Dense o (b_tc b) x (b_sc b) = Accept <-> WfPriorExp Dense o (b_tc b) x (b_sc b)) /\
    (prior_exp Dense o (b_tc b) (b_ie b) x = Accept <-> WfPriorExp Dense o (b_tc b) (b_ie b) x).
Proof. exact prior_exp_single_field_reflection_bounded. Qed.

Theorem C20_exponential_prior_only_for_dense :
  forall f ode tc ie sc, f <> Dense -> prior_exp f ode tc ie sc = OtherErr.
Proof. exact prior_exp_not_implemented. Qed.

(* ------------------------------------------------------------------------
   T20.6  prior_wiener_integrated_diffuse(mean, std, output_scale): explicit standard
   deviations.  from_mean_and_std of the dense and block-diagonal factorisations never
   compares std with mean (only the flattened sizes, resp. broadcasting): GENUINE GAPS
   on the unchanged tree -- a std container with the wrong tree structure, *)
Theorem C20_explicit_std_dense_wrong_tree_structure_refuted :
  exists mean std, prior_iwp_diffuse Dense mean std ANone = Accept /\ ~ WfPriorDiffuse Dense mean std ANone.
Proof. exact prior_iwp_diffuse_dense_ignores_std_structure_refuted. Qed.

(* a dictionary instead of a sequence, *)
Theorem C20_explicit_std_dense_dict_container_refuted :
  exists mean std, prior_iwp_diffuse Dense mean std ANone = Accept /\ ~ WfPriorDiffuse Dense mean std ANone.
Proof. exact prior_iwp_diffuse_dense_accepts_dict_std_refuted. Qed.

(* leaves of the wrong rank, *)
Theorem C20_explicit_std_dense_wrong_rank_refuted :
  exists mean std, prior_iwp_diffuse Dense mean std ANone = Accept /\ ~ WfPriorDiffuse Dense mean std ANone.
Proof. exact prior_iwp_diffuse_dense_ignores_std_rank_refuted. Qed.

Theorem C20_explicit_std_blockdiag_wrong_rank_refuted :
  exists mean std, prior_iwp_diffuse BlockDiag mean std ANone = Accept /\ ~ WfPriorDiffuse BlockDiag mean std ANone.
Proof. exact prior_iwp_diffuse_blockdiag_ignores_std_rank_refuted. Qed.

(* and too few coefficients, silently broadcast. *)
Theorem C20_explicit_std_blockdiag_wrong_length_is_broadcast_refuted :
  exists mean std, prior_iwp_diffuse BlockDiag mean std ANone = Accept /\ ~ WfPriorDiffuse BlockDiag mean std ANone.
Proof. exact prior_iwp_diffuse_blockdiag_broadcasts_short_std_refuted. Qed.

(* What does hold.  ALL inputs, all factorisations: an accepted pair has a well-formed
   mean container and a well-formed base scale; *)
Theorem C20_explicit_std_accepts_only_wellformed_mean_and_scale_partial :
  forall f mean std sc, Regular mean -> prior_iwp_diffuse f mean std sc = Accept ->
    WfTcoeffs mean /\ WfBaseScale f mean sc.
Proof. exact prior_iwp_diffuse_accepts_only_wellformed_coefficients_and_scales. Qed.

(* on the cube: the isotropic factorisation has no gap; *)
Theorem C20_explicit_std_isotropic_bounded_partial :
  forall mean std sc, In mean cube -> In std cube -> In sc cube -> Regular mean -> Regular std ->
    (prior_iwp_diffuse Isotropic mean std sc = Accept <-> WfPriorDiffuse Isotropic mean std sc).
Proof. exact prior_iwp_diffuse_isotropic_reflection_bounded_cube. Qed.

(* all factorisations accept every well-formed argument set; *)
Theorem C20_explicit_std_wellformed_is_accepted_bounded_partial :
  forall f mean std sc, In mean cube -> In std cube -> In sc cube ->
    WfPriorDiffuse f mean std sc -> prior_iwp_diffuse f mean std sc = Accept.
Proof. exact prior_iwp_diffuse_accepts_wellformed_bounded_cube. Qed.

(* and an accepted pair has a well-formed mean, a std that is a coefficient container on
   its own (or a dictionary), and a well-formed base scale. *)
Theorem C20_explicit_std_accepted_pairs_bounded_partial :
  forall f mean std sc, In mean cube -> In std cube -> In sc cube -> Regular mean -> Regular std ->
    prior_iwp_diffuse f mean std sc = Accept ->
    WfTcoeffs mean /\ (WfTcoeffs std \/ exists kvs, std = ADict kvs) /\ WfBaseScale f mean sc.
Proof. exact prior_iwp_diffuse_accepted_partial_bounded_cube. Qed.

(* ------------------------------------------------------------------------
   T20.7  transition(dt, output_scale): the calibrated scale is accepted iff it is
   array-like with EXACTLY the expected shape (() dense / isotropic, (d,) blockdiag);
   all inputs. *)
Theorem C20_calibrated_output_scale_check_reflects_wellformedness :
  forall expected cal, transition_check expected cal = Accept <-> WfCal expected cal.
Proof. exact transition_check_reflects. Qed.

(* T20.8  Object-type gates: constraint_ode_ts0/ts1 and the jet expansions accept
   exactly JetOde objects, constraint_residual exactly JetResidual objects, the
   time-series loss exactly MarkovSequence posteriors; everything else (plain
   functions, None, arrays, the other kind) raises TypeError. *)
Theorem C20_object_type_gates_reflect :
  forall o,
    (gate_jetode o = Accept <-> IsJetOde o) /\
    (gate_jetresidual o = Accept <-> IsJetResidual o) /\
    (gate_posterior o = Accept <-> IsMarkovSeq o).
Proof.
  exact (fun o => conj (gate_jetode_reflects o)
                       (conj (gate_jetresidual_reflects o) (gate_posterior_reflects o))).
Qed.

Theorem C20_object_type_gates_reject_with_TypeError :
  forall o,
    (gate_jetode o = Accept \/ gate_jetode o = TypeErr) /\
    (gate_jetresidual o = Accept \/ gate_jetresidual o = TypeErr) /\
    (gate_posterior o = Accept \/ gate_posterior o = TypeErr).
Proof. exact gates_reject_with_TypeError. Qed.

(* T20.9  Lift orders: a non-integer lift_by raises TypeError at construction; at first
   use a residual of order k on n jet coordinates is lifted iff 0 <= lift_by <= n - k
   (ValueError otherwise); an ODE of order k counts as a residual of order k+1. *)
Theorem C20_lift_by_must_be_an_integer :
  forall lb, lift_construct lb = Accept <-> exists z, lb = Some z.
Proof. exact lift_construct_reflects. Qed.

Theorem C20_lift_by_range_check_reflects :
  forall k n z, lift_residual_use k n z = Accept <-> lift_in_range k n z.
Proof. exact lift_residual_use_reflects. Qed.

Theorem C20_lift_by_range_check_rejects_with_ValueError :
  forall k n z, lift_residual_use k n z = Accept \/ lift_residual_use k n z = ValueErr.
Proof. exact lift_residual_use_rejects_with_ValueError. Qed.

Theorem C20_ode_lift_by_range_check_reflects :
  forall k n z, lift_ode_use k n z = Accept <-> lift_in_range (S k) n z.
Proof. exact lift_ode_use_reflects. Qed.

(* T20.10  Observation-noise containers of both losses: accepted iff the container has
   exactly the tree structure and leaf shapes expected (all inputs; the expected
   container, computed by the library, is a tree of numeric leaves). *)
Theorem C20_loss_std_container_check_reflects_wellformedness :
  forall std expected, CoeffTree expected ->
    (loss_std_check std expected = Accept <-> WfLossStd std expected).
Proof. exact loss_std_check_reflects. Qed.

Theorem C20_timeseries_loss_checks_posterior_type_then_std :
  forall post std expected, CoeffTree expected ->
    (loss_timeseries_check post std expected = Accept <-> IsMarkovSeq post /\ WfLossStd std expected).
Proof. exact loss_timeseries_check_reflects. Qed.

(* T20.11  Residual-based error estimate: the isotropic / block-diagonal factorisations
   accept exactly m = d constraint entries; *)
Theorem C20_error_residual_shape_check_reflects_isotropic_blockdiag :
  forall f m d, f <> Dense -> (error_residual_check f m d = Accept <-> WfErrorResidual m d).
Proof. exact error_residual_reflects_iso_blockdiag. Qed.

(* the dense one also accepts m = 1 (`error.shape not in [(1,), reference.shape]`): a single
   constraint row is silently broadcast against a d-dimensional state -- GENUINE GAP. *)
Theorem C20_error_residual_shape_check_dense_refuted :
  exists m d, error_residual_check Dense m d = Accept /\ ~ WfErrorResidual m d.
Proof. exact error_residual_dense_refuted. Qed.

Theorem C20_error_residual_shape_check_dense_partial :
  forall m d, error_residual_check Dense m d = Accept <-> m = 1 \/ m = d.
Proof. exact error_residual_dense_accepts_exactly. Qed.

(* T20.12  Matrix-free ensembles: at least as many members as Taylor coefficients. *)
Theorem C20_ensemble_count_check_reflects :
  forall ens n, matfree_check ens n = Accept <-> WfEnsembles ens n.
Proof. exact matfree_check_reflects. Qed.

(* T20.13  A warning is emitted exactly for the pairings documented as unsuitable
   (unless switched off with warn=False). *)
Theorem C20_unsuitable_pairings_warn :
  forall s r, warns s r = true <-> Unsuitable s r /\ r <> RSaveAt false.
Proof. exact warns_reflects. Qed.

Print Assumptions C20_taylor_coefficient_validator_reflects_wellformedness.
Print Assumptions C20_taylor_coefficient_validator_accepts_dict_container_refuted.
Print Assumptions C20_taylor_coefficient_validator_confuses_empty_tuple_with_scalar_refuted.
Print Assumptions C20_taylor_coefficient_validator_accepts_function_leaves_refuted.
Print Assumptions C20_prior_accepts_only_wellformed_arguments.
Print Assumptions C20_base_scale_check_reflects_wellformedness.
Print Assumptions C20_prior_single_field_corruptions_rejected_bounded_partial.
Print Assumptions C20_prior_all_argument_triples_bounded_partial.
Print Assumptions C20_scalar_flags_per_leaf_are_wellformed_and_accepted.
Print Assumptions C20_broadcastable_flag_shapes_are_rejected.
Print Assumptions C20_prior_dense_accepts_empty_tuple_coefficient_refuted.
Print Assumptions C20_exponential_prior_accepts_only_wellformed_arguments.
Print Assumptions C20_exponential_prior_single_field_corruptions_rejected_bounded_partial.
Print Assumptions C20_exponential_prior_only_for_dense.
Print Assumptions C20_explicit_std_dense_wrong_tree_structure_refuted.
Print Assumptions C20_explicit_std_dense_dict_container_refuted.
Print Assumptions C20_explicit_std_dense_wrong_rank_refuted.
Print Assumptions C20_explicit_std_blockdiag_wrong_rank_refuted.
Print Assumptions C20_explicit_std_blockdiag_wrong_length_is_broadcast_refuted.
Print Assumptions C20_explicit_std_accepts_only_wellformed_mean_and_scale_partial.
Print Assumptions C20_explicit_std_isotropic_bounded_partial.
Print Assumptions C20_explicit_std_wellformed_is_accepted_bounded_partial.
Print Assumptions C20_explicit_std_accepted_pairs_bounded_partial.
Print Assumptions C20_calibrated_output_scale_check_reflects_wellformedness.
Print Assumptions C20_object_type_gates_reflect.
Print Assumptions C20_object_type_gates_reject_with_TypeError.
Print Assumptions C20_lift_by_must_be_an_integer.
Print Assumptions C20_lift_by_range_check_reflects.
Print Assumptions C20_lift_by_range_check_rejects_with_ValueError.
Print Assumptions C20_ode_lift_by_range_check_reflects.
Print Assumptions C20_loss_std_container_check_reflects_wellformedness.
Print Assumptions C20_timeseries_loss_checks_posterior_type_then_std.
Print Assumptions C20_error_residual_shape_check_reflects_isotropic_blockdiag.
Print Assumptions C20_error_residual_shape_check_dense_refuted.
Print Assumptions C20_error_residual_shape_check_dense_partial.
Print Assumptions C20_ensemble_count_check_reflects.
Print Assumptions C20_unsuitable_pairings_warn.
