(* C02 -- the filter posterior equals the exact Gaussian posterior of the
   linearised model.  The solver step of Model/Solver.v is
   predict (marginalise through the preconditioned transition), linearise,
   correct (bayes_rule on the linearised constraint with zero data).  The
   theorems identify each stage with the textbook covariance-form Kalman
   filter of Spec/RTS.v on the closed-form integrated-Wiener transition. *)
From Coq Require Import List Arith.
From PD Require Import Base.Field Base.Matrix Base.Solve Model.Gauss Model.Prior Spec.RTS
  Proofs.GaussProofs Proofs.FilterProofs Proofs.PriorProofs.
Import ListNotations.

Section C02.
  Context {F : Type} `{FL : FieldLaws F}.

  (* prediction = Kalman prediction with the plain transition, any scalings *)
  Theorem C02_prediction_is_kalman_prediction :
    forall n c (K : @cond F) (rv : @normal F),
      c_marg n n c K rv
      = let P := c_plain n n c K in kf_predict n c (c_A P) (c_b P) (c_Q P) rv.
  Proof. exact c_marg_is_kalman_prediction. Qed.

  (* the plain transition of the preconditioned IWP is the closed form, all q *)
  Theorem C02_iwp_transition_closed_form :
    forall q c (dt s2 : F), dt <> f0 ->
      c_A (c_plain (S q) (S q) c (iwp_transition_1d q c dt s2)) = iwp_A_closed q dt /\
      c_Q (c_plain (S q) (S q) c (iwp_transition_1d q c dt s2)) = iwp_Q_closed q dt s2.
  Proof.
    intros q c dt s2 Hdt.
    exact (conj (iwp_plain_A_closed_form q c dt s2 Hdt) (iwp_plain_Q_closed_form q c dt s2)).
  Qed.

  (* correction = Kalman update  m - K(Hm + r),  P - K S K^T,  K = P H^T S^-1 *)
  Theorem C02_correction_is_kalman_update :
    forall inv n k c (Hm r R : @mat F) (rv : @normal F),
      symmetric n (n_cov rv) ->
      option_map snd
        (bayes_rule inv n k c (from_linop_and_noise n k Hm (mkN r R)) (mzero k c) rv)
      = kf_update inv n k c Hm r R rv.
  Proof. exact bayes_rule_is_kalman_update. Qed.
End C02.

Print Assumptions C02_prediction_is_kalman_prediction.
Print Assumptions C02_iwp_transition_closed_form.
Print Assumptions C02_correction_is_kalman_update.
