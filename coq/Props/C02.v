(* C02 -- the filter posterior equals the exact Gaussian posterior of the
   linearised model.  The solver step of Model/Solver.v is
   predict (marginalise through the preconditioned transition), linearise,
   correct (bayes_rule on the linearised constraint with zero data).  The
   theorems identify each stage with the textbook covariance-form Kalman
   filter of Spec/RTS.v on the closed-form integrated-Wiener transition. *)
From Coq Require Import List Arith.
From PD Require Import Base.Field Base.Matrix Base.Solve Model.Gauss Model.Poly Model.Prior Model.Solver Spec.RTS
  Proofs.GaussProofs Proofs.FilterProofs Proofs.PriorProofs Proofs.SolverRefine Proofs.SolverGrid Proofs.SolverRefineLin Proofs.SolverRefineBlock Proofs.EmbedProofs Proofs.SolverRefineDense.
Import ListNotations.

Section C02.
  Context {F : Type} `{FL : FieldLaws F}.

  (* prediction = Kalman prediction with the plain transition, any scalings *)
  Theorem C02_prediction_is_kalman_prediction :
    forall n c (K : @cond F) (rv : @normal F),
      c_marg n n c K rv
      = let P := c_plain n n c K in kf_predict n c (c_A P) (c_b P) (c_Q P) rv.
  Proof. exact c_marg_is_kalman_prediction. Qed.

  (* the plain transition of the preconditioned IWP is the closed form, all q *)
  Theorem C02_iwp_transition_closed_form :
    forall q c (dt s2 : F), dt <> f0 ->
      c_A (c_plain (S q) (S q) c (iwp_transition_1d q c dt s2)) = iwp_A_closed q dt /\
      c_Q (c_plain (S q) (S q) c (iwp_transition_1d q c dt s2)) = iwp_Q_closed q dt s2.
  Proof.
    intros q c dt s2 Hdt.
    exact (conj (iwp_plain_A_closed_form q c dt s2 Hdt) (iwp_plain_Q_closed_form q c dt s2)).
  Qed.

  (* correction = Kalman update  m - K(Hm + r),  P - K S K^T,  K = P H^T S^-1 *)
  Theorem C02_correction_is_kalman_update :
    forall inv n k c (Hm r R : @mat F) (rv : @normal F),
      symmetric n (n_cov rv) ->
      option_map snd
        (bayes_rule inv n k c (from_linop_and_noise n k Hm (mkN r R)) (mzero k c) rv)
      = kf_update inv n k c Hm r R rv.
  Proof. exact bayes_rule_is_kalman_update. Qed.

  (* ONE WHOLE SOLVER STEP (solver.step: predict, linearise, correct) of the
     uncalibrated filter with zeroth-order linearisation in the isotropic model --
     any q, any dimension d, any polynomial vector field of any order, any damping
     and base scale, any step dt <> 0 -- IS one step of the textbook EKF
     (Spec/RTS.v: kf_predict with the closed-form transition, kf_update with
     H = derivative selector, r = -f(predicted mean), R = damp^2) *)
  Theorem C02_isotropic_ts0_filter_step_is_ekf_step :
    forall (q d : nat) (o : @odeP F) (base2 : @vec F) (damp2 : F)
           (st : @sstate F) (rv : @normal F) (pc : list (@cond F)) (dt : F),
      let cf := mkCfg (mkShape Iso q d) Filter CalNone TS0 o base2 damp2 in
      dt <> f0 ->
      st_u st = [rv] -> st_post st = mkPost [rv] pc ->
      symmetric (S q) (n_cov (kf_predict (S q) d (iwp_A_closed q dt) (mzero (S q) d)
                                (iwp_Q_closed q dt (fmul (vget base2 0) f1)) rv)) ->
      solver_step minv cf st dt
      = match ekf_step_iso q d o (fmul (vget base2 0) f1) damp2 (fadd (st_t st) dt) dt rv with
        | None => None
        | Some (upd, fx) =>
          Some (mkSt (fadd (st_t st) dt) [upd] (mkPost [upd] pc) [f1] (st_run2 st)
                     (st_ndata st) (S (st_nsteps st)) [fx])
        end.
  Proof. exact iso_ts0_filter_step_is_ekf_step. Qed.

  (* the symmetry hypothesis is an invariant of the recursion: prediction and
     update preserve symmetric covariances, so the step theorem applies at every
     node of every grid *)
  Theorem C02_symmetry_is_invariant :
    (forall n c (A b Q : @mat F) (rv : @normal F),
        symmetric n (n_cov rv) -> symmetric n Q -> symmetric n (n_cov (kf_predict n c A b Q rv))) /\
    (forall q (h s2 : F), symmetric (S q) (iwp_Q_closed q h s2)) /\
    (forall n k c (Hm r R : @mat F) (rv upd : @normal F),
        symmetric n (n_cov rv) -> symmetric k R ->
        kf_update minv n k c Hm r R rv = Some upd -> symmetric n (n_cov upd)).
  Proof. exact (conj kf_predict_symmetric (conj iwp_Q_closed_symmetric kf_update_symmetric)). Qed.

  (* ... and therefore, by induction over the list of step sizes: ON EVERY FIXED
     GRID (any number of steps, any nonzero step sizes) the times and marginals
     produced by the scan in solve_fixed_grid are exactly those of the iterated
     textbook EKF (isotropic model, TS0, uncalibrated filter; any q, d, ODE order,
     polynomial vector field, damping, base scale; a singular innovation makes
     both sides fail at the same step) *)
  Theorem C02_isotropic_ts0_fixed_grid_is_ekf :
    forall (q d : nat) (o : @odeP F) (base2 : @vec F) (damp2 : F) (dts : list F),
      let cf := mkCfg (mkShape Iso q d) Filter CalNone TS0 o base2 damp2 in
      Forall (fun dt => dt <> f0) dts ->
      forall (st : @sstate F) (rv : @normal F) (pc : list (@cond F)),
        st_u st = [rv] -> st_post st = mkPost [rv] pc ->
        symmetric (S q) (n_cov rv) ->
        option_map (map view) (fixed_grid_states minv cf st dts)
        = option_map (map lift1)
            (ekf_grid_iso q d o (fmul (vget base2 0) f1) damp2 (st_t st) rv dts).
  Proof. exact iso_ts0_fixed_grid_is_ekf. Qed.

  (* the same for BOTH linearisation orders: the observation model of the EKF is the
     documented isotropic linearisation at the predicted mean (Proofs/SolverRefineLin.v:
     TS0: H = E_k, bias -f(m^-); TS1: H = E_k - trace-averaged Jacobian, bias g(m^-) - H m^-) *)
  Theorem C02_isotropic_fixed_grid_is_extended_kalman_filter :
    forall (q d : nat) (o : @odeP F) (l : lin) (base2 : @vec F) (damp2 : F) (dts : list F),
      let cf := mkCfg (mkShape Iso q d) Filter CalNone l o base2 damp2 in
      Forall (fun dt => dt <> f0) dts ->
      forall (st : @sstate F) (rv : @normal F) (pc : list (@cond F)),
        st_u st = [rv] -> st_post st = mkPost [rv] pc ->
        symmetric (S q) (n_cov rv) ->
        option_map (map view) (fixed_grid_states minv cf st dts)
        = option_map (map lift1)
            (ekf_grid_iso_lin q d o l (fmul (vget base2 0) f1) damp2 (st_t st) rv dts).
  Proof. exact iso_fixed_grid_is_ekf. Qed.

  (* BLOCK-DIAGONAL model: one step of the uncalibrated filter is, dimension by
     dimension, one step of the textbook (extended) Kalman filter: closed-form
     transition with that dimension's base scale, the documented per-dimension
     linearisation (TS0 / TS1 with the DIAGONAL Jacobian entries only) evaluated at the
     predicted means of all dimensions, Kalman update with R = damp^2 *)
  Theorem C02_blockdiag_filter_step_is_per_dimension_ekf :
    forall (q d : nat) (o : @odeP F) (l : lin) (base2 : @vec F) (damp2 : F)
           (st st' : @sstate F) (rvs : list (@normal F)) (pc : list (@cond F)) (dt : F),
      let cf := mkCfg (mkShape BlockDiag q d) Filter CalNone l o base2 damp2 in
      dt <> f0 -> length rvs = d ->
      st_post st = mkPost rvs pc ->
      (forall a, a < d -> symmetric (S q) (n_cov (bd_pred q base2 dt rvs a))) ->
      solver_step minv cf st dt = Some st' ->
      let t' := fadd (st_t st) dt in
      let preds := map (bd_pred q base2 dt rvs) (seq 0 d) in
      length (st_u st') = d /\
      forall a, a < d ->
        kf_update minv (S q) 1 1 (bd_H q d o l t' preds a) (bd_bias q d o l t' preds a) (noise_cov 1 damp2)
                  (bd_pred q base2 dt rvs a)
        = Some (nth a (st_u st') dfltN).
  Proof. exact blockdiag_filter_step_is_per_dimension_ekf. Qed.

  (* DENSE model, equal base scales, TS0: the dense solver step from an embedded
     state returns the Kronecker embedding  upd (x) I_d  of the textbook EKF
     posterior (composition of the isotropic refinement above with the embedding
     theorem of C14), for every polynomial field, q, d, damping and step *)
  Theorem C02_dense_ts0_filter_step_is_embedded_ekf_step :
    forall (q d : nat) (o : @odeP F) (base2D base2I : @vec F) (damp2 : F)
           (stD stI stD' stI' : @sstate F) (rv : @normal F) (pcD pcI : list (@cond F)) (dt : F),
      let cfD := mkCfg (mkShape Dense q d) Filter CalNone TS0 o base2D damp2 in
      let cfI := mkCfg (mkShape Iso q d) Filter CalNone TS0 o base2I damp2 in
      ode_k o <= S q ->
      (forall a, a < d -> vget base2D a = vget base2I 0) ->
      dt <> f0 ->
      st_t stD = st_t stI ->
      st_u stI = [rv] -> st_post stI = mkPost [rv] pcI ->
      st_post stD = mkPost [embed_normal (S q) d rv] pcD ->
      symmetric (S q) (n_cov (kf_predict (S q) d (iwp_A_closed q dt) (mzero (S q) d)
                                (iwp_Q_closed q dt (fmul (vget base2I 0) f1)) rv)) ->
      solver_step minv cfD stD dt = Some stD' ->
      solver_step minv cfI stI dt = Some stI' ->
      exists upd fx,
        ekf_step_iso q d o (fmul (vget base2I 0) f1) damp2 (fadd (st_t stI) dt) dt rv = Some (upd, fx) /\
        st_u stI' = [upd] /\
        st_u stD' = [embed_normal (S q) d upd].
  Proof. exact dense_ts0_filter_step_is_embedded_ekf_step. Qed.
End C02.

Print Assumptions C02_prediction_is_kalman_prediction.
Print Assumptions C02_iwp_transition_closed_form.
Print Assumptions C02_correction_is_kalman_update.
Print Assumptions C02_isotropic_ts0_filter_step_is_ekf_step.
Print Assumptions C02_symmetry_is_invariant.
Print Assumptions C02_isotropic_ts0_fixed_grid_is_ekf.
Print Assumptions C02_isotropic_fixed_grid_is_extended_kalman_filter.
Print Assumptions C02_blockdiag_filter_step_is_per_dimension_ekf.
Print Assumptions C02_dense_ts0_filter_step_is_embedded_ekf_step.
