(* C02 placeholder during construction *)
From PD Require Import Base.Field Base.Matrix.
Theorem C02_mtr_mmul :
  forall (F : Type) (H : FieldOps F) (FL : FieldLaws F) n k m (A B : @mat F),
    mtr n m (mmul n k m A B) = mmul m k n (mtr k m B) (mtr n k A).
Proof. intros. apply mtr_mmul. Qed.
Print Assumptions C02_mtr_mmul.
