(* C16 -- automatic derivatives equal the true derivatives of the computed outputs
   (PARTIAL: the JAX runtime's forward/reverse machinery is not modelled; what is
   proved concerns the one hand-written derivative rule of the library, the
   custom JVP of qr_r: R_dot := Q^T M_dot). *)
From Coq Require Import List Arith QArith Qcanon.
From PD Require Import Base.Field Base.Matrix Proofs.ADProofs.
Import ListNotations.

(* the rule differentiates the Gram matrix R^T R = M^T M correctly, for all
   shapes and all M = Q R, M_dot ... *)
Theorem C16_qr_rule_preserves_gram_derivative_partial :
  forall (F : Type) (H : FieldOps F) (FL : FieldLaws F) n m (M Q R Md : @mat F),
    mmul n m m Q R = canon n m M ->
    let Rd := mmul m n m (mtr n m Q) Md in
    madd m m (mmul m m m (mtr m m Rd) R) (mmul m m m (mtr m m R) Rd)
    = madd m m (mmul m n m (mtr n m Md) M) (mmul m n m (mtr n m M) Md).
Proof. intros F H FL. exact qr_jvp_preserves_gram. Qed.

(* ... but it is NOT the derivative of the triangular factor: exact rational
   witness with Q^T Q = I, Q R = M, R upper triangular, and (Q^T M_dot)[1,0] <> 0
   (known finding F5: derivatives of gains / posterior factors read from blocks
   of R are wrong). *)
Theorem C16_qr_rule_is_not_the_factor_derivative_refuted :
  meqb 2 2 (mmul 2 2 2 (mtr 2 2 wQ) wQ) (mid 2) = true /\
  meqb 2 2 (mmul 2 2 2 wQ wR) wM = true /\
  feqb (mget wR 1 0) (Q2Qc 0) = true /\
  feqb (mget (mmul 2 2 2 (mtr 2 2 wQ) wMd) 1 0) (Q2Qc 0) = false.
Proof. exact qr_jvp_is_not_triangular_refuted. Qed.

Print Assumptions C16_qr_rule_preserves_gram_derivative_partial.
Print Assumptions C16_qr_rule_is_not_the_factor_derivative_refuted.
