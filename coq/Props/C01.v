(* C01 -- PARTIAL.  The full statement (global error <= K tol for smooth IVPs;
   global order q+1) is a convergence theorem of numerical analysis and is not
   formalised.  Proved here: the algebraic core of the local order condition. *)
From Coq Require Import List Arith.
From PD Require Import Base.Field Base.Matrix Base.Solve Model.Gauss Model.Prior Spec.RTS
  Proofs.GaussProofs Proofs.FilterProofs Proofs.PriorProofs Proofs.OrderProofs Proofs.PolyExact.
Import ListNotations.

Section C01.
  Context {F : Type} `{FL : FieldLaws F}.

  (* the prediction mean is the Taylor polynomial of degree q of the current
     Taylor coefficients: (A(h) m)_i = sum_{j>=i} m_j h^(j-i)/(j-i)!  -- exact for
     solutions that are polynomials of degree <= q *)
  Theorem C01_prediction_is_taylor_shift_partial :
    forall q (h s2 : F) (rv : @normal F) i, h <> f0 -> i < S q ->
      mget (n_mean (c_marg (S q) (S q) 1 (iwp_transition_1d q 1 h s2) rv)) i 0
      = vsum (S q) (fun j => fmul (if Nat.leb i j then fdiv (fpow h (j - i)) (ffact (j - i)) else f0)
                                  (mget (n_mean rv) j 0)).
  Proof. exact prediction_is_taylor_shift. Qed.

  (* with zero innovation (the predicted state satisfies the linearised
     constraint exactly) the update leaves the mean unchanged, whatever the
     gain, covariance, output scale: zero local error on polynomials of degree <= q *)
  Theorem C01_zero_residual_update_keeps_mean_partial :
    forall inv n k c (Hm r R : @mat F) (rv upd : @normal F),
      (forall i a, i < k -> a < c ->
         mget (madd k c (mmul k n c Hm (n_mean rv)) r) i a = f0) ->
      kf_update inv n k c Hm r R rv = Some upd ->
      n_mean upd = canon n c (n_mean rv).
  Proof. exact zero_residual_update_keeps_mean. Qed.

  (* Taylor's formula for polynomials in the form the prediction uses it:
     sum_{k >= i} h^(k-i)/(k-i)! p^(k)(t) = p^(i)(t+h)  for deg p = D <= q *)
  Theorem C01_taylor_shift_is_exact_on_polynomials :
    forall (a : nat -> F) D q i (t h : F), D <= q -> i <= q ->
      vsum (S q) (fun k => fmul (if Nat.leb i k then dpow h (k - i) else f0) (pder a D k t))
      = pder a D i (fadd t h).
  Proof. exact taylor_shift_of_polynomial. Qed.

  (* EXACTNESS ON POLYNOMIAL SOLUTIONS, EVERY GRID: if the solution of u' = p'(t)
     is a polynomial of degree D <= q and the initial mean holds its exact
     derivatives, the textbook EKF (closed-form IWP prediction, update on the
     derivative selector; ARBITRARY step sizes, process noises, observation noises,
     initial covariance, inverse oracle) holds the exact derivatives at every node
     of every grid.  With C02 (solver step = EKF step) this is the zero-error case
     of the order statement. *)
  Theorem C01_filter_is_exact_on_polynomial_solutions :
    forall (a : nat -> F) D q (inv : nat -> @mat F -> option (@mat F)),
      1 <= q -> D <= q ->
      forall steps t (rv : @normal F) l,
        n_mean rv = exact_mean a D q t ->
        ekf_poly_grid a D q inv t rv steps = Some l ->
        Forall (fun tn => n_mean (snd tn) = exact_mean a D q (fst tn)) l.
  Proof. exact ekf_exact_on_polynomials_every_grid. Qed.
End C01.

Print Assumptions C01_prediction_is_taylor_shift_partial.
Print Assumptions C01_zero_residual_update_keeps_mean_partial.
Print Assumptions C01_taylor_shift_is_exact_on_polynomials.
Print Assumptions C01_filter_is_exact_on_polynomial_solutions.
