(* C01 -- PARTIAL.  The full statement (global error <= K tol for smooth IVPs;
   global order q+1) is a convergence theorem of numerical analysis and is not
   formalised.  Proved here: the algebraic core of the local order condition. *)
From Coq Require Import List Arith.
From PD Require Import Base.Field Base.Matrix Base.Solve Model.Gauss Model.Prior Spec.RTS
  Proofs.GaussProofs Proofs.FilterProofs Proofs.PriorProofs Proofs.OrderProofs.
Import ListNotations.

Section C01.
  Context {F : Type} `{FL : FieldLaws F}.

  (* the prediction mean is the Taylor polynomial of degree q of the current
     Taylor coefficients: (A(h) m)_i = sum_{j>=i} m_j h^(j-i)/(j-i)!  -- exact for
     solutions that are polynomials of degree <= q *)
  Theorem C01_prediction_is_taylor_shift_partial :
    forall q (h s2 : F) (rv : @normal F) i, h <> f0 -> i < S q ->
      mget (n_mean (c_marg (S q) (S q) 1 (iwp_transition_1d q 1 h s2) rv)) i 0
      = vsum (S q) (fun j => fmul (if Nat.leb i j then fdiv (fpow h (j - i)) (ffact (j - i)) else f0)
                                  (mget (n_mean rv) j 0)).
  Proof. exact prediction_is_taylor_shift. Qed.

  (* with zero innovation (the predicted state satisfies the linearised
     constraint exactly) the update leaves the mean unchanged, whatever the
     gain, covariance, output scale: zero local error on polynomials of degree <= q *)
  Theorem C01_zero_residual_update_keeps_mean_partial :
    forall inv n k c (Hm r R : @mat F) (rv upd : @normal F),
      (forall i a, i < k -> a < c ->
         mget (madd k c (mmul k n c Hm (n_mean rv)) r) i a = f0) ->
      kf_update inv n k c Hm r R rv = Some upd ->
      n_mean upd = canon n c (n_mean rv).
  Proof. exact zero_residual_update_keeps_mean. Qed.
End C01.

Print Assumptions C01_prediction_is_taylor_shift_partial.
Print Assumptions C01_zero_residual_update_keeps_mean_partial.
