(* C12 -- marginal-likelihood losses equal the exact Gaussian log-density of the data.

   Model/Loss.v transcribes loss_lml_timeseries / loss_lml_terminal_values,
   MarkovSequence.evaluate_lml (terminal update, reverse scan over the stored
   backward conditionals, running mean / running sum with a counter starting at
   1), remove_filtering_distributions, bayes_rule_and_logpdf_tree, to_derivative
   and logpdf_flat.  A Gaussian log-density  -1/2 (maha + c log det + k c log 2 pi)
   is represented by its exact rational data (maha, det) [dterm]; the recursion
   is run on an arbitrary valuation  val : dterm -> F  of these terms.

   Proved here (any field of characteristic 0, all sizes):
     T12.1  the accumulator returns the arithmetic mean / the sum of the term
            values, for every number of terms; evaluate_lml is this mean / sum of
            the values of one density term per time point;
     T12.2  every density term is (r^T S^-1 r, det S) with S^-1 a certified
            two-sided inverse; one step of the recursion is "predict through the
            stored backward conditional, then condition on the datum": the term
            is the density of the datum under the marginalised observation
            model, the carried state is Gauss.bayes_rule (C02: the Kalman
            update), and (observed marginal, reverted conditional) reproduce the
            predicted distribution (observation models of to_derivative have unit
            scalings, so the non-vanishing side conditions hold);
     T12.3  chain rule for TWO time points with scalar observations: the
            density term of the joint Gaussian of (y0, y1) factors into the term
            of the marginal of y1 and the term of the conditional of y0 given y1
            (maha_joint = maha_1 + maha_{0|1}, det_joint = det_1 * det_{0|1});
            and the two terms that the MODEL's time-series loss produces for two
            time points (one scalar-observation block, any state dimension, any
            backward conditional) are exactly these, with the joint assembled
            from the Markov factorisation (plain backward gain) plus noise.
   NOT proved (hence `_partial`): the chain rule for N > 2 time points / vector
   observations (block LDL of the (N k) x (N k) joint covariance).  For general N
   the correspondence check (harness/c12.py) compares the recursion with the
   direct joint density -- as exact rationals -- on every generated case. *)
From Coq Require Import List Arith.
From PD Require Import Base.Field Base.Matrix Base.Solve Model.Gauss Model.Poly
  Model.Prior Model.Solver Model.Loss Proofs.GaussProofs Proofs.LossProofs.
Import ListNotations.

Section C12.
  Context {F : Type} `{FL : FieldLaws F}.
  Local Open Scope F_scope.

  (* T12.1a: running sum.  After the first term l1 (counter 1) and the further
     terms ls, the accumulator holds the sum of all terms and their number. *)
  Theorem C12_accumulator_sum :
    forall (l1 : F) (ls : list F),
      fold_left (acc_step false) ls (l1, 1%nat) = (lsumF (l1 :: ls), length (l1 :: ls)).
  Proof. exact accumulator_sum. Qed.

  (* T12.1b: running mean  (logpdf * n + logpdf_n) / (n + 1)  =  arithmetic mean
     of all terms, for every number of terms and all values. *)
  Theorem C12_accumulator_mean :
    forall (l1 : F) (ls : list F),
      fold_left (acc_step true) ls (l1, 1%nat)
      = (lsumF (l1 :: ls) / fnat (length (l1 :: ls)), length (l1 :: ls)).
  Proof. exact accumulator_mean. Qed.

  (* T12.1c: the value of evaluate_lml (any inverse oracle, any valuation of the
     density terms, any shape / number of time points) is the mean resp. the sum
     over the time points of the values of the density terms that the recursion
     produces (evaluate_lml_terms), exactly one term list per time point. *)
  Theorem C12_evaluate_lml_is_mean_or_sum_of_terms :
    forall (inv : nat -> @mat F -> option (@mat F)) (val : @dterm F -> F) (avg : bool) (s : shape)
           (term : list (@normal F)) (conds : list (list (@cond F)))
           (us : list (list (@mat F))) (models : list (list (@cond F))) (v : F),
      evaluate_lml inv val avg s term conds us models = Some v ->
      exists terms,
        evaluate_lml_terms inv s term conds us models = Some terms
        /\ length terms = S (length conds)
        /\ v = if avg then lsumF (map (f_logpdf val) terms) / fnat (length terms)
               else lsumF (map (f_logpdf val) terms).
  Proof. exact evaluate_lml_mean_or_sum. Qed.

  (* T12.2a: a density term is the quadratic form through a certified two-sided
     inverse of the covariance and the (Laplace) determinant of the covariance. *)
  Theorem C12_density_term_is_certified :
    forall k c (rv : @normal F) (u : @mat F) (t : @dterm F),
      n_density minv k c rv u = Some t ->
      exists Si,
        mmul k k k (n_cov rv) Si = mid k /\ mmul k k k Si (n_cov rv) = mid k
        /\ d_maha t = vsum c (fun a => vsum k (fun i =>
                        mget (msub k c u (n_mean rv)) i a
                        * mget (mmul k k c Si (msub k c u (n_mean rv))) i a))
        /\ d_det t = mdet k (n_cov rv) /\ d_k t = k /\ d_c t = c.
  Proof. exact n_density_certified. Qed.

  (* T12.2b: bayes_rule_and_logpdf. *)
  Theorem C12_bayes_rule_and_logpdf_is_density_and_bayes_update :
    forall (inv : nat -> @mat F -> option (@mat F)) nin k c (M : @cond F) (u : @mat F)
           (rv : @normal F) t upd,
      bayes_rule_and_logpdf inv nin k c M u rv = Some (t, upd) ->
      n_density inv k c (c_marg nin k c M rv) u = Some t
      /\ bayes_rule inv nin k c M u rv = Some (c_marg nin k c M rv, upd)
      /\ exists bw,
           c_revert inv nin k c M rv = Some (c_marg nin k c M rv, bw)
           /\ upd = c_apply k nin c bw u
           /\ ((forall i, i < nin -> vget (c_tl M) i <> 0) ->
               (forall i, i < k -> vget (c_to M) i <> 0) ->
               c_marg k nin c bw (c_marg nin k c M rv)
               = mkN (canon nin c (n_mean rv)) (canon nin nin (n_cov rv))).
  Proof. exact bayes_rule_and_logpdf_spec. Qed.

  (* T12.2c: one step of the scan (per block): the stored backward conditional K
     predicts, the observation model M conditions. *)
  Theorem C12_step_is_predict_then_condition :
    forall (inv : nat -> @mat F -> option (@mat F)) N k c (K M : @cond F) (u : @mat F)
           (prev : @normal F) t upd,
      bayes_rule_and_logpdf inv N k c M u (c_marg N N c K prev) = Some (t, upd) ->
      let predicted := c_marg N N c K prev in
      n_density inv k c (c_marg N k c M predicted) u = Some t
      /\ bayes_rule inv N k c M u predicted = Some (c_marg N k c M predicted, upd).
  Proof. exact lml_step_is_predict_then_condition. Qed.

  (* T12.2d: the observation models of to_derivative have unit scalings. *)
  Theorem C12_to_derivative_has_unit_scalings :
    forall (s : shape) (i : nat) (std2 : list F) (M : @cond F),
      In M (to_derivative s i std2) ->
      c_tl M = vones (sh_N s) /\ c_to M = vones (sh_nout s).
  Proof. exact to_derivative_unit_scalings. Qed.

  (* T12.3 (partial: two time points, scalar observations).
     (y0, y1) ~ N((m0, m1), [[s00, s01], [s01, s11]]).  The density term of the
     joint equals the term of y1 ~ N(m1, s11) combined with the term of
     y0 | y1 ~ N(m0 + s01/s11 (y1 - m1), s00 - s01^2/s11). *)
  Theorem C12_chain_rule_two_points_partial :
    forall (m0 m1 s00 s01 s11 y0 y1 : F) (tj t1 t0 : @dterm F),
      let joint := mkN [[m0]; [m1]] [[s00; s01]; [s01; s11]] in
      let marg1 := mkN [[m1]] [[s11]] in
      let cond0 := mkN [[m0 + s01 / s11 * (y1 - m1)]] [[s00 - s01 * (s01 / s11)]] in
      n_density minv 2 1 joint [[y0]; [y1]] = Some tj ->
      n_density minv 1 1 marg1 [[y1]] = Some t1 ->
      n_density minv 1 1 cond0 [[y0]] = Some t0 ->
      d_maha tj = d_maha t1 + d_maha t0 /\ d_det tj = d_det t1 * d_det t0.
  Proof. exact chain_rule_two_points. Qed.

  (* T12.3 at the level of the model (partial: two time points, one block with
     scalar observations -- a block of the block-diagonal factorisation; state
     dimension q+1, backward conditional K with arbitrary scalings, observed
     coefficient i, noise variances r0, r1, data y0, y1 all arbitrary).
     The two density terms that the time-series loss produces (terminal update,
     then predict through K and update) combine to the density term of the JOINT
     Gaussian of (y0, y1) assembled from the Markov factorisation
       x1 ~ N(mu, P),  x0 | x1 given by K,  Cov(x0, x1) = A_plain P  (plain gain),
       y_j = (x_j)_i + N(0, r_j)
     -- i.e. the loss is the log-density under the joint smoothing posterior
     plus independent noise, for N = 2. *)
  Theorem C12_two_point_loss_is_joint_density_partial :
    forall q i (K : @cond F) (mu P : @mat F) (r0 r1 y0 y1 : F) (terms : list (list (@dterm F))),
      i <= q ->
      (forall a b, a < S q -> b < S q -> mget P a b = mget P b a) ->
      let s := mkShape BlockDiag q 1 in
      let N := S q in
      loss_lml_timeseries_terms minv s i [[[[y0]]]; [[[y1]]]] (mkMS (Single [mkN mu P]) [[K]]) [[r0]; [r1]]
        = Some terms ->
      let x0 := c_marg N N 1 K (mkN mu P) in
      let m1 := mget mu i 0 in
      let m0 := mget (n_mean x0) i 0 in
      let s11 := mget P i i + r1 in
      let s00 := mget (n_cov x0) i i + r0 in
      let s01 := vsum N (fun l => mget (c_A (c_plain N N 1 K)) i l * mget P l i) in
      exists t1 t0,
        terms = [[t1]; [t0]]
        /\ forall tj,
             n_density minv 2 1 (mkN [[m0]; [m1]] [[s00; s01]; [s01; s11]]) [[y0]; [y1]] = Some tj ->
             d_maha tj = d_maha t1 + d_maha t0 /\ d_det tj = d_det t1 * d_det t0.
  Proof. exact two_point_loss_terms_are_joint_density. Qed.
End C12.

Print Assumptions C12_accumulator_sum.
Print Assumptions C12_accumulator_mean.
Print Assumptions C12_evaluate_lml_is_mean_or_sum_of_terms.
Print Assumptions C12_density_term_is_certified.
Print Assumptions C12_bayes_rule_and_logpdf_is_density_and_bayes_update.
Print Assumptions C12_step_is_predict_then_condition.
Print Assumptions C12_to_derivative_has_unit_scalings.
Print Assumptions C12_chain_rule_two_points_partial.
Print Assumptions C12_two_point_loss_is_joint_density_partial.
