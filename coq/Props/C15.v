(* C15 placeholder during construction *)
From PD Require Import Base.Field Base.Matrix.
