(* C15 -- Results are invariant under pytree structure and permutation
   (proof part; PARTIAL).

   Model/Ravel.v: a pytree is an ordered tree with array leaves (shape + entries
   in C order), a Taylor-coefficient structure is a list of n such trees with
   one common shape tree s (d = size s flat components), and the three
   state-space factorisations ravel it as
     dense      concatenation of the ravelled coefficients     (n*d,)
     isotropic  stack of the ravelled coefficients             (n, d)
     blockdiag  the transpose of that                          (d, n)
   (DenseTreeFlatten / IsotropicTreeFlatten / BlockDiagTreeFlatten).

   Proved for ALL trees, shapes, n, d, entry types:
     T15.1  unflatten_array (flatten_tree x) = x  in the three orders, and
            flatten_tree (unflatten_array v) = v  (so means/stds come back in
            the caller's structure, nothing is lost or reordered)
     T15.2  isotropic[i][a] = dense[i*d + a] = blockdiag[a][i], with the array
            shapes (n*d,), (n,d), (d,n)
     T15.3  re-indexing the flat components by sigma (a permutation, or any map
            into 0..d-1) re-indexes the three ravels consistently.

   NOT PROVED, AND NOT PROVABLE IN A GALLINA MODEL: that compiling with jax.jit
   or batching with jax.vmap gives the same numbers as eager, one-at-a-time
   execution (including adaptive solves whose batch members take different
   numbers of steps).  These are runtime properties of JAX/XLA; they are
   checked on the real implementation by harness/c15.py only.  The theorem
   names below carry the suffix _partial for this reason: each is a complete
   theorem about the ravel orders, but together they cover only the
   pytree/permutation half of C15. *)
From Coq Require Import List Arith.
From PD Require Import Model.Ravel Proofs.RavelProofs.
Import ListNotations.

Section C15.
  Context {A : Type}.
  Variable dflt : A.

  (* ---- T15.1: round trips ---- *)
  Theorem C15_unravel_ravel_one_tree_partial :
    forall t : tree A, wf t -> fst (unravel (shape_of t) (ravel_tree t)) = t.
  Proof. exact unravel_ravel_tree. Qed.

  Theorem C15_unravel_ravel_dense_partial :
    forall (s : stree) (x : list (tree A)),
      coeffs_ok s x -> unravel_dense s (length x) (ravel_dense x) = x.
  Proof. exact unravel_ravel_dense. Qed.

  Theorem C15_unravel_ravel_isotropic_partial :
    forall (s : stree) (x : list (tree A)),
      coeffs_ok s x -> unravel_iso s (ravel_iso x) = x.
  Proof. exact unravel_ravel_iso. Qed.

  Theorem C15_unravel_ravel_blockdiag_partial :
    forall (s : stree) (x : list (tree A)),
      coeffs_ok s x -> unravel_blockdiag dflt s (length x) (ravel_blockdiag dflt s x) = x.
  Proof. exact (unravel_ravel_blockdiag dflt). Qed.

  (* the other direction: any (n, d) array is the ravel of its unravel, and the
     unravel has the caller's shape tree *)
  Theorem C15_ravel_unravel_isotropic_partial :
    forall (s : stree) (M : list (list A)),
      Forall (fun r => length r = size s) M ->
      ravel_iso (unravel_iso s M) = M /\ coeffs_ok s (unravel_iso s M).
  Proof. exact ravel_unravel_iso_both. Qed.

  (* ---- T15.2: the three orders hold the same numbers ---- *)
  Theorem C15_ravel_orders_agree_partial :
    forall (s : stree) (x : list (tree A)) i a,
      coeffs_ok s x -> i < length x -> a < size s ->
      nth a (nth i (ravel_iso x) []) dflt = nth (i * size s + a) (ravel_dense x) dflt
      /\ nth a (nth i (ravel_iso x) []) dflt = nth i (nth a (ravel_blockdiag dflt s x) []) dflt.
  Proof. exact (ravel_orders_agree dflt). Qed.

  Theorem C15_ravel_shapes_partial :
    forall (s : stree) (x : list (tree A)),
      coeffs_ok s x ->
      length (ravel_dense x) = length x * size s
      /\ (length (ravel_iso x) = length x /\ Forall (fun r => length r = size s) (ravel_iso x))
      /\ (length (ravel_blockdiag dflt s x) = size s
          /\ Forall (fun r => length r = length x) (ravel_blockdiag dflt s x)).
  Proof. exact (ravel_shapes dflt). Qed.

  (* ---- T15.3: permuting the state components permutes the ravel ---- *)
  Theorem C15_permuted_structure_is_well_formed_partial :
    forall sigma (s : stree) (x : list (tree A)),
      coeffs_ok s (permute_coeffs dflt sigma s x)
      /\ length (permute_coeffs dflt sigma s x) = length x.
  Proof. exact (permute_coeffs_ok dflt). Qed.

  Theorem C15_isotropic_ravel_of_permuted_partial :
    forall sigma (s : stree) (x : list (tree A)),
      ravel_iso (permute_coeffs dflt sigma s x)
      = map (reindex dflt sigma (size s)) (ravel_iso x).
  Proof. exact (ravel_iso_permuted dflt). Qed.

  Theorem C15_dense_ravel_of_permuted_partial :
    forall sigma (s : stree) (x : list (tree A)) i a,
      coeffs_ok s x -> i < length x -> a < size s -> sigma a < size s ->
      nth (i * size s + a) (ravel_dense (permute_coeffs dflt sigma s x)) dflt
      = nth (i * size s + sigma a) (ravel_dense x) dflt.
  Proof. exact (ravel_dense_permuted dflt). Qed.

  Theorem C15_blockdiag_ravel_of_permuted_partial :
    forall sigma (s : stree) (x : list (tree A)),
      (forall a, a < size s -> sigma a < size s) ->
      ravel_blockdiag dflt s (permute_coeffs dflt sigma s x)
      = map (fun a => nth (sigma a) (ravel_blockdiag dflt s x) []) (seq 0 (size s)).
  Proof. exact (ravel_blockdiag_permuted dflt). Qed.
End C15.

Print Assumptions C15_unravel_ravel_one_tree_partial.
Print Assumptions C15_unravel_ravel_dense_partial.
Print Assumptions C15_unravel_ravel_isotropic_partial.
Print Assumptions C15_unravel_ravel_blockdiag_partial.
Print Assumptions C15_ravel_unravel_isotropic_partial.
Print Assumptions C15_ravel_orders_agree_partial.
Print Assumptions C15_ravel_shapes_partial.
Print Assumptions C15_permuted_structure_is_well_formed_partial.
Print Assumptions C15_isotropic_ravel_of_permuted_partial.
Print Assumptions C15_dense_ravel_of_permuted_partial.
Print Assumptions C15_blockdiag_ravel_of_permuted_partial.
