(* C13 -- Posterior samples are exact affine images of the normal draws.
   Model/Sample.v: MarkovSequence.sample (shape = ()) per block: the initial
   (terminal if reverse) sample  m0 + L0 z0  followed by the scan
   x <- cond.apply_flat(x).mean + L z  over the stored conditionals
   (with their diagonal scalings to_latent / to_observed); the Cholesky factors
   L are inputs (ANY matrices; the Gram theorems assume L L^T = to Q to), the
   draws are inputs, consumed in list order (key splitting).  One block covers
   dense (n = (q+1)d, c = 1, draws n x 1), isotropic (n = q+1, c = d, draws
   n x d: one independent column per state dimension) and every block of the
   block-diagonal model (n = q+1, c = 1, own draws).  back_marginals / seq_marginals = iterated
   c_marg = MarkovSequence.evaluate_marginals (solution.u of the smoothers, see
   C13_marginals_are_the_solver_marginals).  All statements: arbitrary field,
   all shapes, all chain lengths, all matrices (any lists), all scalings. *)
From Coq Require Import List Arith.
From PD Require Import Base.Field Base.Matrix Base.Solve Model.Gauss Model.Poly Model.Prior
  Model.Solver Model.Sample Proofs.SampleProofs.
Import ListNotations.

Section C13.
  Context {F : Type} `{FL : FieldLaws F}.

  (* T13.1 (reverse chain = smoothing posterior): with all draws zero the sample
     equals the backward-marginalised means at every time point *)
  Theorem C13_zero_draws_give_smoothing_means :
    forall n c (term : @normal F) (L0 : @mat F) (conds : list (@cond F)) (Ls : list (@mat F))
           (z0 : @mat F) (zs : list (@mat F)),
      length Ls = length conds -> length zs = length conds ->
      (forall i a, i < n -> a < c -> mget z0 i a = f0) ->
      Forall (fun z => forall i a, i < n -> a < c -> mget z i a = f0) zs ->
      markov_sample true n c (n_mean term) L0 conds Ls (z0 :: zs)
      = Some (map (fun rv => canon n c (n_mean rv)) (back_marginals n c conds term)).
  Proof. exact zero_draws_give_backward_means. Qed.

  (* T13.1 forward chain (MarkovSequence.from_grid(prior, reverse=False)) *)
  Theorem C13_zero_draws_give_prior_means :
    forall n c (init : @normal F) (L0 : @mat F) (conds : list (@cond F)) (Ls : list (@mat F))
           (z0 : @mat F) (zs : list (@mat F)),
      length Ls = length conds -> length zs = length conds ->
      (forall i a, i < n -> a < c -> mget z0 i a = f0) ->
      Forall (fun z => forall i a, i < n -> a < c -> mget z i a = f0) zs ->
      markov_sample false n c (n_mean init) L0 conds Ls (z0 :: zs)
      = Some (map (fun rv => canon n c (n_mean rv)) (seq_marginals false n c conds init)).
  Proof. exact zero_draws_give_forward_means. Qed.

  (* T13.2a the sample is affine in the draws, both directions:
     sample(z) = sample(0) + lin(z), where lin is the sample of the chain with all
     offsets removed (c_nooff) and zero initial mean -- the linear map does not
     depend on the offsets or the initial mean *)
  Theorem C13_sample_is_affine_in_the_draws :
    forall n c (reverse : bool) (m0 L0 : @mat F) (conds : list (@cond F)) (Ls : list (@mat F))
           (z0 : @mat F) (zs : list (@mat F)),
      length Ls = length conds -> length zs = length conds ->
      exists s0 sl,
        markov_sample reverse n c m0 L0 conds Ls (zeros_like n c (z0 :: zs)) = Some s0 /\
        markov_sample reverse n c (mzero n c) L0 (map (c_nooff n c) conds) Ls (z0 :: zs) = Some sl /\
        markov_sample reverse n c m0 L0 conds Ls (z0 :: zs) = Some (zipw (madd n c) s0 sl).
  Proof. exact sample_is_affine. Qed.

  (* T13.2b the linear part is the block matrix rev_rows: sample k (time order)
     = sum_t W_{k,t} z_t over the draws (n x c matrices) in time order, with
     W_{k,t} = G_k ... G_{t-1} L_t (t >= k), 0 (t < k), G = plain gain *)
  Theorem C13_posterior_linear_map_is_rev_rows :
    forall n c (L0 : @mat F) (conds : list (@cond F)) (Ls : list (@mat F))
           (z0 : @mat F) (zs : list (@mat F)),
      length Ls = length conds -> length zs = length conds ->
      markov_sample true n c (mzero n c) L0 (map (c_nooff n c) conds) Ls (z0 :: zs)
      = Some (map (fun row => wsum n c row (rev zs ++ [z0]))
                  (rev_rows n (combine conds Ls) L0)).
  Proof. exact reverse_sample_linear_map. Qed.

  (* T13.2c Gram matrix of that block matrix = joint covariance of the backward
     Markov factorisation, ALL blocks k <= j:
       sum_t W_{k,t} W_{j,t}^T = G_k (G_{k+1} (... G_{j-1} Cov_j)),
     Cov_j = covariance of the j-th backward-marginalised marginal *)
  Theorem C13_posterior_gram_is_joint_covariance :
    forall n c (conds : list (@cond F)) (Ls : list (@mat F)) (LN : @mat F) (term : @normal F),
      length Ls = length conds ->
      Forall (fun s => mmul n n n (snd s) (mtr n n (snd s))
                       = dsand n (c_to (fst s)) (c_Q (fst s))) (combine conds Ls) ->
      mmul n n n LN (mtr n n LN) = canon n n (n_cov term) ->
      forall k j, k <= j -> j <= length conds ->
      let rows := rev_rows n (combine conds Ls) LN in
      cross_sum n (nth k rows []) (nth j rows [])
      = gains_apply n (map (gain n) (firstn (j - k) (skipn k conds)))
          (canon n n (n_cov (nth j (back_marginals n c conds term) term))).
  Proof. exact reverse_gram_is_joint_cov. Qed.

  (* special cases written out: diagonal blocks ... *)
  Theorem C13_posterior_gram_diagonal_blocks :
    forall n c (conds : list (@cond F)) (Ls : list (@mat F)) (LN : @mat F) (term : @normal F),
      length Ls = length conds ->
      Forall (fun s => mmul n n n (snd s) (mtr n n (snd s))
                       = dsand n (c_to (fst s)) (c_Q (fst s))) (combine conds Ls) ->
      mmul n n n LN (mtr n n LN) = canon n n (n_cov term) ->
      forall k, k <= length conds ->
      let rows := rev_rows n (combine conds Ls) LN in
      cross_sum n (nth k rows []) (nth k rows [])
      = canon n n (n_cov (nth k (back_marginals n c conds term) term)).
  Proof. exact reverse_gram_diagonal. Qed.

  (* ... and adjacent cross blocks Cov(x_k, x_{k+1}) = G_k Cov_{k+1} *)
  Theorem C13_posterior_gram_adjacent_blocks :
    forall n c (conds : list (@cond F)) (Ls : list (@mat F)) (LN : @mat F) (term : @normal F),
      length Ls = length conds ->
      Forall (fun s => mmul n n n (snd s) (mtr n n (snd s))
                       = dsand n (c_to (fst s)) (c_Q (fst s))) (combine conds Ls) ->
      mmul n n n LN (mtr n n LN) = canon n n (n_cov term) ->
      forall k, S k <= length conds ->
      let rows := rev_rows n (combine conds Ls) LN in
      cross_sum n (nth k rows []) (nth (S k) rows [])
      = mmul n n n (gain n (nth k conds (mkC [] [] [] [] [])))
          (canon n n (n_cov (nth (S k) (back_marginals n c conds term) term))).
  Proof. exact reverse_gram_adjacent. Qed.

  (* T13.3 forward chain (prior on a grid): linear map ... *)
  Theorem C13_prior_linear_map_is_fwd_rows :
    forall n c (L0 : @mat F) (conds : list (@cond F)) (Ls : list (@mat F))
           (z0 : @mat F) (zs : list (@mat F)),
      length Ls = length conds -> length zs = length conds ->
      markov_sample false n c (mzero n c) L0 (map (c_nooff n c) conds) Ls (z0 :: zs)
      = Some (zipw (fun row zr => wsum n c row zr)
                   ([L0] :: fwd_rows_from n [L0] (combine conds Ls))
                   ([z0] :: fwd_draws [z0] zs)).
  Proof. exact forward_sample_linear_map. Qed.

  (* ... whose diagonal Gram blocks follow Cov_{k+1} = A Cov_k A^T + Q, i.e. are
     the covariances of the forward marginals ... *)
  Theorem C13_prior_gram_diagonal_blocks :
    forall n c (conds : list (@cond F)) (Ls : list (@mat F)) (L0 : @mat F) (init : @normal F),
      length Ls = length conds ->
      Forall (fun s => mmul n n n (snd s) (mtr n n (snd s))
                       = dsand n (c_to (fst s)) (c_Q (fst s))) (combine conds Ls) ->
      mmul n n n L0 (mtr n n L0) = canon n n (n_cov init) ->
      map (fun r => cross_sum n r r) ([L0] :: fwd_rows_from n [L0] (combine conds Ls))
      = map (fun rv => canon n n (n_cov rv)) (seq_marginals false n c conds init).
  Proof. exact forward_gram_diagonal. Qed.

  (* ... and Cov(x_{k+1}, x_k) = G_k Cov_k (non-adjacent forward cross blocks are
     not stated) *)
  Theorem C13_prior_gram_adjacent_block_partial :
    forall n (K : @cond F) (L : @mat F) (row : list (@mat F)) r,
      cross_sum n (tl (hd [] (fwd_rows_from n row ((K, L) :: r)))) row
      = mmul n n n (gain n K) (cross_sum n row row).
  Proof. exact fwd_adjacent_cross. Qed.

  (* the per-block marginals above are the blocks of the solver model's
     backward_marginals (Model/Solver.v, = solution.u of the smoothers) *)
  Theorem C13_marginals_are_the_solver_marginals :
    forall (s : shape) (conds : list (list (@cond F))) (term : list (@normal F)) a
           (dn : @normal F) (dc : @cond F),
      a < length term -> Forall (fun K => a < length K) conds ->
      map (fun m => nth a m dn) (backward_marginals s conds term)
      = back_marginals (sh_N s) (sh_c s) (map (fun K => nth a K dc) conds) (nth a term dn).
  Proof. exact solver_backward_marginals_blockwise. Qed.

  (* Isotropic layout (c = d columns = state dimensions): column a of every
     sample of the linear part is the SAME block matrix rev_rows applied to
     column a of the draws alone: the dimensions share the map, not the noise ... *)
  Theorem C13_isotropic_columns_are_independent :
    forall n c (L0 : @mat F) (conds : list (@cond F)) (Ls : list (@mat F))
           (z0 : @mat F) (zs : list (@mat F)) xs,
      length Ls = length conds -> length zs = length conds ->
      markov_sample true n c (mzero n c) L0 (map (c_nooff n c) conds) Ls (z0 :: zs) = Some xs ->
      forall a, a < c ->
      map (mcol n a) xs
      = map (fun row => wsum n 1 row (map (mcol n a) (rev zs ++ [z0])))
            (rev_rows n (combine conds Ls) L0).
  Proof. exact sample_columns_independent. Qed.

  (* ... so, with C13_posterior_gram_is_joint_covariance for the common block
     matrix, the Gram matrix over the flattened n x c state is (joint covariance)
     (x) I_c.  Written out for one sample_flat with the unit draws e_{l,b}:
     sum_{l,b} M[(i,a),(l,b)] M[(i',a'),(l,b)] = (L L^T)[i,i'] * [a = a'] *)
  Theorem C13_sample_flat_gram_is_cov_kron_identity :
    forall n c (L : @mat F) i i' a a',
      i < n -> i' < n -> a < c -> a' < c ->
      vsum n (fun l => vsum c (fun b =>
        fmul (mget (n_sample n c (mzero n c) L (unit_draw n c l b)) i a)
             (mget (n_sample n c (mzero n c) L (unit_draw n c l b)) i' a')))
      = fmul (mget (mmul n n n L (mtr n n L)) i i') (delta a a').
  Proof. exact sample_flat_gram_is_kronecker. Qed.

  (* Documentation of the repaired defect (/repo 3219804, finding
     C13.iso.gram.cross-dimension): the former IsotropicNormal.sample_flat
     (n_sample_shared: ONE draw of length n broadcast to all c columns) has the
     Gram entry Cov[i,i] between two different columns, where Cov (x) I_c has 0 *)
  Theorem C13_shared_draw_variant_cross_dimension_gram_refuted :
    exists (n c : nat) (L0 Cov : @mat F) (i a b : nat),
      i < n /\ a < c /\ b < c /\ a <> b /\
      mmul n n n L0 (mtr n n L0) = canon n n Cov /\
      vsum n (fun l => fmul (mget (n_sample_shared n c (mzero n c) L0 (unit_draw n 1 l 0)) i a)
                            (mget (n_sample_shared n c (mzero n c) L0 (unit_draw n 1 l 0)) i b))
      = mget Cov i i /\
      mget Cov i i <> f0.
  Proof. exact shared_draw_cross_dimension_gram_refuted. Qed.
End C13.

Print Assumptions C13_zero_draws_give_smoothing_means.
Print Assumptions C13_zero_draws_give_prior_means.
Print Assumptions C13_sample_is_affine_in_the_draws.
Print Assumptions C13_posterior_linear_map_is_rev_rows.
Print Assumptions C13_posterior_gram_is_joint_covariance.
Print Assumptions C13_posterior_gram_diagonal_blocks.
Print Assumptions C13_posterior_gram_adjacent_blocks.
Print Assumptions C13_prior_linear_map_is_fwd_rows.
Print Assumptions C13_prior_gram_diagonal_blocks.
Print Assumptions C13_prior_gram_adjacent_block_partial.
Print Assumptions C13_marginals_are_the_solver_marginals.
Print Assumptions C13_isotropic_columns_are_independent.
Print Assumptions C13_sample_flat_gram_is_cov_kron_identity.
Print Assumptions C13_shared_draw_variant_cross_dimension_gram_refuted.
