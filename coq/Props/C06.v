(* C06 -- Adaptive step control is safe for every accept/reject history.

   Statements only; every theorem is closed by [exact <lemma>] and followed by
   Print Assumptions.  The machine is Model/Control.v (a transcription of
   RejectionLoop / advance / scan of solvers_via_adaptive_steps.py and of
   controllers.py); solver, error estimator and real-exponent power are
   arbitrary oracles subject only to the contracts listed as hypotheses.
   Everything is conditional on the fuel sufficing ([run ... = Some _]); T06.9 at
   the end shows that sufficient fuel exists for the rejection loop. *)
From Coq Require Import List QArith Bool Lqa.
From PD Require Import Model.Control Proofs.ControlProofs Generated.Constants
  Proofs.ControlShipped Proofs.ControlTermination.
Import ListNotations.
Local Open Scope Q_scope.

Section C06.
  (* ---- oracles: ANY solver / error estimator / interpolation ---- *)
  Variable S E : Type.
  Variable time : S -> Q.
  Variable nsteps : S -> nat.
  Variable sstep : S -> Q -> S.
  Variable est : E -> S -> S -> Q -> Q * E.
  Variable interp interp_at : Q -> S -> S -> S * (S * S).
  Variable einit : E.
  Variable clip_dt : bool.
  Variable eps : Q.

  Hypothesis Hstep_time : forall s dt, time (sstep s dt) == time s + dt.
  Hypothesis Hstep_n : forall s dt, nsteps (sstep s dt) = Datatypes.S (nsteps s).
  Hypothesis Hinterp : forall t a b,
      time (fst (interp t a b)) == t /\
      time (fst (snd (interp t a b))) == time b /\
      time (snd (snd (interp t a b))) == t /\
      nsteps (fst (interp t a b)) = nsteps b /\
      nsteps (fst (snd (interp t a b))) = nsteps b.
  Hypothesis Hinterp_at : forall t a b,
      time (fst (interp_at t a b)) == time b /\
      time (fst (snd (interp_at t a b))) == time b /\
      time (snd (snd (interp_at t a b))) == time b /\
      nsteps (fst (interp_at t a b)) = nsteps b /\
      nsteps (fst (snd (interp_at t a b))) = nsteps b.
  Hypothesis Heps : 0 <= eps.

  (* ---- an arbitrary admissible controller ---- *)
  Variable capply : Q -> Q -> Q -> Q * Q.
  Variable cinit acc_init fmin fmax : Q.
  Variable CI : Q -> Prop.
  Hypothesis Hcinit : CI cinit.
  Hypothesis Hctrl : forall dt c pow, 0 < dt -> CI c ->
      fmin * dt <= fst (capply dt c pow) <= fmax * dt /\
      (pow < 1 -> fst (capply dt c pow) < dt /\ snd (capply dt c pow) = c) /\
      CI (snd (capply dt c pow)).
  Hypothesis Hfmin : 0 < fmin.
  Hypothesis Hacc : acc_init < 1.

  (* ---- a complete run: save_at = time s0 :: cps ---- *)
  Variables (fuel fuel_rej : nat) (s0 : S) (dt0 : Q) (cps : list Q).
  Variables (sols : list S) (sN : TS S E).
  Hypothesis Hdt0 : 0 < dt0.
  Hypothesis Hsorted : sorted_from (time s0) cps.
  Hypothesis Hrun :
    run S E time nsteps sstep est interp interp_at capply cinit einit clip_dt
        eps acc_init fuel fuel_rej s0 dt0 cps = Some (sols, sN).

  (* T06.1  Time advances only through attempts that passed the acceptance
     test: in the complete event trace every EvAccept is immediately preceded
     by the EvAttempt it promotes, that attempt has error_power >= 1 and the
     new time is tfrom + dt; no attempt follows an accept directly; and the
     solver's current time is a function of the accepted events alone.
     A rejected attempt (error_power < 1) is followed by an attempt from the
     SAME time with dt' <= proposed < dt (strictly smaller). *)
  Theorem C06_time_advances_only_by_accepted_attempts :
    chain_ok (ts_trace S E sN) /\
    time (ts_step_from S E sN) == cur_time (time s0) (ts_trace S E sN).
  Proof.
    exact (time_advances_only_by_accepted_attempts S E time nsteps sstep est
             interp interp_at capply cinit einit clip_dt eps acc_init fmin fmax
             Hstep_time Hstep_n Hinterp Hinterp_at CI Hcinit Hctrl Hfmin Heps
             Hacc fuel fuel_rej s0 dt0 cps sols sN Hdt0 Hsorted Hrun).
  Qed.

  (* T06.2-4,6  Every event of every run satisfies:
     attempt : 0 < dt, fmin*dt <= proposal <= fmax*dt, the attempt starts
               strictly before t1 - eps, with clipping tfrom + dt <= t1, and a
               rejected attempt proposes strictly less than it attempted;
     beyond  : interp_from.t <= t1 and t1 + eps < step_from.t
               (the interpolation time lies between the two states);
     at      : interp_from.t <= step_from.t and |step_from.t - t1| <= eps;
     report  : |solution.t - t1| <= eps. *)
  Theorem C06_every_event_is_safe :
    Forall (ev_ok clip_dt eps fmin fmax) (ts_trace S E sN).
  Proof.
    exact (every_event_is_safe S E time nsteps sstep est
             interp interp_at capply cinit einit clip_dt eps acc_init fmin fmax
             Hstep_time Hstep_n Hinterp Hinterp_at CI Hcinit Hctrl Hfmin Heps
             Hacc fuel fuel_rej s0 dt0 cps sols sN Hdt0 Hsorted Hrun).
  Qed.

  (* T06.5  Every requested time is reported exactly once, in order, at that
     time up to eps. *)
  Theorem C06_every_checkpoint_reported_once_in_order :
    Forall2 (fun sol c => c - eps <= time sol <= c + eps) sols cps /\
    rev (reports (ts_trace S E sN)) = cps.
  Proof.
    exact (every_checkpoint_reported_once_in_order S E time nsteps sstep est
             interp interp_at capply cinit einit clip_dt eps acc_init fmin fmax
             Hstep_time Hstep_n Hinterp Hinterp_at CI Hcinit Hctrl Hfmin Heps
             Hacc fuel fuel_rej s0 dt0 cps sols sN Hdt0 Hsorted Hrun).
  Qed.

  (* T06.7  The step count of every reported solution, and of the final state,
     equals the number of accepted attempts up to that point. *)
  Theorem C06_step_count_is_number_of_accepted_attempts :
    reports_count_ok (nsteps s0) (ts_trace S E sN) /\
    nsteps (ts_step_from S E sN)
    = (nsteps s0 + count_acc (ts_trace S E sN))%nat.
  Proof.
    exact (step_count_is_number_of_accepted_attempts S E time nsteps sstep est
             interp interp_at capply cinit einit clip_dt eps acc_init fmin fmax
             Hstep_time Hstep_n Hinterp Hinterp_at CI Hcinit Hctrl Hfmin Heps
             Hacc fuel fuel_rej s0 dt0 cps sols sN Hdt0 Hsorted Hrun).
  Qed.
End C06.

(* T06.2 (frame)  A rejected attempt leaves the state it stepped from and the
   error-estimator state untouched (Leibniz equality, any oracles). *)
Theorem C06_rejection_loop_never_touches_step_from :
  forall S E time sstep est capply clip_dt fuel t1 (r r' : RS S E),
    rej_loop S E time sstep est capply clip_dt fuel t1 r = Some r' ->
    rs_step_from S E r' = rs_step_from S E r /\
    rs_err_step_from S E r' = rs_err_step_from S E r.
Proof. exact rej_loop_frame. Qed.

(* T06.8  The controllers as shipped (parameters READ FROM THE SOURCE by the
   translator) satisfy the controller contract, so the theorems above are not
   vacuous for them. *)
Theorem C06_shipped_integral_controller_is_admissible :
  forall dt c pow, 0 < dt ->
    cp_fmin src_integral_params * dt
      <= fst (integral_apply src_integral_params dt c pow)
      <= cp_fmax src_integral_params * dt /\
    (pow < 1 -> fst (integral_apply src_integral_params dt c pow) < dt /\
                snd (integral_apply src_integral_params dt c pow) = c).
Proof. exact shipped_integral_ok. Qed.

Theorem C06_shipped_pi_controller_is_admissible :
  forall (pw : Q -> Q -> Q), (forall x e, x < 1 -> 0 <= pw x e <= 1) ->
  forall dt prev pow, 0 < dt -> 1 <= prev ->
    cp_fmin src_pi_params * dt
      <= fst (pi_apply pw src_pi_params dt prev pow)
      <= cp_fmax src_pi_params * dt /\
    (pow < 1 -> fst (pi_apply pw src_pi_params dt prev pow) < dt /\
                snd (pi_apply pw src_pi_params dt prev pow) = prev) /\
    1 <= snd (pi_apply pw src_pi_params dt prev pow).
Proof. exact shipped_pi_ok. Qed.

Theorem C06_shipped_constants_are_admissible :
  src_acc_init < src_acc_threshold /\ src_acc_threshold == 1 /\
  1 <= src_pi_memory_init /\ 0 <= src_default_eps /\ 0 < src_default_dt0 /\
  0 < cp_fmin src_integral_params /\ 0 < cp_fmin src_pi_params.
Proof. exact C06_constants_ok. Qed.

(* T06.9  TERMINATION.  For any solver and any error estimator that accepts
   every step of size <= hmin (some hmin > 0), the rejection loop driven by the
   controllers AS SHIPPED (parameters read from the source: safety < 1, so a
   rejected step shrinks by at least max(factor_min, safety) < 1) returns after
   finitely many attempts: there is a fuel bound n beyond which the model's loop
   never answers None.  (Proofs/ControlTermination.v: geometric decrease +
   Bernoulli/Archimedes over Q.)  Fuel is thus no restriction of the model. *)
Theorem C06_rejection_loop_terminates_integral_controller :
  forall (S E : Type) (time : S -> Q) (sstep : S -> Q -> S) (est : E -> S -> S -> Q -> Q * E)
         (clip_dt : bool) (hmin : Q),
    0 < hmin ->
    (forall e s dt, 0 < dt -> dt <= hmin -> 1 <= fst (est e s (sstep s dt) dt)) ->
    forall t1 (r : RS S E),
      0 < rs_dt S E r -> (clip_dt = true -> time (rs_step_from S E r) < t1) ->
      exists n : nat, forall fuel, (n <= fuel)%nat ->
        exists r', rej_loop S E time sstep est (integral_apply src_integral_params) clip_dt fuel t1 r = Some r'.
Proof. exact shipped_integral_loop_terminates. Qed.

Theorem C06_rejection_loop_terminates_pi_controller :
  forall (S E : Type) (time : S -> Q) (sstep : S -> Q -> S) (est : E -> S -> S -> Q -> Q * E)
         (pw : Q -> Q -> Q) (clip_dt : bool) (hmin : Q),
    (forall x e, x < 1 -> 0 <= pw x e <= 1) ->
    0 < hmin ->
    (forall e s dt, 0 < dt -> dt <= hmin -> 1 <= fst (est e s (sstep s dt) dt)) ->
    forall t1 (r : RS S E),
      0 < rs_dt S E r -> 1 <= rs_control S E r -> (clip_dt = true -> time (rs_step_from S E r) < t1) ->
      exists n : nat, forall fuel, (n <= fuel)%nat ->
        exists r', rej_loop S E time sstep est (pi_apply pw src_pi_params) clip_dt fuel t1 r = Some r'.
Proof. exact shipped_pi_loop_terminates. Qed.

Print Assumptions C06_time_advances_only_by_accepted_attempts.
Print Assumptions C06_every_event_is_safe.
Print Assumptions C06_every_checkpoint_reported_once_in_order.
Print Assumptions C06_step_count_is_number_of_accepted_attempts.
Print Assumptions C06_rejection_loop_never_touches_step_from.
Print Assumptions C06_shipped_integral_controller_is_admissible.
Print Assumptions C06_shipped_pi_controller_is_admissible.
Print Assumptions C06_shipped_constants_are_admissible.
Print Assumptions C06_rejection_loop_terminates_integral_controller.
Print Assumptions C06_rejection_loop_terminates_pi_controller.
