(* C04 -- output-scale calibration is the documented estimator and is
   scale-equivariant.  Scales are carried as SQUARES in the model. *)
From Coq Require Import List Arith.
From PD Require Import Base.Field Base.Matrix Base.Solve Model.Gauss Model.Poly Model.Prior Model.Solver
  Spec.RTS Proofs.CalibProofs Proofs.CalibFrame.
Import ListNotations.

Section C04.
  Context {F : Type} `{FL : FieldLaws F}.

  (* MLE mode: after N >= 1 steps the running value squared is the arithmetic
     mean of the N squared whitened residual norms (any N, any terms) and the
     data counter is N *)
  Theorem C04_running_rms_is_rms :
    forall terms : list F, terms <> [] ->
      snd (run_fold terms (O, f0)) = fdiv (fold_right fadd f0 terms) (fnat (length terms))
      /\ fst (run_fold terms (O, f0)) = length terms.
  Proof. exact running_rms_is_rms. Qed.

  (* the documented 1/sqrt(N) correction, on squares *)
  Theorem C04_mle_final_scale_formula :
    forall (cf : @config F) (last : @sstate F) nlast,
      cf_calib cf = CalMLE true ->
      final_scale2 cf last nlast = map (fun x => fdiv x (fnat nlast)) (st_run2 last).
  Proof. exact mle_final_scale_formula. Qed.

  (* equivariance of one Kalman prediction under covariance scaling *)
  Theorem C04_prediction_scale_equivariant :
    forall n k c (A b Q : @mat F) (rv : @normal F),
      kf_predict n k A b (mscale n n c Q) (mkN (n_mean rv) (mscale n n c (n_cov rv)))
      = mkN (n_mean (kf_predict n k A b Q rv)) (mscale n n c (n_cov (kf_predict n k A b Q rv))).
  Proof. exact kf_predict_scale. Qed.

  (* ... and of one Kalman update: means (and gains) unchanged, covariance x c *)
  Theorem C04_update_scale_equivariant :
    forall n k cc c (Hm r R : @mat F) (rv u u' : @normal F),
      c <> f0 ->
      kf_update minv n k cc Hm r R rv = Some u ->
      kf_update minv n k cc Hm r (mscale k k c R) (mkN (n_mean rv) (mscale n n c (n_cov rv))) = Some u' ->
      u' = mkN (n_mean u) (mscale n n c (n_cov u)).
  Proof. exact kf_update_scale. Qed.

  (* the whitened residual norm squared divides by c: the estimated scale
     divides by |c|^(1/2 * 2), calibrated covariances are invariant *)
  Theorem C04_whitened_rms_scale :
    forall n cc c (rv : @normal F) (u : @mat F) x x',
      c <> f0 ->
      whitened_rms2 minv n cc rv u = Some x ->
      whitened_rms2 minv n cc (mkN (n_mean rv) (mscale n n c (n_cov rv))) u = Some x' ->
      x' = fdiv x c.
  Proof. exact whitened_rms2_scale. Qed.

  (* MLE calibration does not touch the posterior DURING the run: on every fixed
     grid the states of the MLE-calibrating solver carry the same time, marginal,
     posterior (incl. backward model), step counter and cached linearisation as
     those of the uncalibrated solver (any factorisation, strategy, linearisation,
     any inverse oracle); the calibrated scale enters only through the final
     rescaling (C04_mle_final_scale_formula) *)
  Theorem C04_mle_run_is_the_unit_scale_run :
    forall (inv : nat -> @mat F -> option (@mat F)) (cf : @config F) (corr : bool) (dts : list F)
           (stM stN : @sstate F),
      st_t stM = st_t stN -> st_post stM = st_post stN -> st_nsteps stM = st_nsteps stN ->
      forall lM, fixed_grid_states inv (cfg_with cf (CalMLE corr)) stM dts = Some lM ->
      exists lN, fixed_grid_states inv (cfg_with cf CalNone) stN dts = Some lN /\
                 Forall2 same_posterior lM lN.
  Proof. intros inv cf corr dts. exact (mle_grid_same_posteriors inv cf corr dts). Qed.
End C04.

Print Assumptions C04_running_rms_is_rms.
Print Assumptions C04_mle_final_scale_formula.
Print Assumptions C04_prediction_scale_equivariant.
Print Assumptions C04_update_scale_equivariant.
Print Assumptions C04_whitened_rms_scale.
Print Assumptions C04_mle_run_is_the_unit_scale_run.
