(* C04 placeholder during construction *)
From PD Require Import Base.Field Base.Matrix.
Theorem C04_mtr_mtr :
  forall (F : Type) (H : FieldOps F) (FL : FieldLaws F) n m (A : @mat F),
    mtr m n (mtr n m A) = canon n m A.
Proof. intros. apply mtr_mtr. Qed.
Print Assumptions C04_mtr_mtr.
