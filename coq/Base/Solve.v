(* Certified inverse: Gauss-Jordan elimination proposes a candidate, the model
   CHECKS A X = I and X A = I exactly and returns None otherwise.  Theorems use
   only the checked equations; elimination itself is not trusted. *)
From Coq Require Import List Arith Lia Bool.
From PD Require Import Base.Field Base.Matrix.
Import ListNotations.

Section Solve.
  Context {F : Type} `{FieldOps F}.
  Local Open Scope F_scope.

  Fixpoint extract_pivot (c : nat) (rows : list (list F))
    : option (list F * list (list F)) :=
    match rows with
    | [] => None
    | r :: rs =>
      if feqb (nth c r 0) 0 then
        match extract_pivot c rs with
        | None => None
        | Some (p, rs') => Some (p, r :: rs')
        end
      else Some (r, rs)
    end.

  Fixpoint row_axpy (a : F) (x y : list F) : list F :=   (* y - a*x *)
    match x, y with
    | xi :: xs, yi :: ys => (yi - a * xi) :: row_axpy a xs ys
    | _, _ => []
    end.

  Definition gj_step (c : nat) (M : list (list F)) : option (list (list F)) :=
    let top := firstn c M in
    let rest := skipn c M in
    match extract_pivot c rest with
    | None => None
    | Some (p, rest') =>
      let piv := finv (nth c p 0) in
      let p' := map (fun x => piv * x) p in
      let elim := fun r => row_axpy (nth c r 0) p' r in
      Some (map elim top ++ p' :: map elim rest')
    end.

  Fixpoint gj (cols : list nat) (M : list (list F)) : option (list (list F)) :=
    match cols with
    | [] => Some M
    | c :: cs => match gj_step c M with None => None | Some M' => gj cs M' end
    end.

  Definition minv_candidate (n : nat) (A : mat) : option mat :=
    let aug := map (fun i => mkv n (mget A i) ++ mkv n (delta i)) (seq 0 n) in
    match gj (seq 0 n) aug with
    | None => None
    | Some M => Some (map (skipn n) M)
    end.

  (* certified two-sided inverse *)
  Definition minv (n : nat) (A : mat) : option mat :=
    match minv_candidate n A with
    | None => None
    | Some X =>
      if meqb n n (mmul n n n A X) (mid n) && meqb n n (mmul n n n X A) (mid n)
      then Some (canon n n X) else None
    end.
End Solve.

Section SolveLemmas.
  Context {F : Type} `{FL : FieldLaws F}.
  Local Open Scope F_scope.

  Lemma minv_spec n A X :
    minv n A = Some X ->
    X = canon n n X /\ mmul n n n A X = mid n /\ mmul n n n X A = mid n.
  Proof.
    unfold minv. destruct (minv_candidate n A) as [Y|]; [|discriminate].
    destruct (meqb n n (mmul n n n A Y) (mid n)) eqn:H1; [|discriminate].
    destruct (meqb n n (mmul n n n Y A) (mid n)) eqn:H2; [|discriminate].
    simpl. intro HX. inversion HX; subst. clear HX.
    split; [|split].
    - unfold canon at 2. symmetry. apply mk_ext. intros i j Hi Hj.
      unfold canon. rewrite mget_mk by assumption. reflexivity.
    - apply meqb_canon in H1. rewrite mmul_canon_r.
      unfold mmul at 1 in H1. rewrite canon_mk in H1.
      unfold mid at 1 in H1. rewrite canon_mk in H1. exact H1.
    - apply meqb_canon in H2. rewrite mmul_canon_l.
      unfold mmul at 1 in H2. rewrite canon_mk in H2.
      unfold mid at 1 in H2. rewrite canon_mk in H2. exact H2.
  Qed.
End SolveLemmas.
