(* Matrices over an abstract field: lists as storage, functions as meaning.
   Every operation is [mk n m (fun i j => ...)] of an entry formula over [mget],
   so algebraic laws are Leibniz equalities between canonical values and need
   no well-formedness side conditions on their inputs. *)
From Coq Require Import List Arith Lia Bool.
From PD Require Import Base.Field.
Import ListNotations.

Section Mat.
  Context {F : Type} `{FieldOps F}.
  Local Open Scope F_scope.

  Definition vec := list F.
  Definition mat := list (list F).

  Definition vget (v : vec) (i : nat) : F := nth i v 0.
  Definition mget (A : mat) (i j : nat) : F := nth j (nth i A []) 0.

  Definition mkv (n : nat) (f : nat -> F) : vec := map f (seq 0 n).
  Definition mk (n m : nat) (f : nat -> nat -> F) : mat :=
    map (fun i => mkv m (f i)) (seq 0 n).

  Fixpoint vsum (n : nat) (f : nat -> F) : F :=
    match n with O => 0 | S k => vsum k f + f k end.

  Definition canon (n m : nat) (A : mat) : mat := mk n m (mget A).
  Definition mmul (n k m : nat) (A B : mat) : mat :=
    mk n m (fun i j => vsum k (fun l => mget A i l * mget B l j)).
  (* A is n x m; the result is m x n *)
  Definition mtr (n m : nat) (A : mat) : mat := mk m n (fun i j => mget A j i).
  Definition madd (n m : nat) (A B : mat) : mat :=
    mk n m (fun i j => mget A i j + mget B i j).
  Definition msub (n m : nat) (A B : mat) : mat :=
    mk n m (fun i j => mget A i j - mget B i j).
  Definition mscale (n m : nat) (c : F) (A : mat) : mat :=
    mk n m (fun i j => c * mget A i j).
  Definition mopp (n m : nat) (A : mat) : mat :=
    mk n m (fun i j => - mget A i j).
  Definition delta (i j : nat) : F := if Nat.eqb i j then 1 else 0.
  Definition mid (n : nat) : mat := mk n n delta.
  Definition mzero (n m : nat) : mat := mk n m (fun _ _ => 0).
  Definition mdiag (n : nat) (v : vec) : mat :=
    mk n n (fun i j => if Nat.eqb i j then vget v i else 0).
  Definition scale_rows (n m : nat) (v : vec) (A : mat) : mat :=
    mk n m (fun i j => vget v i * mget A i j).
  Definition scale_cols (n m : nat) (A : mat) (v : vec) : mat :=
    mk n m (fun i j => mget A i j * vget v j).

  (* vectors *)
  Definition vmap2 (n : nat) (g : F -> F -> F) (u v : vec) : vec :=
    mkv n (fun i => g (vget u i) (vget v i)).
  Definition vinv (n : nat) (v : vec) : vec := mkv n (fun i => finv (vget v i)).
  Definition vones (n : nat) : vec := mkv n (fun _ => 1).
  Definition vsq (n : nat) (v : vec) : vec := mkv n (fun i => vget v i * vget v i).

  (* boolean equality on the n x m window *)
  Definition meqb (n m : nat) (A B : mat) : bool :=
    forallb (fun i => forallb (fun j => feqb (mget A i j) (mget B i j)) (seq 0 m))
            (seq 0 n).

  (* blocks: [[A, B],[C, D]] with A n1 x m1, B n1 x m2, C n2 x m1, D n2 x m2 *)
  Definition mblock (n1 n2 m1 m2 : nat) (A B C D : mat) : mat :=
    mk (n1 + n2) (m1 + m2) (fun i j =>
      if Nat.ltb i n1 then (if Nat.ltb j m1 then mget A i j else mget B i (j - m1))
      else (if Nat.ltb j m1 then mget C (i - n1) j else mget D (i - n1) (j - m1))).
  Definition msub_block (r0 c0 n m : nat) (A : mat) : mat :=
    mk n m (fun i j => mget A (r0 + i) (c0 + j)).

  (* Kronecker products with the identity: (A (x) I_d) for A n x m,
     coefficient-major ordering index = i*d + a *)
  Definition kronI (n m d : nat) (A : mat) : mat :=
    mk (n * d) (m * d) (fun i j =>
      if Nat.eqb (i mod d) (j mod d) then mget A (i / d) (j / d) else 0).
  (* (A (x) L) for A n x m, L d x d *)
  Definition kron (n m d : nat) (A L : mat) : mat :=
    mk (n * d) (m * d) (fun i j => mget A (i / d) (j / d) * mget L (i mod d) (j mod d)).
End Mat.

(* ================================================================= lemmas *)
Section MatLemmas.
  Context {F : Type} `{FL : FieldLaws F}.
  Local Open Scope F_scope.
  Add Field FF : fth.

  Lemma mkv_length n (f : nat -> F) : length (mkv n f) = n.
  Proof. unfold mkv. rewrite map_length, seq_length. reflexivity. Qed.
  Lemma mk_length n m (f : nat -> nat -> F) : length (mk n m f) = n.
  Proof. unfold mk. rewrite map_length, seq_length. reflexivity. Qed.

  Lemma vget_mkv n (f : nat -> F) i : i < n -> vget (mkv n f) i = f i.
  Proof.
    intro Hi. unfold vget, mkv.
    rewrite nth_indep with (d' := f 0%nat) by (rewrite map_length, seq_length; exact Hi).
    rewrite map_nth. rewrite seq_nth by exact Hi. reflexivity.
  Qed.

  Lemma vget_mkv_out n (f : nat -> F) i : n <= i -> vget (mkv n f) i = 0.
  Proof.
    intro Hi. unfold vget. apply nth_overflow. rewrite mkv_length. exact Hi.
  Qed.

  Lemma mget_mk n m (f : nat -> nat -> F) i j : i < n -> j < m -> mget (mk n m f) i j = f i j.
  Proof.
    intros Hi Hj. unfold mget, mk.
    rewrite nth_indep with (d' := mkv m (f 0%nat))
      by (rewrite map_length, seq_length; exact Hi).
    rewrite map_nth with (f := fun i => mkv m (f i)).
    rewrite seq_nth by exact Hi. simpl.
    change (vget (mkv m (f i)) j = f i j). apply vget_mkv. exact Hj.
  Qed.

  Lemma mkv_ext n (f g : nat -> F) : (forall i, i < n -> f i = g i) -> mkv n f = mkv n g.
  Proof.
    intro Hfg. unfold mkv. apply map_ext_in. intros i Hi.
    apply in_seq in Hi. apply Hfg. lia.
  Qed.

  Lemma mk_ext n m (f g : nat -> nat -> F) :
    (forall i j, i < n -> j < m -> f i j = g i j) -> mk n m f = mk n m g.
  Proof.
    intro Hfg. unfold mk. apply map_ext_in. intros i Hi. apply in_seq in Hi.
    apply mkv_ext. intros j Hj. apply Hfg; lia.
  Qed.

  Lemma canon_mk n m (f : nat -> nat -> F) : canon n m (mk n m f) = mk n m f.
  Proof. unfold canon. apply mk_ext. intros. apply mget_mk; assumption. Qed.

  (* ----------------------------------------------------------------- sums *)
  Lemma vsum_ext n (f g : nat -> F) : (forall i, i < n -> f i = g i) -> vsum n f = vsum n g.
  Proof.
    induction n as [|n IH]; intro Hfg; simpl; [reflexivity|].
    rewrite IH by (intros; apply Hfg; lia). rewrite Hfg by lia. reflexivity.
  Qed.
  Lemma vsum_zero n : vsum n (fun _ => 0) = (0 : F).
  Proof. induction n as [|n IH]; simpl; [reflexivity|]. rewrite IH. ring. Qed.
  Lemma vsum_add n (f g : nat -> F) : vsum n (fun i => f i + g i) = vsum n f + vsum n g.
  Proof. induction n as [|n IH]; simpl; [ring|]. rewrite IH. ring. Qed.
  Lemma vsum_sub n (f g : nat -> F) : vsum n (fun i => f i - g i) = vsum n f - vsum n g.
  Proof. induction n as [|n IH]; simpl; [ring|]. rewrite IH. ring. Qed.
  Lemma vsum_opp n (f : nat -> F) : vsum n (fun i => - f i) = - vsum n f.
  Proof. induction n as [|n IH]; simpl; [ring|]. rewrite IH. ring. Qed.
  Lemma vsum_scale_l n c (f : nat -> F) : vsum n (fun i => c * f i) = c * vsum n f.
  Proof. induction n as [|n IH]; simpl; [ring|]. rewrite IH. ring. Qed.
  Lemma vsum_scale_r n c (f : nat -> F) : vsum n (fun i => f i * c) = vsum n f * c.
  Proof. induction n as [|n IH]; simpl; [ring|]. rewrite IH. ring. Qed.
  Lemma vsum_swap n m (f : nat -> nat -> F) :
    vsum n (fun i => vsum m (fun j => f i j)) = vsum m (fun j => vsum n (fun i => f i j)).
  Proof.
    induction n as [|n IH]; simpl.
    - symmetry. apply vsum_zero.
    - rewrite IH. rewrite <- vsum_add. reflexivity.
  Qed.
  Lemma vsum_delta_l n i (f : nat -> F) : i < n -> vsum n (fun k => delta i k * f k) = f i.
  Proof.
    induction n as [|n IH]; intro Hi; [lia|]. simpl.
    destruct (Nat.eq_dec i n) as [->|Hne].
    - unfold delta at 2. rewrite Nat.eqb_refl.
      rewrite (vsum_ext n _ (fun _ => 0)).
      + rewrite vsum_zero. ring.
      + intros k Hk. unfold delta. destruct (Nat.eqb_spec n k); [lia|ring].
    - rewrite IH by lia. unfold delta. destruct (Nat.eqb_spec i n); [lia|ring].
  Qed.
  Lemma vsum_delta_r n j (f : nat -> F) : j < n -> vsum n (fun k => f k * delta k j) = f j.
  Proof.
    intro Hj. rewrite <- (vsum_delta_l n j f Hj). apply vsum_ext. intros k _.
    unfold delta. rewrite (Nat.eqb_sym k j). ring.
  Qed.

  (* ------------------------------------------------------ matrix algebra *)
  Lemma mmul_assoc n k l m A B C :
    mmul n l m (mmul n k l A B) C = mmul n k m A (mmul k l m B C).
  Proof.
    unfold mmul. apply mk_ext. intros i j Hi Hj.
    rewrite (vsum_ext l _ (fun p => vsum k (fun q => mget A i q * mget B q p * mget C p j))).
    2:{ intros p Hp. rewrite mget_mk by assumption. rewrite <- vsum_scale_r. reflexivity. }
    rewrite vsum_swap. apply vsum_ext. intros q Hq.
    rewrite mget_mk by assumption. rewrite <- vsum_scale_l.
    apply vsum_ext. intros p _. ring.
  Qed.

  Lemma mmul_id_l n m A : mmul n n m (mid n) A = canon n m A.
  Proof.
    unfold mmul, mid, canon. apply mk_ext. intros i j Hi Hj.
    rewrite (vsum_ext n _ (fun l => delta i l * mget A l j)).
    - exact (vsum_delta_l n i (fun l => mget A l j) Hi).
    - intros l Hl. rewrite mget_mk by assumption. reflexivity.
  Qed.
  Lemma mmul_id_r n m A : mmul n m m A (mid m) = canon n m A.
  Proof.
    unfold mmul, mid, canon. apply mk_ext. intros i j Hi Hj.
    rewrite (vsum_ext m _ (fun l => mget A i l * delta l j)).
    - exact (vsum_delta_r m j (fun l => mget A i l) Hj).
    - intros l Hl. rewrite mget_mk by assumption. reflexivity.
  Qed.

  Lemma mmul_add_l n k m A B C :
    mmul n k m (madd n k A B) C = madd n m (mmul n k m A C) (mmul n k m B C).
  Proof.
    unfold mmul, madd. apply mk_ext. intros i j Hi Hj.
    rewrite !mget_mk by assumption. rewrite <- vsum_add. apply vsum_ext.
    intros l Hl. rewrite mget_mk by assumption. ring.
  Qed.
  Lemma mmul_add_r n k m A B C :
    mmul n k m A (madd k m B C) = madd n m (mmul n k m A B) (mmul n k m A C).
  Proof.
    unfold mmul, madd. apply mk_ext. intros i j Hi Hj.
    rewrite !mget_mk by assumption. rewrite <- vsum_add. apply vsum_ext.
    intros l Hl. rewrite mget_mk by assumption. ring.
  Qed.

  Lemma mtr_mmul n k m A B :
    mtr n m (mmul n k m A B) = mmul m k n (mtr k m B) (mtr n k A).
  Proof.
    unfold mtr, mmul. apply mk_ext. intros i j Hi Hj.
    rewrite mget_mk by assumption. apply vsum_ext. intros l Hl.
    rewrite !mget_mk by assumption. ring.
  Qed.
  Lemma mtr_mtr n m A : mtr m n (mtr n m A) = canon n m A.
  Proof.
    unfold mtr, canon. apply mk_ext. intros i j Hi Hj.
    rewrite mget_mk by assumption. reflexivity.
  Qed.

  Lemma mmul_canon_l n k m A B : mmul n k m (canon n k A) B = mmul n k m A B.
  Proof.
    unfold mmul, canon. apply mk_ext. intros i j Hi Hj. apply vsum_ext.
    intros l Hl. rewrite mget_mk by assumption. reflexivity.
  Qed.
  Lemma mmul_canon_r n k m A B : mmul n k m A (canon k m B) = mmul n k m A B.
  Proof.
    unfold mmul, canon. apply mk_ext. intros i j Hi Hj. apply vsum_ext.
    intros l Hl. rewrite mget_mk by assumption. reflexivity.
  Qed.

  (* diagonal scalings are products with diagonal matrices *)
  Lemma scale_rows_mdiag n m v A : scale_rows n m v A = mmul n n m (mdiag n v) A.
  Proof.
    unfold scale_rows, mmul, mdiag. apply mk_ext. intros i j Hi Hj.
    rewrite (vsum_ext n _ (fun l => delta i l * (vget v i * mget A l j))).
    - symmetry. exact (vsum_delta_l n i (fun l => vget v i * mget A l j) Hi).
    - intros l Hl. rewrite mget_mk by assumption. unfold delta.
      destruct (Nat.eqb i l); ring.
  Qed.
  Lemma scale_cols_mdiag n m A v : scale_cols n m A v = mmul n m m A (mdiag m v).
  Proof.
    unfold scale_cols, mmul, mdiag. apply mk_ext. intros i j Hi Hj.
    rewrite (vsum_ext m _ (fun l => (mget A i l * vget v j) * delta l j)).
    - symmetry. exact (vsum_delta_r m j (fun l => mget A i l * vget v j) Hj).
    - intros l Hl. rewrite mget_mk by assumption. unfold delta.
      destruct (Nat.eqb_spec l j); [subst; ring|ring].
  Qed.

  Lemma meqb_true n m A B :
    meqb n m A B = true ->
    forall i j, i < n -> j < m -> mget A i j = mget B i j.
  Proof.
    unfold meqb. intros Hb i j Hi Hj.
    rewrite forallb_forall in Hb.
    assert (Hin : In i (seq 0 n)) by (apply in_seq; lia).
    specialize (Hb i Hin). rewrite forallb_forall in Hb.
    assert (Hjn : In j (seq 0 m)) by (apply in_seq; lia).
    apply feqb_eq. apply Hb. exact Hjn.
  Qed.
  Lemma meqb_canon n m A B : meqb n m A B = true -> canon n m A = canon n m B.
  Proof. intro Hb. apply mk_ext. apply meqb_true. exact Hb. Qed.
End MatLemmas.
