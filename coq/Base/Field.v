(* Scalars: the numeric model is written once against FieldOps; theorems are
   proved under FieldLaws (Leibniz equality, so ring/field work).  The reference
   executable instance is Qc (canonical rationals). *)
From Coq Require Import ZArith QArith Qcanon Field Ring Bool List Lia.
Import ListNotations.

Class FieldOps (F : Type) := {
  f0 : F; f1 : F;
  fadd : F -> F -> F; fmul : F -> F -> F; fsub : F -> F -> F;
  fopp : F -> F; fdiv : F -> F -> F; finv : F -> F;
  feqb : F -> F -> bool
}.

Declare Scope F_scope.
Delimit Scope F_scope with F.
Infix "+" := fadd : F_scope.
Infix "*" := fmul : F_scope.
Infix "-" := fsub : F_scope.
Infix "/" := fdiv : F_scope.
Notation "- x" := (fopp x) : F_scope.
Notation "0" := f0 : F_scope.
Notation "1" := f1 : F_scope.

Section Derived.
  Context {F : Type} `{FieldOps F}.
  Local Open Scope F_scope.

  Fixpoint fpos (p : positive) : F :=
    match p with
    | xH => 1
    | xO p => (1 + 1) * fpos p
    | xI p => 1 + (1 + 1) * fpos p
    end.
  Definition fZ (z : Z) : F :=
    match z with Z0 => 0 | Zpos p => fpos p | Zneg p => - fpos p end.
  Definition fnat (n : nat) : F := fZ (Z.of_nat n).

  Fixpoint fpow (x : F) (n : nat) : F :=
    match n with O => 1 | S n => x * fpow x n end.

  Fixpoint ffact (n : nat) : F :=
    match n with O => 1 | S m => fnat n * ffact m end.

  Definition fsq (x : F) : F := x * x.
End Derived.

Class FieldLaws (F : Type) `{FieldOps F} := {
  fth : field_theory f0 f1 fadd fmul fsub fopp fdiv finv (@eq F);
  feqb_eq : forall x y, feqb x y = true <-> x = y;
  char0 : forall p, fpos p <> f0
}.

(* ------------------------------------------------------------- Qc instance *)
#[global] Instance QcOps : FieldOps Qc := {|
  f0 := Q2Qc 0; f1 := Q2Qc 1;
  fadd := Qcplus; fmul := Qcmult; fsub := Qcminus; fopp := Qcopp;
  fdiv := Qcdiv; finv := Qcinv;
  feqb := fun x y => Qeq_bool (this x) (this y)
|}.

Lemma Qc_feqb_eq (x y : Qc) : Qeq_bool (this x) (this y) = true <-> x = y.
Proof.
  split; intro Hxy.
  - apply Qc_is_canon. apply Qeq_bool_iff. exact Hxy.
  - subst. apply Qeq_bool_iff. reflexivity.
Qed.

Lemma Qc_fpos_Q (p : positive) : (this (@fpos Qc _ p) == inject_Z (Zpos p))%Q.
Proof.
  induction p as [p IH|p IH|].
  - change (this (Q2Qc 1 + (Q2Qc 1 + Q2Qc 1) * fpos p)%Qc == inject_Z (Zpos p~1))%Q.
    cbn [this Qcplus Qcmult Q2Qc]. rewrite !Qred_correct. rewrite IH.
    unfold Qeq, inject_Z; simpl. lia.
  - change (this ((Q2Qc 1 + Q2Qc 1) * fpos p)%Qc == inject_Z (Zpos p~0))%Q.
    cbn [this Qcplus Qcmult Q2Qc]. rewrite !Qred_correct. rewrite IH.
    unfold Qeq, inject_Z; simpl. lia.
  - reflexivity.
Qed.

#[global] Instance QcLaws : FieldLaws Qc.
Proof.
  constructor.
  - exact Qcft.
  - exact Qc_feqb_eq.
  - intros p Hc.
    pose proof (Qc_fpos_Q p) as Hp. rewrite Hc in Hp. simpl in Hp.
    unfold Qeq, inject_Z in Hp; simpl in Hp. discriminate.
Qed.
