(* Truncated formal power series over an abstract field: the model of what
   jax.experimental.jet computes on polynomial programs.

   A series is the list of its NORMALISED Taylor coefficients a_n = u^(n)/n!
   (index = order).  Storage is a list, meaning is the coefficient function
   [sget a : nat -> F] (zero beyond the stored length); every operation is
   [mkv N (fun n => formula over coefficient functions)], so the n-th
   coefficient of a result is a closed formula in the coefficients of the
   arguments and truncation needs no side conditions.

   The semantic domain for proofs is [fs := nat -> F] (infinite formal power
   series) with pointwise equality [fs_eq]; the list operations are shown to
   compute the coefficients of the corresponding [fs] operations
   (sget_scompose).  [fs] is a commutative ring with the Cauchy product, the
   formal derivative [fs_D] satisfies the Leibniz rule, and the composition of a
   multivariate polynomial (Model/Poly.v) with a tuple of series is a ring
   homomorphism obeying the chain rule. *)
From Coq Require Import List Arith Lia Bool Setoid Morphisms.
From PD Require Import Base.Field Base.Matrix Model.Poly.
Import ListNotations.

Section Series.
  Context {F : Type} `{FieldOps F}.
  Local Open Scope F_scope.

  Definition series := list F.
  Definition fs := nat -> F.

  Definition sget (a : series) (n : nat) : F := nth n a 0.

  (* ------------------------------------------------ infinite series (meaning) *)
  Definition fs_const (c : F) : fs := fun n => match n with O => c | S _ => 0 end.
  Definition fs_add (a b : fs) : fs := fun n => a n + b n.
  Definition fs_sub (a b : fs) : fs := fun n => a n - b n.
  Definition fs_opp (a : fs) : fs := fun n => - a n.
  Definition fs_scale (c : F) (a : fs) : fs := fun n => c * a n.
  (* Cauchy product *)
  Definition fs_mul (a b : fs) : fs := fun n => vsum (S n) (fun i => a i * b (n - i)%nat).
  Fixpoint fs_pow (a : fs) (e : nat) : fs :=
    match e with O => fs_const 1 | S e' => fs_mul a (fs_pow a e') end.
  (* t0 + tau *)
  Definition fs_time (t0 : F) : fs :=
    fun n => match n with O => t0 | S O => 1 | _ => 0 end.
  (* formal derivative on normalised coefficients: (D a)_n = (n+1) a_{n+1} *)
  Definition fs_D (a : fs) : fs := fun n => fnat (S n) * a (S n).
  Fixpoint fs_Dn (j : nat) (a : fs) : fs :=
    match j with O => a | S j' => fs_D (fs_Dn j' a) end.

  (* composition of a polynomial with a tuple of series: [eval_poly] read in
     the ring of formal power series *)
  Fixpoint fs_exps (env : list fs) (es : list nat) : fs :=
    match env, es with
    | x :: env', e :: es' => fs_mul (fs_pow x e) (fs_exps env' es')
    | _, _ => fs_const 1
    end.
  Definition fs_mono (env : list fs) (m : @mono F) : fs := fs_scale (fst m) (fs_exps env (snd m)).
  Definition fs_compose (env : list fs) (p : @poly F) : fs :=
    fold_right (fun m acc => fs_add (fs_mono env m) acc) (fs_const 0) p.

  (* ------------------------------------------------ truncated series (storage) *)
  Definition strunc (N : nat) (a : fs) : series := mkv N a.
  Definition sconst (N : nat) (c : F) : series := mkv N (fs_const c).
  Definition sadd (N : nat) (a b : series) : series := mkv N (fs_add (sget a) (sget b)).
  Definition ssub (N : nat) (a b : series) : series := mkv N (fs_sub (sget a) (sget b)).
  Definition sopp (N : nat) (a : series) : series := mkv N (fs_opp (sget a)).
  Definition sscale (N : nat) (c : F) (a : series) : series := mkv N (fs_scale c (sget a)).
  Definition smul (N : nat) (a b : series) : series := mkv N (fs_mul (sget a) (sget b)).
  Fixpoint spow (N : nat) (a : series) (e : nat) : series :=
    match e with O => sconst N 1 | S e' => smul N a (spow N a e') end.
  Definition stime (N : nat) (t0 : F) : series := mkv N (fs_time t0).
  Definition sD (N : nat) (a : series) : series := mkv N (fs_D (sget a)).

  Fixpoint sexps (N : nat) (env : list series) (es : list nat) : series :=
    match env, es with
    | x :: env', e :: es' => smul N (spow N x e) (sexps N env' es')
    | _, _ => sconst N 1
    end.
  Definition smono (N : nat) (env : list series) (m : @mono F) : series :=
    sscale N (fst m) (sexps N env (snd m)).
  Definition scompose (N : nat) (env : list series) (p : @poly F) : series :=
    fold_right (fun m acc => sadd N (smono N env m) acc) (sconst N 0) p.

  (* ---------------------------- derivatives <-> normalised coefficients *)
  (* derivatives (u, u', u'', ...) -> (u, u'/1!, u''/2!, ...) and back *)
  Definition to_norm (ds : list F) : series :=
    mkv (length ds) (fun n => sget ds n / ffact n).
  Definition to_deriv (a : series) : list F :=
    mkv (length a) (fun n => ffact n * sget a n).
End Series.
